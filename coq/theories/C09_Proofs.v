(* C09_Proofs.v — proofs for C09_Model.v *)
From Adb Require Import Base BaseProofs Generated Wire_Model Wire_Proofs C09_Model.
From Coq Require Import Permutation Sorted ZifyBool ZifyNat ZifyN.

(* ------------------------------------------------------------------ to_wire_perm_invariant *)
Lemma to_wlist_perm m m' : Permutation m m' -> NoDup (map fst m) -> to_wlist m = to_wlist m'.
Proof.
  intros P ND. unfold to_wlist. apply sort_nmap_perm.
  - apply Permutation_map. exact P.
  - rewrite map_map. cbn. exact ND.
Qed.

Section LegacyPerm.
  Variable as_css : str -> option (str * str).

  Lemma hostdb_perm_wf a b : hostdb_perm a b -> hostdb_wf a -> hostdb_wf b.
  Proof.
    intros [P1 P2 P3 P4 P5 P6] [H1 H2 H3 H4 H5 H6].
    constructor; (eapply Permutation_NoDup; [apply Permutation_map; eassumption | assumption]).
  Qed.

  Lemma legacy_bin_perm a b k : hostdb_perm a b -> hostdb_wf a -> legacy_bin as_css a k = legacy_bin as_css b k.
  Proof.
    intros [P1 P2 P3 P4 P5 P6] [H1 H2 H3 H4 H5 H6]. unfold legacy_bin.
    rewrite (getn_perm k _ _ P1 H1), (getn_perm k _ _ P2 H2), (getn_perm k _ _ P3 H3),
            (getn_perm k _ _ P4 H4), (getn_perm k _ _ P5 H5), (getn_perm k _ _ P6 H6).
    reflexivity.
  Qed.

  Lemma legacy_db_perm a b : hostdb_perm a b -> hostdb_wf a ->
    sort_nmap (legacy_db as_css a) = sort_nmap (legacy_db as_css b).
  Proof.
    intros P W. apply sort_nmap_perm; [|apply legacy_db_nodup].
    apply getn_ext_perm; try apply legacy_db_nodup; try apply legacy_db_nonempty.
    intros k. rewrite !getn_legacy_db; [apply legacy_bin_perm; assumption| |assumption].
    eapply hostdb_perm_wf; eassumption.
  Qed.

  (* states that differ only in the iteration order of their hash containers have one wire value *)
  Theorem to_wire_perm_invariant b1 b2 c1 c2 :
    blocker_wf b1 -> cosmetic_wf c1 -> blocker_perm b1 b2 -> cosmetic_perm c1 c2 ->
    to_wire as_css b1 c1 = to_wire as_css b2 c2.
  Proof.
    intros [B1 B2 B3 B4 B5 B6 B7] [C1 C2 C3 C4 C5 C6] [P1 P2 P3 P4 P5 P6 P7 P8 P9] [Q1 Q2 Q3 Q4 Q5 Q6].
    unfold to_wire.
    rewrite (to_wlist_perm _ _ P1 B1), (to_wlist_perm _ _ P2 B2), (to_wlist_perm _ _ P3 B3),
            (to_wlist_perm _ _ P4 B4), (to_wlist_perm _ _ P5 B5), (to_wlist_perm _ _ P6 B6),
            (to_wlist_perm _ _ P7 B7), P8, P9.
    rewrite (sort_set_perm _ _ Q1 C1), (sort_set_perm _ _ Q2 C2), (sort_set_perm _ _ Q6 C6).
    rewrite (sort_smap_perm _ _ Q3 C3), (sort_smap_perm _ _ Q4 C4).
    rewrite (legacy_db_perm _ _ Q5 C5).
    destruct Q5 as [_ _ _ _ R5 R6]. destruct C5 as [_ _ _ _ D5 D6].
    rewrite (sort_nmap_perm _ _ R5 D5), (sort_nmap_perm _ _ R6 D6).
    reflexivity.
  Qed.

  (* hence one byte string: the encoder is a function of the wire value *)
  Corollary serialize_perm_invariant e1 e2 :
    blocker_wf (e_blocker e1) -> cosmetic_wf (e_cosmetic e1) ->
    blocker_perm (e_blocker e1) (e_blocker e2) -> cosmetic_perm (e_cosmetic e1) (e_cosmetic e2) ->
    serialize as_css e1 = serialize as_css e2.
  Proof. intros. unfold serialize. f_equal. apply to_wire_perm_invariant; assumption. Qed.
End LegacyPerm.

(* ------------------------------------------------------------------ bucket order *)
Lemma id_lt_trans x y z : id_lt x y -> id_lt y z -> id_lt x z.
Proof. unfold id_lt. lia. Qed.

Lemma bucket_insert_hd a v b : id_lt a v -> HdRel id_lt a b -> HdRel id_lt a (bucket_insert v b).
Proof.
  intros AV H. destruct b as [|f r]; cbn; [constructor; exact AV|].
  destruct (N.eqb (r_id f) (r_id v)); [exact H|].
  destruct (N.ltb (r_id v) (r_id f)); constructor; [exact AV|]. inversion H; assumption.
Qed.

Theorem bucket_insert_sorted v b : Sorted id_lt b -> Sorted id_lt (bucket_insert v b).
Proof.
  induction 1 as [|f r S IH H]; cbn; [repeat constructor|].
  destruct (N.eqb (r_id f) (r_id v)) eqn:E; [constructor; assumption|].
  destruct (N.ltb (r_id v) (r_id f)) eqn:L.
  - constructor; [constructor; assumption|]. constructor. exact L.
  - constructor; [exact IH|]. apply bucket_insert_hd; [|exact H]. unfold id_lt. lia.
Qed.

Theorem insert_dup_sorted k v m : buckets_sorted m -> buckets_sorted (insert_dup k v m).
Proof.
  unfold buckets_sorted. induction 1 as [|[k' b] m H F IH]; cbn.
  - repeat constructor.
  - destruct (N.eqb k k'); constructor; try assumption. cbn in *. apply bucket_insert_sorted. exact H.
Qed.

Theorem fl_insert_all_sorted placements : buckets_sorted (fl_insert_all placements).
Proof.
  unfold fl_insert_all.
  assert (G : forall m, buckets_sorted m ->
            buckets_sorted (fold_left (fun m kv => insert_dup (fst kv) (snd kv) m) placements m)).
  { induction placements as [|[k v] ps IH]; intros m H; cbn; [exact H|].
    apply IH. apply insert_dup_sorted. exact H. }
  apply G. constructor.
Qed.

(* a strictly sorted bucket is determined by the set of rules in it: whatever the insertion
   order, the same rules (distinct ids) give the same bucket *)
Lemma sorted_lt_le l : Sorted id_lt l -> Sorted (kle r_id N.leb) l.
Proof.
  induction 1 as [|x l S IH H]; constructor; [exact IH|].
  destruct H; constructor. unfold kle, id_lt in *. lia.
Qed.

Theorem sorted_bucket_canonical b b' :
  Sorted id_lt b -> Sorted id_lt b' -> Permutation b b' -> NoDup (map r_id b) -> b = b'.
Proof.
  intros S S' P ND. eapply (sorted_perm_eq r_id N.leb);
    [apply nleb_total|apply nleb_trans|apply nleb_antisym| | | |];
    try apply sorted_lt_le; assumption.
Qed.

Lemma sorted_lt_nodup l : Sorted id_lt l -> NoDup (map r_id l).
Proof.
  intros S. apply Sorted_StronglySorted in S; [|intros x y z; apply id_lt_trans].
  induction S as [|x l S IH H]; cbn; constructor; [|exact IH].
  intros I. apply in_map_iff in I as (y & E & I). rewrite Forall_forall in H.
  specialize (H y I). unfold id_lt in H. lia.
Qed.

(* ------------------------------------------------------------------ optimizer *)
Lemma concat_perm {A} (l l' : list (list A)) : Permutation l l' -> Permutation (List.concat l) (List.concat l').
Proof.
  induction 1; cbn.
  - reflexivity.
  - apply Permutation_app_head. assumption.
  - rewrite !app_assoc. apply Permutation_app_tail. apply Permutation_app_comm.
  - etransitivity; eassumption.
Qed.

Lemma filter_perm {A} (f : A -> bool) l l' : Permutation l l' -> Permutation (filter f l) (filter f l').
Proof.
  induction 1; cbn.
  - reflexivity.
  - destruct (f x); [constructor|]; assumption.
  - destruct (f x), (f y); try reflexivity. apply perm_swap.
  - etransitivity; eassumption.
Qed.

Section OptimizeProofs.
  Variable fuse : list rule -> rule.

  Lemma optimize_pool_perm neg g g' : Permutation g g' ->
    Permutation (fused_of fuse g ++ neg ++ singles_of g) (fused_of fuse g' ++ neg ++ singles_of g').
  Proof.
    intros P. apply Permutation_app.
    - unfold fused_of. apply Permutation_map. apply filter_perm. exact P.
    - apply Permutation_app_head. unfold singles_of. apply concat_perm. apply filter_perm. exact P.
  Qed.

  (* the iteration order of the `to_fuse` hash map does not reach the result *)
  Theorem optimize_order_irrelevant neg g g' :
    Permutation g g' -> NoDup (map r_id (fused_of fuse g ++ neg ++ singles_of g)) ->
    optimize_from fuse neg g = optimize_from fuse neg g'.
  Proof.
    intros P ND. unfold optimize_from, by_id.
    apply isort_perm_invariant; [apply nleb_total|apply nleb_trans|apply nleb_antisym| |exact ND].
    apply optimize_pool_perm. exact P.
  Qed.

  Theorem optimize_sorted neg g : Sorted id_le (optimize_from fuse neg g).
  Proof. unfold optimize_from, by_id. apply (isort_sorted r_id N.leb). apply nleb_total. Qed.

  Variable shared : rule -> bool.
  Variable split : list rule -> list rule * list (list rule).

  (* one bucket: any two iteration orders of the group map give the same bucket *)
  Theorem optimize_bucket_order_irrelevant (o1 o2 : list (list rule) -> list (list rule)) b :
    (forall g, Permutation (o1 g) g) -> (forall g, Permutation (o2 g) g) ->
    (let own := filter (fun r => negb (shared r)) b in
     NoDup (map r_id (fused_of fuse (o1 (snd (split own))) ++ fst (split own) ++ singles_of (o1 (snd (split own)))))) ->
    optimize_bucket fuse shared split o1 b = optimize_bucket fuse shared split o2 b.
  Proof.
    intros H1 H2 ND. unfold optimize_bucket. cbn zeta in ND.
    destruct (Nat.ltb 1 (length (filter (fun r => negb (shared r)) b))); [|reflexivity].
    f_equal. f_equal. apply optimize_order_irrelevant; [|exact ND].
    rewrite H1. symmetry. apply H2.
  Qed.

  (* the whole list: the drain order of filter_map only permutes the result map *)
  Theorem fl_optimize_perm o m m' : Permutation m m' ->
    Permutation (fl_optimize fuse shared split o m) (fl_optimize fuse shared split o m').
  Proof. intros P. unfold fl_optimize. apply Permutation_map. exact P. Qed.

  Theorem fl_optimize_keys o m : map fst (fl_optimize fuse shared split o m) = map fst m.
  Proof. unfold fl_optimize. rewrite map_map. reflexivity. Qed.
End OptimizeProofs.

(* where the NoDup hypothesis comes from: the rules entering the optimizer have distinct ids and
   fusion keeps the id of the group's first member (`let mut filter = base_filter.clone()`) *)
Lemma NoDup_remove_middle {A} (a b c : list A) : NoDup (a ++ b ++ c) -> NoDup (a ++ c).
Proof.
  induction b as [|x b IH]; cbn; [auto|]. intros H. apply IH. eapply NoDup_remove_1. exact H.
Qed.

Section PoolNoDup.
  Variable fuse : list rule -> rule.
  Hypothesis fuse_id : forall x rest, r_id (fuse (x :: rest)) = r_id x.

  Definition contrib (grp : list rule) : list N :=
    if big grp then match grp with x :: _ => [r_id x] | [] => [] end else map r_id grp.

  Lemma pool_ids_perm g :
    Permutation (map r_id (fused_of fuse g) ++ map r_id (singles_of g)) (List.concat (map contrib g)).
  Proof.
    unfold fused_of, singles_of. induction g as [|grp g IH]; cbn [filter map List.concat]; [reflexivity|].
    unfold contrib at 1. destruct (big grp) eqn:B; cbn [negb].
    - destruct grp as [|x rest]; [discriminate|]. cbn [map app]. rewrite fuse_id. constructor. exact IH.
    - cbn [List.concat]. rewrite map_app.
      etransitivity; [apply Permutation_app_swap_app|]. apply Permutation_app_head. exact IH.
  Qed.

  Lemma contrib_nodup g : forall acc, NoDup (acc ++ map r_id (List.concat g)) -> NoDup (acc ++ List.concat (map contrib g)).
  Proof.
    induction g as [|grp g IH]; intros acc H; cbn [map List.concat] in *; [exact H|].
    rewrite map_app in H. unfold contrib at 1. destruct (big grp) eqn:B.
    - destruct grp as [|x rest]; [discriminate|]. cbn [map app] in *.
      replace (acc ++ r_id x :: List.concat (map contrib g)) with ((acc ++ [r_id x]) ++ List.concat (map contrib g))
        by (rewrite <- app_assoc; reflexivity).
      apply IH. rewrite <- app_assoc. cbn [app].
      replace (acc ++ r_id x :: map r_id (List.concat g)) with ((acc ++ [r_id x]) ++ map r_id (List.concat g))
        by (rewrite <- app_assoc; reflexivity).
      apply (NoDup_remove_middle (acc ++ [r_id x]) (map r_id rest)).
      rewrite <- app_assoc. cbn [app]. exact H.
    - rewrite app_assoc. apply IH. rewrite <- app_assoc. exact H.
  Qed.

  Theorem optimize_pool_nodup neg g :
    NoDup (map r_id (neg ++ List.concat g)) ->
    NoDup (map r_id (fused_of fuse g ++ neg ++ singles_of g)).
  Proof.
    intros H. rewrite map_app in H. rewrite !map_app.
    eapply Permutation_NoDup; [|apply (contrib_nodup g (map r_id neg)); exact H].
    etransitivity; [apply Permutation_app_head; symmetry; apply pool_ids_perm|].
    rewrite app_assoc. etransitivity; [apply Permutation_app_tail; apply Permutation_app_comm|].
    rewrite <- app_assoc. reflexivity.
  Qed.

  (* the optimizer theorem with its natural hypothesis *)
  Corollary optimize_order_irrelevant' neg g g' :
    Permutation g g' -> NoDup (map r_id (neg ++ List.concat g)) ->
    optimize_from fuse neg g = optimize_from fuse neg g'.
  Proof. intros P H. apply optimize_order_irrelevant; [exact P|]. apply optimize_pool_nodup. exact H. Qed.
End PoolNoDup.

(* the NoDup hypothesis of optimize_order_irrelevant is satisfiable on a non-trivial input *)
Definition mk_rule (id : N) (pat : string) : rule :=
  Build_rule 1 (FSimple (bs pat)) None None None None None None id None None.
Example optimize_order_example :
  let fuse := fun g => match g with r :: _ => r | [] => mk_rule 0 "" end in
  let g := [[mk_rule 5 "a"; mk_rule 9 "b"]; [mk_rule 7 "c"]; [mk_rule 2 "d"; mk_rule 3 "e"]] in
  let g' := [[mk_rule 2 "d"; mk_rule 3 "e"]; [mk_rule 5 "a"; mk_rule 9 "b"]; [mk_rule 7 "c"]] in
  optimize_from fuse [mk_rule 8 "n"] g = optimize_from fuse [mk_rule 8 "n"] g' /\
  map r_id (optimize_from fuse [mk_rule 8 "n"] g) = [2; 5; 7; 8].
Proof. vm_compute. split; reflexivity. Qed.

(* ------------------------------------------------------------------ wire_fixpoint *)
Lemma wlist_roundtrip l : wlist_wf l -> to_wlist (from_wlist l) = l.
Proof.
  intros [S F]. unfold to_wlist, from_wlist. rewrite map_map. cbn [fst snd].
  assert (E : map (fun x : N * list wrule => (fst x, map to_wrule (map from_wrule (snd x)))) l = l).
  { clear S. induction F as [|[k v] l H F IH]; cbn; [reflexivity|].
    cbn in H. rewrite map_roundtrip_wrules by assumption. rewrite IH. reflexivity. }
  rewrite E. apply sort_nmap_id. exact S.
Qed.

Section Recon.
  Variable as_css : str -> option (str * str).

  Lemma style_not_hide a b : sel_style as_css a = Some b -> sel_hide b = None /\ sel_unhide b = None /\ sel_inject b = None /\ sel_uninject b = None.
  Proof. unfold sel_style. destruct (as_css a) as [[s st]|]; [|discriminate]. intros H; inversion H; subst. repeat split. Qed.
  Lemma unstyle_not_hide a b : sel_unstyle as_css a = Some b -> sel_hide b = None /\ sel_unhide b = None /\ sel_inject b = None /\ sel_uninject b = None.
  Proof. unfold sel_unstyle. destruct (as_css a) as [[s st]|]; [|discriminate]. intros H; inversion H; subst. repeat split. Qed.

  (* the four selectors on a bin in canonical category order *)
  Lemma recon_parts (H U Nn : list str) (I : list (str * N)) (P P' : list str) :
    let X := map LHide H ++ map LUnhide U ++ map (fun sm => LInject (fst sm)) I ++ map LUninject Nn ++
             fmap (sel_style as_css) P ++ fmap (sel_unstyle as_css) P' in
    fmap sel_hide X = H /\ fmap sel_unhide X = U /\
    fmap sel_inject X = map (fun sm => (fst sm, 0)) I /\ fmap sel_uninject X = Nn.
  Proof.
    cbn zeta. rewrite !fmap_app.
    repeat split.
    - rewrite (fmap_map_some sel_hide LHide (fun s => s)) by reflexivity. rewrite map_id.
      rewrite (fmap_map_none sel_hide LUnhide), (fmap_map_none sel_hide (fun sm => LInject (fst sm))),
              (fmap_map_none sel_hide LUninject) by reflexivity.
      rewrite (fmap_fmap_none sel_hide) by (intros a b E; apply (style_not_hide a b E)).
      rewrite (fmap_fmap_none sel_hide) by (intros a b E; apply (unstyle_not_hide a b E)).
      rewrite !app_nil_r. reflexivity.
    - rewrite (fmap_map_some sel_unhide LUnhide (fun s => s)) by reflexivity. rewrite map_id.
      rewrite (fmap_map_none sel_unhide LHide), (fmap_map_none sel_unhide (fun sm => LInject (fst sm))),
              (fmap_map_none sel_unhide LUninject) by reflexivity.
      rewrite (fmap_fmap_none sel_unhide) by (intros a b E; apply (style_not_hide a b E)).
      rewrite (fmap_fmap_none sel_unhide) by (intros a b E; apply (unstyle_not_hide a b E)).
      rewrite !app_nil_r. reflexivity.
    - rewrite (fmap_map_some sel_inject (fun sm => LInject (fst sm)) (fun sm => (fst sm, 0))) by reflexivity.
      rewrite (fmap_map_none sel_inject LHide), (fmap_map_none sel_inject LUnhide),
              (fmap_map_none sel_inject LUninject) by reflexivity.
      rewrite (fmap_fmap_none sel_inject) by (intros a b E; apply (style_not_hide a b E)).
      rewrite (fmap_fmap_none sel_inject) by (intros a b E; apply (unstyle_not_hide a b E)).
      rewrite !app_nil_r. reflexivity.
    - rewrite (fmap_map_some sel_uninject LUninject (fun s => s)) by reflexivity. rewrite map_id.
      rewrite (fmap_map_none sel_uninject LHide), (fmap_map_none sel_uninject LUnhide),
              (fmap_map_none sel_uninject (fun sm => LInject (fst sm))) by reflexivity.
      rewrite (fmap_fmap_none sel_uninject) by (intros a b E; apply (style_not_hide a b E)).
      rewrite (fmap_fmap_none sel_uninject) by (intros a b E; apply (unstyle_not_hide a b E)).
      rewrite !app_nil_r. reflexivity.
  Qed.

  Lemma from_wire_hostdb_wf w : NoDup (map fst (wi_proc w)) -> NoDup (map fst (wi_proc_exc w)) ->
    hostdb_wf (from_wire_hostdb w).
  Proof.
    intros H5 H6. constructor; cbn; try assumption; apply push_all_nodup; constructor.
  Qed.

  (* the bin to_wire rebuilds from a reloaded host db *)
  Lemma legacy_bin_from_wire w k : NoDup (map fst (wi_specific w)) ->
    legacy_bin as_css (from_wire_hostdb w) k = recon as_css w k (getn k (wi_specific w)).
  Proof.
    intros ND. unfold legacy_bin, recon, from_wire_hostdb. cbn [h_hide h_unhide h_inject h_uninject h_proc h_proc_exc].
    rewrite !getn_push_all by assumption. cbn [getn app]. reflexivity.
  Qed.

  Lemma specific_roundtrip w : wire_wf as_css w ->
    sort_nmap (legacy_db as_css (from_wire_hostdb w)) = wi_specific w.
  Proof.
    intros W. destruct W.
    transitivity (sort_nmap (wi_specific w)); [|apply sort_nmap_id; assumption].
    apply sort_nmap_perm; [|apply legacy_db_nodup].
    apply getn_ext_perm; try assumption; [apply legacy_db_nodup|apply legacy_db_nonempty|].
    intros k. rewrite getn_legacy_db by (apply from_wire_hostdb_wf; assumption).
    rewrite legacy_bin_from_wire by assumption. symmetry. apply ww_spec_bins.
  Qed.

  Variable build_list : list rule -> bool -> bucket_map.

  (* re-serializing what was loaded from a well-formed wire value reproduces it *)
  Theorem wire_fixpoint tags w :
    wire_wf as_css w -> tagged_consistent build_list tags w ->
    to_wire as_css (use_tags build_list tags (from_wire_blocker w)) (from_wire_cosmetic w) = w.
  Proof.
    intros W T. pose proof (specific_roundtrip w W) as SP. destruct W.
    unfold tagged_consistent in T. unfold to_wire.
    cbn [use_tags from_wire_blocker from_wire_cosmetic
         b_csp b_exceptions b_importants b_redirects b_removeparam b_filters_tagged b_filters
         b_generic_hide b_tags_enabled b_tagged_all b_opt
         c_simple_class c_simple_id c_complex_class c_complex_id c_specific c_misc].
    rewrite SP. cbn [from_wire_hostdb h_proc h_proc_exc].
    rewrite !wlist_roundtrip by assumption.
    rewrite map_roundtrip_wrules by assumption.
    rewrite <- T.
    rewrite !sort_set_id by assumption. rewrite !sort_smap_id by assumption.
    rewrite !sort_nmap_id by assumption.
    rewrite <- ww_resources, <- ww_scriptlets.
    destruct w. reflexivity.
  Qed.
End Recon.

(* ------------------------------------------------------------------ the image of to_wire is well-formed *)
Lemma to_wlist_wf m : wlist_wf (to_wlist m).
Proof.
  constructor; [apply sort_nmap_sorted|]. unfold to_wlist.
  eapply Permutation_Forall; [symmetry; apply sort_nmap_permutation|].
  induction m as [|[k v] m IH]; cbn; constructor; [|exact IH]. cbn.
  induction v as [|r v IHv]; cbn; constructor; [apply to_wrule_wf|exact IHv].
Qed.

Lemma nonempty_perm {V} (m m' : list (N * list V)) : Permutation m m' -> nonempty_vals m -> nonempty_vals m'.
Proof. intros P H k v I. eapply H. eapply Permutation_in; [symmetry; exact P|exact I]. Qed.

Section Image.
  Variable as_css : str -> option (str * str).

  Theorem to_wire_wf b c : cosmetic_wf c -> wire_wf as_css (to_wire as_css b c).
  Proof.
    intros [C1 C2 C3 C4 C5 C6]. pose proof C5 as HW. destruct C5 as [D1 D2 D3 D4 D5 D6].
    constructor; cbn; try apply to_wlist_wf; try reflexivity;
      try apply sort_set_sorted; try apply sort_smap_sorted; try apply sort_nmap_sorted.
    - clear. induction (b_tagged_all b) as [|r l IH]; cbn; constructor; [apply to_wrule_wf|exact IH].
    - apply sort_nmap_keys. exact D5.
    - apply sort_nmap_keys. exact D6.
    - apply sort_nmap_keys. apply legacy_db_nodup.
    - eapply nonempty_perm; [symmetry; apply sort_nmap_permutation|apply legacy_db_nonempty].
    - intros k. rewrite getn_sort by apply legacy_db_nodup. rewrite getn_legacy_db by exact HW.
      unfold recon. cbn [wi_proc wi_proc_exc to_wire].
      rewrite !getn_sort by assumption.
      unfold legacy_bin.
      destruct (recon_parts as_css (getn k (h_hide (c_specific c))) (getn k (h_unhide (c_specific c)))
                  (getn k (h_uninject (c_specific c))) (getn k (h_inject (c_specific c)))
                  (getn k (h_proc (c_specific c))) (getn k (h_proc_exc (c_specific c)))) as (E1 & E2 & E3 & E4).
      cbn zeta in E1, E2, E3, E4. rewrite E1, E2, E3, E4. rewrite map_map. cbn [fst]. reflexivity.
  Qed.

  Variable build_list : list rule -> bool -> bucket_map.

  (* serialize . load . serialize = serialize, when the loader has the serializer's tags enabled
     and the serializer's filters_tagged was built from them (always so for a fresh engine) *)
  Theorem reserialize_fixpoint tags b c :
    cosmetic_wf c ->
    b_filters_tagged b = build_list (filter (tag_enabled tags) (b_tagged_all b)) (b_opt b) ->
    Forall mo_ok (b_tagged_all b) ->
    let w := to_wire as_css b c in
    to_wire as_css (use_tags build_list tags (from_wire_blocker w)) (from_wire_cosmetic w) = w.
  Proof.
    intros CW FT MO w. apply wire_fixpoint; [apply to_wire_wf; exact CW|].
    unfold tagged_consistent, w. cbn [wi_filters_tagged wi_tagged_all wi_opt to_wire].
    rewrite map_roundtrip_rules by exact MO. rewrite <- FT. reflexivity.
  Qed.
End Image.

(* ------------------------------------------------------------------ examples: the hypotheses are satisfiable *)
Ltac nodup_tac :=
  repeat (constructor; [cbn; intuition (try discriminate; try lia)|]); try constructor.

Definition ex_json : str := bs "{style .z}".
Definition ex_css : str -> option (str * str) := css_table [(ex_json, Some (bs ".z", bs "color: red"))].
Definition ex_rule (id : N) (mask : N) (pat : string) (mo : option str) : rule :=
  Build_rule mask (FSimple (bs pat)) None None mo (Some (bs "ads.net")) None (Some (bs pat)) id None None.
Definition ex_blocker1 : blocker :=
  Build_blocker [(7, [ex_rule 1 M_IS_CSP "c" (Some (bs "img-src *"))])] [] []
    [(7, [ex_rule 2 M_IS_REDIRECT "r" (Some (bs "noop.js"))])] [(1, [ex_rule 9 M_IS_REMOVEPARAM "p" (Some (bs "utm"))])] []
    [(5, [ex_rule 3 1 "a" None; ex_rule 4 1 "b" None]); (3, [ex_rule 5 1 "d" None]); (0, [])] [] [bs "t1"] [ex_rule 6 1 "t" None] true.
Definition ex_blocker2 : blocker :=
  Build_blocker [(7, [ex_rule 1 M_IS_CSP "c" (Some (bs "img-src *"))])] [] []
    [(7, [ex_rule 2 M_IS_REDIRECT "r" (Some (bs "noop.js"))])] [] []
    [(0, []); (5, [ex_rule 3 1 "a" None; ex_rule 4 1 "b" None]); (3, [ex_rule 5 1 "d" None])] [] [] [ex_rule 6 1 "t" None] true.
Definition ex_hostdb1 : hostdb :=
  Build_hostdb [(9, [bs ".x"; bs ".y"]); (4, [bs ".q"])] [(4, [bs ".u"])] [(9, [(bs "foo, 1", 0)])] [] [(4, [ex_json; bs "{other}"])] [].
Definition ex_hostdb2 : hostdb :=
  Build_hostdb [(4, [bs ".q"]); (9, [bs ".x"; bs ".y"])] [(4, [bs ".u"])] [(9, [(bs "foo, 1", 0)])] [] [(4, [ex_json; bs "{other}"])] [].
Definition ex_cosmetic1 : cosmetic :=
  Build_cosmetic [bs "b"; bs "a"; bs "ab"] [bs "id"] [(bs "k2", [bs ".k2 > a"]); (bs "k1", [bs ".k1 b"])] [] ex_hostdb1 [bs "a[href]"].
Definition ex_cosmetic2 : cosmetic :=
  Build_cosmetic [bs "ab"; bs "b"; bs "a"] [bs "id"] [(bs "k1", [bs ".k1 b"]); (bs "k2", [bs ".k2 > a"])] [] ex_hostdb2 [bs "a[href]"].

Example ex_blocker_wf : blocker_wf ex_blocker1.
Proof. constructor; cbn; nodup_tac. Qed.
Example ex_cosmetic_wf : cosmetic_wf ex_cosmetic1.
Proof. constructor; [| | | |constructor|]; cbn; nodup_tac. Qed.
Example ex_blocker_perm : blocker_perm ex_blocker1 ex_blocker2.
Proof.
  constructor; try reflexivity.
  exact (Permutation_sym (Permutation_cons_append
           [(5, [ex_rule 3 1 "a" None; ex_rule 4 1 "b" None]); (3, [ex_rule 5 1 "d" None])] (0, @nil rule))).
Qed.
Example ex_cosmetic_perm : cosmetic_perm ex_cosmetic1 ex_cosmetic2.
Proof.
  constructor; try reflexivity.
  - exact (Permutation_sym (Permutation_cons_append [bs "b"; bs "a"] (bs "ab"))).
  - exact (perm_swap _ _ _).
  - constructor; try reflexivity. exact (perm_swap _ _ _).
Qed.
(* ... and the conclusion is non-trivial: the wire value has six non-empty containers *)
Example ex_wire_equal :
  to_wire ex_css ex_blocker1 ex_cosmetic1 = to_wire ex_css ex_blocker2 ex_cosmetic2 /\
  map fst (wi_filters (to_wire ex_css ex_blocker1 ex_cosmetic1)) = [0; 3; 5] /\
  wi_simple_class (to_wire ex_css ex_blocker1 ex_cosmetic1) = [bs "a"; bs "ab"; bs "b"] /\
  getn 4 (wi_specific (to_wire ex_css ex_blocker1 ex_cosmetic1)) =
    [LHide (bs ".q"); LUnhide (bs ".u"); LStyle (bs ".z") (bs "color: red")].
Proof. vm_compute. repeat split; reflexivity. Qed.

(* reserialize_fixpoint on the example: no tags enabled, filters_tagged empty *)
Example ex_fixpoint :
  let w := to_wire ex_css ex_blocker1 ex_cosmetic1 in
  to_wire ex_css (use_tags (fun _ _ => []) [] (from_wire_blocker w)) (from_wire_cosmetic w) = w.
Proof. vm_compute. reflexivity. Qed.

(* a wire value outside the image on which re-serialization is not the identity: a bin whose
   entries are not grouped by category (the decoder accepts it; C10) *)
Example ex_not_fixpoint :
  let w := Build_wire [] [] [] [] [] [] [] [] true [] [] [] [] [] [(4, [LUnhide (bs ".u"); LHide (bs ".q")])] [] [] [] [] in
  wi_specific (to_wire ex_css (use_tags (fun _ _ => []) [] (from_wire_blocker w)) (from_wire_cosmetic w))
    = [(4, [LHide (bs ".q"); LUnhide (bs ".u")])].
Proof. vm_compute. reflexivity. Qed.

(* ------------------------------------------------------------------ translator ties *)
Lemma wire_field_order w : map fst (wire_fields w) = WIRE_FIELDS.
Proof. reflexivity. Qed.
Lemma wire_rule_field_order w : map fst (wrule_fields w) = WIRE_RULE_FIELDS.
Proof. reflexivity. Qed.
Lemma legacy_variant_order : legacy_variant_names = LEGACY_VARIANTS /\
  FILTER_PART_VARIANTS = ["Empty"; "Simple"; "AnyOf"]%string.
Proof. split; reflexivity. Qed.
Lemma header_written : forall w, firstn 5 (serialize_wire w) = DAT_MAGIC ++ [V0_VERSION_BYTE].
Proof. reflexivity. Qed.

(* hypotheses of wire_fixpoint are satisfiable: the example's wire value is well-formed and
   consistent with the empty tag set *)
Example ex_wire_wf : wire_wf ex_css (to_wire ex_css ex_blocker1 ex_cosmetic1).
Proof. apply to_wire_wf. exact ex_cosmetic_wf. Qed.
Example ex_tagged_consistent :
  tagged_consistent (fun _ _ => []) [] (to_wire ex_css ex_blocker1 ex_cosmetic1).
Proof. reflexivity. Qed.
