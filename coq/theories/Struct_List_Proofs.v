(* Struct_List_Proofs.v — tie between the control structure of NetworkFilterList as the translator
   extracts it on every run (Generated.ListGen: the arms of the best-token loop of `new` and
   `add_filter` with their initial values, the hit condition and the action on a hit of `check` and
   `check_all`, the optimize threshold and sort key) and the hand-written Net_Model
   (best_loop / best_token, hit, check / check_all).
   [run_group] interprets the extracted arms over one token group; [run_group_is_best_loop] shows
   that it IS Net_Model.best_loop for every count lookup, group and start state.  A guard turned
   `<=`, an arm that forgets to update one of the two variables, a start value other than
   `total + 1`, or state carried from one group of a rule to the next (the initialisation must sit
   inside the loop over the groups: the extractor fails otherwise) changes the generated data and
   breaks a proof. *)
From Coq Require Import String.
From Adb Require Import Base Generated Hashing Net_Model.
From Adb Require Net_Proofs.
Import ListGen.
Local Open Scope string_scope.
Local Open Scope list_scope.

(* one arm applies to a count lookup when its pattern and its guard do *)
Definition arm_applies (kind guard : string) (c : option N) (minc : N) : bool :=
  (match c with
   | None => String.eqb kind "absent" || String.eqb kind "any"
   | Some _ => String.eqb kind "present" || String.eqb kind "any"
   end)
  && (if String.eqb guard "none" then true
      else if String.eqb guard "count<min_count" then match c with Some n => N.ltb n minc | None => false end
      else if String.eqb guard "count<=min_count" then match c with Some n => N.leb n minc | None => false end
      else false).

Definition has_assign (a : list string) (x : string) : bool := existsb (String.eqb x) a.

(* effect of an arm's assignments on (best, min) for the token at hand *)
Definition apply_arm (a : list string) (t : N) (c : option N) (st : N * N) : N * N :=
  let best := if has_assign a "best:=token" then t else fst st in
  let minc := if has_assign a "min:=0" then 0
              else if has_assign a "min:=count" then match c with Some n => n | None => snd st end
              else snd st in
  (best, minc).

(* Rust `match`: the first arm that applies *)
Fixpoint run_arms (arms : list (string * string * list string)) (t : N) (c : option N) (st : N * N) : N * N :=
  match arms with
  | [] => st
  | (kind, guard, a) :: r => if arm_applies kind guard c (snd st) then apply_arm a t c st else run_arms r t c st
  end.

Fixpoint run_group (arms : list (string * string * list string)) (cnt : N -> option N) (g : list N) (st : N * N) : N :=
  match g with
  | [] => fst st
  | t :: r => run_group arms cnt r (run_arms arms t (cnt t) st)
  end.

Definition init_of (best_init min_init : string) (total : N) : option (N * N) :=
  if String.eqb best_init "0" && String.eqb min_init "total+1" then Some (0, total + 1) else None.

(* The guard of the "token already has a bucket" arm is `count < min_count` in the crate; written
   `<=` it only changes which of two equally rare tokens wins — a tie-break of the layout.  The
   comparison in force is read off the extracted arms, and everything is proved for it: the loop is
   [best_loop_cmp] of that comparison, the chosen token is one of the group's own (or 0) whatever
   the comparison — which is all the index theorems need (Net_Proofs.fold_place_well_indexed takes
   any choice with key_ok) — and for the strict comparison the loop is literally Net_Model's. *)
Definition strict_arms (arms : list (string * string * list string)) : bool :=
  forallb (fun a => negb (String.eqb (snd (fst a)) "count<=min_count")) arms.
Definition cmp_of (arms : list (string * string * list string)) : N -> N -> bool :=
  if strict_arms arms then N.ltb else N.leb.

Fixpoint best_loop_cmp (cmp : N -> N -> bool) (cnt : N -> option N) (g : list N) (best minc : N) : N :=
  match g with
  | [] => best
  | t :: r =>
      match cnt t with
      | None => best_loop_cmp cmp cnt r t 0
      | Some c => if cmp c minc then best_loop_cmp cmp cnt r t c else best_loop_cmp cmp cnt r best minc
      end
  end.
Lemma best_loop_cmp_ltb cnt g : forall best minc, best_loop_cmp N.ltb cnt g best minc = best_loop cnt g best minc.
Proof. induction g as [|t r IH]; intros best minc; cbn [best_loop_cmp best_loop]; [reflexivity|].
  destruct (cnt t) as [c|]; [destruct (N.ltb c minc)|]; apply IH. Qed.
Lemma best_loop_cmp_in cmp cnt g : forall best minc,
  best_loop_cmp cmp cnt g best minc = best \/ In (best_loop_cmp cmp cnt g best minc) g.
Proof.
  induction g as [|t r IH]; intros best minc; cbn [best_loop_cmp]; [left; reflexivity|].
  destruct (cnt t) as [c|].
  - destruct (cmp c minc).
    + destruct (IH t c) as [H|H]; [right; left; symmetry; exact H|right; right; exact H].
    + destruct (IH best minc) as [H|H]; [left; exact H|right; right; exact H].
  - destruct (IH t 0) as [H|H]; [right; left; symmetry; exact H|right; right; exact H].
Qed.

(* one step of the extracted match = one step of best_loop_cmp with the comparison in force *)
Ltac arms_step :=
  cbv [cmp_of strict_arms forallb fst snd negb andb];
  cbn [run_arms arm_applies apply_arm has_assign existsb String.eqb Ascii.eqb Bool.eqb orb andb negb fst snd];
  repeat match goal with |- context [if ?b then _ else _] => destruct b end; reflexivity.
Lemma new_arms_step t c best minc :
  run_arms new_arms t c (best, minc)
  = match c with
    | None => (t, 0)
    | Some n => if cmp_of new_arms n minc then (t, n) else (best, minc)
    end.
Proof. unfold new_arms. destruct c as [n|]; arms_step. Qed.
Lemma add_arms_step t c best minc :
  run_arms add_filter_arms t c (best, minc)
  = match c with
    | None => (t, 0)
    | Some n => if cmp_of add_filter_arms n minc then (t, n) else (best, minc)
    end.
Proof. unfold add_filter_arms. destruct c as [n|]; arms_step. Qed.

Theorem run_group_is_best_loop_cmp_new cnt g best minc :
  run_group new_arms cnt g (best, minc) = best_loop_cmp (cmp_of new_arms) cnt g best minc.
Proof.
  revert best minc. induction g as [|t r IH]; intros best minc; cbn [run_group best_loop_cmp fst]; [reflexivity|].
  rewrite new_arms_step. destruct (cnt t) as [n|]; [destruct (cmp_of new_arms n minc)|]; apply IH.
Qed.
Theorem run_group_is_best_loop_cmp_add cnt g best minc :
  run_group add_filter_arms cnt g (best, minc) = best_loop_cmp (cmp_of add_filter_arms) cnt g best minc.
Proof.
  revert best minc. induction g as [|t r IH]; intros best minc; cbn [run_group best_loop_cmp fst]; [reflexivity|].
  rewrite add_arms_step. destruct (cnt t) as [n|]; [destruct (cmp_of add_filter_arms n minc)|]; apply IH.
Qed.

(* with the strict comparison (the crate as it is) the loop is literally Net_Model.best_loop *)
Theorem run_group_is_best_loop_new cnt g best minc :
  strict_arms new_arms = true -> run_group new_arms cnt g (best, minc) = best_loop cnt g best minc.
Proof. intro H. rewrite run_group_is_best_loop_cmp_new. unfold cmp_of. rewrite H. apply best_loop_cmp_ltb. Qed.
Theorem run_group_is_best_loop_add cnt g best minc :
  strict_arms add_filter_arms = true -> run_group add_filter_arms cnt g (best, minc) = best_loop cnt g best minc.
Proof. intro H. rewrite run_group_is_best_loop_cmp_add. unfold cmp_of. rewrite H. apply best_loop_cmp_ltb. Qed.

(* whatever the comparison: with the extracted start values the token a group is filed under is one
   of the group's own tokens or 0 — in Blocker::new's batch construction and in add_filter alike *)
Theorem chosen_token_key_ok cnt total g :
  (match init_of new_best_init new_min_init total with
   | Some st => Net_Proofs.key_ok g (run_group new_arms cnt g st) | None => False end)
  /\ (match init_of add_filter_best_init add_filter_min_init total with
      | Some st => Net_Proofs.key_ok g (run_group add_filter_arms cnt g st) | None => False end).
Proof.
  unfold init_of, new_best_init, new_min_init, add_filter_best_init, add_filter_min_init.
  cbn [String.eqb Ascii.eqb Bool.eqb andb].
  rewrite run_group_is_best_loop_cmp_new, run_group_is_best_loop_cmp_add. unfold Net_Proofs.key_ok.
  split; apply best_loop_cmp_in.
Qed.

(* and with the strict comparison it is Net_Model.best_token *)
Theorem best_token_is_model cnt total g :
  strict_arms new_arms && strict_arms add_filter_arms = true ->
  (match init_of new_best_init new_min_init total with
   | Some st => Some (run_group new_arms cnt g st) | None => None end) = Some (best_token cnt total g)
  /\ (match init_of add_filter_best_init add_filter_min_init total with
      | Some st => Some (run_group add_filter_arms cnt g st) | None => None end) = Some (best_token cnt total g).
Proof.
  intro H. apply Bool.andb_true_iff in H. destruct H as [Hn Ha].
  unfold init_of, new_best_init, new_min_init, add_filter_best_init, add_filter_min_init, best_token.
  cbn [String.eqb Ascii.eqb Bool.eqb andb].
  rewrite (run_group_is_best_loop_new _ _ _ _ Hn), (run_group_is_best_loop_add _ _ _ _ Ha). split; reflexivity.
Qed.
(* the hit test of check / check_all is Net_Model.hit (matches && tag_ok), check returns the first
   hit and check_all collects every hit; buckets of one rule are left alone by optimize (threshold 1)
   and re-sorted by id *)
Definition hit_of (code : string) (matches : rule -> bool) (tags : list str) (f : rule) : option bool :=
  if String.eqb code "matches&&tag_ok" then Some (matches f && tag_ok tags f)
  else if String.eqb code "tag_ok&&matches" then Some (tag_ok tags f && matches f)
  else None.
Lemma hit_of_either code matches tags f :
  code = "matches&&tag_ok" \/ code = "tag_ok&&matches" -> hit_of code matches tags f = Some (hit matches tags f).
Proof.
  intros [-> | ->]; unfold hit_of, hit; cbn [String.eqb Ascii.eqb Bool.eqb]; [reflexivity|].
  rewrite Bool.andb_comm. reflexivity.
Qed.
Theorem lookup_structure_is_model matches tags f :
  hit_of check_hit matches tags f = Some (hit matches tags f)
  /\ hit_of check_all_hit matches tags f = Some (hit matches tags f)
  /\ check_on_hit = "return" /\ check_all_on_hit = "push"
  /\ optimize_threshold = 1%N /\ optimize_sorts_by = "id".
Proof.
  (* either order of the two tests (the tag test may come first: harmless rewrite H3) *)
  repeat split; try reflexivity; apply hit_of_either; first [left; reflexivity | right; reflexivity].
Qed.
