(* Struct_List_Proofs.v — tie between the control structure of NetworkFilterList as the translator
   extracts it on every run (Generated.ListGen: the arms of the best-token loop of `new` and
   `add_filter` with their initial values, the hit condition and the action on a hit of `check` and
   `check_all`, the optimize threshold and sort key) and the hand-written Net_Model
   (best_loop / best_token, hit, check / check_all).
   [run_group] interprets the extracted arms over one token group; [run_group_is_best_loop] shows
   that it IS Net_Model.best_loop for every count lookup, group and start state.  A guard turned
   `<=`, an arm that forgets to update one of the two variables, a start value other than
   `total + 1`, or state carried from one group of a rule to the next (the initialisation must sit
   inside the loop over the groups: the extractor fails otherwise) changes the generated data and
   breaks a proof. *)
From Coq Require Import String.
From Adb Require Import Base Generated Hashing Net_Model.
Import ListGen.
Local Open Scope string_scope.
Local Open Scope list_scope.

(* one arm applies to a count lookup when its pattern and its guard do *)
Definition arm_applies (kind guard : string) (c : option N) (minc : N) : bool :=
  (match c with
   | None => String.eqb kind "absent" || String.eqb kind "any"
   | Some _ => String.eqb kind "present" || String.eqb kind "any"
   end)
  && (if String.eqb guard "none" then true
      else if String.eqb guard "count<min_count" then match c with Some n => N.ltb n minc | None => false end
      else false).

Definition has_assign (a : list string) (x : string) : bool := existsb (String.eqb x) a.

(* effect of an arm's assignments on (best, min) for the token at hand *)
Definition apply_arm (a : list string) (t : N) (c : option N) (st : N * N) : N * N :=
  let best := if has_assign a "best:=token" then t else fst st in
  let minc := if has_assign a "min:=0" then 0
              else if has_assign a "min:=count" then match c with Some n => n | None => snd st end
              else snd st in
  (best, minc).

(* Rust `match`: the first arm that applies *)
Fixpoint run_arms (arms : list (string * string * list string)) (t : N) (c : option N) (st : N * N) : N * N :=
  match arms with
  | [] => st
  | (kind, guard, a) :: r => if arm_applies kind guard c (snd st) then apply_arm a t c st else run_arms r t c st
  end.

Fixpoint run_group (arms : list (string * string * list string)) (cnt : N -> option N) (g : list N) (st : N * N) : N :=
  match g with
  | [] => fst st
  | t :: r => run_group arms cnt r (run_arms arms t (cnt t) st)
  end.

Definition init_of (best_init min_init : string) (total : N) : option (N * N) :=
  if String.eqb best_init "0" && String.eqb min_init "total+1" then Some (0, total + 1) else None.

(* one step of the extracted match = one step of Net_Model.best_loop *)
Lemma new_arms_step t c best minc :
  run_arms new_arms t c (best, minc)
  = match c with
    | None => (t, 0)
    | Some n => if N.ltb n minc then (t, n) else (best, minc)
    end.
Proof.
  unfold new_arms. destruct c as [n|]; cbn [run_arms arm_applies apply_arm has_assign existsb String.eqb Ascii.eqb Bool.eqb orb andb fst snd].
  - destruct (N.ltb n minc); reflexivity.
  - reflexivity.
Qed.
Lemma add_arms_step t c best minc :
  run_arms add_filter_arms t c (best, minc)
  = match c with
    | None => (t, 0)
    | Some n => if N.ltb n minc then (t, n) else (best, minc)
    end.
Proof.
  unfold add_filter_arms. destruct c as [n|]; cbn [run_arms arm_applies apply_arm has_assign existsb String.eqb Ascii.eqb Bool.eqb orb andb fst snd].
  - destruct (N.ltb n minc); reflexivity.
  - reflexivity.
Qed.

Theorem run_group_is_best_loop_new cnt g best minc :
  run_group new_arms cnt g (best, minc) = best_loop cnt g best minc.
Proof.
  revert best minc. induction g as [|t r IH]; intros best minc; cbn [run_group best_loop fst]; [reflexivity|].
  rewrite new_arms_step. destruct (cnt t) as [n|]; [destruct (N.ltb n minc)|]; apply IH.
Qed.
Theorem run_group_is_best_loop_add cnt g best minc :
  run_group add_filter_arms cnt g (best, minc) = best_loop cnt g best minc.
Proof.
  revert best minc. induction g as [|t r IH]; intros best minc; cbn [run_group best_loop fst]; [reflexivity|].
  rewrite add_arms_step. destruct (cnt t) as [n|]; [destruct (N.ltb n minc)|]; apply IH.
Qed.

(* with the extracted start values: the token a group is filed under is Net_Model.best_token, in
   Blocker::new's batch construction and in add_filter alike *)
Theorem best_token_is_model cnt total g :
  (match init_of new_best_init new_min_init total with
   | Some st => Some (run_group new_arms cnt g st) | None => None end) = Some (best_token cnt total g)
  /\ (match init_of add_filter_best_init add_filter_min_init total with
      | Some st => Some (run_group add_filter_arms cnt g st) | None => None end) = Some (best_token cnt total g).
Proof.
  unfold init_of, new_best_init, new_min_init, add_filter_best_init, add_filter_min_init, best_token.
  cbn [String.eqb Ascii.eqb Bool.eqb andb].
  rewrite run_group_is_best_loop_new, run_group_is_best_loop_add. split; reflexivity.
Qed.

(* the hit test of check / check_all is Net_Model.hit (matches && tag_ok), check returns the first
   hit and check_all collects every hit; buckets of one rule are left alone by optimize (threshold 1)
   and re-sorted by id *)
Definition hit_of (code : string) (matches : rule -> bool) (tags : list str) (f : rule) : option bool :=
  if String.eqb code "matches&&tag_ok" then Some (matches f && tag_ok tags f)
  else if String.eqb code "tag_ok&&matches" then Some (tag_ok tags f && matches f)
  else None.
Theorem lookup_structure_is_model matches tags f :
  hit_of check_hit matches tags f = Some (hit matches tags f)
  /\ hit_of check_all_hit matches tags f = Some (hit matches tags f)
  /\ check_on_hit = "return" /\ check_all_on_hit = "push"
  /\ optimize_threshold = 1%N /\ optimize_sorts_by = "id".
Proof. repeat split; reflexivity. Qed.
