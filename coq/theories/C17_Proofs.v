(* C17_Proofs.v — key_from_selector refines CSS unescaping of the leading simple selector; the
   generic stores partition the generic selectors; the lookup returns exactly the asked-for,
   unexcepted ones. *)
From Adb Require Import Base BaseProofs C17_Model.
From Coq Require Import ZifyBool ZifyNat ZifyN Permutation.

(* ------------------------------------------------------------------ small generic facts *)
Lemma null_true {A} (l : list A) : null l = true <-> l = [].
Proof. destruct l; cbn; split; congruence. Qed.

Lemma omap_Some {A B} (f : A -> B) x y : omap f x = Some y -> exists a, x = Some a /\ y = f a.
Proof. destruct x; cbn; intros H; [inversion H; eauto|discriminate]. Qed.

Lemma take_length_le {A} n (l : list A) : (n <= length l)%nat -> length (take n l) = n.
Proof. intros H. unfold take. rewrite firstn_length. lia. Qed.

(* ------------------------------------------------------------------ characters *)
Definition is_char (c : str) : Prop := forall x, uncons_char (c ++ x) = Some (c, x).

Lemma uncons_char_inv s c t :
  uncons_char s = Some (c, t) ->
  s = c ++ t /\ is_char c /\
  exists b c', c = b :: c' /\
    ((c' = [] /\ N.ltb b 128 = true) \/ (N.leb 128 b = true /\ forallb (fun x => N.leb 128 x) c' = true)).
Proof.
  destruct s as [|b r]; cbn; [discriminate|].
  destruct (utf8_width b) as [|w] eqn:Hw; [discriminate|].
  destruct (Nat.leb w (length r) && forallb is_cont (take w r)) eqn:Hc; [|discriminate].
  intros H; inversion H; subst c t; clear H.
  apply andb_true_iff in Hc as [Hlen Hcont]. apply Nat.leb_le in Hlen.
  split; [cbn; f_equal; symmetry; apply take_drop|].
  split.
  - intros x. cbn. rewrite Hw.
    assert (Ht : take w (take w r ++ x) = take w r).
    { unfold take. rewrite firstn_app, firstn_firstn, Nat.min_id, firstn_length.
      replace (w - Nat.min w (length r))%nat with O by lia. cbn. apply app_nil_r. }
    assert (Hd : drop w (take w r ++ x) = x).
    { unfold drop, take. rewrite skipn_app, firstn_length.
      replace (w - Nat.min w (length r))%nat with O by lia.
      rewrite skipn_all2 by (rewrite firstn_length; lia). reflexivity. }
    rewrite Ht, Hd, Hcont.
    assert (Hl : Nat.leb w (length (take w r ++ x)) = true).
    { apply Nat.leb_le. rewrite app_length, take_length_le by lia. lia. }
    rewrite Hl. reflexivity.
  - exists b, (take w r). split; [reflexivity|].
    unfold utf8_width in Hw.
    destruct (N.ltb b 128) eqn:E1.
    + left. split; [|reflexivity]. inversion Hw; subst w. reflexivity.
    + right. split; [lia|].
      clear - Hcont. induction (take w r) as [|y l IH]; cbn in *; [reflexivity|].
      apply andb_true_iff in Hcont as [H1 H2]. rewrite IH by exact H2.
      unfold is_cont in H1. apply andb_true_iff in H1 as [H1 _]. rewrite H1. reflexivity.
Qed.

Lemma is_char_nonempty c : is_char c -> c <> [].
Proof.
  intros H E. subst c. specialize (H []). cbn in H. discriminate.
Qed.

Lemma uncons_bsl r : uncons_char (BSL :: r) = Some ([BSL], r).
Proof. reflexivity. Qed.

(* ------------------------------------------------------------------ hex runs *)
Lemma hex_run_inv s h t :
  hex_run s = (h, t) ->
  s = h ++ t /\ forallb is_hex h = true /\ (t = [] \/ exists c t', t = c :: t' /\ is_hex c = false).
Proof.
  revert h t; induction s as [|c r IH]; cbn; intros h t H.
  - inversion H; subst. repeat split; auto.
  - destruct (is_hex c) eqn:Hc.
    + destruct (hex_run r) as [h' t'] eqn:Hr. inversion H; subst h t.
      destruct (IH h' t' eq_refl) as (A & B & C). subst r. cbn. rewrite Hc, B. repeat split; auto.
    + inversion H; subst h t. repeat split; auto. right. eauto.
Qed.

Lemma hex_run_app h x :
  forallb is_hex h = true -> (x = [] \/ exists c t', x = c :: t' /\ is_hex c = false) ->
  hex_run (h ++ x) = (h, x).
Proof.
  intros Hh Hx. induction h as [|c h IH]; cbn in *.
  - destruct Hx as [->|(c & t' & -> & Hc)]; cbn; [reflexivity|rewrite Hc; reflexivity].
  - apply andb_true_iff in Hh as [H1 H2]. rewrite H1, (IH H2). reflexivity.
Qed.

Lemma match_hex_esc_inv r h t :
  match_hex_esc r = Some (h, t) -> r = h ++ SPACE :: t /\ h <> [] /\ forallb is_hex h = true.
Proof.
  unfold match_hex_esc. destruct (hex_run r) as [h' t'] eqn:Hr.
  destruct h' as [|c h']; [discriminate|]. destruct t' as [|sp t']; [discriminate|].
  destruct (N.eqb sp SPACE) eqn:Hs; [|discriminate]. intros H; inversion H; subst h t.
  apply N.eqb_eq in Hs. subst sp.
  destruct (hex_run_inv _ _ _ Hr) as (A & B & _). repeat split; auto. discriminate.
Qed.

Lemma match_hex_esc_intro h x :
  h <> [] -> forallb is_hex h = true -> match_hex_esc (h ++ SPACE :: x) = Some (h, x).
Proof.
  intros Hn Hh. unfold match_hex_esc. rewrite hex_run_app; auto.
  - destruct h; [contradiction|]. rewrite N.eqb_refl. reflexivity.
  - right. exists SPACE, x. split; reflexivity.
Qed.

Lemma match_hex_esc_app a b h t :
  match_hex_esc a = Some (h, t) -> match_hex_esc (a ++ b) = Some (h, t ++ b).
Proof.
  intros H. destruct (match_hex_esc_inv _ _ _ H) as (-> & Hn & Hh).
  rewrite <- app_assoc. cbn. apply match_hex_esc_intro; auto.
Qed.

Lemma match_hex_esc_trunc a b : match_hex_esc (a ++ b) = None -> match_hex_esc a = None.
Proof.
  intros H. destruct (match_hex_esc a) as [[h t]|] eqn:E; [|reflexivity].
  rewrite (match_hex_esc_app _ b _ _ E) in H. discriminate.
Qed.

Lemma match_any_esc_inv r c t :
  match_any_esc r = Some (c, t) -> r = c ++ t /\ is_char c /\ c <> [NL].
Proof.
  unfold match_any_esc. destruct (uncons_char r) as [[c' t']|] eqn:E; [|discriminate].
  destruct (str_eqb c' [NL]) eqn:En; [discriminate|]. intros H; inversion H; subst c' t'.
  destruct (uncons_char_inv _ _ _ E) as (A & B & _). apply str_eqb_neq in En. auto.
Qed.

Lemma match_any_esc_intro c x : is_char c -> c <> [NL] -> match_any_esc (c ++ x) = Some (c, x).
Proof.
  intros Hc Hn. unfold match_any_esc. rewrite (Hc x).
  apply str_eqb_neq in Hn. rewrite Hn. reflexivity.
Qed.

(* ------------------------------------------------------------------ the loop combinator *)
Lemma loop_map {A B} (g : A -> B) (st1 : str -> option (A * str)) (st2 : str -> option (B * str)) :
  (forall s, st2 s = match st1 s with Some (a, t) => Some (g a, t) | None => None end) ->
  forall f s, loop st2 f s = (map g (fst (loop st1 f s)), snd (loop st1 f s)).
Proof.
  intros Hst f. induction f as [|f IH]; intros s; cbn; [reflexivity|].
  rewrite Hst. destruct (st1 s) as [[a t]|]; [|reflexivity].
  rewrite IH. destruct (loop st1 f t) as [l r]. reflexivity.
Qed.

Section Key.
Variable uw : N -> bool.

Notation next_item := (next_item uw).
Notation step_plain := (step_plain uw).
Notation step_escaped := (step_escaped uw).
Notation is_word_char := (is_word_char uw).

(* what [next_item s = Some (it, t)] means *)
Definition item_ok (it : item) (t : str) : Prop :=
  match it with
  | Lit c => is_char c /\ (is_word_char c || str_eqb c [DASH]) = true /\ exists b c', c = b :: c' /\ b <> BSL
  | HexEsc h => h <> [] /\ forallb is_hex h = true
  | CharEsc c => is_char c /\ c <> [NL] /\ match_hex_esc (c ++ t) = None
  end.

Lemma next_item_inv s it t : next_item s = Some (it, t) -> s = spelling it ++ t /\ item_ok it t.
Proof.
  unfold C17_Model.next_item. destruct s as [|b r]; [discriminate|].
  destruct (N.eqb b BSL) eqn:Hb.
  - apply N.eqb_eq in Hb. subst b.
    destruct (match_hex_esc r) as [[h t']|] eqn:Hh.
    + intros H; inversion H; subst it t.
      destruct (match_hex_esc_inv _ _ _ Hh) as (-> & Hn & Hx). cbn. rewrite <- app_assoc. cbn. auto.
    + destruct (match_any_esc r) as [[c t']|] eqn:Ha; [|discriminate].
      intros H; inversion H; subst it t.
      destruct (match_any_esc_inv _ _ _ Ha) as (-> & Hc & Hn). cbn. repeat split; auto.
  - destruct (uncons_char (b :: r)) as [[c t']|] eqn:Hu; [|discriminate].
    destruct (is_word_char c || str_eqb c [DASH]) eqn:Hw; [|discriminate].
    intros H; inversion H; subst it t.
    destruct (uncons_char_inv _ _ _ Hu) as (A & B & (b' & c' & -> & _)).
    cbn in A. inversion A; subst b'. cbn. repeat split; auto.
    exists b, c'. split; [reflexivity|]. apply N.eqb_neq. exact Hb.
Qed.

Lemma next_item_intro it t : item_ok it t -> next_item (spelling it ++ t) = Some (it, t).
Proof.
  destruct it as [c|h|c]; cbn [item_ok spelling].
  - intros (Hc & Hw & (b & c' & -> & Hb)). unfold C17_Model.next_item. cbn [app].
    apply N.eqb_neq in Hb. rewrite Hb. change (b :: c' ++ t) with ((b :: c') ++ t).
    rewrite (Hc t), Hw. reflexivity.
  - intros (Hn & Hh). unfold C17_Model.next_item. cbn [app]. rewrite N.eqb_refl.
    rewrite <- app_assoc. cbn [app]. rewrite match_hex_esc_intro by auto. reflexivity.
  - intros (Hc & Hn & Hm). unfold C17_Model.next_item. cbn [app]. rewrite N.eqb_refl.
    rewrite Hm, match_any_esc_intro by auto. reflexivity.
Qed.

Lemma spelling_nonempty it t : item_ok it t -> spelling it <> [].
Proof.
  destruct it; cbn; try discriminate. intros (Hc & _). apply is_char_nonempty. exact Hc.
Qed.

Lemma item_ok_trunc it x rest : item_ok it (x ++ rest) -> item_ok it x.
Proof.
  destruct it as [c|h|c]; cbn; auto.
  intros (Hc & Hn & Hm). repeat split; auto.
  rewrite app_assoc in Hm. apply match_hex_esc_trunc in Hm. exact Hm.
Qed.

(* the step of the escaped regex is the spelling of the next item *)
Lemma step_escaped_next s :
  step_escaped s = match next_item s with Some (it, t) => Some (spelling it, t) | None => None end.
Proof.
  unfold C17_Model.step_escaped, C17_Model.next_item. destruct s as [|b r]; [reflexivity|].
  destruct (N.eqb b BSL) eqn:Hb.
  - apply N.eqb_eq in Hb; subst b.
    destruct (match_hex_esc r) as [[h t]|]; [reflexivity|].
    destruct (match_any_esc r) as [[c t]|]; reflexivity.
  - destruct (uncons_char (b :: r)) as [[c t]|]; [|reflexivity].
    destruct (is_word_char c || str_eqb c [DASH]); reflexivity.
Qed.

(* a run of items, each being the next item of what follows *)
Fixpoint chain (its : list item) (rest : str) : Prop :=
  match its with
  | [] => True
  | it :: r => item_ok it (spell r ++ rest) /\ chain r rest
  end.

Lemma spell_cons it its : spell (it :: its) = spelling it ++ spell its.
Proof. reflexivity. Qed.

Lemma loop_items_chain f s its rest :
  loop next_item f s = (its, rest) -> s = spell its ++ rest /\ chain its rest.
Proof.
  revert s its rest; induction f as [|f IH]; intros s its rest; cbn.
  - intros H; inversion H; subst. cbn. auto.
  - destruct (next_item s) as [[it t]|] eqn:Hn.
    + destruct (loop next_item f t) as [l r] eqn:Hl. intros H; inversion H; subst its rest.
      destruct (IH _ _ _ Hl) as (Ht & Hc). destruct (next_item_inv _ _ _ Hn) as (Hs & Hok).
      subst t. rewrite spell_cons, <- app_assoc. split; [exact Hs|]. cbn. auto.
    + intros H; inversion H; subst. cbn. auto.
Qed.

Lemma loop_items_stop f s its rest :
  (length s <= f)%nat -> loop next_item f s = (its, rest) -> next_item rest = None.
Proof.
  revert s its rest; induction f as [|f IH]; intros s its rest Hf; cbn.
  - intros H; inversion H; subst. destruct rest; [reflexivity|cbn in Hf; lia].
  - destruct (next_item s) as [[it t]|] eqn:Hn.
    + destruct (loop next_item f t) as [l r] eqn:Hl. intros H; inversion H; subst its rest.
      destruct (next_item_inv _ _ _ Hn) as (Hs & Hok).
      pose proof (spelling_nonempty _ _ Hok) as Hne.
      apply (IH t l r); [|exact Hl]. subst s. rewrite app_length in Hf.
      destruct (spelling it); [contradiction|cbn in Hf; lia].
    + intros H; inversion H; subst. exact Hn.
Qed.

Lemma chain_trunc its rest : chain its rest -> chain its [].
Proof.
  induction its as [|it its IH]; cbn; [auto|]. intros (Hok & Hc). split; [|auto].
  rewrite app_nil_r. eapply item_ok_trunc. exact Hok.
Qed.

Lemma chain_length its rest : chain its rest -> (length its <= length (spell its))%nat.
Proof.
  induction its as [|it its IH]; cbn; [lia|]. intros (Hok & Hc).
  rewrite spell_cons, app_length. specialize (IH Hc).
  pose proof (spelling_nonempty _ _ Hok). destruct (spelling it); [contradiction|cbn; lia].
Qed.

(* re-reading the spelling of a chain gives the chain back *)
Lemma loop_chain its f : chain its [] -> (length its <= f)%nat -> loop next_item f (spell its) = (its, []).
Proof.
  revert f; induction its as [|it its IH]; intros f Hc Hf.
  - destruct f; reflexivity.
  - destruct f as [|f]; [cbn in Hf; lia|]. cbn in Hc. destruct Hc as (Hok & Hc).
    rewrite app_nil_r in Hok. cbn [loop]. rewrite spell_cons, (next_item_intro _ _ Hok).
    rewrite IH by (auto; cbn in Hf; lia). reflexivity.
Qed.

(* ---------------------------------------------------------------- unescape over a chain *)
Lemma unescape_skip a x : unescape (length a) (a ++ x) = unescape O x.
Proof. induction a as [|b a IH]; cbn; [destruct x; reflexivity|exact IH]. Qed.

Lemma unescape_skip' n a x : n = length a -> unescape n (a ++ x) = unescape O x.
Proof. intros ->. apply unescape_skip. Qed.

Lemma unescape_high c x :
  forallb (fun b => N.leb 128 b) c = true -> unescape O (c ++ x) = omap (app c) (unescape O x).
Proof.
  induction c as [|b c IH]; cbn [app forallb]; intros H.
  - destruct (unescape O x); reflexivity.
  - apply andb_true_iff in H as [H1 H2]. cbn [unescape].
    assert (Hb : N.eqb b BSL = false) by (unfold BSL; lia). rewrite Hb, (IH H2).
    destruct (unescape O x); reflexivity.
Qed.

Lemma unescape_lit c x :
  is_char c -> (exists b c', c = b :: c' /\ b <> BSL) ->
  unescape O (c ++ x) = omap (app c) (unescape O x).
Proof.
  intros Hc (b & c' & -> & Hb).
  pose proof (Hc []) as Hu. rewrite app_nil_r in Hu.
  destruct (uncons_char_inv _ _ _ Hu) as (_ & _ & (b' & c'' & E & Hcase)). inversion E; subst b' c''.
  destruct Hcase as [(-> & _)|(H1 & H2)].
  - cbn [app unescape]. apply N.eqb_neq in Hb. rewrite Hb. destruct (unescape O x); reflexivity.
  - apply unescape_high. cbn. rewrite H1, H2. reflexivity.
Qed.

Lemma unescape_chain its : chain its [] -> unescape O (spell its) = css_value its.
Proof.
  induction its as [|it its IH]; [reflexivity|].
  intros (Hok & Hc). specialize (IH Hc). rewrite app_nil_r in Hok. rewrite spell_cons.
  destruct it as [c|h|c]; cbn [item_ok spelling css_value value] in *.
  - destruct Hok as (Hch & _ & Hb). rewrite (unescape_lit _ _ Hch Hb), IH.
    destruct (css_value its); reflexivity.
  - destruct Hok as (Hn & Hh). cbn [app unescape]. rewrite N.eqb_refl.
    rewrite <- app_assoc. cbn [app]. rewrite (match_hex_esc_intro _ _ Hn Hh).
    destruct (hex_char h) as [ch|]; [|reflexivity].
    replace (h ++ SPACE :: spell its) with ((h ++ [SPACE]) ++ spell its)
      by (rewrite <- app_assoc; reflexivity).
    rewrite unescape_skip' by (rewrite app_length; cbn; lia).
    rewrite IH. destruct (css_value its); reflexivity.
  - destruct Hok as (Hch & Hn & Hm). cbn [app unescape]. rewrite N.eqb_refl, Hm.
    rewrite (match_any_esc_intro _ _ Hch Hn), unescape_skip, IH.
    destruct (css_value its); reflexivity.
Qed.

(* ---------------------------------------------------------------- the plain fast path *)
Lemma step_plain_inv s c t :
  step_plain s = Some (c, t) -> uncons_char s = Some (c, t) /\
  (is_word_char c || str_eqb c [BSL] || str_eqb c [DASH]) = true.
Proof.
  unfold C17_Model.step_plain. destruct (uncons_char s) as [[c' t']|]; [|discriminate].
  destruct (is_word_char c' || str_eqb c' [BSL] || str_eqb c' [DASH]) eqn:E; [|discriminate].
  intros H; inversion H; subst. auto.
Qed.

Lemma word_char_not_bsl : is_word_char [BSL] = false.
Proof. reflexivity. Qed.

Lemma step_plain_none s : step_plain s = None -> next_item s = None.
Proof.
  unfold C17_Model.step_plain, C17_Model.next_item.
  destruct s as [|b2 r2]; [reflexivity|].
  destruct (N.eqb b2 BSL) eqn:Hb2;
    [apply N.eqb_eq in Hb2; subst b2; rewrite uncons_bsl; cbn; discriminate|].
  destruct (uncons_char (b2 :: r2)) as [[c2 t2]|]; [|reflexivity].
  destruct (is_word_char c2) eqn:Hw2; cbn; [discriminate|].
  destruct (str_eqb c2 [BSL]); cbn; [discriminate|].
  destruct (str_eqb c2 [DASH]); [discriminate|reflexivity].
Qed.

Lemma loop_plain_items f s cs t :
  loop step_plain f s = (cs, t) -> ~ In BSL (List.concat cs) ->
  loop next_item f s = (map Lit cs, t).
Proof.
  revert s cs t; induction f as [|f IH]; intros s cs t; cbn [loop].
  - intros H _; inversion H; subst. reflexivity.
  - destruct (step_plain s) as [[c t']|] eqn:Hs.
    + destruct (loop step_plain f t') as [l r] eqn:Hl. intros H Hnb; inversion H; subst cs t.
      destruct (step_plain_inv _ _ _ Hs) as (Hu & Hw).
      destruct (uncons_char_inv _ _ _ Hu) as (-> & Hch & (b & c' & -> & _)).
      cbn [List.concat] in Hnb.
      assert (Hb : b <> BSL) by (intros ->; apply Hnb; cbn; auto).
      assert (Hcb : str_eqb (b :: c') [BSL] = false).
      { apply str_eqb_neq. intros E; inversion E; contradiction. }
      rewrite Hcb, orb_false_r in Hw.
      assert (Hn : next_item ((b :: c') ++ t') = Some (Lit (b :: c'), t')).
      { apply (next_item_intro (Lit (b :: c'))). cbn. repeat split; eauto. }
      rewrite Hn, (IH t' l r Hl); [reflexivity|].
      intros Hin. apply Hnb. apply in_or_app. right. exact Hin.
    + intros H _; inversion H; subst cs t. cbn. rewrite (step_plain_none _ Hs). reflexivity.
Qed.
End Key.
