(* C17_Proofs.v — key_from_selector refines CSS unescaping of the leading simple selector; the
   generic stores partition the generic selectors; the lookup returns exactly the asked-for,
   unexcepted ones. *)
From Adb Require Import Base BaseProofs C17_Model.
From Adb Require Generated.
From Coq Require Import ZifyBool ZifyNat ZifyN Permutation.

Arguments spell : simpl never.

(* ------------------------------------------------------------------ small generic facts *)
Lemma null_true {A} (l : list A) : null l = true <-> l = [].
Proof. destruct l; cbn; split; congruence. Qed.

Lemma omap_Some {A B} (f : A -> B) x y : omap f x = Some y -> exists a, x = Some a /\ y = f a.
Proof. destruct x; cbn; intros H; [inversion H; eauto|discriminate]. Qed.

Lemma take_length_le {A} n (l : list A) : (n <= length l)%nat -> length (take n l) = n.
Proof. intros H. unfold take. rewrite firstn_length. lia. Qed.

(* ------------------------------------------------------------------ characters *)
Definition is_char (c : str) : Prop := forall x, uncons_char (c ++ x) = Some (c, x).

Lemma uncons_char_inv s c t :
  uncons_char s = Some (c, t) ->
  s = c ++ t /\ is_char c /\
  exists b c', c = b :: c' /\
    ((c' = [] /\ N.ltb b 128 = true) \/ (N.leb 128 b = true /\ forallb (fun x => N.leb 128 x) c' = true)).
Proof.
  destruct s as [|b r]; cbn; [discriminate|].
  destruct (utf8_width b) as [|w] eqn:Hw; [discriminate|].
  destruct (Nat.leb w (length r) && forallb is_cont (take w r)) eqn:Hc; [|discriminate].
  intros H; inversion H; subst c t; clear H.
  apply andb_true_iff in Hc as [Hlen Hcont]. apply Nat.leb_le in Hlen.
  split; [cbn; f_equal; symmetry; apply take_drop|].
  split.
  - intros x. cbn. rewrite Hw.
    assert (Ht : take w (take w r ++ x) = take w r).
    { unfold take. rewrite firstn_app, firstn_firstn, Nat.min_id, firstn_length.
      replace (w - Nat.min w (length r))%nat with O by lia. cbn. apply app_nil_r. }
    assert (Hd : drop w (take w r ++ x) = x).
    { unfold drop, take. rewrite skipn_app, firstn_length.
      replace (w - Nat.min w (length r))%nat with O by lia.
      rewrite skipn_all2 by (rewrite firstn_length; lia). reflexivity. }
    rewrite Ht, Hd, Hcont.
    assert (Hl : Nat.leb w (length (take w r ++ x)) = true).
    { apply Nat.leb_le. rewrite app_length, take_length_le by lia. lia. }
    rewrite Hl. reflexivity.
  - exists b, (take w r). split; [reflexivity|].
    unfold utf8_width in Hw.
    destruct (N.ltb b 128) eqn:E1.
    + left. split; [|reflexivity]. inversion Hw; subst w. reflexivity.
    + right. split; [lia|].
      clear - Hcont. induction (take w r) as [|y l IH]; cbn in *; [reflexivity|].
      apply andb_true_iff in Hcont as [H1 H2]. rewrite IH by exact H2.
      unfold is_cont in H1. apply andb_true_iff in H1 as [H1 _]. rewrite H1. reflexivity.
Qed.

Lemma is_char_nonempty c : is_char c -> c <> [].
Proof.
  intros H E. subst c. specialize (H []). cbn in H. discriminate.
Qed.

Lemma uncons_bsl r : uncons_char (BSL :: r) = Some ([BSL], r).
Proof. reflexivity. Qed.

(* ------------------------------------------------------------------ hex runs *)
Lemma hex_run_inv s h t :
  hex_run s = (h, t) ->
  s = h ++ t /\ forallb is_hex h = true /\ (t = [] \/ exists c t', t = c :: t' /\ is_hex c = false).
Proof.
  revert h t; induction s as [|c r IH]; cbn; intros h t H.
  - inversion H; subst. repeat split; auto.
  - destruct (is_hex c) eqn:Hc.
    + destruct (hex_run r) as [h' t'] eqn:Hr. inversion H; subst h t.
      destruct (IH h' t' eq_refl) as (A & B & C). subst r. cbn. rewrite Hc, B. repeat split; auto.
    + inversion H; subst h t. repeat split; auto. right. eauto.
Qed.

Lemma hex_run_app h x :
  forallb is_hex h = true -> (x = [] \/ exists c t', x = c :: t' /\ is_hex c = false) ->
  hex_run (h ++ x) = (h, x).
Proof.
  intros Hh Hx. induction h as [|c h IH]; cbn in *.
  - destruct Hx as [->|(c & t' & -> & Hc)]; cbn; [reflexivity|rewrite Hc; reflexivity].
  - apply andb_true_iff in Hh as [H1 H2]. rewrite H1, (IH H2). reflexivity.
Qed.

Lemma match_hex_esc_inv r h t :
  match_hex_esc r = Some (h, t) -> r = h ++ SPACE :: t /\ h <> [] /\ forallb is_hex h = true.
Proof.
  unfold match_hex_esc. destruct (hex_run r) as [h' t'] eqn:Hr.
  destruct h' as [|c h']; [discriminate|]. destruct t' as [|sp t']; [discriminate|].
  destruct (N.eqb sp SPACE) eqn:Hs; [|discriminate]. intros H; inversion H; subst h t.
  apply N.eqb_eq in Hs. subst sp.
  destruct (hex_run_inv _ _ _ Hr) as (A & B & _). repeat split; auto. discriminate.
Qed.

Lemma match_hex_esc_intro h x :
  h <> [] -> forallb is_hex h = true -> match_hex_esc (h ++ SPACE :: x) = Some (h, x).
Proof.
  intros Hn Hh. unfold match_hex_esc. rewrite hex_run_app; auto.
  - destruct h; [contradiction|]. rewrite N.eqb_refl. reflexivity.
  - right. exists SPACE, x. split; reflexivity.
Qed.

Lemma match_hex_esc_app a b h t :
  match_hex_esc a = Some (h, t) -> match_hex_esc (a ++ b) = Some (h, t ++ b).
Proof.
  intros H. destruct (match_hex_esc_inv _ _ _ H) as (-> & Hn & Hh).
  rewrite <- app_assoc. cbn. apply match_hex_esc_intro; auto.
Qed.

Lemma match_hex_esc_trunc a b : match_hex_esc (a ++ b) = None -> match_hex_esc a = None.
Proof.
  intros H. destruct (match_hex_esc a) as [[h t]|] eqn:E; [|reflexivity].
  rewrite (match_hex_esc_app _ b _ _ E) in H. discriminate.
Qed.

Lemma match_any_esc_inv r c t :
  match_any_esc r = Some (c, t) -> r = c ++ t /\ is_char c /\ c <> [NL].
Proof.
  unfold match_any_esc. destruct (uncons_char r) as [[c' t']|] eqn:E; [|discriminate].
  destruct (str_eqb c' [NL]) eqn:En; [discriminate|]. intros H; inversion H; subst c' t'.
  destruct (uncons_char_inv _ _ _ E) as (A & B & _). apply str_eqb_neq in En. auto.
Qed.

Lemma match_any_esc_intro c x : is_char c -> c <> [NL] -> match_any_esc (c ++ x) = Some (c, x).
Proof.
  intros Hc Hn. unfold match_any_esc. rewrite (Hc x).
  apply str_eqb_neq in Hn. rewrite Hn. reflexivity.
Qed.

(* ------------------------------------------------------------------ the loop combinator *)
Lemma loop_map {A B} (g : A -> B) (st1 : str -> option (A * str)) (st2 : str -> option (B * str)) :
  (forall s, st2 s = match st1 s with Some (a, t) => Some (g a, t) | None => None end) ->
  forall f s, loop st2 f s = (map g (fst (loop st1 f s)), snd (loop st1 f s)).
Proof.
  intros Hst f. induction f as [|f IH]; intros s; cbn; [reflexivity|].
  rewrite Hst. destruct (st1 s) as [[a t]|]; [|reflexivity].
  rewrite IH. destruct (loop st1 f t) as [l r]. reflexivity.
Qed.

Section Key.
Variable uw : N -> bool.

Notation next_item := (next_item uw).
Notation step_plain := (step_plain uw).
Notation step_escaped := (step_escaped uw).
Notation is_word_char := (is_word_char uw).

(* what [next_item s = Some (it, t)] means *)
Definition item_ok (it : item) (t : str) : Prop :=
  match it with
  | Lit c => is_char c /\ (is_word_char c || str_eqb c [DASH]) = true /\ exists b c', c = b :: c' /\ b <> BSL
  | HexEsc h => h <> [] /\ forallb is_hex h = true
  | CharEsc c => is_char c /\ c <> [NL] /\ match_hex_esc (c ++ t) = None
  end.

Lemma next_item_inv s it t : next_item s = Some (it, t) -> s = spelling it ++ t /\ item_ok it t.
Proof.
  unfold C17_Model.next_item. destruct s as [|b r]; [discriminate|].
  destruct (N.eqb b BSL) eqn:Hb.
  - apply N.eqb_eq in Hb. subst b.
    destruct (match_hex_esc r) as [[h t']|] eqn:Hh.
    + intros H; inversion H; subst it t.
      destruct (match_hex_esc_inv _ _ _ Hh) as (-> & Hn & Hx). cbn. rewrite <- app_assoc. cbn. auto.
    + destruct (match_any_esc r) as [[c t']|] eqn:Ha; [|discriminate].
      intros H; inversion H; subst it t.
      destruct (match_any_esc_inv _ _ _ Ha) as (-> & Hc & Hn). cbn. repeat split; auto.
  - destruct (uncons_char (b :: r)) as [[c t']|] eqn:Hu; [|discriminate].
    destruct (is_word_char c || str_eqb c [DASH]) eqn:Hw; [|discriminate].
    intros H; inversion H; subst it t.
    destruct (uncons_char_inv _ _ _ Hu) as (A & B & (b' & c' & -> & _)).
    cbn in A. inversion A; subst b'. cbn. repeat split; auto.
    exists b, c'. split; [reflexivity|]. apply N.eqb_neq. exact Hb.
Qed.

Lemma next_item_intro it t : item_ok it t -> next_item (spelling it ++ t) = Some (it, t).
Proof.
  destruct it as [c|h|c]; cbn [item_ok spelling].
  - intros (Hc & Hw & (b & c' & -> & Hb)). unfold C17_Model.next_item. cbn [app].
    apply N.eqb_neq in Hb. rewrite Hb. change (b :: c' ++ t) with ((b :: c') ++ t).
    rewrite (Hc t), Hw. reflexivity.
  - intros (Hn & Hh). unfold C17_Model.next_item. cbn [app]. rewrite N.eqb_refl.
    rewrite <- app_assoc. cbn [app]. rewrite match_hex_esc_intro by auto. reflexivity.
  - intros (Hc & Hn & Hm). unfold C17_Model.next_item. cbn [app]. rewrite N.eqb_refl.
    rewrite Hm, match_any_esc_intro by auto. reflexivity.
Qed.

Lemma spelling_nonempty it t : item_ok it t -> spelling it <> [].
Proof.
  destruct it; cbn; try discriminate. intros (Hc & _). apply is_char_nonempty. exact Hc.
Qed.

Lemma item_ok_trunc it x rest : item_ok it (x ++ rest) -> item_ok it x.
Proof.
  destruct it as [c|h|c]; cbn; auto.
  intros (Hc & Hn & Hm). repeat split; auto.
  rewrite app_assoc in Hm. apply match_hex_esc_trunc in Hm. exact Hm.
Qed.

(* the step of the escaped regex is the spelling of the next item *)
Lemma step_escaped_next s :
  step_escaped s = match next_item s with Some (it, t) => Some (spelling it, t) | None => None end.
Proof.
  unfold C17_Model.step_escaped, C17_Model.next_item. destruct s as [|b r]; [reflexivity|].
  destruct (N.eqb b BSL) eqn:Hb.
  - apply N.eqb_eq in Hb; subst b.
    destruct (match_hex_esc r) as [[h t]|]; [reflexivity|].
    destruct (match_any_esc r) as [[c t]|]; reflexivity.
  - destruct (uncons_char (b :: r)) as [[c t]|]; [|reflexivity].
    destruct (is_word_char c || str_eqb c [DASH]); reflexivity.
Qed.

(* a run of items, each being the next item of what follows *)
Fixpoint chain (its : list item) (rest : str) : Prop :=
  match its with
  | [] => True
  | it :: r => item_ok it (spell r ++ rest) /\ chain r rest
  end.

Lemma spell_cons it its : spell (it :: its) = spelling it ++ spell its.
Proof. reflexivity. Qed.

Lemma loop_items_chain f s its rest :
  loop next_item f s = (its, rest) -> s = spell its ++ rest /\ chain its rest.
Proof.
  revert s its rest; induction f as [|f IH]; intros s its rest; cbn.
  - intros H; inversion H; subst. cbn. auto.
  - destruct (next_item s) as [[it t]|] eqn:Hn.
    + destruct (loop next_item f t) as [l r] eqn:Hl. intros H; inversion H; subst its rest.
      destruct (IH _ _ _ Hl) as (Ht & Hc). destruct (next_item_inv _ _ _ Hn) as (Hs & Hok).
      subst t. rewrite spell_cons, <- app_assoc. split; [exact Hs|]. cbn. auto.
    + intros H; inversion H; subst. cbn. auto.
Qed.

Lemma loop_items_stop f s its rest :
  (length s <= f)%nat -> loop next_item f s = (its, rest) -> next_item rest = None.
Proof.
  revert s its rest; induction f as [|f IH]; intros s its rest Hf; cbn.
  - intros H; inversion H; subst. destruct rest; [reflexivity|cbn in Hf; lia].
  - destruct (next_item s) as [[it t]|] eqn:Hn.
    + destruct (loop next_item f t) as [l r] eqn:Hl. intros H; inversion H; subst its rest.
      destruct (next_item_inv _ _ _ Hn) as (Hs & Hok).
      pose proof (spelling_nonempty _ _ Hok) as Hne.
      apply (IH t l r); [|exact Hl]. subst s. rewrite app_length in Hf.
      destruct (spelling it); [contradiction|cbn in Hf; lia].
    + intros H; inversion H; subst. exact Hn.
Qed.

Lemma chain_trunc its rest : chain its rest -> chain its [].
Proof.
  induction its as [|it its IH]; cbn; [auto|]. intros (Hok & Hc). split; [|auto].
  rewrite app_nil_r. eapply item_ok_trunc. exact Hok.
Qed.

Lemma chain_length its rest : chain its rest -> (length its <= length (spell its))%nat.
Proof.
  induction its as [|it its IH]; cbn; [lia|]. intros (Hok & Hc).
  rewrite spell_cons, app_length. specialize (IH Hc).
  pose proof (spelling_nonempty _ _ Hok). destruct (spelling it); [contradiction|cbn; lia].
Qed.

(* re-reading the spelling of a chain gives the chain back *)
Lemma loop_chain its f : chain its [] -> (length its <= f)%nat -> loop next_item f (spell its) = (its, []).
Proof.
  revert f; induction its as [|it its IH]; intros f Hc Hf.
  - destruct f; reflexivity.
  - destruct f as [|f]; [cbn in Hf; lia|]. cbn in Hc. destruct Hc as (Hok & Hc).
    rewrite app_nil_r in Hok. cbn [loop]. rewrite spell_cons, (next_item_intro _ _ Hok).
    rewrite IH by (auto; cbn in Hf; lia). reflexivity.
Qed.

(* ---------------------------------------------------------------- unescape over a chain *)
Lemma unescape_skip a x : unescape (length a) (a ++ x) = unescape O x.
Proof. induction a as [|b a IH]; cbn; [destruct x; reflexivity|exact IH]. Qed.

Lemma unescape_skip' n a x : n = length a -> unescape n (a ++ x) = unescape O x.
Proof. intros ->. apply unescape_skip. Qed.

Lemma unescape_high c x :
  forallb (fun b => N.leb 128 b) c = true -> unescape O (c ++ x) = omap (app c) (unescape O x).
Proof.
  induction c as [|b c IH]; cbn [app forallb]; intros H.
  - destruct (unescape O x); reflexivity.
  - apply andb_true_iff in H as [H1 H2]. cbn [unescape].
    assert (Hb : N.eqb b BSL = false) by (unfold BSL; lia). rewrite Hb, (IH H2).
    destruct (unescape O x); reflexivity.
Qed.

Lemma unescape_lit c x :
  is_char c -> (exists b c', c = b :: c' /\ b <> BSL) ->
  unescape O (c ++ x) = omap (app c) (unescape O x).
Proof.
  intros Hc (b & c' & -> & Hb).
  pose proof (Hc []) as Hu. rewrite app_nil_r in Hu.
  destruct (uncons_char_inv _ _ _ Hu) as (_ & _ & (b' & c'' & E & Hcase)). inversion E; subst b' c''.
  destruct Hcase as [(-> & _)|(H1 & H2)].
  - cbn [app unescape]. apply N.eqb_neq in Hb. rewrite Hb. destruct (unescape O x); reflexivity.
  - apply unescape_high. cbn. rewrite H1, H2. reflexivity.
Qed.

Lemma unescape_chain its : chain its [] -> unescape O (spell its) = css_value its.
Proof.
  induction its as [|it its IH]; [reflexivity|].
  intros (Hok & Hc). specialize (IH Hc). rewrite app_nil_r in Hok. rewrite spell_cons.
  destruct it as [c|h|c]; cbn [item_ok spelling css_value value] in *.
  - destruct Hok as (Hch & _ & Hb). rewrite (unescape_lit _ _ Hch Hb), IH.
    destruct (css_value its); reflexivity.
  - destruct Hok as (Hn & Hh). cbn [app unescape]. rewrite N.eqb_refl.
    rewrite <- app_assoc. cbn [app]. rewrite (match_hex_esc_intro _ _ Hn Hh).
    destruct (hex_char h) as [ch|]; [|reflexivity].
    replace (h ++ SPACE :: spell its) with ((h ++ [SPACE]) ++ spell its)
      by (rewrite <- app_assoc; reflexivity).
    rewrite unescape_skip' by (rewrite app_length; cbn; lia).
    rewrite IH. destruct (css_value its); reflexivity.
  - destruct Hok as (Hch & Hn & Hm). cbn [app unescape]. rewrite N.eqb_refl, Hm.
    rewrite (match_any_esc_intro _ _ Hch Hn), unescape_skip, IH.
    destruct (css_value its); reflexivity.
Qed.

(* ---------------------------------------------------------------- the plain fast path *)
Lemma step_plain_inv s c t :
  step_plain s = Some (c, t) -> uncons_char s = Some (c, t) /\
  (is_word_char c || str_eqb c [BSL] || str_eqb c [DASH]) = true.
Proof.
  unfold C17_Model.step_plain. destruct (uncons_char s) as [[c' t']|]; [|discriminate].
  destruct (is_word_char c' || str_eqb c' [BSL] || str_eqb c' [DASH]) eqn:E; [|discriminate].
  intros H; inversion H; subst. auto.
Qed.

Lemma word_char_not_bsl : is_word_char [BSL] = false.
Proof. reflexivity. Qed.

Lemma step_plain_none s : step_plain s = None -> next_item s = None.
Proof.
  unfold C17_Model.step_plain, C17_Model.next_item.
  destruct s as [|b2 r2]; [reflexivity|].
  destruct (N.eqb b2 BSL) eqn:Hb2;
    [apply N.eqb_eq in Hb2; subst b2; rewrite uncons_bsl; cbn; discriminate|].
  destruct (uncons_char (b2 :: r2)) as [[c2 t2]|]; [|reflexivity].
  destruct (is_word_char c2) eqn:Hw2; cbn; [discriminate|].
  destruct (str_eqb c2 [BSL]); cbn; [discriminate|].
  destruct (str_eqb c2 [DASH]); [discriminate|reflexivity].
Qed.

Lemma loop_plain_items f s cs t :
  loop step_plain f s = (cs, t) -> ~ In BSL (List.concat cs) ->
  loop next_item f s = (map Lit cs, t).
Proof.
  revert s cs t; induction f as [|f IH]; intros s cs t; cbn [loop].
  - intros H _; inversion H; subst. reflexivity.
  - destruct (step_plain s) as [[c t']|] eqn:Hs.
    + destruct (loop step_plain f t') as [l r] eqn:Hl. intros H Hnb; inversion H; subst cs t.
      destruct (step_plain_inv _ _ _ Hs) as (Hu & Hw).
      destruct (uncons_char_inv _ _ _ Hu) as (-> & Hch & (b & c' & -> & _)).
      cbn [List.concat] in Hnb.
      assert (Hb : b <> BSL) by (intros ->; apply Hnb; cbn; auto).
      assert (Hcb : str_eqb (b :: c') [BSL] = false).
      { apply str_eqb_neq. intros E; inversion E; contradiction. }
      rewrite Hcb, orb_false_r in Hw.
      assert (Hn : next_item ((b :: c') ++ t') = Some (Lit (b :: c'), t')).
      { apply (next_item_intro (Lit (b :: c'))). cbn. repeat split; eauto. }
      rewrite Hn, (IH t' l r Hl); [reflexivity|].
      intros Hin. apply Hnb. apply in_or_app. right. exact Hin.
    + intros H _; inversion H; subst cs t. cbn. rewrite (step_plain_none _ Hs). reflexivity.
Qed.
End Key.

(* ------------------------------------------------------------------ key_from_selector = L0 *)
Section KeySpec.
Variable uw : N -> bool.

Lemma spell_map_lit cs : spell (map Lit cs) = List.concat cs.
Proof. unfold spell. rewrite map_map. cbn. rewrite map_id. reflexivity. Qed.

Lemma css_value_lit cs : css_value (map Lit cs) = Some (List.concat cs).
Proof. induction cs as [|c cs IH]; cbn; [reflexivity|]. rewrite IH. reflexivity. Qed.

Lemma lead_items_respell r its rest :
  lead_items uw r = (its, rest) -> lead_items uw (spell its) = (its, []).
Proof.
  unfold lead_items. intros H. destruct (loop_items_chain _ _ _ _ _ H) as (_ & Hc).
  apply loop_chain; [eapply chain_trunc; exact Hc|]. eapply chain_length. exact Hc.
Qed.

Lemma chain_spell_nil its rest : chain uw its rest -> spell its = [] -> its = [].
Proof.
  intros Hc Hs. apply chain_length in Hc. rewrite Hs in Hc. destruct its; [reflexivity|cbn in Hc; lia].
Qed.

Lemma unescape_head p m : p <> BSL -> unescape O (p :: m) = omap (cons p) (unescape O m).
Proof. intros Hp. cbn. apply N.eqb_neq in Hp. rewrite Hp. reflexivity. Qed.

Theorem key_refines s : key_from_selector uw s = key_spec uw s.
Proof.
  destruct s as [|p r]; [reflexivity|].
  unfold key_from_selector, key_spec.
  destruct (N.eqb p HASHC || N.eqb p DOT) eqn:Hp; [|reflexivity].
  assert (Hpb : p <> BSL).
  { apply orb_true_iff in Hp as [Hp|Hp]; apply N.eqb_eq in Hp; subst p; discriminate. }
  unfold css_unescape, leading_simple_selector.
  destruct (lead_items uw r) as [its rest] eqn:Hl. cbn [fst].
  rewrite (lead_items_respell _ _ _ Hl). cbn [fst].
  pose proof Hl as Hl'. unfold lead_items in Hl'.
  destruct (loop_items_chain _ _ _ _ _ Hl') as (_ & Hc).
  destruct (loop (step_plain uw) (length r) r) as [cs t] eqn:H1. cbn [fst].
  destruct (null (List.concat cs)) eqn:Hn1.
  - apply null_true in Hn1.
    assert (Hnb : ~ In BSL (List.concat cs)) by (rewrite Hn1; intros []).
    pose proof (loop_plain_items uw _ _ _ _ H1 Hnb) as H2. rewrite Hl' in H2. inversion H2; subst its rest.
    assert (E : map Lit cs = []).
    { eapply chain_spell_nil; [exact Hc|]. rewrite spell_map_lit. exact Hn1. }
    rewrite E. reflexivity.
  - destruct (memN BSL (List.concat cs)) eqn:Hm; cbn [negb].
    + rewrite (loop_map spelling (next_item uw) (step_escaped uw) (step_escaped_next uw)).
      rewrite Hl'. cbn [fst]. fold (spell its).
      destruct (null (spell its)) eqn:Hn2.
      * apply null_true in Hn2. rewrite (chain_spell_nil _ _ Hc Hn2). reflexivity.
      * destruct its as [|it its']; [discriminate|]. cbn [null].
        rewrite (unescape_head _ _ Hpb). f_equal. apply (unescape_chain uw). eapply chain_trunc. exact Hc.
    + assert (Hnb : ~ In BSL (List.concat cs)).
      { intros Hin. apply memN_In in Hin. congruence. }
      pose proof (loop_plain_items uw _ _ _ _ H1 Hnb) as H2. rewrite Hl' in H2. inversion H2; subst its rest.
      destruct cs as [|c cs']; [discriminate|]. cbn [map null].
      change (Lit c :: map Lit cs') with (map Lit (c :: cs')). rewrite css_value_lit. reflexivity.
Qed.

(* the decomposition the L0 functions compute *)
Theorem lead_items_spec r its rest :
  lead_items uw r = (its, rest) ->
  r = spell its ++ rest /\ chain uw its rest /\ next_item uw rest = None.
Proof.
  unfold lead_items. intros H. destruct (loop_items_chain _ _ _ _ _ H) as (Hs & Hc).
  repeat split; auto. eapply loop_items_stop; [|exact H]. lia.
Qed.

Theorem key_unescape s k :
  key_from_selector uw s = Some k -> css_unescape uw (leading_simple_selector uw s) = Some k.
Proof.
  rewrite key_refines. unfold key_spec. destruct s as [|p r]; [discriminate|].
  destruct (N.eqb p HASHC || N.eqb p DOT); [auto|discriminate].
Qed.

(* the full picture: the selector is p ++ items ++ rest, the items are the longest run, the key
   is p followed by the values *)
Theorem key_some_iff s k :
  key_from_selector uw s = Some k <->
  exists p its rest v,
    s = p :: spell its ++ rest /\ (p = DOT \/ p = HASHC) /\ its <> [] /\ chain uw its rest /\
    next_item uw rest = None /\ css_value its = Some v /\ k = p :: v.
Proof.
  rewrite key_refines. unfold key_spec. destruct s as [|p r].
  - split; [discriminate|]. intros (p & its & rest & v & H & _). discriminate.
  - unfold css_unescape, leading_simple_selector.
    destruct (lead_items uw r) as [its rest] eqn:Hl. cbn [fst].
    rewrite (lead_items_respell _ _ _ Hl). cbn [fst].
    destruct (lead_items_spec _ _ _ Hl) as (Hr & Hc & Hstop).
    split.
    + destruct (N.eqb p HASHC || N.eqb p DOT) eqn:Hp; [|discriminate].
      destruct its as [|it its']; [discriminate|]. cbn [null].
      intros H. apply omap_Some in H as (v & Hv & ->).
      exists p, (it :: its'), rest, v.
      split; [congruence|]. split; [apply orb_true_iff in Hp as [Hp|Hp]; apply N.eqb_eq in Hp; auto|].
      split; [discriminate|]. split; [exact Hc|]. split; [exact Hstop|]. split; [exact Hv|reflexivity].
    + intros (p' & its' & rest' & v & Hs & Hp & Hne & Hc' & Hstop' & Hv & ->).
      inversion Hs; subst p'.
      (* the decomposition is unique: both are what the loop computes *)
      assert (Hl2 : lead_items uw r = (its', rest')).
      { unfold lead_items. rewrite H1. clear - Hc' Hstop'.
        assert (G : forall f, (length its' <= f)%nat -> loop (next_item uw) f (spell its' ++ rest') = (its', rest')).
        { induction its' as [|it its IH]; intros f Hf.
          - destruct f; cbn; [reflexivity|]. unfold spell. cbn. rewrite Hstop'. reflexivity.
          - destruct f as [|f]; [cbn in Hf; lia|]. destruct Hc' as (Hok & Hc'). cbn [loop].
            rewrite spell_cons, <- app_assoc, (next_item_intro _ _ _ Hok).
            rewrite IH by (auto; cbn in Hf; lia). reflexivity. }
        apply G. rewrite app_length. pose proof (chain_length _ _ _ Hc'). lia. }
      rewrite Hl in Hl2. inversion Hl2; subst its' rest'.
      assert (Hpp : N.eqb p HASHC || N.eqb p DOT = true).
      { destruct Hp as [->| ->]; reflexivity. }
      rewrite Hpp. destruct its; [contradiction|]. cbn [null]. rewrite Hv. reflexivity.
Qed.

Theorem key_head s k :
  key_from_selector uw s = Some k ->
  exists p r k', s = p :: r /\ k = p :: k' /\ (p = DOT \/ p = HASHC).
Proof.
  intros H. apply key_some_iff in H as (p & its & rest & v & -> & Hp & _ & _ & _ & _ & ->).
  exists p, (spell its ++ rest), v. auto.
Qed.

Theorem key_none_iff s :
  key_from_selector uw s = None <->
  match s with
  | [] => True
  | p :: r => (p <> DOT /\ p <> HASHC) \/ fst (lead_items uw r) = [] \/ css_value (fst (lead_items uw r)) = None
  end.
Proof.
  rewrite key_refines. unfold key_spec. destruct s as [|p r]; [tauto|].
  unfold css_unescape, leading_simple_selector.
  destruct (lead_items uw r) as [its rest] eqn:Hl. cbn [fst].
  rewrite (lead_items_respell _ _ _ Hl). cbn [fst].
  destruct (N.eqb p HASHC || N.eqb p DOT) eqn:Hp.
  - assert (Hp' : ~ (p <> DOT /\ p <> HASHC)).
    { intros (A & B). apply orb_true_iff in Hp as [Hp|Hp]; apply N.eqb_eq in Hp; auto. }
    destruct its as [|it its']; cbn [null]; [tauto|].
    destruct (css_value (it :: its')); cbn; split; try tauto; try discriminate.
    intros [H|[H|H]]; [tauto|discriminate|discriminate].
  - split; [|reflexivity]. intros _. left. apply orb_false_iff in Hp as [A B].
    apply N.eqb_neq in A, B. auto.
Qed.
End KeySpec.

(* ------------------------------------------------------------------ sets and maps *)
Lemma place_eqb_eq a b : place_eqb a b = true <-> a = b.
Proof.
  destruct a, b; cbn; split; intros H; try discriminate; try reflexivity;
    try (apply str_eqb_eq in H; congruence); try (inversion H; apply str_eqb_refl).
Qed.

Lemma not_mem_str x l : negb (mem_str x l) = true <-> ~ In x l.
Proof.
  rewrite negb_true_iff. split.
  - intros H Hin. apply mem_str_In in Hin. congruence.
  - intros H. destruct (mem_str x l) eqn:E; [|reflexivity]. apply mem_str_In in E. contradiction.
Qed.

Lemma set_insert_In x y l : In x (set_insert y l) <-> x = y \/ In x l.
Proof.
  unfold set_insert. destruct (mem_str y l) eqn:E.
  - apply mem_str_In in E. split; [auto|]. intros [->|H]; auto.
  - rewrite in_app_iff. cbn. split; [intros [H|[H|[]]]; auto|intros [H|H]; auto].
Qed.

Lemma bucket_push k k' v m :
  bucket k (map_push k' v m) = if str_eqb k k' then bucket k m ++ [v] else bucket k m.
Proof.
  induction m as [|[k'' b] m IH].
  - unfold bucket. cbn. destruct (str_eqb k k'); reflexivity.
  - cbn [map_push]. destruct (str_eqb k' k'') eqn:E1.
    + apply str_eqb_eq in E1; subst k''. unfold bucket. cbn [map_get].
      destruct (str_eqb k k'); reflexivity.
    + unfold bucket in *. cbn [map_get]. destruct (str_eqb k k'') eqn:E3; [|exact IH].
      apply str_eqb_eq in E3; subst k''. destruct (str_eqb k k') eqn:E4; [|reflexivity].
      apply str_eqb_eq in E4; subst k'. rewrite str_eqb_refl in E1. discriminate.
Qed.

Lemma filter_snoc {A} (f : A -> bool) G s : filter f (G ++ [s]) = filter f G ++ (if f s then [s] else []).
Proof. rewrite filter_app. cbn. destruct (f s); reflexivity. Qed.

Lemma NoDup_app_intro {A} (a b : list A) :
  NoDup a -> NoDup b -> (forall x, In x a -> ~ In x b) -> NoDup (a ++ b).
Proof.
  induction a as [|x a IH]; cbn; intros Ha Hb H; [exact Hb|].
  inversion Ha; subst. constructor.
  - rewrite in_app_iff. intros [G|G]; [contradiction|]. apply (H x); auto.
  - apply IH; auto.
Qed.

Lemma NoDup_flat_map {A B} (f : A -> list B) l :
  NoDup l -> (forall x, In x l -> NoDup (f x)) ->
  (forall x y z, In x l -> In y l -> In z (f x) -> In z (f y) -> x = y) ->
  NoDup (flat_map f l).
Proof.
  induction l as [|a l IH]; cbn; intros Hnd H1 H2; [constructor|].
  inversion Hnd; subst. apply NoDup_app_intro.
  - apply H1. auto.
  - apply IH; auto. intros x y z Hx Hy. apply H2; auto.
  - intros z Hz Hz'. apply in_flat_map in Hz' as (y & Hy & Hzy).
    assert (a = y) by (apply (H2 a y z); auto). subst y. contradiction.
Qed.

(* ------------------------------------------------------------------ the stores *)
Section Stores.
Variable uw : N -> bool.
Notation key := (key_from_selector uw).
Notation classify := (classify uw).
Notation build := (build uw).
Notation add_generic := (add_generic uw).

Lemma classify_spec s :
  match key s with
  | Some (p :: k) =>
      exists r, s = p :: r /\
        ((p = DOT /\ classify s = if str_eqb (p :: k) s then PSimpleClass else PComplexClass k) \/
         (p = HASHC /\ classify s = if str_eqb (p :: k) s then PSimpleId else PComplexId k))
  | Some [] => False
  | None => classify s = PMisc
  end.
Proof.
  destruct (key s) as [k|] eqn:Hk.
  - destruct (key_head uw _ _ Hk) as (p & r & k' & -> & -> & Hp). exists r. split; [reflexivity|].
    unfold C17_Model.classify. destruct Hp as [->| ->].
    + left. split; [reflexivity|]. change (N.eqb DOT DOT) with true. cbn iota. rewrite Hk. reflexivity.
    + right. split; [reflexivity|]. change (N.eqb HASHC DOT) with false.
      change (N.eqb HASHC HASHC) with true. cbn iota. rewrite Hk. reflexivity.
  - unfold C17_Model.classify. destruct s as [|p r]; [reflexivity|].
    destruct (N.eqb p DOT); [rewrite Hk; reflexivity|].
    destruct (N.eqb p HASHC); [rewrite Hk; reflexivity|reflexivity].
Qed.

Lemma classify_misc_iff s : classify s = PMisc <-> key s = None.
Proof.
  pose proof (classify_spec s) as H. destruct (key s) as [[|p k]|]; [contradiction| |tauto].
  destruct H as (r & -> & [(-> & H)|(-> & H)]); rewrite H;
    destruct (str_eqb _ _); split; discriminate.
Qed.

Lemma classify_sc s : classify s = PSimpleClass <-> exists c, s = DOT :: c /\ key s = Some s.
Proof.
  pose proof (classify_spec s) as H. destruct (key s) as [[|p k]|] eqn:Hk; [contradiction| |].
  - destruct H as (r & -> & [(-> & H)|(-> & H)]); rewrite H.
    + destruct (str_eqb (DOT :: k) (DOT :: r)) eqn:E.
      * apply str_eqb_eq in E. inversion E; subst. split; eauto.
      * apply str_eqb_neq in E. split; [discriminate|]. intros (c & A & B). congruence.
    + destruct (str_eqb _ _); (split; [discriminate|]); intros (c & A & B); discriminate.
  - rewrite H. split; [discriminate|]. intros (c & A & B). discriminate.
Qed.

Lemma classify_si s : classify s = PSimpleId <-> exists c, s = HASHC :: c /\ key s = Some s.
Proof.
  pose proof (classify_spec s) as H. destruct (key s) as [[|p k]|] eqn:Hk; [contradiction| |].
  - destruct H as (r & -> & [(-> & H)|(-> & H)]); rewrite H.
    + destruct (str_eqb _ _); (split; [discriminate|]); intros (c & A & B); discriminate.
    + destruct (str_eqb (HASHC :: k) (HASHC :: r)) eqn:E.
      * apply str_eqb_eq in E. inversion E; subst. split; eauto.
      * apply str_eqb_neq in E. split; [discriminate|]. intros (c & A & B). congruence.
  - rewrite H. split; [discriminate|]. intros (c & A & B). discriminate.
Qed.

Lemma classify_cc s k : classify s = PComplexClass k <-> key s = Some (DOT :: k) /\ s <> DOT :: k.
Proof.
  pose proof (classify_spec s) as H. destruct (key s) as [[|p k']|] eqn:Hk; [contradiction| |].
  - destruct H as (r & -> & [(-> & H)|(-> & H)]); rewrite H.
    + destruct (str_eqb (DOT :: k') (DOT :: r)) eqn:E.
      * apply str_eqb_eq in E. split; [discriminate|]. intros (A & B). inversion A; subst. congruence.
      * apply str_eqb_neq in E. split.
        -- intros A. inversion A; subst. split; [reflexivity|]. congruence.
        -- intros (A & B). inversion A; subst. reflexivity.
    + destruct (str_eqb _ _); (split; [discriminate|]); intros (A & B); discriminate.
  - rewrite H. split; [discriminate|]. intros (A & B). discriminate.
Qed.

Lemma classify_ci s k : classify s = PComplexId k <-> key s = Some (HASHC :: k) /\ s <> HASHC :: k.
Proof.
  pose proof (classify_spec s) as H. destruct (key s) as [[|p k']|] eqn:Hk; [contradiction| |].
  - destruct H as (r & -> & [(-> & H)|(-> & H)]); rewrite H.
    + destruct (str_eqb _ _); (split; [discriminate|]); intros (A & B); discriminate.
    + destruct (str_eqb (HASHC :: k') (HASHC :: r)) eqn:E.
      * apply str_eqb_eq in E. split; [discriminate|]. intros (A & B). inversion A; subst. congruence.
      * apply str_eqb_neq in E. split.
        -- intros A. inversion A; subst. split; [reflexivity|]. congruence.
        -- intros (A & B). inversion A; subst. reflexivity.
  - rewrite H. split; [discriminate|]. intros (A & B). discriminate.
Qed.

(* invariant of the stores after adding the generic selectors G *)
Record inv (G : list str) (st : stores) : Prop := mkInv {
  inv_sc : forall c, In c (simple_class st) <-> In (DOT :: c) G /\ classify (DOT :: c) = PSimpleClass;
  inv_cc : forall k, bucket k (complex_class st) = filter (fun s => place_eqb (classify s) (PComplexClass k)) G;
  inv_si : forall c, In c (simple_id st) <-> In (HASHC :: c) G /\ classify (HASHC :: c) = PSimpleId;
  inv_ci : forall k, bucket k (complex_id st) = filter (fun s => place_eqb (classify s) (PComplexId k)) G;
  inv_mi : forall s, In s (misc st) <-> In s G /\ classify s = PMisc
}.

Lemma set_unchanged (mk : str -> str) pl l G s :
  (forall c, In c l <-> In (mk c) G /\ classify (mk c) = pl) -> classify s <> pl ->
  forall c, In c l <-> In (mk c) (G ++ [s]) /\ classify (mk c) = pl.
Proof.
  intros H Hs c. rewrite H, in_app_iff. cbn. split; [intros [A B]; auto|].
  intros [[A|[A|[]]] B]; auto. subst s. contradiction.
Qed.

Lemma set_changed (mk : str -> str) pl l G s c0 :
  (forall a b, mk a = mk b -> a = b) ->
  (forall c, In c l <-> In (mk c) G /\ classify (mk c) = pl) -> classify s = pl -> s = mk c0 ->
  forall c, In c (set_insert c0 l) <-> In (mk c) (G ++ [s]) /\ classify (mk c) = pl.
Proof.
  intros Hinj H Hs -> c. rewrite set_insert_In, H, in_app_iff. cbn. split.
  - intros [->|[A B]]; auto.
  - intros [[A|[A|[]]] B]; [auto|left; apply Hinj; auto].
Qed.

Lemma bucket_unchanged (mk : str -> place) m G s :
  (forall k, bucket k m = filter (fun x => place_eqb (classify x) (mk k)) G) ->
  (forall k, classify s <> mk k) ->
  forall k, bucket k m = filter (fun x => place_eqb (classify x) (mk k)) (G ++ [s]).
Proof.
  intros H Hs k. rewrite filter_snoc, H.
  destruct (place_eqb (classify s) (mk k)) eqn:E; [|rewrite app_nil_r; reflexivity].
  apply place_eqb_eq in E. exfalso. apply (Hs k). exact E.
Qed.

Lemma bucket_changed (mk : str -> place) m G s k0 :
  (forall a b, mk a = mk b <-> a = b) ->
  (forall k, bucket k m = filter (fun x => place_eqb (classify x) (mk k)) G) ->
  classify s = mk k0 ->
  forall k, bucket k (map_push k0 s m) = filter (fun x => place_eqb (classify x) (mk k)) (G ++ [s]).
Proof.
  intros Hmk H Hs k. rewrite filter_snoc, bucket_push, H, Hs.
  destruct (str_eqb k k0) eqn:E.
  - apply str_eqb_eq in E. subst k0.
    assert (E2 : place_eqb (mk k) (mk k) = true) by (apply place_eqb_eq; reflexivity).
    rewrite E2. reflexivity.
  - apply str_eqb_neq in E.
    destruct (place_eqb (mk k0) (mk k)) eqn:E2; [|rewrite app_nil_r; reflexivity].
    apply place_eqb_eq, Hmk in E2. congruence.
Qed.

Lemma inv_empty : inv [] empty_stores.
Proof.
  constructor; cbn; intros; try reflexivity; (split; [intros []|intros [[] _]]).
Qed.

Lemma cons_inj (p : N) (a b : str) : p :: a = p :: b -> a = b.
Proof. congruence. Qed.

Lemma inv_step G st s : inv G st -> inv (G ++ [s]) (add_generic st s).
Proof.
  intros [Hsc Hcc Hsi Hci Hmi]. unfold C17_Model.add_generic.
  assert (Mc : forall a b, PComplexClass a = PComplexClass b <-> a = b) by (intros; split; congruence).
  assert (Mi : forall a b, PComplexId a = PComplexId b <-> a = b) by (intros; split; congruence).
  destruct (classify s) eqn:Hcl; constructor; cbn [simple_class complex_class simple_id complex_id misc].
  (* PSimpleClass *)
  - apply classify_sc in Hcl as Hs. destruct Hs as (c0 & -> & _). cbn [tl].
    apply (set_changed (cons DOT) PSimpleClass); auto. apply cons_inj.
  - apply (bucket_unchanged PComplexClass); auto. intros k; congruence.
  - apply (set_unchanged (cons HASHC)); auto. congruence.
  - apply (bucket_unchanged PComplexId); auto. intros k'; congruence.
  - apply (set_unchanged (fun x => x)); auto. congruence.
  (* PComplexClass *)
  - apply (set_unchanged (cons DOT)); auto. congruence.
  - apply (bucket_changed PComplexClass); auto.
  - apply (set_unchanged (cons HASHC)); auto. congruence.
  - apply (bucket_unchanged PComplexId); auto. intros k'; congruence.
  - apply (set_unchanged (fun x => x)); auto. congruence.
  (* PSimpleId *)
  - apply (set_unchanged (cons DOT)); auto. congruence.
  - apply (bucket_unchanged PComplexClass); auto. intros k; congruence.
  - apply classify_si in Hcl as Hs. destruct Hs as (c0 & -> & _). cbn [tl].
    apply (set_changed (cons HASHC) PSimpleId); auto. apply cons_inj.
  - apply (bucket_unchanged PComplexId); auto. intros k'; congruence.
  - apply (set_unchanged (fun x => x)); auto. congruence.
  (* PComplexId *)
  - apply (set_unchanged (cons DOT)); auto. congruence.
  - apply (bucket_unchanged PComplexClass); auto. intros k'; congruence.
  - apply (set_unchanged (cons HASHC)); auto. congruence.
  - apply (bucket_changed PComplexId); auto.
  - apply (set_unchanged (fun x => x)); auto. congruence.
  (* PMisc *)
  - apply (set_unchanged (cons DOT)); auto. congruence.
  - apply (bucket_unchanged PComplexClass); auto. intros k; congruence.
  - apply (set_unchanged (cons HASHC)); auto. congruence.
  - apply (bucket_unchanged PComplexId); auto. intros k'; congruence.
  - apply (set_changed (fun x => x) PMisc); auto.
Qed.

Lemma build_snoc G s : build (G ++ [s]) = add_generic (build G) s.
Proof. unfold C17_Model.build. rewrite fold_left_app. reflexivity. Qed.

Lemma build_inv G : inv G (build G).
Proof.
  induction G as [|s G IH] using rev_ind; [exact inv_empty|].
  rewrite build_snoc. apply inv_step. exact IH.
Qed.

(* ---------------------------------------------------------------- partition *)
Theorem partition_exclusive G pl s :
  holds (build G) pl s = true <-> In s G /\ classify s = pl.
Proof.
  destruct (build_inv G) as [Hsc Hcc Hsi Hci Hmi]. destruct pl; cbn [holds].
  - destruct s as [|p c].
    + split; [discriminate|]. intros [_ H]. apply classify_sc in H as (c & A & _). discriminate.
    + rewrite andb_true_iff, N.eqb_eq, mem_str_In, Hsc. split.
      * intros (-> & A & B). auto.
      * intros (A & B). apply classify_sc in B as B'. destruct B' as (c' & E & _). inversion E; subst. auto.
  - rewrite mem_str_In, Hcc, filter_In, place_eqb_eq. tauto.
  - destruct s as [|p c].
    + split; [discriminate|]. intros [_ H]. apply classify_si in H as (c & A & _). discriminate.
    + rewrite andb_true_iff, N.eqb_eq, mem_str_In, Hsi. split.
      * intros (-> & A & B). auto.
      * intros (A & B). apply classify_si in B as B'. destruct B' as (c' & E & _). inversion E; subst. auto.
  - rewrite mem_str_In, Hci, filter_In, place_eqb_eq. tauto.
  - rewrite mem_str_In, Hmi. tauto.
Qed.

Corollary partition_unique G s :
  In s G -> exists! pl, holds (build G) pl s = true.
Proof.
  intros H. exists (classify s). split.
  - apply partition_exclusive. auto.
  - intros pl Hpl. apply partition_exclusive in Hpl as [_ E]. exact E.
Qed.

(* ---------------------------------------------------------------- lookup *)
Lemma lookup_one_In simple complex p E c s :
  In s (lookup_one simple complex p E c) <->
  (s = p :: c /\ In c simple /\ ~ In s E) \/ (In s (bucket c complex) /\ ~ In s E).
Proof.
  unfold lookup_one, bucket. rewrite in_app_iff. split.
  - intros [H|H].
    + destruct (mem_str c simple && negb (mem_str (p :: c) E)) eqn:E1; [|destruct H].
      destruct H as [<-|[]]. apply andb_true_iff in E1 as [A B].
      apply mem_str_In in A. apply not_mem_str in B. auto.
    + destruct (map_get c complex); [|destruct H]. apply filter_In in H as [A B].
      apply not_mem_str in B. auto.
  - intros [(-> & A & B)|(A & B)].
    + left. apply mem_str_In in A. apply not_mem_str in B. rewrite A, B. cbn. auto.
    + right. destruct (map_get c complex); [|destruct A]. apply filter_In. split; [exact A|].
      apply not_mem_str. exact B.
Qed.

Lemma class_part G C E s :
  In s (flat_map (lookup_one (simple_class (build G)) (complex_class (build G)) DOT E) C) <->
  In s G /\ ~ In s E /\ exists c, In c C /\ key s = Some (DOT :: c).
Proof.
  destruct (build_inv G) as [Hsc Hcc _ _ _]. rewrite in_flat_map. split.
  - intros (c & Hc & H). apply lookup_one_In in H as [(-> & A & B)|(A & B)].
    + apply Hsc in A as (A1 & A2). apply classify_sc in A2 as (c' & _ & A2). eauto 6.
    + rewrite Hcc in A. apply filter_In in A as (A1 & A2). apply place_eqb_eq, classify_cc in A2 as (A2 & _).
      eauto 6.
  - intros (HG & HE & c & Hc & Hk). exists c. split; [exact Hc|]. apply lookup_one_In.
    destruct (key_head uw _ _ Hk) as (p & r & k' & -> & Ek & _). inversion Ek; subst p k'.
    destruct (str_eqb (DOT :: r) (DOT :: c)) eqn:E1.
    + apply str_eqb_eq in E1. inversion E1; subst r. left. split; [reflexivity|]. split; [|exact HE].
      apply Hsc. split; [exact HG|]. apply classify_sc. eauto.
    + apply str_eqb_neq in E1. right. split; [|exact HE]. rewrite Hcc. apply filter_In. split; [exact HG|].
      apply place_eqb_eq, classify_cc. auto.
Qed.

Lemma id_part G I E s :
  In s (flat_map (lookup_one (simple_id (build G)) (complex_id (build G)) HASHC E) I) <->
  In s G /\ ~ In s E /\ exists c, In c I /\ key s = Some (HASHC :: c).
Proof.
  destruct (build_inv G) as [_ _ Hsi Hci _]. rewrite in_flat_map. split.
  - intros (c & Hc & H). apply lookup_one_In in H as [(-> & A & B)|(A & B)].
    + apply Hsi in A as (A1 & A2). apply classify_si in A2 as (c' & _ & A2). eauto 6.
    + rewrite Hci in A. apply filter_In in A as (A1 & A2). apply place_eqb_eq, classify_ci in A2 as (A2 & _).
      eauto 6.
  - intros (HG & HE & c & Hc & Hk). exists c. split; [exact Hc|]. apply lookup_one_In.
    destruct (key_head uw _ _ Hk) as (p & r & k' & -> & Ek & _). inversion Ek; subst p k'.
    destruct (str_eqb (HASHC :: r) (HASHC :: c)) eqn:E1.
    + apply str_eqb_eq in E1. inversion E1; subst r. left. split; [reflexivity|]. split; [|exact HE].
      apply Hsi. split; [exact HG|]. apply classify_si. eauto.
    + apply str_eqb_neq in E1. right. split; [|exact HE]. rewrite Hci. apply filter_In. split; [exact HG|].
      apply place_eqb_eq, classify_ci. auto.
Qed.

Lemma asked_iff C I s :
  asked uw C I s = true <->
  (exists c, In c C /\ key s = Some (DOT :: c)) \/ (exists i, In i I /\ key s = Some (HASHC :: i)).
Proof.
  unfold asked. destruct (key s) as [[|p k]|] eqn:Hk.
  - split; [discriminate|]. intros [(c & _ & H)|(c & _ & H)]; discriminate.
  - rewrite orb_true_iff, !andb_true_iff, !N.eqb_eq, !mem_str_In. split.
    + intros [(-> & H)|(-> & H)]; eauto.
    + intros [(c & Hc & E)|(c & Hc & E)]; inversion E; subst; auto.
  - split; [discriminate|]. intros [(c & _ & H)|(c & _ & H)]; discriminate.
Qed.

Theorem lookup_set G C I E s :
  In s (hidden (build G) C I E) <-> In s (lookup_ref uw G C I E).
Proof.
  unfold hidden, lookup_ref. rewrite in_app_iff, class_part, id_part, filter_In, andb_true_iff,
    not_mem_str, asked_iff. tauto.
Qed.

Lemma lookup_one_bucket simple complex p E c :
  lookup_one simple complex p E c =
  (if mem_str c simple && negb (mem_str (p :: c) E) then [p :: c] else []) ++
  filter (fun s => negb (mem_str s E)) (bucket c complex).
Proof. unfold lookup_one, bucket. destruct (map_get c complex); reflexivity. Qed.

Lemma lookup_one_nodup_class G E c :
  NoDup G -> NoDup (lookup_one (simple_class (build G)) (complex_class (build G)) DOT E c).
Proof.
  intros HG. destruct (build_inv G) as [Hsc Hcc _ _ _]. rewrite lookup_one_bucket.
  assert (Hb : NoDup (filter (fun s => negb (mem_str s E)) (bucket c (complex_class (build G))))).
  { rewrite Hcc. apply NoDup_filter, NoDup_filter, HG. }
  destruct (mem_str c (simple_class (build G)) && negb (mem_str (DOT :: c) E)) eqn:E1; [|exact Hb].
  cbn [app]. constructor; [|exact Hb]. intros Hin. apply filter_In in Hin as [Hin _].
  rewrite Hcc in Hin. apply filter_In in Hin as [_ Hin]. apply place_eqb_eq, classify_cc in Hin as [_ Hin].
  congruence.
Qed.

Lemma lookup_one_nodup_id G E c :
  NoDup G -> NoDup (lookup_one (simple_id (build G)) (complex_id (build G)) HASHC E c).
Proof.
  intros HG. destruct (build_inv G) as [_ _ Hsi Hci _]. rewrite lookup_one_bucket.
  assert (Hb : NoDup (filter (fun s => negb (mem_str s E)) (bucket c (complex_id (build G))))).
  { rewrite Hci. apply NoDup_filter, NoDup_filter, HG. }
  destruct (mem_str c (simple_id (build G)) && negb (mem_str (HASHC :: c) E)) eqn:E1; [|exact Hb].
  cbn [app]. constructor; [|exact Hb]. intros Hin. apply filter_In in Hin as [Hin _].
  rewrite Hci in Hin. apply filter_In in Hin as [_ Hin]. apply place_eqb_eq, classify_ci in Hin as [_ Hin].
  congruence.
Qed.

Lemma one_class_key G E c s :
  In s (lookup_one (simple_class (build G)) (complex_class (build G)) DOT E c) -> key s = Some (DOT :: c).
Proof.
  intros H. assert (H' : In s (flat_map (lookup_one (simple_class (build G)) (complex_class (build G)) DOT E) [c])).
  { cbn. rewrite app_nil_r. exact H. }
  apply class_part in H' as (_ & _ & c' & [<-|[]] & Hk). exact Hk.
Qed.

Lemma one_id_key G E c s :
  In s (lookup_one (simple_id (build G)) (complex_id (build G)) HASHC E c) -> key s = Some (HASHC :: c).
Proof.
  intros H. assert (H' : In s (flat_map (lookup_one (simple_id (build G)) (complex_id (build G)) HASHC E) [c])).
  { cbn. rewrite app_nil_r. exact H. }
  apply id_part in H' as (_ & _ & c' & [<-|[]] & Hk). exact Hk.
Qed.

Theorem lookup_nodup G C I E : NoDup G -> NoDup C -> NoDup I -> NoDup (hidden (build G) C I E).
Proof.
  intros HG HC HI. unfold hidden. apply NoDup_app_intro.
  - apply NoDup_flat_map; auto.
    + intros c _. apply lookup_one_nodup_class. exact HG.
    + intros x y z _ _ Hx Hy. apply one_class_key in Hx, Hy. congruence.
  - apply NoDup_flat_map; auto.
    + intros c _. apply lookup_one_nodup_id. exact HG.
    + intros x y z _ _ Hx Hy. apply one_id_key in Hx, Hy. congruence.
  - intros s Hs Hs'. apply in_flat_map in Hs as (c & _ & Hs). apply in_flat_map in Hs' as (i & _ & Hs').
    apply one_class_key in Hs. apply one_id_key in Hs'. rewrite Hs in Hs'. discriminate.
Qed.

Theorem lookup_perm G C I E :
  NoDup G -> NoDup C -> NoDup I -> Permutation (hidden (build G) C I E) (lookup_ref uw G C I E).
Proof.
  intros HG HC HI. apply NoDup_Permutation.
  - apply lookup_nodup; auto.
  - unfold lookup_ref. apply NoDup_filter. exact HG.
  - intros s. apply lookup_set.
Qed.

(* ---------------------------------------------------------------- reach *)
Theorem reach_lookup G s k :
  In s G -> key s = Some k ->
  In s (hidden (build G) [tl k] [tl k] []) /\ ~ In s (misc (build G)).
Proof.
  intros HG Hk. split.
  - apply lookup_set. unfold lookup_ref. apply filter_In. split; [exact HG|]. cbn [mem_str negb].
    rewrite andb_true_r. apply asked_iff.
    destruct (key_head uw _ _ Hk) as (p & r & k' & -> & -> & [->| ->]); cbn [tl]; [left|right];
      exists k'; cbn; auto.
  - intros Hm. apply (inv_mi _ _ (build_inv G)) in Hm as [_ Hm]. apply classify_misc_iff in Hm. congruence.
Qed.

Theorem reach_misc G s :
  In s G -> key s = None ->
  In s (misc (build G)) /\ forall C I E, ~ In s (hidden (build G) C I E).
Proof.
  intros HG Hk. split.
  - apply (inv_mi _ _ (build_inv G)). split; [exact HG|]. apply classify_misc_iff. exact Hk.
  - intros C I E Hin. apply lookup_set in Hin. unfold lookup_ref in Hin. apply filter_In in Hin as [_ Hin].
    apply andb_true_iff in Hin as [Hin _]. apply asked_iff in Hin as [(c & _ & H)|(c & _ & H)]; congruence.
Qed.

Theorem reach_once G s :
  In s G ->
  ((exists C I, In s (hidden (build G) C I [])) /\ ~ In s (misc (build G))) \/
  ((forall C I E, ~ In s (hidden (build G) C I E)) /\ In s (misc (build G))).
Proof.
  intros HG. destruct (key s) as [k|] eqn:Hk.
  - left. destruct (reach_lookup G s k HG Hk) as [A B]. split; [eauto|exact B].
  - right. destruct (reach_misc G s HG Hk) as [A B]. auto.
Qed.

(* nothing is in the stores that was not added *)
Theorem lookup_sound G C I E s : In s (hidden (build G) C I E) -> In s G /\ ~ In s E.
Proof.
  intros H. apply lookup_set in H. unfold lookup_ref in H. apply filter_In in H as [A B].
  apply andb_true_iff in B as [_ B]. apply not_mem_str in B. auto.
Qed.
End Stores.

(* ------------------------------------------------------------------ examples: the hypotheses of
   the conditional theorems are satisfiable on non-trivial inputs *)
Lemma nodupb_NoDup l : nodupb l = true -> NoDup l.
Proof.
  induction l as [|x l IH]; cbn; intros H; [constructor|].
  apply andb_true_iff in H as [A B]. constructor; [|auto]. apply not_mem_str. exact A.
Qed.

Local Open Scope string_scope.
Definition ex_uw (c : N) : bool := N.eqb c 233.   (* only U+00E9 is a word character here *)
Definition ex_G : list str :=
  [bs ".ad"; bs ".ad > b"; bs ".\61 d.x"; bs "#x"; bs "#x\.y p"; bs "div[ad]"; bs ".\110000 z"; bs "."].

Example ex_key_escaped : key_from_selector ex_uw (bs ".\31 0\.x > a") = Some (bs ".10.x").
Proof. vm_compute. reflexivity. Qed.
Example ex_key_bad_hex : key_from_selector ex_uw (bs ".a\110000 b") = None.
Proof. vm_compute. reflexivity. Qed.
Example ex_key_items :
  lead_items ex_uw (bs "\31 0\.x > a") = ([HexEsc (bs "31"); Lit (bs "0"); CharEsc (bs "."); Lit (bs "x")], bs " > a").
Proof. vm_compute. reflexivity. Qed.
Example ex_lookup_hyps : NoDup ex_G /\ NoDup [bs "ad"; bs "zz"] /\ NoDup [bs "x"; bs "x.y"].
Proof. repeat split; apply nodupb_NoDup; vm_compute; reflexivity. Qed.
Example ex_lookup :
  hidden (build ex_uw ex_G) [bs "ad"; bs "zz"] [bs "x"; bs "x.y"] [bs ".ad > b"]
  = [bs ".ad"; bs ".\61 d.x"; bs "#x"; bs "#x\.y p"].
Proof. vm_compute. reflexivity. Qed.
Example ex_misc : misc (build ex_uw ex_G) = [bs "div[ad]"; bs ".\110000 z"; bs "."].
Proof. vm_compute. reflexivity. Qed.
Example ex_reach : In (bs ".\61 d.x") ex_G /\ key_from_selector ex_uw (bs ".\61 d.x") = Some (bs ".ad").
Proof. split; [cbn; auto 10|vm_compute; reflexivity]. Qed.

(* ------------------------------------------------------------------ tie to the source text:
   the regular expressions the model transcribes are the ones in /repo now (Generated.v is
   rewritten from src/cosmetic_filter_cache.rs on every run) *)
Lemma regexes_as_modelled :
  Generated.c17_re_plain_selector = "^[#.][\w\\-]+" /\
  Generated.c17_re_plain_selector_escaped = "^[#.](?:\\[0-9A-Fa-f]+ |\\.|\w|-)+" /\
  Generated.c17_re_escape_sequence = "\\([0-9A-Fa-f]+ |.)" /\
  Generated.c17_escape_radix = 16%N /\
  Generated.c17_regex_use_order = ["RE_PLAIN_SELECTOR"; "RE_PLAIN_SELECTOR_ESCAPED"; "RE_ESCAPE_SEQUENCE"] /\
  Generated.c17_store_prefixes = ["."; "#"].
Proof. repeat split. Qed.
