(* Props_C03.v — pinned statements for property C03 (option semantics). *)
From Adb Require Import Base BaseProofs Generated C03_Model C03_Proofs.

Theorem C03_check_options_spec : forall m od odu ond ondu r,
  osorted od -> osorted ond -> union_consistent od odu -> union_consistent ond ondu ->
  check_options m od odu ond ondu r =
  negb (is_badfilter m) && allowed_type m r && scheme_ok m r && party_ok m r
  && domains_ok od ond (rq_src r).
Proof. exact check_options_spec. Qed.
Print Assumptions C03_check_options_spec.
