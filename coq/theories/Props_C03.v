(* Props_C03.v — pinned statements for property C03: a rule applies to a request only if every
   option on it is satisfied (resource type, party, initiator domains, match-case, scheme), and it
   applies whenever they all are and the pattern matches; unsupported schemes are never matched.
   Only statements, `exact`, and Print Assumptions.  Model: C03_Model.v; tables: Generated.v. *)
From Adb Require Import Base BaseProofs Generated C03_Model C03_Proofs.
From Adb Require Struct_Options_Proofs.

(* ---------------------------------------------------------------- check_options, any rule data *)
(* For every mask, every pair of sorted hash arrays with unions that are absent or the OR of the
   array, and every request: check_options is the conjunction of the property text.  Without a
   source ([rq_src r = None]) [domains_ok] is [true]: initiator-domain options are then not
   evaluated at all (by design of check_options; C01 finding F2 is about the index, not this). *)
Theorem C03_check_options_spec : forall m od odu ond ondu r,
  osorted od -> osorted ond -> union_consistent od odu -> union_consistent ond ondu ->
  check_options m od odu ond ondu r =
  negb (is_badfilter m) && allowed_type m r && scheme_ok m r && party_ok m r
  && domains_ok od ond (rq_src r).
Proof. exact check_options_spec. Qed.
Print Assumptions C03_check_options_spec.

Theorem C03_domains_vacuous_without_source : forall od ond, domains_ok od ond None = true.
Proof. exact domains_vacuous_without_source. Qed.
Print Assumptions C03_domains_vacuous_without_source.

(* NetworkFilter::matches is check_options && check_pattern: the options are necessary, and with a
   matching pattern sufficient *)
Theorem C03_matches_iff_options_and_pattern : forall opts_ok pattern_ok,
  rule_matches opts_ok pattern_ok = true <-> opts_ok = true /\ pattern_ok = true.
Proof. intros a b. unfold rule_matches. apply andb_true_iff. Qed.
Print Assumptions C03_matches_iff_options_and_pattern.

(* the `h & union != h` shortcuts never change the answer: all lists of numbers, sorted or not *)
Theorem C03_union_prefilter_neutral : forall od odu ond ondu src,
  union_consistent od odu -> union_consistent ond ondu ->
  included_rejects od odu src = included_rejects od None src
  /\ excluded_rejects ond ondu src = excluded_rejects ond None src.
Proof. exact union_prefilter_neutral. Qed.
Print Assumptions C03_union_prefilter_neutral.

Theorem C03_member_in_union : forall l x, In x l -> N.land x (lor_list l) = x.
Proof. exact member_in_union. Qed.
Print Assumptions C03_member_in_union.

(* binary search on a sorted array is membership *)
Theorem C03_bin_lookup_sorted : forall l x, sorted_N l -> bin_lookup l x = memN x l.
Proof. exact bin_lookup_spec. Qed.
Print Assumptions C03_bin_lookup_sorted.

(* all 17 request types, every mask: the type test is "the mask has the type's bit, or the request
   is a document and the rule an exception" *)
Theorem C03_check_cpt_allowed : forall m t,
  check_cpt_allowed m t =
  has_flag m (mask_of_request_type t) || (request_type_beq t RT_Document && is_exception m).
Proof. exact check_cpt_allowed_spec. Qed.
Print Assumptions C03_check_cpt_allowed.

(* ---------------------------------------------------------------- tables: source vs documentation *)
Theorem C03_option_table_agrees : forall name neg,
  atom_of_outcome (lookup_option name neg) = l0_lookup name neg.
Proof. exact option_table_agrees. Qed.
Print Assumptions C03_option_table_agrees.

Theorem C03_type_alias_table : forall raw, cpt_match_type raw = l0_cpt raw.
Proof. exact cpt_table_agrees. Qed.
Print Assumptions C03_type_alias_table.

Theorem C03_request_class_agrees : forall t,
  mask_of_request_type t =
  match l0_class_of_request t with Some c => class_mask c | None => M_UNMATCHED end.
Proof. exact request_class_agrees. Qed.
Print Assumptions C03_request_class_agrees.

(* ---------------------------------------------------------------- parsing *)
Theorem C03_parse_rule_options_inv : forall h sh s p,
  parse_rule_options h sh (Some s) = POk p ->
  exists opts, parse_filter_options s = POk opts /\ forallb wf_optb opts = true
               /\ validate_options opts = POk tt /\ build_rule h sh opts = POk p.
Proof. exact parse_rule_options_inv. Qed.
Print Assumptions C03_parse_rule_options_inv.

(* every parsed rule carries sorted arrays whose unions are the OR of the arrays *)
Theorem C03_parsed_rule_wf : forall h sh opts p, build_rule h sh opts = POk p ->
  osorted (p_od p) /\ osorted (p_ond p)
  /\ union_consistent (p_od p) (p_odu p) /\ union_consistent (p_ond p) (p_ondu p).
Proof. exact parsed_rule_wf. Qed.
Print Assumptions C03_parsed_rule_wf.

(* mask construction: for every option list the parser can produce and every pattern shape,
   decoding the mask gives the L0 semantics of the options *)
Theorem C03_mask_of_options_types : forall h sh opts p,
  forallb wf_optb opts = true -> build_rule h sh opts = POk p ->
  forall c, has_flag (p_mask p) (class_mask c) = sem_allowed sh (map atom_of_nfopt opts) c.
Proof. exact parsed_type_bits. Qed.
Print Assumptions C03_mask_of_options_types.

Theorem C03_mask_of_options_flags : forall h sh opts p,
  forallb wf_optb opts = true -> build_rule h sh opts = POk p ->
  third_party (p_mask p) = sem_third_ok (map atom_of_nfopt opts)
  /\ first_party (p_mask p) = sem_first_ok (map atom_of_nfopt opts)
  /\ for_http (p_mask p) = sem_http_ok (sh_scheme sh)
  /\ for_https (p_mask p) = sem_https_ok (sh_scheme sh)
  /\ is_badfilter (p_mask p) = has_atom A_badfilter (map atom_of_nfopt opts)
  /\ is_exception (p_mask p) = sh_exception sh
  /\ has_flag (p_mask p) M_MATCH_CASE = has_atom A_matchcase (map atom_of_nfopt opts)
  /\ has_flag (p_mask p) M_UNMATCHED = false.
Proof.
  intros h sh opts p W H.
  exact (conj (parsed_third_party h sh opts p W H) (conj (parsed_first_party h sh opts p W H)
        (conj (parsed_for_http h sh opts p W H) (conj (parsed_for_https h sh opts p W H)
        (conj (parsed_badfilter h sh opts p W H) (conj (parsed_exception h sh opts p W H)
        (conj (parsed_match_case h sh opts p W H) (parsed_unmatched h sh opts p W H)))))))).
Qed.
Print Assumptions C03_mask_of_options_flags.

(* ---------------------------------------------------------------- initiator domains *)
(* On hashes: the included-domain test succeeds iff the source host or one of its dot-suffixes is a
   listed domain — provided the hash is injective on the finite set of strings involved. *)
Theorem C03_included_domains_iff : forall h names host l,
  inj_on h (names ++ host_chain host) ->
  (forall x, In x l <-> In x (map h names)) ->
  (hit l (map h (host_chain host)) = true <-> exists d, In d names /\ dom_covers d host).
Proof. exact included_hit_iff. Qed.
Print Assumptions C03_included_domains_iff.

Theorem C03_source_hashes_are_host_chain : forall h src,
  source_hostname_hashes h src = if is_nil src then None else Some (map h (host_chain src)).
Proof. exact source_hashes_chain. Qed.
Print Assumptions C03_source_hashes_are_host_chain.

Theorem C03_host_chain_covers : forall d host, In d (host_chain host) <-> dom_covers d host.
Proof. exact host_chain_covers. Qed.
Print Assumptions C03_host_chain_covers.

(* string-level reading: some included domain covers the host, and no excluded one does
   (a listed domain covers its subdomains; exclusions win) *)
Theorem C03_l0_domains_ok_iff : forall inc exc host,
  l0_domains_ok inc exc (Some host) = true <->
  (match inc with Some l => exists d, In d l /\ dom_covers d host | None => True end)
  /\ (match exc with Some l => ~ exists d, In d l /\ dom_covers d host | None => True end).
Proof. exact l0_domains_ok_iff. Qed.
Print Assumptions C03_l0_domains_ok_iff.

(* ---------------------------------------------------------------- the L0 sentence for parsed rules *)
(* For every option list the parser can produce, pattern shape, hash function injective on the
   strings involved, and request built by from_detailed_parameters outside the F3 class
   (rule restricted to http/https by its pattern, request neither http nor https):
   the rule's options accept the request iff every option is satisfied in the L0 reading. *)
Theorem C03_rule_applies_iff_options_satisfied : forall h sh opts p,
  forallb wf_optb opts = true -> build_rule h sh opts = POk p ->
  forall raw_type schema src third,
  let r := from_detailed_parameters h raw_type schema src third in
  inj_on h (names_of (sem_domains true opts None) ++ host_chain src) ->
  inj_on h (names_of (sem_domains false opts None) ++ host_chain src) ->
  f3_class sh r = false ->
  rule_check_options p r =
    negb (has_atom A_badfilter (map atom_of_nfopt opts))
    && l0_type_ok (sem_allowed sh (map atom_of_nfopt opts)) (sh_exception sh) (rq_type r)
    && l0_scheme_ok (sh_scheme sh) (scheme_of_request r)
    && l0_party_ok (sem_third_ok (map atom_of_nfopt opts)) (sem_first_ok (map atom_of_nfopt opts)) third
    && l0_domains_ok (sem_domains true opts None) (sem_domains false opts None)
                     (if is_nil src then None else Some src).
Proof. exact parsed_rule_l0. Qed.
Print Assumptions C03_rule_applies_iff_options_satisfied.

(* the scheme sentence holds for every http / https request *)
Theorem C03_scheme_ok_http_https : forall h sh opts p,
  forallb wf_optb opts = true -> build_rule h sh opts = POk p ->
  forall r, xorb (rq_http r) (rq_https r) = true ->
  scheme_ok (p_mask p) r = l0_scheme_ok (sh_scheme sh) (scheme_of_request r).
Proof. exact parsed_scheme_ok_http. Qed.
Print Assumptions C03_scheme_ok_http_https.

(* F3 (known finding): `|http://` applies to a supported websocket request *)
Theorem C03_scheme_refuted :
  exists sh r p, build_rule H0 sh [] = POk p /\ rq_supported r = true
    /\ rule_check_options p r = true
    /\ l0_scheme_ok (sh_scheme sh) (scheme_of_request r) = false.
Proof. exact scheme_refuted. Qed.
Print Assumptions C03_scheme_refuted.

(* ---------------------------------------------------------------- unsupported schemes *)
Theorem C03_is_supported_iff : forall h raw_type schema src third,
  rq_supported (from_detailed_parameters h raw_type schema src third) = mem_str schema supported_schemes.
Proof. exact is_supported_iff. Qed.
Print Assumptions C03_is_supported_iff.

(* whatever the rest of check_parameterised does, an unsupported request gets the default result *)
Theorem C03_unsupported_never : forall (R : Type) (default : R) (rest : request -> R) r,
  rq_supported r = false -> check_parameterised default rest r = default.
Proof. exact @unsupported_never. Qed.
Print Assumptions C03_unsupported_never.

Theorem C03_ws_forces_type : forall h raw_type schema src third,
  mem_str schema [bs "ws"; bs "wss"]%string = true ->
  rq_type (from_detailed_parameters h raw_type schema src third) = RT_Websocket.
Proof. exact ws_forces_type. Qed.
Print Assumptions C03_ws_forces_type.

(* ---- check_options itself, as the translator extracts it on every run (Generated.OptsGen),
   interpreted over the model's request and hash arrays ---- *)
Theorem C03_src_check_options_is_model :
  forall (m : N) (od : option (list N)) (odu : option N) (ond : option (list N)) (ondu : option N) (r : request),
  Struct_Options_Proofs.interp_check_options m od odu ond ondu r = Some (check_options m od odu ond ondu r).
Proof. exact Struct_Options_Proofs.interp_check_options_is_model. Qed.
Print Assumptions C03_src_check_options_is_model.

(* `validate_options` itself (Generated.ValidateGen: start values, the if-chain of the scan as a
   decision list with its assignments, the two rejections after the scan in source order) IS the
   model's validate_options for every option list: the whole list is scanned before anything is
   rejected, so the order in which `csp` and a type option are written does not matter *)
Theorem C03_src_validate_options_is_model : forall opts : list nfopt,
  Struct_Options_Proofs.interp_validate opts = validate_options opts.
Proof. exact Struct_Options_Proofs.interp_validate_is_model. Qed.
Print Assumptions C03_src_validate_options_is_model.

(* the order of the mask-building phases of NetworkFilter::parse, read off the source on every run
   (tools/gen_fragments/c03_parse_phases.py: twelve landmark statements, each exactly once): the
   order C03_Model.parse is written in — in particular the negated types are removed LAST, after the
   scheme transform has had its say *)
Theorem C03_src_parse_phase_order :
  ParsePhasesGen.phases =
  [ParsePhasesGen.Ph_validate_options; ParsePhasesGen.Ph_positive_types;
   ParsePhasesGen.Ph_implicit_network_types; ParsePhasesGen.Ph_default_types;
   ParsePhasesGen.Ph_left_anchor_bits; ParsePhasesGen.Ph_right_anchor_bit; ParsePhasesGen.Ph_is_regex;
   ParsePhasesGen.Ph_hostname_split; ParsePhasesGen.Ph_trailing_star; ParsePhasesGen.Ph_leading_star;
   ParsePhasesGen.Ph_scheme_transform; ParsePhasesGen.Ph_implicit_document;
   ParsePhasesGen.Ph_negated_types_removed].
Proof. reflexivity. Qed.
Print Assumptions C03_src_parse_phase_order.

(* the scheme handling of Request::from_detailed_parameters (Generated.RequestGen: the flags of the
   no-scheme arm, the defining formulas of is_http / is_https / is_websocket / is_supported in source
   order, the forced websocket type): evaluated with each formula seeing only the flags defined
   before it, it IS the model's request for every scheme text, raw type, source host and party —
   only http, https, ws and wss are supported, a websocket scheme forces the websocket type *)
Theorem C03_src_request_scheme_handling_is_model :
  forall (h : str -> N) (raw_type schema source_hostname : str) (third : bool),
  Struct_Options_Proofs.interp_request h raw_type schema source_hostname third =
  Some (from_detailed_parameters h raw_type schema source_hostname third).
Proof. exact Struct_Options_Proofs.interp_request_is_model. Qed.
Print Assumptions C03_src_request_scheme_handling_is_model.
