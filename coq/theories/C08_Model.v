(* C08_Model.v — a deserialized engine behaves like the one that was serialized.
   Vocabulary on top of Wire_Model.v: what the query functions read of an engine state, the
   equivalence "same reads", the two documented losses of the format (F8 removeparam rules, F9
   scriptlet permission bits) as hypotheses, and a canonical digest of a state for the
   correspondence run.  Definitions only. *)
From Adb Require Import Base Generated Wire_Model Wire_Proofs.
From Coq Require Import Permutation.

(* HostnameFilterBin::get(hash): absent and empty bins read the same *)
Definition bins_equiv {V} (a b : list (N * list V)) : Prop := forall k, getn k a = getn k b.

Record hostdb_equiv (a b : hostdb) : Prop := {
  he_hide : bins_equiv (h_hide a) (h_hide b); he_unhide : bins_equiv (h_unhide a) (h_unhide b);
  he_inject : bins_equiv (h_inject a) (h_inject b);
  he_uninject : bins_equiv (h_uninject a) (h_uninject b);
  he_proc : bins_equiv (h_proc a) (h_proc b); he_proc_exc : bins_equiv (h_proc_exc a) (h_proc_exc b) }.

Record cosmetic_equiv (a b : cosmetic) : Prop := {
  ce_simple_class : Permutation (c_simple_class a) (c_simple_class b);
  ce_simple_id : Permutation (c_simple_id a) (c_simple_id b);
  ce_complex_class : Permutation (c_complex_class a) (c_complex_class b);
  ce_complex_id : Permutation (c_complex_id a) (c_complex_id b);
  ce_specific : hostdb_equiv (c_specific a) (c_specific b);
  ce_misc : Permutation (c_misc a) (c_misc b) }.

(* every list the network / CSP / generichide queries probe, bucket by bucket in stored order *)
Record blocker_equiv (a b : blocker) : Prop := {
  be_csp : Permutation (b_csp a) (b_csp b);
  be_exceptions : Permutation (b_exceptions a) (b_exceptions b);
  be_importants : Permutation (b_importants a) (b_importants b);
  be_redirects : Permutation (b_redirects a) (b_redirects b);
  be_removeparam : Permutation (b_removeparam a) (b_removeparam b);
  be_filters_tagged : Permutation (b_filters_tagged a) (b_filters_tagged b);
  be_filters : Permutation (b_filters a) (b_filters b);
  be_generic_hide : Permutation (b_generic_hide a) (b_generic_hide b);
  be_tags : b_tags_enabled a = b_tags_enabled b;
  be_tagged_all : b_tagged_all a = b_tagged_all b;
  be_opt : b_opt a = b_opt b }.

(* ---- hypotheses of the round-trip theorem *)
(* F8: the format has no removeparam list *)
Definition no_removeparam (b : blocker) : Prop := b_removeparam b = [].
(* F9: LegacySpecificFilterType::ScriptInject carries no PermissionMask *)
Definition scriptlet_perms_default (c : cosmetic) : Prop :=
  Forall (fun kb => Forall (fun sm => snd sm = 0) (snd kb)) (h_inject (c_specific c)).
(* a modifier value is only ever kept for redirect / csp rules (removeparam rules live in the
   removeparam list only): true of every state Blocker::new builds, checked on dumped states *)
Definition bucket_rules_ok (m : bucket_map) : Prop := Forall (fun kb => Forall mo_ok (snd kb)) m.
Record rules_ok (b : blocker) : Prop := {
  ro_csp : bucket_rules_ok (b_csp b); ro_exceptions : bucket_rules_ok (b_exceptions b);
  ro_importants : bucket_rules_ok (b_importants b); ro_redirects : bucket_rules_ok (b_redirects b);
  ro_filters_tagged : bucket_rules_ok (b_filters_tagged b); ro_filters : bucket_rules_ok (b_filters b);
  ro_generic_hide : bucket_rules_ok (b_generic_hide b); ro_tagged_all : Forall mo_ok (b_tagged_all b) }.

(* Blocker::use_tags on an engine *)
Definition engine_use_tags (build_list : list rule -> bool -> bucket_map) (tags : list str) (e : engine) : engine :=
  {| e_blocker := use_tags build_list tags (e_blocker e); e_cosmetic := e_cosmetic e; e_resources := e_resources e |}.

(* ------------------------------------------------------------------ boolean versions / digest (harness) *)
Definition mo_okb (r : rule) : bool :=
  is_redirect r || is_csp r || match r_modifier r with None => true | Some _ => false end.
Definition bucket_rules_okb (m : bucket_map) : bool := forallb (fun kb => forallb mo_okb (snd kb)) m.
Definition rules_okb (b : blocker) : bool :=
  bucket_rules_okb (b_csp b) && bucket_rules_okb (b_exceptions b) && bucket_rules_okb (b_importants b) &&
  bucket_rules_okb (b_redirects b) && bucket_rules_okb (b_filters_tagged b) && bucket_rules_okb (b_filters b) &&
  bucket_rules_okb (b_generic_hide b) && forallb mo_okb (b_tagged_all b).

Definition is_nil {A} (l : list A) : bool := match l with [] => true | _ => false end.
(* canonical rendering of everything the queries read, as a msgpack tree (compared by encoding) *)
Definition d_rule (r : rule) : mp :=
  MArr [MInt (r_id r); MInt (r_mask r); t_filter_part (r_filter r); t_opt MStr (r_modifier r);
        t_opt MStr (r_hostname r); t_opt MStr (r_tag r); t_opt (t_list MInt) (r_opt_domains r);
        t_opt (t_list MInt) (r_opt_not_domains r); t_opt MStr (r_raw r);
        t_opt MInt (r_dunion r); t_opt MInt (r_ndunion r)].   (* the unions are read by check_options *)
Definition d_buckets (m : bucket_map) : mp := t_nmap (t_list d_rule) (sort_nmap m).
Definition d_bins (m : list (N * list str)) : mp :=
  t_nmap (t_list MStr) (sort_nmap (filter (fun kb => negb (is_nil (snd kb))) m)).
Definition d_inject (m : list (N * list (str * N))) : mp :=
  t_nmap (t_list (fun sm => MArr [MStr (fst sm); MInt (snd sm)])) (sort_nmap (filter (fun kb => negb (is_nil (snd kb))) m)).
Definition digest (e : engine) : mp :=
  let b := e_blocker e in let c := e_cosmetic e in let h := c_specific c in
  MArr [d_buckets (b_csp b); d_buckets (b_exceptions b); d_buckets (b_importants b); d_buckets (b_redirects b);
        d_buckets (b_removeparam b); d_buckets (b_filters_tagged b); d_buckets (b_filters b);
        d_buckets (b_generic_hide b); t_list MStr (sort_set (b_tags_enabled b)); t_list d_rule (b_tagged_all b);
        MBool (b_opt b);
        t_list MStr (sort_set (c_simple_class c)); t_list MStr (sort_set (c_simple_id c));
        t_smap (t_list MStr) (sort_smap (c_complex_class c)); t_smap (t_list MStr) (sort_smap (c_complex_id c));
        d_bins (h_hide h); d_bins (h_unhide h); d_inject (h_inject h); d_bins (h_uninject h);
        d_bins (h_proc h); d_bins (h_proc_exc h); t_list MStr (sort_set (c_misc c))].
Definition mp_eqb (a b : mp) : bool := bytes_eqb (encode a) (encode b).
Definition empty_cosmetic : cosmetic := Build_cosmetic [] [] [] [] (Build_hostdb [] [] [] [] [] []) [].
(* an engine that only carries enabled tags (the loader before Engine::deserialize) *)
Definition loader (tags : list str) : engine :=
  Build_engine (Build_blocker [] [] [] [] [] [] [] [] tags [] true) empty_cosmetic [].

(* ------------------------------------------------------------------ one query end to end *)
(* CosmeticFilterCache::hidden_class_id_selectors (src/cosmetic_filter_cache.rs): for every class,
   `.class` if it is a simple rule and not excepted, then the complex selectors keyed by the class
   that are not excepted; then the same for ids with `#`. *)
Definition DOT : N := 46.
Definition HASH : N := 35.
Definition hidden_for (prefix : N) (simple : list str) (complex : list (str * list str))
           (exceptions : list str) (name : str) : list str :=
  (if mem_str name simple && negb (mem_str (prefix :: name) exceptions) then [prefix :: name] else []) ++
  filter (fun sel => negb (mem_str sel exceptions)) (gets name complex).
Definition hidden_class_id_selectors (c : cosmetic) (classes ids exceptions : list str) : list str :=
  flat_map (hidden_for DOT (c_simple_class c) (c_complex_class c) exceptions) classes ++
  flat_map (hidden_for HASH (c_simple_id c) (c_complex_id c) exceptions) ids.
