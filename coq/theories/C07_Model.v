(* C07_Model.v — tag operations as a small op language over the Net_Model blocker.
   OpReload models Engine::deserialize of the bytes of an engine built from the same rules:
   the rule state is replaced, the caller's enabled set is re-installed with use_tags. *)
From Adb Require Import Base Generated Hashing Net_Model.

Inductive tag_op := OpUse (ts : list str) | OpEnable (ts : list str) | OpDisable (ts : list str)
                  | OpReload.

Section WithHash.
Variable h : str -> N.
Variable L : list rule.      (* the rules the engine (and any serialized copy) was built from *)

Definition engine_deserialize (cur fresh : blocker) : blocker := use_tags h fresh (b_tags cur).

Definition apply_op (b : blocker) (o : tag_op) : blocker :=
  match o with
  | OpUse ts => use_tags h b ts
  | OpEnable ts => enable_tags h b ts
  | OpDisable ts => disable_tags h b ts
  | OpReload => engine_deserialize b (blocker_new h L)
  end.
Definition run_ops (ops : list tag_op) : blocker := fold_left apply_op ops (blocker_new h L).

(* the abstract tag set after an op: plain set algebra on lists *)
Definition set_op (T : list str) (o : tag_op) : list str :=
  match o with
  | OpUse ts => ts
  | OpEnable ts => ts ++ T
  | OpDisable ts => filter (fun t => negb (mem_str t ts)) T
  | OpReload => T
  end.
Definition set_ops (ops : list tag_op) : list str := fold_left set_op ops [].
End WithHash.
