(* C14_Model.v — L1 model of Blocker::apply_removeparam (src/blocker.rs) and the L0 vocabulary
   used to state "exactly the named parameters are removed and nothing else".
   Definitions only. *)
From Adb Require Import Base.

Definition QMARK : N := 63.  Definition HASH : N := 35.  Definition AMP : N := 38.  Definition EQS : N := 61.

Definition null {A} (l : list A) : bool := match l with [] => true | _ => false end.

(* Rust str::split_once('=') *)
Definition split_once (c : N) (s : str) : option (str * str) :=
  match find_byte c s with
  | Some i => Some (take i s, drop (S i) s)
  | None => None
  end.

(* A parameter is removed iff it is key=value with a non-empty value and its key is one of [names]. *)
Definition removed (names : list str) (p : str) : bool :=
  match split_once EQS p with
  | Some (k, v) => negb (null v) && mem_str k names
  | None => false
  end.
Definition kept (names : list str) (p : str) : bool := negb (removed names p).

(* L1: mirrors the Rust function statement by statement ([names] = the modifier options of the
   removeparam rules returned by check_all; the result does not depend on their order). *)
Definition apply_removeparam (names : list str) (url : str) : option str :=
  let fragment_start := match find_byte HASH url with Some j => j | None => length url end in
  match find_byte QMARK (take fragment_start url) with
  | None => None
  | Some i =>
      let params_start := S i in
      let hash_index := match find_byte HASH (drop params_start url) with
                        | Some j => (params_start + j)%nat
                        | None => length url end in
      let qparams := take (hash_index - params_start) (drop params_start url) in
      let params := split_on AMP qparams in
      if forallb (kept names) params then None
      else
        let p := join_with [AMP] (filter (kept names) params) in
        Some (take i url ++ (if null p then [] else QMARK :: p) ++ drop hash_index url)
  end.

(* rewritten_url of a verdict: no rewrite is reported when an $important rule blocks *)
Definition rewritten_url (important : bool) (names : list str) (url : str) : option str :=
  if important then None else apply_removeparam names url.

(* L0: the three-way split of a URL that the property talks about.
   [pre] = scheme, host and path: everything before the first '?' that precedes any '#';
   [q]   = the query without its '?', up to the fragment;
   [post]= the fragment including '#', or empty. *)
Inductive url_split (url pre q post : str) : Prop :=
| UrlSplit :
    url = pre ++ QMARK :: q ++ post ->
    find_byte QMARK pre = None -> find_byte HASH pre = None ->
    find_byte HASH q = None ->
    (post = [] \/ exists r, post = HASH :: r) ->
    url_split url pre q post.

Definition no_query (url : str) : Prop :=
  forall i, find_byte QMARK url = Some i ->
            exists j, find_byte HASH url = Some j /\ (j < i)%nat.

(* boolean comparison helpers for the correspondence cases *)
Definition ostr_eqb := opt_eqb str_eqb.
