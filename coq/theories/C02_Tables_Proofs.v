(* C02_Tables_Proofs.v — translator tie for compile_regex: the escape class and the replacement
   texts extracted from src/regex_manager.rs on every run (Generated.C02Gen) are the ones the model
   (pass_special / pass_wildcard / pass_anchor / pass_anchor_eol) and the L0 printer use. *)
From Adb Require Import Base BaseProofs Generated C02_Model.

Definition subsetN (a b : list N) : bool := forallb (fun x => memN x b) a.
Lemma memN_same_set a b : subsetN a b = true -> subsetN b a = true -> forall x, memN x a = memN x b.
Proof.
  unfold subsetN. intros H1 H2 x. rewrite forallb_forall in H1, H2.
  destruct (memN x a) eqn:E1, (memN x b) eqn:E2; auto.
  - apply memN_In in E1. apply H1 in E1. congruence.
  - apply memN_In in E2. apply H2 in E2. congruence.
Qed.

(* the characters compile_regex escapes with a backslash are exactly the model's [is_special] *)
Theorem special_table_agrees : forall b, is_special b = memN b C02Gen.special_re_chars.
Proof. unfold is_special. apply memN_same_set; vm_compute; reflexivity. Qed.

(* ... and they are the regex metacharacters an ABP literal can contain (hand-written L0 table:
   | . $ + ? { } ( ) [ ] \ ; '*' and '^' have their own passes) *)
Definition l0_regex_meta : list N := [124; 46; 36; 43; 63; 123; 125; 40; 41; 91; 93; 92].
Theorem special_is_l0_meta : forall b, memN b C02Gen.special_re_chars = memN b l0_regex_meta.
Proof. apply memN_same_set; vm_compute; reflexivity. Qed.

Theorem replacement_texts_agree :
  C02Gen.wildcard_txt = DOTSTAR /\ C02Gen.sep_txt = SEP_TXT /\ C02Gen.sep_eol_txt = SEP_EOL_TXT.
Proof. repeat split; reflexivity. Qed.

(* the separator class: everything but letters, digits and _ - . %  (written [^\w\d\._%-]) *)
Theorem separator_class_text :
  SEP_TXT = bs "(?:[^\w\d\._%-])" /\ SEP_EOL_TXT = bs "(?:[^\w\d\._%-]|$)".
Proof. split; reflexivity. Qed.
