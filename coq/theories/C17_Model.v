(* C17_Model.v — L1 model of the generic class/id cosmetic stores of src/cosmetic_filter_cache.rs
   (key_from_selector with its three regexes, add_generic_filter, hidden_class_id_selectors)
   and the L0 vocabulary used to state "the lookup returns exactly the unexcepted generic
   selectors whose leading class/id (after CSS unescaping) was asked for".
   Definitions only (proofs: C17_Proofs.v).

   Strings are byte lists holding UTF-8 (what a Rust &str guarantees).  The regex crate works on
   characters, so the model decodes one character at a time ([uncons_char]); behaviour on
   ill-formed UTF-8 is "stop", which no &str can reach. *)
From Adb Require Import Base.

Definition DOT : N := 46.      (* . *)
Definition HASHC : N := 35.    (* # *)
Definition BSL : N := 92.      (* \ *)
Definition DASH : N := 45.     (* - *)
Definition SPACE : N := 32.
Definition NL : N := 10.
Definition USCORE : N := 95.   (* _ *)

Definition null {A} (l : list A) : bool := match l with [] => true | _ => false end.
Definition omap {A B} (f : A -> B) (x : option A) : option B :=
  match x with Some a => Some (f a) | None => None end.

(* ---------------------------------------------------------------- characters *)
(* [0-9A-Fa-f] *)
Definition is_hex (c : N) : bool :=
  is_digit c || (N.leb 65 c && N.leb c 70) || (N.leb 97 c && N.leb c 102).
Definition hexdig (c : N) : N :=
  if is_digit c then c - 48 else if N.leb c 70 then c - 55 else c - 87.
(* value of a hex digit string, most significant first (u32::from_str_radix without the bound) *)
Definition hex_value (h : str) : N := fold_left (fun acc c => 16 * acc + hexdig c) h 0.

(* number of bytes of the UTF-8 character starting with lead byte [b]; 0 = not a lead byte *)
Definition utf8_width (b : N) : nat :=
  if N.ltb b 128 then 1
  else if N.ltb b 192 then 0
  else if N.ltb b 224 then 2
  else if N.ltb b 240 then 3
  else if N.ltb b 248 then 4
  else 0.
Definition is_cont (b : N) : bool := N.leb 128 b && N.ltb b 192.

(* first character of [s] (its bytes) and the rest *)
Definition uncons_char (s : str) : option (str * str) :=
  match s with
  | [] => None
  | b :: r =>
      match utf8_width b with
      | O => None
      | S w => if Nat.leb w (length r) && forallb is_cont (take w r)
               then Some (b :: take w r, drop w r) else None
      end
  end.

Definition codepoint (c : str) : N :=
  match c with
  | [a] => a
  | [a; b] => (a mod 32) * 64 + b mod 64
  | [a; b; c] => (a mod 16) * 4096 + (b mod 64) * 64 + c mod 64
  | [a; b; c; d] => (a mod 8) * 262144 + (b mod 64) * 4096 + (c mod 64) * 64 + d mod 64
  | _ => 0
  end.

(* char::from_u32(cp).to_string() for a scalar value *)
Definition utf8_encode (cp : N) : str :=
  if N.ltb cp 128 then [cp]
  else if N.ltb cp 2048 then [192 + cp / 64; 128 + cp mod 64]
  else if N.ltb cp 65536 then [224 + cp / 4096; 128 + (cp / 64) mod 64; 128 + cp mod 64]
  else [240 + cp / 262144; 128 + (cp / 4096) mod 64; 128 + (cp / 64) mod 64; 128 + cp mod 64].
(* u32::from_str_radix(..).ok()? then char::from_u32(..)? : fits u32, not a surrogate, <= 10FFFF *)
Definition is_scalar (cp : N) : bool :=
  N.ltb cp 55296 || (N.ltb 57343 cp && N.ltb cp 1114112).
Definition hex_char (h : str) : option str :=
  let v := hex_value h in
  if N.ltb v 4294967296 && is_scalar v then Some (utf8_encode v) else None.

(* generic "repeat a one-step matcher" loop: (pieces matched, unmatched rest) *)
Fixpoint loop {A} (step : str -> option (A * str)) (fuel : nat) (s : str) : list A * str :=
  match fuel with
  | O => ([], s)
  | S f =>
      match step s with
      | None => ([], s)
      | Some (a, t) => let (l, r) := loop step f t in (a :: l, r)
      end
  end.

(* [0-9A-Fa-f]* greedy *)
Fixpoint hex_run (s : str) : str * str :=
  match s with
  | c :: r => if is_hex c then let (h, t) := hex_run r in (c :: h, t) else ([], s)
  | [] => ([], [])
  end.
(* `[0-9A-Fa-f]+ ` at the head of [r] (the text after a backslash): (digits, rest after the space) *)
Definition match_hex_esc (r : str) : option (str * str) :=
  match hex_run r with
  | (c :: h, sp :: t) => if N.eqb sp SPACE then Some (c :: h, t) else None
  | _ => None
  end.
(* `.` at the head of [r]: any character except \n *)
Definition match_any_esc (r : str) : option (str * str) :=
  match uncons_char r with
  | Some (c, t) => if str_eqb c [NL] then None else Some (c, t)
  | None => None
  end.

Section Unicode.
(* regex-crate `\w` on code points >= 128 (Alphabetic, M, Nd, Pc, Join_Control): third-party table *)
Variable uni_word : N -> bool.

(* `\w` on one character *)
Definition is_word_char (c : str) : bool :=
  match c with
  | [] => false
  | [b] => N.ltb b 128 && (is_alnum b || N.eqb b USCORE)
  | _ => uni_word (codepoint c)
  end.

(* ------------------------------------------------------------ L1: key_from_selector *)
(* RE_PLAIN_SELECTOR  ^[#.][\w\\-]+  : one iteration of the class *)
Definition step_plain (s : str) : option (str * str) :=
  match uncons_char s with
  | Some (c, t) => if is_word_char c || str_eqb c [BSL] || str_eqb c [DASH] then Some (c, t) else None
  | None => None
  end.

(* RE_PLAIN_SELECTOR_ESCAPED  ^[#.](?:\\[0-9A-Fa-f]+ |\\.|\w|-)+  : one iteration, alternatives in
   order (leftmost-first; nothing follows the loop, so the first alternative that matches is kept) *)
Definition step_escaped (s : str) : option (str * str) :=
  match s with
  | [] => None
  | b :: r =>
      if N.eqb b BSL then
        match match_hex_esc r with
        | Some (h, t) => Some (b :: h ++ [SPACE], t)
        | None => match match_any_esc r with
                  | Some (c, t) => Some (b :: c, t)
                  | None => None
                  end
        end
      else match uncons_char s with
           | Some (c, t) => if is_word_char c || str_eqb c [DASH] then Some (c, t) else None
           | None => None
           end
  end.

(* RE_ESCAPE_SEQUENCE  \\([0-9A-Fa-f]+ |.)  iterated over the matched text with captures_iter:
   text between matches is copied, a one-character capture is copied, a longer capture is a hex
   number followed by a space.  [skip] = bytes of the current match still to be stepped over. *)
Fixpoint unescape (skip : nat) (s : str) : option str :=
  match s with
  | [] => Some []
  | b :: r =>
      match skip with
      | S k => unescape k r
      | O =>
          if N.eqb b BSL then
            match match_hex_esc r with
            | Some (h, _) =>
                match hex_char h with
                | Some ch => omap (app ch) (unescape (S (length h)) r)
                | None => None
                end
            | None =>
                match match_any_esc r with
                | Some (c, _) => omap (app c) (unescape (length c) r)
                | None => omap (cons b) (unescape O r)    (* no match starts here *)
                end
            end
          else omap (cons b) (unescape O r)
      end
  end.

Definition key_from_selector (s : str) : option str :=
  match s with
  | [] => None
  | p :: r =>
      if N.eqb p HASHC || N.eqb p DOT then
        let m1 := List.concat (fst (loop step_plain (length r) r)) in
        if null m1 then None
        else if negb (memN BSL m1) then Some (p :: m1)
        else
          let m2 := List.concat (fst (loop step_escaped (length r) r)) in
          if null m2 then None else unescape O (p :: m2)
      else None
  end.

(* ------------------------------------------------------------ L0: CSS identifier items *)
(* The leading simple selector is `.`/`#` followed by the longest run of identifier items; an item
   is a word character or '-', a hex escape `\h+ ` or a character escape `\c`. *)
Inductive item :=
| Lit (c : str)        (* a word character or '-' : stands for itself *)
| HexEsc (h : str)     (* backslash, hex digits h, one space : the character with that code *)
| CharEsc (c : str).   (* backslash, any character but newline : that character *)

Definition spelling (it : item) : str :=
  match it with Lit c => c | HexEsc h => BSL :: h ++ [SPACE] | CharEsc c => BSL :: c end.
Definition value (it : item) : option str :=
  match it with Lit c => Some c | HexEsc h => hex_char h | CharEsc c => Some c end.
Definition spell (l : list item) : str := List.concat (map spelling l).
Fixpoint css_value (l : list item) : option str :=
  match l with
  | [] => Some []
  | it :: r => match value it, css_value r with
               | Some v, Some w => Some (v ++ w)
               | _, _ => None
               end
  end.

Definition next_item (s : str) : option (item * str) :=
  match s with
  | [] => None
  | b :: r =>
      if N.eqb b BSL then
        match match_hex_esc r with
        | Some (h, t) => Some (HexEsc h, t)
        | None => match match_any_esc r with
                  | Some (c, t) => Some (CharEsc c, t)
                  | None => None
                  end
        end
      else match uncons_char s with
           | Some (c, t) => if is_word_char c || str_eqb c [DASH] then Some (Lit c, t) else None
           | None => None
           end
  end.

(* items of the leading identifier of [r] and what follows it *)
Definition lead_items (r : str) : list item * str := loop next_item (length r) r.
(* the leading simple selector of [s] (as written) *)
Definition leading_simple_selector (s : str) : str :=
  match s with [] => [] | p :: r => p :: spell (fst (lead_items r)) end.
(* CSS unescaping of a simple selector; None when it has no identifier or a hex escape that is not
   a Unicode scalar value *)
Definition css_unescape (sel : str) : option str :=
  match sel with
  | [] => None
  | p :: r => let its := fst (lead_items r) in
              if null its then None else omap (cons p) (css_value its)
  end.
Definition key_spec (s : str) : option str :=
  match s with
  | [] => None
  | p :: _ => if N.eqb p HASHC || N.eqb p DOT then css_unescape (leading_simple_selector s) else None
  end.

(* ------------------------------------------------------------ L1: the stores *)
Inductive place :=
| PSimpleClass | PComplexClass (k : str) | PSimpleId | PComplexId (k : str) | PMisc.

Definition place_eqb (a b : place) : bool :=
  match a, b with
  | PSimpleClass, PSimpleClass | PSimpleId, PSimpleId | PMisc, PMisc => true
  | PComplexClass x, PComplexClass y | PComplexId x, PComplexId y => str_eqb x y
  | _, _ => false
  end.

(* the if-chain of add_generic_filter: where a generic plain selector goes *)
Definition classify (s : str) : place :=
  match s with
  | [] => PMisc
  | p :: _ =>
      if N.eqb p DOT then
        match key_from_selector s with
        | Some key => if str_eqb key s then PSimpleClass else PComplexClass (tl key)
        | None => PMisc
        end
      else if N.eqb p HASHC then
        match key_from_selector s with
        | Some key => if str_eqb key s then PSimpleId else PComplexId (tl key)
        | None => PMisc
        end
      else PMisc
  end.

Record stores := mkStores {
  simple_class : list str;                  (* HashSet<String> *)
  complex_class : list (str * list str);    (* HashMap<String, Vec<String>> *)
  simple_id : list str;
  complex_id : list (str * list str);
  misc : list str                           (* HashSet<String> *)
}.
Definition empty_stores := mkStores [] [] [] [] [].

Definition set_insert (x : str) (l : list str) : list str := if mem_str x l then l else l ++ [x].
Fixpoint map_get (k : str) (m : list (str * list str)) : option (list str) :=
  match m with
  | [] => None
  | (k', b) :: r => if str_eqb k k' then Some b else map_get k r
  end.
(* get_mut(..).push(v) or insert(k, vec![v]) *)
Fixpoint map_push (k v : str) (m : list (str * list str)) : list (str * list str) :=
  match m with
  | [] => [(k, [v])]
  | (k', b) :: r => if str_eqb k k' then (k', b ++ [v]) :: r else (k', b) :: map_push k v r
  end.

Definition add_generic (st : stores) (s : str) : stores :=
  match classify s with
  | PSimpleClass => mkStores (set_insert (tl s) (simple_class st)) (complex_class st) (simple_id st) (complex_id st) (misc st)
  | PComplexClass k => mkStores (simple_class st) (map_push k s (complex_class st)) (simple_id st) (complex_id st) (misc st)
  | PSimpleId => mkStores (simple_class st) (complex_class st) (set_insert (tl s) (simple_id st)) (complex_id st) (misc st)
  | PComplexId k => mkStores (simple_class st) (complex_class st) (simple_id st) (map_push k s (complex_id st)) (misc st)
  | PMisc => mkStores (simple_class st) (complex_class st) (simple_id st) (complex_id st) (set_insert s (misc st))
  end.
(* the stores after adding the generic plain selectors [G] in order *)
Definition build (G : list str) : stores := fold_left add_generic G empty_stores.

(* ------------------------------------------------------------ L1: hidden_class_id_selectors *)
Definition lookup_one (simple : list str) (complex : list (str * list str)) (p : N) (E : list str)
           (c : str) : list str :=
  (if mem_str c simple && negb (mem_str (p :: c) E) then [p :: c] else []) ++
  match map_get c complex with
  | Some b => filter (fun s => negb (mem_str s E)) b
  | None => []
  end.
Definition hidden (st : stores) (C I E : list str) : list str :=
  flat_map (lookup_one (simple_class st) (complex_class st) DOT E) C ++
  flat_map (lookup_one (simple_id st) (complex_id st) HASHC E) I.

(* ------------------------------------------------------------ L0: where a selector is held *)
Definition bucket (k : str) (m : list (str * list str)) : list str :=
  match map_get k m with Some b => b | None => [] end.
Definition holds (st : stores) (pl : place) (s : str) : bool :=
  match pl with
  | PSimpleClass => match s with p :: c => N.eqb p DOT && mem_str c (simple_class st) | [] => false end
  | PComplexClass k => mem_str s (bucket k (complex_class st))
  | PSimpleId => match s with p :: c => N.eqb p HASHC && mem_str c (simple_id st) | [] => false end
  | PComplexId k => mem_str s (bucket k (complex_id st))
  | PMisc => mem_str s (misc st)
  end.

(* "the leading class/id of s is one of the names asked for" *)
Definition asked (C I : list str) (s : str) : bool :=
  match key_from_selector s with
  | Some (p :: k) => (N.eqb p DOT && mem_str k C) || (N.eqb p HASHC && mem_str k I)
  | _ => false
  end.
Definition lookup_ref (G C I E : list str) : list str :=
  filter (fun s => asked C I s && negb (mem_str s E)) G.

(* ------------------------------------------------------------ comparison helpers (harness) *)
Definition ostr_eqb := opt_eqb str_eqb.
Definition strs_eqb := list_eqb str_eqb.
Definition subset_str (a b : list str) : bool := forallb (fun x => mem_str x b) a.
Definition set_eqb (a b : list str) : bool :=
  Nat.eqb (length a) (length b) && subset_str a b && subset_str b a.
(* dumped map (sorted by key) vs model map: same number of keys, every dumped bucket identical *)
Definition map_eqb (dump model : list (str * list str)) : bool :=
  Nat.eqb (length dump) (length model) &&
  forallb (fun kb => opt_eqb strs_eqb (map_get (fst kb) model) (Some (snd kb))) dump.
Definition stores_eqb (st : stores) (sc : list str) (cc : list (str * list str)) (si : list str)
           (ci : list (str * list str)) (mi : list str) : bool :=
  set_eqb sc (simple_class st) && map_eqb cc (complex_class st) &&
  set_eqb si (simple_id st) && map_eqb ci (complex_id st) && set_eqb mi (misc st).
(* multiset equality of two string lists *)
Fixpoint remove_one (x : str) (l : list str) : option (list str) :=
  match l with
  | [] => None
  | y :: r => if str_eqb x y then Some r else omap (cons y) (remove_one x r)
  end.
Fixpoint multiset_eqb (a b : list str) : bool :=
  match a with
  | [] => null b
  | x :: r => match remove_one x b with Some b' => multiset_eqb r b' | None => false end
  end.
Fixpoint nodupb (l : list str) : bool :=
  match l with [] => true | x :: r => negb (mem_str x r) && nodupb r end.
End Unicode.
