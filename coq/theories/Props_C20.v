(* Props_C20.v — pinned statements for property C20 (content-blocking export).
   Only statements, `exact`, and Print Assumptions. *)
From Adb Require Import Base BaseProofs Generated C20_Model C20_Proofs.

(* ---- ordering: in the output of into_content_blocking every ignore-previous-rules entry comes
   after every other entry; for every pair of converters (so in particular the modelled ones). *)
Theorem C20_cb_order :
  forall (NF CF : Type) (rawN : NF -> option str) (convN : NF -> res (conv (list cb_rule)))
         (rawC : CF -> option str) (convC : CF -> res (conv cb_rule))
         nets coss rules used i j a b,
  into_cb_gen rawN convN rawC convC true nets coss = Ok (Some (rules, used)) ->
  nth_error rules i = Some a -> nth_error rules j = Some b ->
  is_ignore a = true -> is_ignore b = false -> (j < i)%nat.
Proof. exact (@into_cb_order). Qed.
Print Assumptions C20_cb_order.

(* ---- filters_used is exactly the lines whose conversion returned Ok, network lines first, in
   input order; and the rule list is exactly what those conversions emitted, stably partitioned,
   plus the first-party document exception when a network rule was used. *)
Theorem C20_cb_used_exact :
  forall (NF CF : Type) (rawN : NF -> option str) (convN : NF -> res (conv (list cb_rule)))
         (rawC : CF -> option str) (convC : CF -> res (conv cb_rule)) nets coss rules used,
  into_cb_gen rawN convN rawC convC true nets coss = Ok (Some (rules, used)) ->
  rules = (filter not_ignore (emitted_net convN nets) ++ filter not_ignore (emitted_cos convC coss)) ++
          (filter is_ignore (emitted_net convN nets) ++ filter is_ignore (emitted_cos convC coss)) ++
          (if is_nil (used_lines rawN convN nets) then [] else [ignore_previous_fp_documents]) /\
  used = used_lines rawN convN nets ++ used_lines rawC convC coss.
Proof. exact (@into_cb_spec). Qed.
Print Assumptions C20_cb_used_exact.

(* a used network line really produced output (one or two rules) *)
Theorem C20_cb_used_nonempty : forall norm nf rules,
  convert_network norm nf = Ok (COk rules) -> rules <> [].
Proof. exact convert_network_nonempty. Qed.
Print Assumptions C20_cb_used_nonempty.

Theorem C20_cb_not_debug :
  forall (NF CF : Type) (rawN : NF -> option str) (convN : NF -> res (conv (list cb_rule)))
         (rawC : CF -> option str) (convC : CF -> res (conv cb_rule)) nets coss,
  into_cb_gen rawN convN rawC convC false nets coss = Ok None.
Proof. exact (@into_cb_not_debug). Qed.
Print Assumptions C20_cb_not_debug.

(* ---- never both an if-domain and an unless-domain list; [norm] and [idna] (to_lowercase + idna)
   are arbitrary functions *)
Theorem C20_cb_if_unless_exclusive : forall norm idna nets coss rules used r,
  into_content_blocking norm idna true nets coss = Ok (Some (rules, used)) -> In r rules ->
  r_if r = None \/ r_unless r = None.
Proof. exact into_cb_exclusive. Qed.
Print Assumptions C20_cb_if_unless_exclusive.

(* ---- every string of every emitted rule is ASCII *)
Theorem C20_cb_ascii : forall norm idna nets coss rules used r,
  into_content_blocking norm idna true nets coss = Ok (Some (rules, used)) -> In r rules ->
  all_ascii (print_regex (r_url r)) = true /\
  (forall s, r_selector r = Some s -> all_ascii s = true) /\
  (forall l d, r_if r = Some l -> In d l -> all_ascii d = true) /\
  (forall l d, r_unless r = Some l -> In d l -> all_ascii d = true).
Proof. intros. apply rule_is_ascii_spec. eapply into_cb_ascii; eauto. Qed.
Print Assumptions C20_cb_ascii.

(* ---- translator ties: the converter's escape set is Safari's metacharacter set minus the
   wildcard (which is rewritten to ".*"); the text constants are the printed ASTs *)
Theorem C20_special_table : forall c, In c safari_meta <-> In c (STAR :: cb_special_chars).
Proof. exact special_table_ok. Qed.
Print Assumptions C20_special_table.

Theorem C20_text_constants :
  print_regex (mkRx true host_prefix_items false) = cb_host_prefix_text /\
  print_regex (mkRx true (sch_http ++ any_star) false) = cb_scheme_part_http /\
  print_regex (mkRx true (sch_https ++ any_star) false) = cb_scheme_part_https /\
  print_regex (mkRx true (sch_ws ++ any_star) false) = cb_scheme_part_ws /\
  print_regex (mkRx true sch_both false) = cb_scheme_only_both /\
  print_regex (mkRx true sch_http false) = cb_scheme_only_http /\
  print_regex (mkRx true sch_https false) = cb_scheme_only_https /\
  print_regex (mkRx true sch_ws false) = cb_scheme_only_ws /\
  print_regex match_all = cb_match_all_text.
Proof. exact (conj host_prefix_text_ok scheme_texts_ok). Qed.
Print Assumptions C20_text_constants.

Theorem C20_resource_table : cb_resource_table = l0_resource_table.
Proof. exact resource_table_ok. Qed.
Print Assumptions C20_resource_table.
