(* Props_C20.v — pinned statements for property C20 (content-blocking export).
   Only statements, `exact`, and Print Assumptions. *)
From Adb Require Import Base BaseProofs Generated C20_Model C20_Proofs.

(* ---- ordering: in the output of into_content_blocking every ignore-previous-rules entry comes
   after every other entry; for every pair of converters (so in particular the modelled ones). *)
Theorem C20_cb_order :
  forall (NF CF : Type) (rawN : NF -> option str) (convN : NF -> res (conv (list cb_rule)))
         (rawC : CF -> option str) (convC : CF -> res (conv cb_rule))
         nets coss rules used i j a b,
  into_cb_gen rawN convN rawC convC true nets coss = Ok (Some (rules, used)) ->
  nth_error rules i = Some a -> nth_error rules j = Some b ->
  is_ignore a = true -> is_ignore b = false -> (j < i)%nat.
Proof. exact (@into_cb_order). Qed.
Print Assumptions C20_cb_order.

(* ---- filters_used is exactly the lines whose conversion returned Ok, network lines first, in
   input order; and the rule list is exactly what those conversions emitted, stably partitioned,
   plus the first-party document exception when a network rule was used. *)
Theorem C20_cb_used_exact :
  forall (NF CF : Type) (rawN : NF -> option str) (convN : NF -> res (conv (list cb_rule)))
         (rawC : CF -> option str) (convC : CF -> res (conv cb_rule)) nets coss rules used,
  into_cb_gen rawN convN rawC convC true nets coss = Ok (Some (rules, used)) ->
  rules = (filter not_ignore (emitted_net convN nets) ++ filter not_ignore (emitted_cos convC coss)) ++
          (filter is_ignore (emitted_net convN nets) ++ filter is_ignore (emitted_cos convC coss)) ++
          (if is_nil (used_lines rawN convN nets) then [] else [ignore_previous_fp_documents]) /\
  used = used_lines rawN convN nets ++ used_lines rawC convC coss.
Proof. exact (@into_cb_spec). Qed.
Print Assumptions C20_cb_used_exact.

(* a used network line really produced output (one or two rules) *)
Theorem C20_cb_used_nonempty : forall norm nf rules,
  convert_network norm nf = Ok (COk rules) -> rules <> [].
Proof. exact convert_network_nonempty. Qed.
Print Assumptions C20_cb_used_nonempty.

Theorem C20_cb_not_debug :
  forall (NF CF : Type) (rawN : NF -> option str) (convN : NF -> res (conv (list cb_rule)))
         (rawC : CF -> option str) (convC : CF -> res (conv cb_rule)) nets coss,
  into_cb_gen rawN convN rawC convC false nets coss = Ok None.
Proof. exact (@into_cb_not_debug). Qed.
Print Assumptions C20_cb_not_debug.

(* ---- never both an if-domain and an unless-domain list; [norm] and [idna] (to_lowercase + idna)
   are arbitrary functions *)
Theorem C20_cb_if_unless_exclusive : forall norm idna nets coss rules used r,
  into_content_blocking norm idna true nets coss = Ok (Some (rules, used)) -> In r rules ->
  r_if r = None \/ r_unless r = None.
Proof. exact into_cb_exclusive. Qed.
Print Assumptions C20_cb_if_unless_exclusive.

(* ---- every string of every emitted rule is ASCII *)
Theorem C20_cb_ascii : forall norm idna nets coss rules used r,
  into_content_blocking norm idna true nets coss = Ok (Some (rules, used)) -> In r rules ->
  all_ascii (print_regex (r_url r)) = true /\
  (forall s, r_selector r = Some s -> all_ascii s = true) /\
  (forall l d, r_if r = Some l -> In d l -> all_ascii d = true) /\
  (forall l d, r_unless r = Some l -> In d l -> all_ascii d = true).
Proof. intros. apply rule_is_ascii_spec. eapply into_cb_ascii; eauto. Qed.
Print Assumptions C20_cb_ascii.

(* ---- translator ties: the converter's escape set is Safari's metacharacter set minus the
   wildcard (which is rewritten to ".*"); the text constants are the printed ASTs *)
Theorem C20_special_table : forall c, In c safari_meta <-> In c (STAR :: cb_special_chars).
Proof. exact special_table_ok. Qed.
Print Assumptions C20_special_table.

Theorem C20_text_constants :
  print_regex (mkRx true host_prefix_items false) = cb_host_prefix_text /\
  print_regex (mkRx true (sch_http ++ any_star) false) = cb_scheme_part_http /\
  print_regex (mkRx true (sch_https ++ any_star) false) = cb_scheme_part_https /\
  print_regex (mkRx true (sch_ws ++ any_star) false) = cb_scheme_part_ws /\
  print_regex (mkRx true sch_both false) = cb_scheme_only_both /\
  print_regex (mkRx true sch_http false) = cb_scheme_only_http /\
  print_regex (mkRx true sch_https false) = cb_scheme_only_https /\
  print_regex (mkRx true sch_ws false) = cb_scheme_only_ws /\
  print_regex match_all = cb_match_all_text.
Proof. exact (conj host_prefix_text_ok scheme_texts_ok). Qed.
Print Assumptions C20_text_constants.

Theorem C20_resource_table : cb_resource_table = l0_resource_table.
Proof. exact resource_table_ok. Qed.
Print Assumptions C20_resource_table.

(* ---- the printer: for EVERY well-formed AST the printed text is inside the conservative Safari
   subset ('.', '*' '+' '?' only after an atom or group, character classes, one level of groups,
   ^ only first, $ only last, backslash only before a metacharacter, never the empty text) *)
Theorem C20_cb_printer_subset : forall r, regex_wf r = true -> safari_ok (print_regex r) = true.
Proof. exact printer_subset. Qed.
Print Assumptions C20_cb_printer_subset.

(* every literal metacharacter is printed escaped, every other literal as itself *)
Theorem C20_cb_printer_escapes : forall c,
  (In c safari_meta -> c <> STAR -> print_atom (ALit c) = [BSL; c]) /\
  (~ In c safari_meta -> print_atom (ALit c) = [c]).
Proof. exact printer_escapes. Qed.
Print Assumptions C20_cb_printer_escapes.

(* the AST view is the converter's text pipeline: TRAILING_SEPARATOR, SPECIAL_CHARS -> \$1, \* -> .* *)
Theorem C20_cb_pipeline_text : forall p h,
  flat_map print_item (part_items p) = fix_wildcards (escape_special (strip_trailing_caret p)) /\
  flat_map print_item (lits h) = escape_special h.
Proof. intros p h. exact (conj (part_items_text p) (lits_text h)). Qed.
Print Assumptions C20_cb_pipeline_text.

(* ---- every url-filter emitted by into_content_blocking is in the subset (in particular never the
   empty text: since fix 26d3d76 an empty filter is replaced by ".*"; the former finding
   C20_empty_url_filter is now the Example sep_only_rule_match_all in C20_Proofs.v).
   Hypothesis: the parser invariant "no '*' inside the hostname" (host_ok). *)
Theorem C20_cb_filter_subset : forall norm idna nets coss rules used r,
  into_content_blocking norm idna true nets coss = Ok (Some (rules, used)) ->
  Forall (fun nf => host_ok nf = true) nets ->
  In r rules -> safari_ok (print_regex (r_url r)) = true.
Proof. exact into_cb_subset. Qed.
Print Assumptions C20_cb_filter_subset.

(* the url-filter of a network rule is never empty, whatever the rule *)
Theorem C20_cb_filter_nonempty : forall nf u, url_filter_final nf = Ok (COk u) -> print_regex u <> [].
Proof. exact url_filter_nonempty. Qed.
Print Assumptions C20_cb_filter_nonempty.

(* non-ASCII patterns and hostnames never produce output *)
Theorem C20_cb_non_ascii_rejected : forall norm nf rules,
  convert_network norm nf = Ok (COk rules) ->
  (forall p, nf_filter nf = FSimple p -> all_ascii p = true) /\
  (forall h, nf_hostname nf = Some h -> all_ascii h = true).
Proof. exact convert_network_rejects_non_ascii. Qed.
Print Assumptions C20_cb_non_ascii_rejected.

(* ---- no panic.  Hypotheses are parser invariants only: debug rules carry their raw line; a domain
   option implies a '$' in the raw line (dollar_ok, justified by C20_cb_reparse_dollar); cosmetic
   raw lines contain '#' and have a non-empty selector list (cos_ok).  Since fix 26d3d76 a rule
   that lost all scheme bits is a conversion error (Example ws_neg_rule_skipped in C20_Proofs.v);
   the former carve-out C20_scheme_bits_lost_unreachable is gone. *)
Theorem C20_cb_total : forall norm idna debug nets coss,
  Forall (fun nf => nf_raw nf <> None /\ dollar_ok nf = true) nets ->
  Forall (fun cf => cf_raw cf <> None /\ cos_ok cf = true) coss ->
  is_ok (into_content_blocking norm idna debug nets coss) = true.
Proof. exact into_cb_total_concrete. Qed.
Print Assumptions C20_cb_total.

(* the network converter alone needs only the '$' invariant *)
Theorem C20_cb_total_network : forall norm nf, dollar_ok nf = true -> is_ok (convert_network norm nf) = true.
Proof. exact convert_network_total. Qed.
Print Assumptions C20_cb_total_network.

(* the parser takes its options after the LAST '$', the converter unwraps the FIRST '$': whenever
   the parser saw options, the converter's unwrap succeeds *)
Theorem C20_cb_reparse_dollar : forall line opts,
  parser_options line = Some opts -> memN DOLLAR line = true /\ find_byte DOLLAR line <> None.
Proof. exact parser_options_dollar. Qed.
Print Assumptions C20_cb_reparse_dollar.

(* ---- inclusion for plain patterns (no '*', no '^').
   (a) no hostname: p, |p, p|, |p| — whenever the pattern occurs in the URL (at the start / end when
   anchored), every emitted rule's url-filter matches the URL. *)
Theorem C20_cb_plain_inclusion_pattern : forall norm nf rules p url r,
  convert_network norm nf = Ok (COk rules) -> In r rules ->
  nf_hostname nf = None -> nf_filter nf = FSimple p -> plain p ->
  (has (nf_mask nf) M_IS_LEFT_ANCHOR = true \/ has (nf_mask nf) (N.lor M_FROM_HTTP M_FROM_HTTPS) = true) ->
  plain_match (has (nf_mask nf) M_IS_LEFT_ANCHOR) (has (nf_mask nf) M_IS_RIGHT_ANCHOR) p url ->
  ast_matches (r_url r) url.
Proof. exact convert_network_plain_pattern. Qed.
Print Assumptions C20_cb_plain_inclusion_pattern.

(* (b) ||h and ||h/path.  Partial: only URLs of the shape scheme://[labels.]h path with non-empty
   labels and no credentials (user:pw@h is the known finding C20_userinfo_url); the match must
   start at the beginning of the host or after a label (a rule hostname that itself starts with
   a dot is the known finding C20_leading_dot_hostname); rules without pattern and hostname
   (exported as ^https?://) are not covered (known finding
   C20_patternless_rule_misses_websocket_urls).  The three classes are refuted below. *)
Theorem C20_cb_plain_inclusion_host_partial : forall norm nf rules h p url r,
  convert_network norm nf = Ok (COk rules) -> In r rules ->
  nf_hostname nf = Some h -> has (nf_mask nf) M_IS_HOSTNAME_REGEX = false ->
  ((nf_filter nf = FEmpty /\ p = []) \/ (nf_filter nf = FSimple p /\ plain p)) ->
  host_path_match (match nf_filter nf with FEmpty => false | _ => has (nf_mask nf) M_IS_RIGHT_ANCHOR end) h p url ->
  ast_matches (r_url r) url.
Proof. exact convert_network_plain_host. Qed.
Print Assumptions C20_cb_plain_inclusion_host_partial.

(* the two carve-outs of the inclusion clause, refuted on the model (both replay on the crate):
   a rule without pattern is exported as ^https?:// and misses the wss:// URL it matches; *)
Theorem C20_cb_patternless_ws_refuted : forall norm,
  exists r, convert_network norm patternless_rule = Ok (COk [r]) /\
            print_regex (r_url r) = bs "^https?://" /\
            ~ ast_matches (r_url r) (bs "wss://x.com/").
Proof. exact cb_patternless_ws_refuted. Qed.
Print Assumptions C20_cb_patternless_ws_refuted.

(* ||a is exported as ^[^:]+:(//)?([^/]+\.)?a, which cannot match s://u@a although a is the host *)
Theorem C20_cb_userinfo_refuted : forall norm,
  exists r, convert_network norm userinfo_rule = Ok (COk [r]) /\
            print_regex (r_url r) = bs "^[^:]+:(//)?([^/]+\.)?a" /\
            ~ ast_matches (r_url r) (bs "s://u@a").
Proof. exact cb_userinfo_refuted. Qed.
Print Assumptions C20_cb_userinfo_refuted.

(* ||.a is exported as ^[^:]+:(//)?([^/]+\.)?\.a, which cannot match s://x.a although the crate's
   hostname anchoring accepts it *)
Theorem C20_cb_leading_dot_refuted : forall norm,
  exists r, convert_network norm leading_dot_rule = Ok (COk [r]) /\
            print_regex (r_url r) = bs "^[^:]+:(//)?([^/]+\.)?\.a" /\
            ~ ast_matches (r_url r) (bs "s://x.a").
Proof. exact cb_leading_dot_refuted. Qed.
Print Assumptions C20_cb_leading_dot_refuted.
