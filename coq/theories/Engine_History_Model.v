(* Engine_History_Model.v — the rule-by-rule specification of the WHOLE BlockerResult as one record
   (Engine_Model has it field by field: spec_result_bits, spec_redirects, spec_param_names), and the
   concrete history used as non-vacuity witness in Engine_History_Proofs.  Definitions only. *)
From Adb Require Import Base Generated Hashing Net_Model C05_Model C06_History_Model Engine_Model.
From Adb Require C13_Model C14_Model C15_Model.

Section Spec.
Variable matches : rule -> bool.          (* NetworkFilter::matches against the request at hand *)
Variable supported : bool.                (* request.is_supported *)
Variable url : str.                       (* request.original_url *)
Variable st : C13_Model.storage.          (* the loaded resources *)

(* L0: what Blocker::check_parameterised(request, resources, mr, fc) has to answer when the rules
   [L] are loaded and the tags [T] enabled.  Every rule is tested on its own; no bucket, token, probe,
   fused rule or history appears. *)
Definition spec_result (mr fc : bool) (L : list rule) (T : list str) : result :=
  if negb supported then default_result else
  let v := spec_verdict_p matches mr fc L T in
  {| r_matched := v_matched v; r_important := v_important v;
     r_exception := v_exception v; r_filter := v_filter v;
     r_redirect := C13_Model.redirect_of st (spec_redirects matches L);
     r_rewritten := C14_Model.rewritten_url (v_important v) (spec_param_names matches L) url |}.
End Spec.

(* ================================================================ a concrete history
   request https://x.com/ads/banner.js?utm=1&id=2&keep=3 ; options always pass ; a pattern matches
   when the URL contains it.  Ids are the crate's (seahash of the rule line). *)
Definition eh_url : str := bs "https://x.com/ads/banner.js?utm=1&id=2&keep=3".
Definition eh_om : N -> bool := fun _ => true.
Definition eh_pm : N -> str -> bool := fun _ s => containsb s eh_url.
Definition eh_probes : list N := probes seahash None eh_url.

Definition eh_line (line : string) (extra : N) (pat : string) (modifier tag : option string) : rule :=
  mkr (seahash (bs line)) (N.lor M_DEFAULT_OPTIONS extra) (FSimple (bs pat)) None None None
      (option_map bs modifier) (option_map bs tag).

Definition eh_blk  := eh_line "/ads/banner" 0 "/ads/banner" None None.
Definition eh_miss := eh_line "/ads/zz9" 0 "/ads/zz9" None None.
Definition eh_red1 := eh_line "/ads/$redirect-rule=noopjs:10" M_IS_REDIRECT "/ads/" (Some "noopjs:10") None.
Definition eh_red2 := eh_line "/banner.$redirect-rule=1x1.gif:20" M_IS_REDIRECT "/banner." (Some "1x1.gif:20") None.
Definition eh_redx := eh_line "@@/banner.$redirect-rule=1x1.gif" (N.lor M_IS_REDIRECT M_IS_EXCEPTION) "/banner." (Some "1x1.gif") None.
Definition eh_rp1  := eh_line "/ads/$removeparam=utm" M_IS_REMOVEPARAM "/ads/" (Some "utm") None.
Definition eh_rp2  := eh_line "/banner$removeparam=id" M_IS_REMOVEPARAM "/banner" (Some "id") None.
Definition eh_rp3  := eh_line "/zz9$removeparam=keep" M_IS_REMOVEPARAM "/zz9" (Some "keep") None.
Definition eh_csp1 := eh_line "/ads/$csp=script-src 'self'" M_IS_CSP "/ads/" (Some "script-src 'self'") None.
Definition eh_csp2 := eh_line "/ads/$csp=img-src 'none',tag=t1" M_IS_CSP "/ads/" (Some "img-src 'none'") (Some "t1").
Definition eh_csp3 := eh_line "/ads/$csp=font-src 'none',tag=t3" M_IS_CSP "/ads/" (Some "font-src 'none'") (Some "t3").
Definition eh_bad  := eh_line "/ads/banner$badfilter" M_BAD_FILTER "/ads/banner" None None.

Definition eh_ops : list hop :=
  [ HAdd eh_blk; HAdd eh_red1; HAdd eh_rp1; HAdd eh_csp2; HAdd eh_miss; HOptimize;
    HAdd eh_red2; HAdd eh_rp1; HEnable [bs "t1"; bs "t3"]; HAdd eh_rp2; HAdd eh_rp3; HAdd eh_csp1; HAdd eh_csp3;
    HAdd eh_redx; HOptimize; HAdd eh_bad; HDisable [bs "t1"; bs "t3"]; HUse [bs "t2"; bs "t1"] ].

(* the same rules and tags, arriving otherwise: no optimize(), other order, repeats, other tag switches *)
Definition eh_ops' : list hop :=
  [ HUse [bs "t1"; bs "t1"]; HAdd eh_redx; HAdd eh_csp3; HAdd eh_csp1; HAdd eh_rp3; HAdd eh_rp2; HAdd eh_red2; HAdd eh_red2;
    HAdd eh_miss; HAdd eh_csp2; HAdd eh_rp1; HEnable [bs "t2"]; HAdd eh_red1; HAdd eh_bad; HAdd eh_blk; HAdd eh_blk ].

Definition eh_store : C13_Model.storage :=
  C13_Model.from_resources
    [ C13_Model.mk_res (bs "noop.js") [bs "noopjs"] (C13Gen.Kind_Mime C13Gen.Mime_ApplicationJavascript) (bs "KGZ1bmM=") false true 0;
      C13_Model.mk_res (bs "1x1.gif") [] (C13Gen.Kind_Mime C13Gen.Mime_ImageGif) (bs "R0lG") false true 0 ].
