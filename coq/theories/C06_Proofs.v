(* C06_Proofs.v — answers do not depend on history:
   (A) the regex cache always holds, at key a, the regex of the rule currently at address a, so a
       match through the cache equals a match with a freshly compiled regex, for every sequence
       of allocations, matches, discards and rebuilds (tag changes / optimize);
   (B) a blocker grown by add_filter represents the accepted rules exactly like the batch-built
       one, so both give the rule-by-rule verdict. *)
From Adb Require Import Base BaseProofs Generated Hashing Net_Model Net_Proofs C06_Model.
From Coq Require Import ZifyBool ZifyNat ZifyN.

(* ================================================================ (A) regex cache *)
Lemma aget_adel_same m a : aget (adel m a) a = None.
Proof.
  induction m as [|[k v] r IH]; cbn; [reflexivity|].
  destruct (N.eqb k a) eqn:E; [exact IH|]. cbn. rewrite E. exact IH.
Qed.
Lemma aget_adel_other m a b : a <> b -> aget (adel m a) b = aget m b.
Proof.
  intros Hab. induction m as [|[k v] r IH]; cbn; [reflexivity|].
  destruct (N.eqb k a) eqn:E.
  - apply N.eqb_eq in E. subst k. destruct (N.eqb a b) eqn:E2; [apply N.eqb_eq in E2; contradiction|exact IH].
  - cbn. destruct (N.eqb k b); [reflexivity|exact IH].
Qed.
Lemma aget_aset_same m a v : aget (aset m a v) a = Some v.
Proof. unfold aset. cbn. rewrite N.eqb_refl. reflexivity. Qed.
Lemma aget_aset_other m a b v : a <> b -> aget (aset m a v) b = aget m b.
Proof.
  intros Hab. unfold aset. cbn. destruct (N.eqb a b) eqn:E; [apply N.eqb_eq in E; contradiction|].
  apply aget_adel_other. exact Hab.
Qed.

Theorem cache_inv_step s o : CacheInv s -> op_ok s o -> CacheInv (fst (rstep s o)).
Proof.
  intros Hinv Hok. destruct o as [a p|a|a|dead fresh|dead fresh]; cbn [rstep].
  - (* alloc *) cbn in Hok. intros a' q Hc. cbn [fst heap cache] in *.
    destruct (N.eq_dec a a') as [->|Hne].
    + specialize (Hinv _ _ Hc). congruence.
    + rewrite aget_aset_other by exact Hne. apply Hinv. exact Hc.
  - (* match *) destruct (aget (heap s) a) as [p|] eqn:Hh; [|exact Hinv].
    destruct (aget (cache s) a) as [q|] eqn:Hc; [exact Hinv|].
    intros a' q' Hc'. cbn [fst heap cache] in *.
    destruct (N.eq_dec a a') as [->|Hne].
    + rewrite aget_aset_same in Hc'. congruence.
    + rewrite aget_aset_other in Hc' by exact Hne. apply Hinv. exact Hc'.
  - (* discard *) intros a' q Hc. cbn [fst heap cache] in *.
    destruct (N.eq_dec a a') as [->|Hne].
    + rewrite aget_adel_same in Hc. discriminate.
    + rewrite aget_adel_other in Hc by exact Hne. apply Hinv. exact Hc.
  - (* rebuild + clear *) intros a' q Hc. cbn in Hc. discriminate.
  - destruct Hok.
Qed.

(* what a match answers with is the pattern of the rule that lives at that address now *)
Theorem match_uses_current s a q :
  CacheInv s -> snd (rstep s (RMatch a)) = Some q -> aget (heap s) a = Some q.
Proof.
  intros Hinv. cbn [rstep]. destruct (aget (heap s) a) as [p|] eqn:Hh; cbn; [|discriminate].
  destruct (aget (cache s) a) as [q'|] eqn:Hc; cbn; intros H; inversion H; subst; auto.
  rewrite <- Hh. apply Hinv. exact Hc.
Qed.

(* cache-less reference semantics: every match compiles afresh from the rule at that address *)
Definition fresh_out (s : rstate) (o : rop) : option N :=
  match o with RMatch a => aget (heap s) a | _ => None end.
Fixpoint run_fresh (s : rstate) (ops : list rop) : list (option N) :=
  match ops with
  | [] => []
  | o :: r => fresh_out s o :: run_fresh (fst (rstep s o)) r
  end.

Lemma rstep_out_fresh s o : CacheInv s -> snd (rstep s o) = fresh_out s o.
Proof.
  intros Hinv. destruct o as [a p|a|a|dead fresh|dead fresh]; cbn [rstep fresh_out]; try reflexivity.
  destruct (aget (heap s) a) as [p|] eqn:Hh; cbn; [|reflexivity].
  destruct (aget (cache s) a) as [q|] eqn:Hc; cbn; [|reflexivity].
  rewrite <- Hh. symmetry. apply Hinv. exact Hc.
Qed.

Theorem cache_history_independent ops : forall s,
  CacheInv s -> ops_ok s ops -> snd (run_rops s ops) = run_fresh s ops.
Proof.
  induction ops as [|o r IH]; intros s Hinv Hok; cbn [run_rops run_fresh]; [reflexivity|].
  destruct Hok as [Ho Hr].
  pose proof (rstep_out_fresh s o Hinv) as Hout.
  pose proof (cache_inv_step s o Hinv Ho) as Hinv'.
  destruct (rstep s o) as [s1 out] eqn:E. cbn [fst snd] in *.
  specialize (IH s1 Hinv' Hr). destruct (run_rops s1 r) as [s2 outs]. cbn [snd] in *.
  rewrite Hout, IH. reflexivity.
Qed.

Lemma cache_inv_empty : CacheInv {| heap := []; cache := [] |}.
Proof. intros a q H. discriminate. Qed.

(* Without clear() after a rebuild (the code before the fix) the statement is false: *)
Lemma stale_regex_without_clear :
  exists ops, snd (run_rops {| heap := []; cache := [] |} ops) <> run_fresh {| heap := []; cache := [] |} ops.
Proof.
  exists [RAlloc 1 10; RMatch 1; RRebuildNoClear [1] [(1, 20)]; RMatch 1].
  vm_compute. discriminate.
Qed.

Example cache_ops_example :
  let ops := [RAlloc 1 10; RMatch 1; RDiscard 1; RMatch 1; RRebuild [1] [(1, 20); (2, 30)]; RMatch 1; RMatch 2] in
  ops_ok {| heap := []; cache := [] |} ops /\
  snd (run_rops {| heap := []; cache := [] |} ops) = [None; Some 10; None; Some 10; None; Some 20; Some 30].
Proof. vm_compute. repeat split; auto. Qed.

(* ================================================================ (B) incremental = batch *)
Section Incremental.
Variable h : str -> N.
Variable matches : rule -> bool.
Variable pr : list N.
Hypothesis pr_zero : In 0 pr.

Definition Represents (b : blocker) (L : list rule) (T : list str) : Prop :=
  WellIndexed h (b_importants b) (of_cat CImportant L) /\
  WellIndexed h (b_tagged b) (tagged_active T (of_cat CTagged L)) /\
  WellIndexed h (b_filters b) (of_cat CNormal L) /\
  WellIndexed h (b_exceptions b) (of_cat CException L) /\
  WellIndexed h (b_csp b) (of_cat CCsp L) /\
  WellIndexed h (b_redirects b) (filter is_redirect (live L)) /\
  WellIndexed h (b_removeparam b) (of_cat CRemoveparam L) /\
  WellIndexed h (b_generic_hide b) (of_cat CGenericHide L) /\
  b_tagged_all b = of_cat CTagged L /\ b_tags b = T.

Lemma chk_iff m L Ls tags : WellIndexed h m Ls -> incl Ls L -> id_inj L -> TG h matches pr L ->
  (check matches m pr tags <> None <-> existsb (hit matches tags) Ls = true).
Proof.
  intros Hw Hi Hinj Htg. apply (check_some_iff h matches pr pr_zero m Ls tags Hw).
  - eapply id_inj_incl; eauto.
  - eapply TG_incl; eauto.
Qed.
Lemma chk_none m L Ls tags : WellIndexed h m Ls -> incl Ls L -> id_inj L -> TG h matches pr L ->
  (check matches m pr tags = None <-> existsb (hit matches tags) Ls = false).
Proof.
  intros Hw Hi Hinj Htg. pose proof (chk_iff m L Ls tags Hw Hi Hinj Htg) as H.
  destruct (check matches m pr tags); destruct (existsb (hit matches tags) Ls); split; intros; try congruence.
  - exfalso. assert (Some r <> None) by congruence. apply H in H1. discriminate.
  - exfalso. apply (proj2 H); auto.
Qed.

Theorem represents_verdict b L T :
  Represents b L T -> id_inj L -> TG h matches pr L ->
  blocker_check matches pr b = spec_verdict matches L T.
Proof.
  intros (Wi & Wt & Wn & We & _ & _ & _ & _ & _ & Htags) Hinj Htg.
  unfold blocker_check, spec_verdict. rewrite Htags.
  change (act matches) with (hit matches).
  pose proof (of_cat_incl CImportant L) as I1.
  pose proof (of_cat_incl CNormal L) as I3.
  pose proof (of_cat_incl CException L) as I4.
  assert (I2 : incl (tagged_active T (of_cat CTagged L)) L).
  { intros x Hx. apply (of_cat_incl CTagged L). eapply tagged_active_incl; eauto. }
  destruct (check matches (b_importants b) pr T) as [fi|] eqn:Ei.
  - assert (Himp : existsb (hit matches T) (of_cat CImportant L) = true).
    { apply (chk_iff _ L _ T Wi I1 Hinj Htg). congruence. }
    destruct (check_some_in h matches pr _ _ _ _ Wi Ei) as [Hin _].
    rewrite (cat_important fi (of_cat_cat _ _ _ Hin)). rewrite Himp. cbn. reflexivity.
  - assert (Himp : existsb (hit matches T) (of_cat CImportant L) = false).
    { apply (chk_none _ L _ T Wi I1 Hinj Htg). exact Ei. }
    rewrite Himp. cbn [orb negb andb].
    destruct (check matches (b_tagged b) pr T) as [ft|] eqn:Et.
    + assert (Hb : existsb (hit matches T) (tagged_active T (of_cat CTagged L)) = true).
      { apply (chk_iff _ L _ T Wt I2 Hinj Htg). congruence. }
      destruct (check_some_in h matches pr _ _ _ _ Wt Et) as [Hin _].
      assert (Hni : is_important ft = false).
      { apply cat_not_important. left. eapply of_cat_cat. eapply tagged_active_incl; eauto. }
      unfold orelse. rewrite Hni, Hb. cbn [orb].
      destruct (check matches (b_exceptions b) pr T) as [fe|] eqn:Ee.
      * assert (He : existsb (hit matches T) (of_cat CException L) = true).
        { apply (chk_iff _ L _ T We I4 Hinj Htg). congruence. }
        rewrite He. reflexivity.
      * assert (He : existsb (hit matches T) (of_cat CException L) = false).
        { apply (chk_none _ L _ T We I4 Hinj Htg). exact Ee. }
        rewrite He. reflexivity.
    + assert (Hb : existsb (hit matches T) (tagged_active T (of_cat CTagged L)) = false).
      { apply (chk_none _ L _ T Wt I2 Hinj Htg). exact Et. }
      rewrite Hb. unfold orelse. cbn [orb].
      destruct (check matches (b_filters b) pr []) as [fn|] eqn:En.
      * assert (Hn : existsb (hit matches []) (of_cat CNormal L) = true).
        { apply (chk_iff _ L _ [] Wn I3 Hinj Htg). congruence. }
        destruct (check_some_in h matches pr _ _ _ _ Wn En) as [Hin _].
        assert (Hni : is_important fn = false).
        { apply cat_not_important. right. eapply of_cat_cat; eauto. }
        rewrite Hni, Hn.
        destruct (check matches (b_exceptions b) pr T) as [fe|] eqn:Ee.
        -- assert (He : existsb (hit matches T) (of_cat CException L) = true).
           { apply (chk_iff _ L _ T We I4 Hinj Htg). congruence. }
           rewrite He. reflexivity.
        -- assert (He : existsb (hit matches T) (of_cat CException L) = false).
           { apply (chk_none _ L _ T We I4 Hinj Htg). exact Ee. }
           rewrite He. reflexivity.
      * assert (Hn : existsb (hit matches []) (of_cat CNormal L) = false).
        { apply (chk_none _ L _ [] Wn I3 Hinj Htg). exact En. }
        rewrite Hn. reflexivity.
Qed.

Lemma tagged_active_nil' l : tagged_active [] l = [].
Proof. unfold tagged_active. induction l as [|f r IH]; cbn; [reflexivity|]. destruct (rtag f); exact IH. Qed.

Theorem batch_represents L T : Represents (tags_with_set h (blocker_new h L) T) L T.
Proof.
  unfold Represents, tags_with_set, blocker_new.
  cbn [b_csp b_exceptions b_importants b_redirects b_removeparam b_tagged b_filters b_generic_hide b_tags b_tagged_all].
  repeat split; try apply new_well_indexed; try (intros k x Hx; eapply new_well_indexed; eauto).
Qed.

(* ---- one add_filter step ---- *)
Definition no_badfilter (L : list rule) : Prop := forall f, In f L -> is_badfilter f = false.

Lemma no_bad_ids L : no_badfilter L -> badfilter_ids L = [].
Proof.
  unfold badfilter_ids. induction L as [|f r IH]; intros H; cbn; [reflexivity|].
  rewrite (H f) by (left; reflexivity). apply IH. intros g Hg. apply H. right. exact Hg.
Qed.
Lemma no_bad_live L : no_badfilter L -> live L = L.
Proof.
  intros H. unfold live. rewrite (no_bad_ids L H). cbn.
  induction L as [|f r IH]; cbn; [reflexivity|].
  rewrite (H f) by (left; reflexivity). cbn. f_equal. apply IH. intros g Hg. apply H. right. exact Hg.
Qed.
Lemma no_bad_app L f : no_badfilter L -> is_badfilter f = false -> no_badfilter (L ++ [f]).
Proof. intros H Hf g Hg. apply in_app_or in Hg as [Hg|[<-|[]]]; auto. Qed.

Lemma of_cat_snoc c L f : no_badfilter L -> is_badfilter f = false ->
  of_cat c (L ++ [f]) = of_cat c L ++ (if cat_eqb (category_of f) c then [f] else []).
Proof.
  intros H Hf. unfold of_cat. rewrite (no_bad_live _ (no_bad_app L f H Hf)), (no_bad_live L H).
  rewrite filter_app. cbn. destruct (cat_eqb _ _); reflexivity.
Qed.
Lemma redirects_snoc L f : no_badfilter L -> is_badfilter f = false ->
  filter is_redirect (live (L ++ [f])) = filter is_redirect (live L) ++ (if is_redirect f then [f] else []).
Proof.
  intros H Hf. rewrite (no_bad_live _ (no_bad_app L f H Hf)), (no_bad_live L H).
  rewrite filter_app. cbn. destruct (is_redirect f); reflexivity.
Qed.

Lemma wi_other c L f m : no_badfilter L -> is_badfilter f = false -> category_of f <> c ->
  WellIndexed h m (of_cat c L) -> WellIndexed h m (of_cat c (L ++ [f])).
Proof.
  intros H Hf Hc Hw. rewrite (of_cat_snoc c L f H Hf).
  destruct (cat_eqb (category_of f) c) eqn:E; [|rewrite app_nil_r; exact Hw].
  exfalso. apply Hc. destruct (category_of f), c; cbn in E; congruence.
Qed.
Lemma wi_same c L f m : no_badfilter L -> is_badfilter f = false -> category_of f = c ->
  WellIndexed h m (of_cat c L) -> WellIndexed h (fl_add h m f) (of_cat c (L ++ [f])).
Proof.
  intros H Hf Hc Hw. rewrite (of_cat_snoc c L f H Hf). rewrite Hc.
  replace (cat_eqb c c) with true by (destruct c; reflexivity).
  apply add_well_indexed. exact Hw.
Qed.

Lemma tagged_snoc_other T L f : no_badfilter L -> is_badfilter f = false -> category_of f <> CTagged ->
  tagged_active T (of_cat CTagged (L ++ [f])) = tagged_active T (of_cat CTagged L).
Proof.
  intros H Hf Hc. rewrite (of_cat_snoc CTagged L f H Hf).
  destruct (cat_eqb (category_of f) CTagged) eqn:E; [|rewrite app_nil_r; reflexivity].
  exfalso. apply Hc. destruct (category_of f); cbn in E; congruence.
Qed.

Theorem add_represents b L T f :
  Represents b L T -> no_badfilter L ->
  snd (blocker_add h b f) = AddOk ->
  Represents (fst (blocker_add h b f)) (L ++ [f]) T /\ is_badfilter f = false.
Proof.
  intros (Wi & Wt & Wn & We & Wc & Wr & Wp & Wg & Hall & Htags) Hnb.
  unfold blocker_add. destruct (is_badfilter f) eqn:Hbf; [cbn; discriminate|].
  destruct (filter_exists h b f); [cbn; discriminate|]. intros _. split; [|reflexivity].
  cbn [fst].
  (* the redirect list *)
  set (b1 := if is_redirect f then set_redirects b (fl_add h (b_redirects b) f) else b).
  assert (R1 : WellIndexed h (b_redirects b1) (filter is_redirect (live (L ++ [f])))).
  { rewrite (redirects_snoc L f Hnb Hbf). subst b1. destruct (is_redirect f); cbn [b_redirects set_redirects].
    - apply add_well_indexed. exact Wr.
    - rewrite app_nil_r. exact Wr. }
  assert (E1 : b_importants b1 = b_importants b /\ b_tagged b1 = b_tagged b /\ b_filters b1 = b_filters b
               /\ b_exceptions b1 = b_exceptions b /\ b_csp b1 = b_csp b /\ b_removeparam b1 = b_removeparam b
               /\ b_generic_hide b1 = b_generic_hide b /\ b_tagged_all b1 = b_tagged_all b /\ b_tags b1 = b_tags b).
  { subst b1. destruct (is_redirect f); cbn; repeat split; reflexivity. }
  destruct E1 as (Ei & Et & En & Ee & Ec & Ep & Eg & Ea & Etg).
  clearbody b1.
  assert (Tg : category_of f = CTagged ->
               WellIndexed h (fl_new h (tagged_active (b_tags b) (b_tagged_all b ++ [f])))
                           (tagged_active T (of_cat CTagged (L ++ [f])))
               /\ b_tagged_all b ++ [f] = of_cat CTagged (L ++ [f])).
  { intros Hc. rewrite Htags, Hall. rewrite (of_cat_snoc CTagged L f Hnb Hbf), Hc. cbn [cat_eqb].
    split; [apply new_well_indexed|reflexivity]. }
  assert (Tn : category_of f <> CTagged ->
               WellIndexed h (b_tagged b) (tagged_active T (of_cat CTagged (L ++ [f])))
               /\ b_tagged_all b = of_cat CTagged (L ++ [f])).
  { intros Hc. rewrite (tagged_snoc_other T L f Hnb Hbf Hc). split; [exact Wt|].
    rewrite (of_cat_snoc CTagged L f Hnb Hbf).
    destruct (cat_eqb (category_of f) CTagged) eqn:E; [|rewrite app_nil_r; exact Hall].
    exfalso. apply Hc. destruct (category_of f); cbn in E; congruence. }
  Ltac c06_list Hcat :=
    first [ apply wi_same; solve [auto]
          | apply wi_other; [solve [auto] | solve [auto] | rewrite Hcat; discriminate | solve [auto]] ].
  destruct (category_of f) eqn:Hcat; unfold Represents;
    cbn [b_csp b_exceptions b_importants b_redirects b_removeparam b_tagged b_filters b_generic_hide b_tags b_tagged_all tags_with_set];
    rewrite ?Ei, ?Et, ?En, ?Ee, ?Ec, ?Ep, ?Eg, ?Ea, ?Etg;
    (split; [c06_list Hcat
     | split; [first [exact (proj1 (Tg eq_refl)) | apply Tn; discriminate]
     | split; [c06_list Hcat
     | split; [c06_list Hcat
     | split; [c06_list Hcat
     | split; [exact R1
     | split; [c06_list Hcat
     | split; [c06_list Hcat
     | split; [first [exact (proj2 (Tg eq_refl)) | apply Tn; discriminate]
     | exact Htags]]]]]]]]]).
Qed.

Theorem add_rejected_unchanged b f : snd (blocker_add h b f) <> AddOk -> fst (blocker_add h b f) = b.
Proof.
  unfold blocker_add. destruct (is_badfilter f); [reflexivity|].
  destruct (filter_exists h b f); [reflexivity|]. cbn. congruence.
Qed.

(* any sequence of add_filter calls: the blocker represents the accepted rules *)
Theorem add_all_represents fs : forall b L T,
  Represents b L T -> no_badfilter L ->
  Represents (fst (add_all h b fs)) (L ++ snd (add_all h b fs)) T /\ no_badfilter (L ++ snd (add_all h b fs)).
Proof.
  induction fs as [|f r IH]; intros b L T HR Hnb; cbn [add_all].
  - cbn. rewrite app_nil_r. auto.
  - destruct (blocker_add h b f) as [b1 res] eqn:E.
    destruct res.
    + destruct (add_represents b L T f HR Hnb) as [HR1 Hbf]; [rewrite E; reflexivity|].
      rewrite E in HR1. cbn [fst] in HR1.
      specialize (IH b1 (L ++ [f]) T HR1 (no_bad_app L f Hnb Hbf)).
      destruct (add_all h b1 r) as [b2 acc]. cbn [fst snd] in *.
      rewrite <- app_assoc in IH. exact IH.
    + assert (b1 = b) by (rewrite <- (add_rejected_unchanged b f); rewrite E; cbn; congruence). subst b1.
      specialize (IH b L T HR Hnb). destruct (add_all h b r) as [b2 acc]. exact IH.
    + assert (b1 = b) by (rewrite <- (add_rejected_unchanged b f); rewrite E; cbn; congruence). subst b1.
      specialize (IH b L T HR Hnb). destruct (add_all h b r) as [b2 acc]. exact IH.
Qed.

(* Batch and incremental construction answer alike: both give the rule-by-rule verdict of the
   accepted rules. *)
Theorem incremental_eq_batch fs T :
  let acc := snd (add_all h (tags_with_set h (blocker_new h []) T) fs) in
  id_inj acc -> TG h matches pr acc ->
  blocker_check matches pr (fst (add_all h (tags_with_set h (blocker_new h []) T) fs))
  = blocker_check matches pr (tags_with_set h (blocker_new h acc) T).
Proof.
  intros acc Hinj Htg.
  destruct (add_all_represents fs _ [] T (batch_represents [] T)) as [HR _]; [intros f []|].
  cbn [app] in HR. fold acc in HR.
  rewrite (represents_verdict _ acc T HR Hinj Htg).
  rewrite (represents_verdict _ acc T (batch_represents acc T) Hinj Htg). reflexivity.
Qed.
End Incremental.
