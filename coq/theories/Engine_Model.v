(* Engine_Model.v — the whole answer of Blocker::check_parameterised and Blocker::get_csp_directives,
   assembled from the parts modelled per property: the index and the precedence combiner
   (Net_Model), the redirect choice and the resource gate (C13_Model), the removeparam rewrite
   (C14_Model) and the CSP merge (C15_Model).  Definitions only.

   Rust (src/blocker.rs, check_parameterised):
     if !request.is_supported { return BlockerResult::default() }
     important_filter / filter / exception            -> Net_Model.blocker_check_p
     redirect_filters = redirects.check_all(NO_TAGS)  -> Net_Model.redirect_hits
     redirect_resource (two loops) + get_redirect_resource -> C13_Model.redirect_of
     rewritten_url = if important { None } else { apply_removeparam(removeparam.check_all(NO_TAGS)) }
                                                      -> C14_Model.rewritten_url
   get_csp_directives: request-type gate, csp.check_all(tags_enabled), the two sets
                                                      -> C15_Model.get_csp_for *)
From Adb Require Import Base Generated Hashing Net_Model.
From Adb Require C13_Model C14_Model C15_Model.

Record result := {
  r_matched : bool; r_important : bool; r_exception : bool; r_filter : bool;
  r_redirect : option str;          (* data: URL of the chosen resource *)
  r_rewritten : option str }.       (* rewritten_url *)

Definition default_result : result :=
  {| r_matched := false; r_important := false; r_exception := false; r_filter := false;
     r_redirect := None; r_rewritten := None |}.

(* what the redirect loops / the removeparam loop / get_csp_directives read of a delivered rule *)
Definition rr_of (f : rule) : C13_Model.redirect_rule := C13_Model.mk_rr (is_exception f) (rmod f).
Definition csp_of (f : rule) : C15_Model.csp_rule := C15_Model.mk_csp (is_exception f) (rmod f).
Definition names_of (l : list rule) : list str :=
  flat_map (fun f => match rmod f with Some n => [n] | None => [] end) l.

Section Engine.
Variable matches : rule -> bool.          (* NetworkFilter::matches against the request at hand *)
Variable pr : list N.                     (* the request's probes (get_tokens_for_match) *)
Variable supported : bool.                (* request.is_supported *)
Variable url : str.                       (* request.original_url *)
Variable rtype : request_type.            (* request.request_type *)
Variable st : C13_Model.storage.          (* the loaded resources *)

(* Blocker::check_parameterised(request, resources, matched_rule = mr, force_check_exceptions = fc) *)
Definition engine_check (mr fc : bool) (b : blocker) : result :=
  if negb supported then default_result else
  let v := blocker_check_p matches pr mr fc b in
  {| r_matched := v_matched v; r_important := v_important v;
     r_exception := v_exception v; r_filter := v_filter v;
     r_redirect := C13_Model.redirect_of st (map rr_of (redirect_hits matches pr b));
     r_rewritten := C14_Model.rewritten_url (v_important v) (names_of (removeparam_hits matches pr b)) url |}.

(* Blocker::get_csp_directives, up to the order in which the HashSet is joined *)
Definition engine_csp (b : blocker) : option (list str) :=
  C15_Model.get_csp_for rtype (map csp_of (csp_hits matches pr b)).

(* ---------------------------------------------------------------- L0: rule by rule.
   Every successfully parsed rule is tested individually ([matches]); the hits are combined with the
   documented precedence.  No bucket, token or probe appears below. *)
Definition spec_result_bits (mr fc : bool) (L : list rule) (T : list str) : verdict :=
  if negb supported then {| v_matched := false; v_important := false; v_exception := false; v_filter := false |}
  else spec_verdict_p matches mr fc L T.
(* the matching redirect rules, the matching removeparam rules, the matching active csp rules *)
Definition spec_redirects (L : list rule) : list C13_Model.redirect_rule :=
  map rr_of (spec_redirect_hits matches L).
Definition spec_param_names (L : list rule) : list str := names_of (spec_removeparam_hits matches L).
Definition spec_csp_rules (L : list rule) (T : list str) : list C15_Model.csp_rule :=
  map csp_of (spec_csp_hits matches L T).
End Engine.
