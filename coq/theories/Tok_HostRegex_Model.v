(* Tok_HostRegex_Model.v — definitions for the token guarantee of hostname-anchored rules with a
   regex-type pattern (`||example.com/ads/*/banner^`, `||host.com^*/track`) and for the one
   list-level statement that covers every rule shape handled so far (Tok_HostRegex_Proofs.v):
     - the matcher of check_pattern_hostname_anchor_regex_filter for one pattern,
     - NetworkFilter::matches as the models of C02 (check_pattern) and C03 (check_options) have it,
     - the computable rule class [tg_class].
   Definitions only. *)
From Adb Require Import Base Generated Hashing Net_Model Tok_Proofs Tok_Ext_Model.
From Adb Require C02_Model C03_Model.

(* ---------------------------------------------------------------- ||host + regex-type pattern *)
(* check_pattern_hostname_anchor_regex_filter for one non-empty pattern [s] (FilterPart::Simple,
   IS_REGEX on, not a /re/ rule), the regex crate replaced by the token semantics of the filter
   text (C02: regex_tail, under the crate's contract re_std):
   [la]/[ra] = IS_LEFT_ANCHOR / IS_RIGHT_ANCHOR, [w] = IS_HOSTNAME_REGEX.  at_hostname_end is
   `is_left_anchor && filters.len() > 0` = [la]; the regex (compiled with '^' in front when [la])
   is run on the URL from `request_url.len() - url_after_hostname.len()` on. *)
Definition hostregex_match (la ra w : bool) (hn s url host : str) : bool :=
  match C02_Model.anchored_hostname_end hn host w la with
  | Some k =>
      let after := C02_Model.get_url_after_anchor url host k in
      C02_Model.search la ra (C02_Model.toks s) (drop (length url - length after) url)
  | None => false
  end.

(* ---------------------------------------------------------------- NetworkFilter::matches *)
(* the `filters` iterator check_pattern receives *)
Definition filters_of (f : rule) : list str :=
  match rfilter f with FEmpty => [] | FSimple s => [s] | FAnyOf l => l end.

(* check_pattern(mask, filters, hostname, key, request, regex_manager) on the rule's own fields;
   [re_ok]/[re_match] stand for the regex crate (C02_Model, Section WithRegex) *)
Definition pattern_ok (re_ok : str -> bool) (re_match : str -> str -> bool)
           (f : rule) (r : C02_Model.request) : bool :=
  C02_Model.check_pattern re_ok re_match (rmask f) (filters_of f) (rhost f) r.

(* check_options on the rule's own fields; the two domain unions are not part of [rule]
   (they only short-cut the domain lookups) and are passed in *)
Definition options_ok (f : rule) (odu ondu : option N) (rq : C03_Model.request) : bool :=
  C03_Model.check_options (rmask f) (rdomains f) odu (rnotdomains f) ondu rq.

(* ---------------------------------------------------------------- the class *)
(* fewer than 128 tokens: the tokenizer did not hit TOKENS_MAX *)
Definition cutoff_b (sf sl : bool) (s : str) : bool :=
  Nat.leb (length (tku sf sl s 0 None None)) TOKENS_MAX.

(* the rule has no single-domain, pattern or hostname token (hash-free reading of
   `nullb (base_tokens h f)`) *)
Definition base_nil (f : rule) : bool :=
  nullb (tok_dom f)
  && match pat_of f with
     | Some s => nullb (tokenize_filter s (negb (is_left_anchor f)) (negb (is_right_anchor f)))
     | None => true
     end
  && (if flag f M_IS_HOSTNAME_REGEX then true
      else match rhost f with Some hn => nullb (tokenize hn) | None => true end).

(* Rules for which the token guarantee is a theorem:
     pattern   : none | plain | regex-type ('*' / '^'), below the token cut-off
     hostname  : none | `||host` (IS_HOSTNAME_ANCHOR; with or without IS_HOSTNAME_REGEX), below the cut-off
     options   : any; in particular the single `$domain=` token, the per-domain dispatch of a rule
                 without other tokens, and the http / https scheme token
   Left out: fused AnyOf rules, /re/ rules (IS_COMPLETE_REGEX; `$match-case` only exists with
   them), rules stored under the tokens of their `$removeparam` name, and the combination the parser
   never builds: a hostname without IS_HOSTNAME_ANCHOR (the matcher would ignore the hostname, the
   index would not). *)
Definition tg_class (f : rule) : bool :=
  negb (is_complete_regex f)
  && negb (flag f M_MATCH_CASE)
  && negb (base_nil f && is_removeparam f)
  && match rfilter f with
     | FEmpty => true
     | FSimple s => cutoff_b (negb (is_left_anchor f)) (negb (is_right_anchor f)) s
     | FAnyOf _ => false
     end
  && match rhost f with
     | None => true
     | Some hn => flag f M_IS_HOSTNAME_ANCHOR && cutoff_b false false hn
     end.
