(* C05_Proofs.v — rule fusion preserves every verdict. *)
From Adb Require Import Base BaseProofs Generated Hashing Net_Model Net_Proofs C05_Model.
From Coq Require Import ZifyBool ZifyNat ZifyN.

(* ---------------------------------------------------------------- generic list facts *)
Lemma existsb_mem_ext {A} (p : A -> bool) l l' :
  (forall x, In x l <-> In x l') -> existsb p l = existsb p l'.
Proof.
  intros H. destruct (existsb p l) eqn:E.
  - symmetry. apply existsb_exists in E as [x [Hx Hp]]. apply existsb_exists. exists x. split; auto. apply H; auto.
  - symmetry. destruct (existsb p l') eqn:E'; [|reflexivity].
    apply existsb_exists in E' as [x [Hx Hp]].
    assert (existsb p l = true) by (apply existsb_exists; exists x; split; auto; apply H; auto). congruence.
Qed.

Lemma insert_by_id_in f l x : In x (insert_by_id f l) <-> x = f \/ In x l.
Proof.
  induction l as [|g r IH]; cbn; [intuition auto|].
  destruct (N.leb (rid f) (rid g)); cbn; [intuition auto|]. rewrite IH. intuition auto.
Qed.
Lemma sort_by_id_in l x : In x (sort_by_id l) <-> In x l.
Proof.
  induction l as [|f r IH]; cbn; [tauto|]. rewrite insert_by_id_in, IH. intuition auto.
Qed.

(* ---------------------------------------------------------------- groups *)
Definition group_ok (g : list rule) : Prop :=
  match g with [] => False | base :: _ => forall f, In f g -> same_key base f = true end.

Lemma same_key_refl f : same_key f f = true.
Proof.
  unfold same_key. rewrite N.eqb_refl. destruct (rtag f); cbn; [apply str_eqb_refl|reflexivity].
Qed.

Lemma group_insert_in f gs x :
  In x (List.concat (group_insert f gs)) <-> x = f \/ In x (List.concat gs).
Proof.
  induction gs as [|g r IH]; cbn; [intuition auto|].
  destruct g as [|b g']; cbn.
  - rewrite IH. tauto.
  - destruct (same_key b f); cbn.
    + rewrite !in_app_iff. cbn. intuition auto.
    + rewrite !in_app_iff, IH. cbn. intuition auto.
Qed.

Lemma group_insert_ok f gs : Forall group_ok gs -> Forall group_ok (group_insert f gs).
Proof.
  induction gs as [|g r IH]; intros H; cbn.
  - constructor; [|constructor]. cbn. intros x [<-|[]]. apply same_key_refl.
  - inversion H as [|? ? Hg Hr]; subst. destruct g as [|b g']; [destruct Hg|].
    destruct (same_key b f) eqn:E.
    + constructor; [|exact Hr]. cbn. intros x Hx.
      destruct Hx as [<-|Hx]; [apply same_key_refl|].
      apply in_app_or in Hx as [Hx|[<-|[]]]; [apply Hg; right; exact Hx|exact E].
    + constructor; [exact Hg|apply IH; exact Hr].
Qed.

Lemma groups_of_spec fs :
  Forall group_ok (groups_of fs) /\ (forall x, In x (List.concat (groups_of fs)) <-> In x fs).
Proof.
  unfold groups_of.
  assert (G : forall fs gs, Forall group_ok gs ->
     Forall group_ok (fold_left (fun gs f => group_insert f gs) fs gs) /\
     (forall x, In x (List.concat (fold_left (fun gs f => group_insert f gs) fs gs)) <-> In x fs \/ In x (List.concat gs))).
  { clear fs. induction fs as [|f r IH]; intros gs Hgs; cbn [fold_left].
    - split; [exact Hgs|]. intros x. cbn. tauto.
    - destruct (IH (group_insert f gs) (group_insert_ok f gs Hgs)) as [A B]. split; [exact A|].
      intros x. rewrite B, group_insert_in. cbn. intuition auto. }
  destruct (G fs [] (Forall_nil _)) as [A B]. split; [exact A|]. intros x. rewrite B. cbn. tauto.
Qed.

(* ---------------------------------------------------------------- fusion preserves matching *)
Section Fusion.
Variable om : N -> bool.
Variable pm : N -> str -> bool.
Variable tags : list str.
Notation rmatch := (rmatch om pm).
Definition hitb (f : rule) : bool := rmatch f && tag_ok tags f.

Lemma anyof_patterns m f : wfp f = true ->
  anyof pm m (rfilter f) = is_fempty f || existsb (pm m) (patterns_of f).
Proof.
  unfold wfp, anyof, is_fempty, patterns_of. destruct (rfilter f) as [|s|[|a l]]; cbn; intros H;
    rewrite ?orb_false_r; try reflexivity; discriminate.
Qed.

Lemma anyof_group m g : forallb wfp g = true ->
  existsb (fun f => anyof pm m (rfilter f)) g = existsb is_fempty g || existsb (pm m) (flat_map patterns_of g).
Proof.
  induction g as [|x g' IH]; [reflexivity|]. intros Hw. cbn [forallb] in Hw. apply andb_true_iff in Hw as [Hx Hw].
  cbn [existsb flat_map]. rewrite (anyof_patterns m x Hx), (IH Hw), existsb_app.
  destruct (is_fempty x), (existsb is_fempty g'), (existsb (pm m) (patterns_of x)),
    (existsb (pm m) (flat_map patterns_of g')); reflexivity.
Qed.

Lemma same_key_mask a b : same_key a b = true -> rmask b = rmask a.
Proof. unfold same_key. intros H. apply andb_true_iff in H as [H _]. apply N.eqb_eq in H. auto. Qed.
Lemma same_key_tag a b : same_key a b = true -> rtag b = rtag a.
Proof.
  unfold same_key. intros H. apply andb_true_iff in H as [_ H].
  destruct (rtag a), (rtag b); cbn in H; try discriminate; auto. apply str_eqb_eq in H. congruence.
Qed.

Lemma set_bit_same m n : set_bit m (2 ^ n) (has m (2 ^ n)) = m.
Proof.
  unfold set_bit, has. destruct (N.eqb (N.land m (2 ^ n)) (2 ^ n)) eqn:E.
  - apply N.eqb_eq in E. apply N.bits_inj. intros i. rewrite N.lor_spec.
    assert (H : N.testbit (2 ^ n) i = true -> N.testbit m i = true).
    { intros Hb. rewrite <- E in Hb. rewrite N.land_spec in Hb. apply andb_true_iff in Hb. tauto. }
    destruct (N.testbit m i), (N.testbit (2 ^ n) i); auto. discriminate (H eq_refl).
  - apply N.eqb_neq in E. apply N.bits_inj. intros i. rewrite N.ldiff_spec.
    destruct (N.testbit (2 ^ n) i) eqn:Hb; [|rewrite andb_true_r; reflexivity].
    rewrite N.pow2_bits_eqb in Hb. apply N.eqb_eq in Hb. subst i. cbn. rewrite andb_false_r.
    destruct (N.testbit m n) eqn:Hm; [|reflexivity]. exfalso. apply E.
    apply N.bits_inj. intros j. rewrite N.land_spec, N.pow2_bits_eqb.
    destruct (N.eqb n j) eqn:Ej; [|apply andb_false_r].
    apply N.eqb_eq in Ej. subst j. rewrite Hm. reflexivity.
Qed.

Lemma existsb_flag_group base g (bit : N) :
  (forall f, In f (base :: g) -> same_key base f = true) ->
  existsb (fun f => flag f bit) (base :: g) = flag base bit.
Proof.
  intros H. cbn [existsb]. destruct (flag base bit) eqn:E; [reflexivity|]. cbn.
  induction g as [|x r IH]; cbn; [reflexivity|].
  assert (Hx : flag x bit = false).
  { unfold flag in *. rewrite (same_key_mask base x); auto. apply H. right; left; reflexivity. }
  rewrite Hx. cbn. apply IH. intros f [<-|Hf]; apply H; [left; reflexivity|right; right; exact Hf].
Qed.

(* On a group of rules with equal mask and tag, fusion changes neither mask nor tag... *)
Lemma fusion_fields g fz : group_ok g -> forallb wfp g = true -> fusion g = Some fz ->
  exists base r, g = base :: r /\ rmask fz = rmask base /\ rtag fz = rtag base /\ rid fz = rid base
    /\ anyof pm (rmask base) (rfilter fz) = existsb (fun f => anyof pm (rmask base) (rfilter f)) g.
Proof.
  destruct g as [|base r]; [intros []|]. intros Hok Hwf Hf. exists base, r. split; [reflexivity|].
  unfold fusion in Hf. inversion Hf; subst fz; clear Hf. cbn [rmask rtag rid rfilter].
  assert (Hre : existsb is_regex (base :: r) = has (rmask base) M_IS_REGEX)
    by (apply (existsb_flag_group base r M_IS_REGEX Hok)).
  assert (Hcr : existsb is_complete_regex (base :: r) = has (rmask base) M_IS_COMPLETE_REGEX)
    by (apply (existsb_flag_group base r M_IS_COMPLETE_REGEX Hok)).
  change (is_regex base || existsb is_regex r) with (existsb is_regex (base :: r)).
  change (is_complete_regex base || existsb is_complete_regex r) with (existsb is_complete_regex (base :: r)).
  change (is_fempty base || existsb is_fempty r) with (existsb is_fempty (base :: r)).
  change (patterns_of base ++ flat_map patterns_of r) with (flat_map patterns_of (base :: r)).
  rewrite Hre. change M_IS_REGEX with (2 ^ 18). rewrite set_bit_same.
  rewrite Hcr. change M_IS_COMPLETE_REGEX with (2 ^ 24). rewrite set_bit_same.
  repeat split.
  (* the pattern part *)
  set (g := base :: r) in *.
  pose proof (anyof_group (rmask base) g Hwf) as Hany.
  rewrite Hany. destruct (existsb is_fempty g) eqn:Hfe; [reflexivity|]. cbn [orb].
  destruct (flat_map patterns_of g) as [|s [|s' l]] eqn:Efl; cbn; rewrite ?orb_false_r; try reflexivity.
  (* no pattern at all although no member is Empty: impossible for well-formed members *)
  exfalso. subst g. cbn in Efl. apply app_eq_nil in Efl as [Eb _].
  cbn [forallb] in Hwf. apply andb_true_iff in Hwf as [Hb _].
  destruct (existsb is_fempty (base :: r)) eqn:Efe; [discriminate|]. cbn in Efe. apply orb_false_iff in Efe as [Efe _].
  unfold wfp in Hb. unfold is_fempty in Efe. unfold patterns_of in Eb.
  destruct (rfilter base) as [|s|[|a l]]; try discriminate.
Qed.

(* ... and matches exactly when one of its members does. *)
Theorem fusion_hit g fz : group_ok g -> forallb wfp g = true -> fusion g = Some fz -> hitb fz = existsb hitb g.
Proof.
  intros Hok Hwf Hf. destruct (fusion_fields g fz Hok Hwf Hf) as (base & r & -> & Hm & Ht & _ & Hany).
  unfold hitb, rmatch. rewrite Hm, Hany. unfold tag_ok. rewrite Ht.
  cbn in Hok.
  set (g := base :: r) in *.
  assert (G : forall l, (forall f, In f l -> same_key base f = true) ->
     existsb (fun f => om (rmask f) && anyof pm (rmask f) (rfilter f)
                       && match rtag f with Some t => mem_str t tags | None => true end) l
     = om (rmask base) && existsb (fun f => anyof pm (rmask base) (rfilter f)) l
       && match rtag base with Some t => mem_str t tags | None => true end).
  { induction l as [|x l' IH]; intros Hl; cbn; [rewrite andb_false_r; reflexivity|].
    rewrite (same_key_mask base x), (same_key_tag base x) by (apply Hl; left; reflexivity).
    rewrite IH by (intros f Hf'; apply Hl; right; exact Hf').
    destruct (om (rmask base)), (anyof pm (rmask base) (rfilter x)),
             (existsb (fun f => anyof pm (rmask base) (rfilter f)) l'),
             (match rtag base with Some t => mem_str t tags | None => true end); reflexivity. }
  symmetry. apply G. exact Hok.
Qed.

Lemma fusion_some g : g <> [] -> exists fz, fusion g = Some fz.
Proof. destruct g; [congruence|]. intros _. eexists. reflexivity. Qed.

(* ---------------------------------------------------------------- optimize on one bucket *)
Lemma existsb_concat_groups (gs : list (list rule)) :
  Forall group_ok gs -> Forall (fun g => forallb wfp g = true) gs ->
  existsb hitb
    (flat_map (fun g => match g with
                        | _ :: _ :: _ => match fusion g with Some f => [f] | None => [] end
                        | _ => [] end) gs
     ++ flat_map (fun g => match g with [x] => [x] | _ => [] end) gs)
  = existsb hitb (List.concat gs).
Proof.
  induction gs as [|g r IH]; intros H Hw; [reflexivity|].
  inversion H as [|? ? Hg Hr]; subst. inversion Hw as [|? ? Hwg Hwr]; subst. specialize (IH Hr Hwr).
  cbn [flat_map List.concat]. rewrite !existsb_app in *.
  destruct g as [|a [|b g']].
  - destruct Hg.
  - cbn [existsb app]. rewrite !orb_false_r.
    rewrite <- IH.
    destruct (hitb a), (existsb hitb (flat_map (fun g => match g with
                        | _ :: _ :: _ => match fusion g with Some f => [f] | None => [] end
                        | _ => [] end) r)); reflexivity.
  - destruct (fusion_some (a :: b :: g')) as [fz Hfz]; [discriminate|].
    rewrite Hfz. rewrite <- IH.
    change (existsb hitb [fz]) with (hitb fz || false). rewrite orb_false_r.
    rewrite (fusion_hit _ _ Hg Hwg Hfz).
    change (existsb hitb []) with false. cbn [orb].
    destruct (existsb hitb (a :: b :: g')),
      (existsb hitb (flat_map (fun g => match g with
                        | _ :: _ :: _ => match fusion g with Some f => [f] | None => [] end
                        | _ => [] end) r)); reflexivity.
Qed.

Lemma groups_wf (fs : list rule) (gs : list (list rule)) :
  (forall x, In x (List.concat gs) <-> In x fs) -> forallb wfp fs = true ->
  Forall (fun g => forallb wfp g = true) gs.
Proof.
  intros Hmem Hw. apply Forall_forall. intros g Hg. apply forallb_forall. intros x Hx.
  rewrite forallb_forall in Hw. apply Hw. apply Hmem. apply in_concat. exists g. auto.
Qed.
Lemma forallb_filter_wf (p : rule -> bool) fs : forallb wfp fs = true -> forallb wfp (filter p fs) = true.
Proof.
  intros H. apply forallb_forall. intros x Hx. apply filter_In in Hx as [Hx _].
  rewrite forallb_forall in H. auto.
Qed.

Theorem optimize_exists fs : forallb wfp fs = true -> existsb hitb (optimize fs) = existsb hitb fs.
Proof.
  intros Hwf. unfold optimize.
  rewrite (existsb_mem_ext hitb _ _ (sort_by_id_in _)).
  destruct (groups_of_spec (filter opt_select fs)) as [Hok Hmem].
  set (gs := groups_of (filter opt_select fs)) in *.
  (* reorder: fused ++ neg ++ single  ~  (fused ++ single) ++ neg *)
  rewrite !existsb_app.
  rewrite (orb_comm (existsb hitb (filter (fun f => negb (opt_select f)) fs))).
  rewrite orb_assoc. rewrite <- existsb_app.
  rewrite (existsb_concat_groups gs Hok (groups_wf _ gs Hmem (forallb_filter_wf _ fs Hwf))).
  rewrite (existsb_mem_ext hitb _ _ Hmem).
  rewrite <- existsb_app.
  apply existsb_mem_ext. intros x. rewrite in_app_iff, !filter_In.
  destruct (opt_select x); cbn; intuition auto; discriminate.
Qed.

(* masks of the optimized bucket are masks of the original bucket (and ids are ids of it) *)
Theorem optimize_mask fs x : forallb wfp fs = true ->
  In x (optimize fs) -> exists y, In y fs /\ rmask x = rmask y /\ rid x = rid y.
Proof.
  intros Hwf. unfold optimize. rewrite sort_by_id_in.
  destruct (groups_of_spec (filter opt_select fs)) as [Hok Hmem].
  set (gs := groups_of (filter opt_select fs)) in *.
  rewrite !in_app_iff. intros [H|[H|H]].
  - apply in_flat_map in H as [g [Hg Hx]].
    assert (Hgok : group_ok g) by (rewrite Forall_forall in Hok; auto).
    destruct g as [|a [|b g']]; [destruct Hx|destruct Hx|].
    destruct (fusion_some (a :: b :: g')) as [fz Hfz]; [discriminate|].
    rewrite Hfz in Hx. destruct Hx as [<-|[]].
    assert (Hgw : forallb wfp (a :: b :: g') = true).
    { pose proof (groups_wf _ gs Hmem (forallb_filter_wf _ fs Hwf)) as G. rewrite Forall_forall in G. apply G. exact Hg. }
    destruct (fusion_fields _ _ Hgok Hgw Hfz) as (base & r & E & Hm & _ & Hi & _). inversion E; subst.
    exists base. repeat split; auto.
    assert (In base (filter opt_select fs)).
    { apply Hmem. apply in_concat. exists (base :: b :: g'). split; [exact Hg|left; reflexivity]. }
    apply filter_In in H. tauto.
  - apply filter_In in H. exists x. tauto.
  - apply in_flat_map in H as [g [Hg Hx]]. destruct g as [|a [|b g']]; [destruct Hx| |destruct Hx].
    destruct Hx as [<-|[]]. exists a. repeat split; auto.
    assert (In a (filter opt_select fs)).
    { apply Hmem. apply in_concat. exists [a]. split; [exact Hg|left; reflexivity]. }
    apply filter_In in H. tauto.
Qed.

(* ---------------------------------------------------------------- a whole list *)
Lemma lookup_map_keyed (G : list rule -> list rule) (m0 : fmap) k :
  lookup (map (fun kb => (fst kb, G (snd kb))) m0) k = option_map G (lookup m0 k).
Proof.
  induction m0 as [|[k' b] r IH]; cbn; [reflexivity|]. destruct (N.eqb k k'); [reflexivity|exact IH].
Qed.

Definition opt_bucket (m : fmap) (b : list rule) : list rule :=
  let uniq := filter (fun f => Nat.eqb (occurrences m (rid f)) 1) b in
  let shared := filter (fun f => negb (Nat.eqb (occurrences m (rid f)) 1)) b in
  sort_by_id ((if Nat.ltb 1 (length uniq) then optimize uniq else uniq) ++ shared).

Lemma bucket_fl_optimize_eq m k : bucket (fl_optimize m) k = opt_bucket m (bucket m k).
Proof.
  unfold bucket, fl_optimize.
  change (map (fun kb : N * list rule => _) m) with (map (fun kb => (fst kb, opt_bucket m (snd kb))) m).
  rewrite lookup_map_keyed. destruct (lookup m k); reflexivity.
Qed.

Lemma bucket_fl_optimize m k :
  exists uniq shared,
    (forall x, In x (bucket m k) <-> In x uniq \/ In x shared) /\
    (bucket (fl_optimize m) k = sort_by_id ((if Nat.ltb 1 (length uniq) then optimize uniq else uniq) ++ shared)).
Proof.
  rewrite bucket_fl_optimize_eq. unfold opt_bucket. eexists _, _. split; [|reflexivity].
  intros x. rewrite !filter_In.
  destruct (Nat.eqb (occurrences m (rid x)) 1); cbn; intuition auto; discriminate.
Qed.

Theorem fl_optimize_bucket_exists m k : forallb wfp (bucket m k) = true ->
  existsb hitb (bucket (fl_optimize m) k) = existsb hitb (bucket m k).
Proof.
  intros Hwf. destruct (bucket_fl_optimize m k) as (uniq & shared & Hmem & ->).
  assert (Hwu : forallb wfp uniq = true).
  { apply forallb_forall. intros x Hx. rewrite forallb_forall in Hwf. apply Hwf. apply Hmem. left. exact Hx. }
  rewrite (existsb_mem_ext hitb _ _ (sort_by_id_in _)).
  rewrite existsb_app.
  assert (E : existsb hitb (if Nat.ltb 1 (length uniq) then optimize uniq else uniq) = existsb hitb uniq).
  { destruct (Nat.ltb 1 (length uniq)); [apply optimize_exists; exact Hwu|reflexivity]. }
  rewrite E. rewrite <- existsb_app. apply existsb_mem_ext. intros x. rewrite in_app_iff. symmetry. apply Hmem.
Qed.

Theorem fl_optimize_bucket_mask m k x : forallb wfp (bucket m k) = true ->
  In x (bucket (fl_optimize m) k) -> exists y, In y (bucket m k) /\ rmask x = rmask y /\ rid x = rid y.
Proof.
  intros Hwf. destruct (bucket_fl_optimize m k) as (uniq & shared & Hmem & ->).
  assert (Hwu : forallb wfp uniq = true).
  { apply forallb_forall. intros y Hy. rewrite forallb_forall in Hwf. apply Hwf. apply Hmem. left. exact Hy. }
  rewrite sort_by_id_in. rewrite in_app_iff. intros [H|H].
  - destruct (Nat.ltb 1 (length uniq)).
    + destruct (optimize_mask uniq x Hwu H) as (y & Hy & E). exists y. split; [apply Hmem; left; exact Hy|exact E].
    + exists x. split; [apply Hmem; left; exact H|auto].
  - exists x. split; [apply Hmem; right; exact H|auto].
Qed.

Variable pr : list N.
Notation chk m T := (check rmatch m pr T).

(* non-selectable rules (redirect, csp, domain-restricted, hostname-anchored) are only re-sorted *)
Lemma groups_of_nil : groups_of [] = [].
Proof. reflexivity. Qed.
Theorem optimize_unselectable fs x :
  (forall f, In f fs -> opt_select f = false) -> (In x (optimize fs) <-> In x fs).
Proof.
  intros H. unfold optimize. rewrite sort_by_id_in.
  assert (E : filter opt_select fs = []).
  { induction fs as [|f r IH]; cbn; [reflexivity|]. rewrite (H f) by (left; reflexivity).
    apply IH. intros g Hg. apply H. right. exact Hg. }
  rewrite E. cbn [groups_of fold_left flat_map app]. rewrite app_nil_r, filter_In. split; [tauto|]. intros Hx. split; [exact Hx|].
  rewrite (H x Hx). reflexivity.
Qed.
End Fusion.

(* ================================================================ lists and the blocker *)
Section Lists.
Variable om : N -> bool.
Variable pm : N -> str -> bool.
Variable pr : list N.
Notation rmatch := (rmatch om pm).

Definition wf_map (m : fmap) : Prop := forall k, forallb wfp (bucket m k) = true.

Lemma check_ne_iff m tags :
  check rmatch m pr tags <> None <-> exists k, In k pr /\ existsb (hit rmatch tags) (bucket m k) = true.
Proof.
  unfold check, check_all.
  assert (G : forall p, (flat_map (fun k => filter (hit rmatch tags) (bucket m k)) p <> [])
                        <-> exists k, In k p /\ existsb (hit rmatch tags) (bucket m k) = true).
  { induction p as [|k r IH]; cbn.
    - split; [congruence|]. intros [k [[] _]].
    - destruct (filter (hit rmatch tags) (bucket m k)) as [|y ys] eqn:E; cbn.
      + rewrite IH. split.
        * intros [k' [Hk Hx]]. exists k'. auto.
        * intros [k' [[<-|Hk] Hx]]; [|exists k'; auto].
          exfalso. apply existsb_exists in Hx as [z [Hz Hh]].
          assert (In z (filter (hit rmatch tags) (bucket m k))) by (apply filter_In; auto).
          rewrite E in H. destruct H.
      + split; [|discriminate]. intros _. exists k. split; [left; reflexivity|].
        apply existsb_exists. exists y.
        assert (In y (filter (hit rmatch tags) (bucket m k))) by (rewrite E; left; reflexivity).
        apply filter_In in H. exact H. }
  destruct m as [|kb r].
  - split; [congruence|]. intros [k [_ Hx]]. cbn in Hx. discriminate.
  - specialize (G pr).
    destruct (flat_map (fun k => filter (hit rmatch tags) (bucket (kb :: r) k)) pr) as [|y ys].
    + split; [congruence|]. intros H. apply G in H. congruence.
    + split; [|discriminate]. intros _. apply G. discriminate.
Qed.

Theorem check_optimize_iff m tags : wf_map m ->
  (check rmatch (fl_optimize m) pr tags <> None <-> check rmatch m pr tags <> None).
Proof.
  intros Hwf. rewrite !check_ne_iff. split; intros [k [Hk Hx]]; exists k; split; auto;
    change (hit rmatch tags) with (hitb om pm tags) in *.
  - rewrite <- (fl_optimize_bucket_exists om pm tags m k (Hwf k)). exact Hx.
  - rewrite (fl_optimize_bucket_exists om pm tags m k (Hwf k)). exact Hx.
Qed.

(* what the combiner reads from a found rule is its IMPORTANT bit, constant per list *)
Definition all_important (v : bool) (m : fmap) : Prop :=
  forall k f, In f (bucket m k) -> is_important f = v.

Lemma optimize_all_important v m : wf_map m -> all_important v m -> all_important v (fl_optimize m).
Proof.
  intros Hwf H k f Hf.
  destruct (fl_optimize_bucket_mask om pm m k f (Hwf k) Hf) as (y & Hy & Em & _).
  unfold is_important, flag. rewrite Em. apply (H k y Hy).
Qed.

Lemma check_in_bucket m tags f : check rmatch m pr tags = Some f -> exists k, In f (bucket m k).
Proof.
  unfold check, check_all. destruct m as [|kb r]; [discriminate|].
  destruct (flat_map (fun k => filter (hit rmatch tags) (bucket (kb :: r) k)) pr) as [|y ys] eqn:E; [discriminate|].
  intros H; inversion H; subst.
  assert (Hin : In f (flat_map (fun k => filter (hit rmatch tags) (bucket (kb :: r) k)) pr)) by (rewrite E; left; reflexivity).
  apply in_flat_map in Hin as [k [_ Hin]]. apply filter_In in Hin. exists k. tauto.
Qed.

Definition found_b (m : fmap) (tags : list str) : bool :=
  match check rmatch m pr tags with Some _ => true | None => false end.

Lemma found_b_optimize m tags : wf_map m -> found_b (fl_optimize m) tags = found_b m tags.
Proof.
  intros Hwf. unfold found_b. pose proof (check_optimize_iff m tags Hwf) as H.
  destruct (check rmatch (fl_optimize m) pr tags), (check rmatch m pr tags); auto.
  - exfalso. apply (proj1 H); congruence.
  - exfalso. apply (proj2 H); congruence.
Qed.

(* the verdict as a function of four booleans *)
Definition verdict_of (i t n e : bool) : verdict :=
  {| v_matched := i || ((t || n) && negb e); v_important := i;
     v_exception := negb i && (t || n) && e; v_filter := i || t || n |}.

Definition Categorised (b : blocker) : Prop :=
  all_important true (b_importants b) /\ all_important false (b_tagged b) /\ all_important false (b_filters b).

Lemma blocker_check_bool b : Categorised b ->
  blocker_check rmatch pr b =
  verdict_of (found_b (b_importants b) (b_tags b)) (found_b (b_tagged b) (b_tags b))
             (found_b (b_filters b) []) (found_b (b_exceptions b) (b_tags b)).
Proof.
  intros (Hi & Ht & Hn). unfold blocker_check, found_b, verdict_of.
  destruct (check rmatch (b_importants b) pr (b_tags b)) as [fi|] eqn:Ei.
  - destruct (check_in_bucket _ _ _ Ei) as [k Hk]. rewrite (Hi k fi Hk). cbn. reflexivity.
  - cbn [orb negb andb]. unfold orelse.
    destruct (check rmatch (b_tagged b) pr (b_tags b)) as [ft|] eqn:Et.
    + destruct (check_in_bucket _ _ _ Et) as [k Hk]. rewrite (Ht k ft Hk).
      destruct (check rmatch (b_exceptions b) pr (b_tags b)); cbn; reflexivity.
    + destruct (check rmatch (b_filters b) pr []) as [fn|] eqn:En.
      * destruct (check_in_bucket _ _ _ En) as [k Hk]. rewrite (Hn k fn Hk).
        destruct (check rmatch (b_exceptions b) pr (b_tags b)); cbn; reflexivity.
      * cbn. reflexivity.
Qed.

Definition wf_blocker (b : blocker) : Prop :=
  wf_map (b_importants b) /\ wf_map (b_tagged b) /\ wf_map (b_filters b) /\ wf_map (b_exceptions b)
  /\ wf_map (b_generic_hide b).

(* Blocker::optimize changes no verdict. *)
Theorem blocker_optimize_verdict b : wf_blocker b -> Categorised b ->
  blocker_check rmatch pr (blocker_optimize b) = blocker_check rmatch pr b.
Proof.
  intros (Wi & Wt & Wn & We & _) (Ci & Ct & Cn).
  rewrite (blocker_check_bool b (conj Ci (conj Ct Cn))).
  rewrite (blocker_check_bool (blocker_optimize b)).
  - unfold blocker_optimize. cbn [b_importants b_tagged b_filters b_exceptions b_tags].
    rewrite !found_b_optimize by assumption. reflexivity.
  - unfold Categorised, blocker_optimize. cbn [b_importants b_tagged b_filters].
    repeat split; apply optimize_all_important; assumption.
Qed.

Theorem blocker_optimize_generic_hide b : wf_blocker b ->
  generic_hide_hit rmatch pr (blocker_optimize b) = generic_hide_hit rmatch pr b.
Proof.
  intros (_ & _ & _ & _ & Wg). unfold generic_hide_hit, blocker_optimize. cbn [b_generic_hide b_tags].
  apply (found_b_optimize _ (b_tags b) Wg).
Qed.

(* redirect and csp rules are never fused: the hit sets are unchanged; removeparam is not optimized *)
Lemma bucket_unselectable m k x :
  (forall f, In f (bucket m k) -> opt_select f = false) ->
  (In x (bucket (fl_optimize m) k) <-> In x (bucket m k)).
Proof.
  intros H. rewrite bucket_fl_optimize_eq. unfold opt_bucket. rewrite sort_by_id_in, in_app_iff, !filter_In.
  set (u := filter (fun f => Nat.eqb (occurrences m (rid f)) 1) (bucket m k)).
  assert (Hu : forall f, In f u -> opt_select f = false).
  { intros f Hf. apply H. unfold u in Hf. apply filter_In in Hf. tauto. }
  assert (E : In x (if Nat.ltb 1 (length u) then optimize u else u) <-> In x u).
  { destruct (Nat.ltb 1 (length u)); [apply optimize_unselectable; exact Hu|tauto]. }
  rewrite E. unfold u. rewrite filter_In.
  destruct (Nat.eqb (occurrences m (rid x)) 1); cbn; intuition auto; discriminate.
Qed.

Theorem check_all_unselectable m tags x :
  (forall k f, In f (bucket m k) -> opt_select f = false) ->
  (In x (check_all rmatch (fl_optimize m) pr tags) <-> In x (check_all rmatch m pr tags)).
Proof.
  intros H.
  assert (G : forall m', In x (check_all rmatch m' pr tags) <->
                         exists k, In k pr /\ In x (bucket m' k) /\ hit rmatch tags x = true).
  { intros m'. unfold check_all. destruct m' as [|kb r].
    - split; [intros []|]. intros [k [_ [Hx _]]]. destruct Hx.
    - rewrite in_flat_map. split; intros [k [Hk Hx]]; exists k; split; auto;
        [apply filter_In in Hx|apply filter_In]; exact Hx. }
  rewrite !G. split; intros [k [Hk [Hx Hh]]]; exists k; repeat split; auto;
    apply (bucket_unselectable m k x (H k)); exact Hx.
Qed.
End Lists.
