(* C16_Engine_Proofs.v — proofs for C16_Engine_Model.v: the whole answer of
   Engine::url_cosmetic_resources = C16's per-site resources with the generichide bit computed by the
   network side (C01's index theorem for the generic_hide list).

     spec_generichide_cats        spec_generichide = Net_Model.spec_generic_hide (category vocabulary)
     generichide_eq_spec          the lookup = the rule-by-rule reading, for every enabled tag set
     tagged_generichide_iff_enabled / tagged_generichide_lookup_iff_enabled / untagged_generichide_any_tags
                                  a generichide rule carrying `$tag=t` fires iff t is enabled
                                  (/repo b8d0ade; before that fix such a rule was inert)
     url_cosmetic_resources_spec  the composed answer meets C16's specification with gh := spec_generichide
     generichide_on / generichide_off   the two directions
     url_cosmetic_resources_history     the same after any history of add_filter / tag ops / optimize
     url_cosmetic_resources_roundtrip   the same answer across serialize -> load -> use_tags
   Net_Model & co. are not imported (name clashes): qualified names. *)
From Adb Require Import Base BaseProofs C17_Model C17_Proofs C16_Model C16_Proofs C16_Engine_Model.
From Adb Require Generated Hashing Net_Model Net_Proofs C05_Model C06_History_Model C06_History_Proofs.
From Adb Require Wire_Model C08_Model C08_Query_Model C08_Query_Proofs.

(* ================================================================ the rule-by-rule reading *)
Lemma existsb_filter {A} (p q : A -> bool) l :
  existsb p (filter q l) = existsb (fun x => q x && p x) l.
Proof.
  induction l as [|x r IH]; [reflexivity|]. cbn [filter existsb].
  destruct (q x); cbn [existsb andb]; rewrite IH; reflexivity.
Qed.
Lemma existsb_ext_in {A} (p q : A -> bool) l : (forall x, In x l -> p x = q x) -> existsb p l = existsb q l.
Proof.
  induction l as [|x r IH]; intros H; [reflexivity|]. cbn [existsb].
  rewrite (H x (or_introl eq_refl)), IH; [reflexivity|]. intros y Hy. apply H. right; exact Hy.
Qed.

(* which rules Blocker::new puts into the generic_hide list *)
Lemma cat_generic_hide f :
  Net_Model.cat_eqb (Net_Model.category_of f) Net_Model.CGenericHide =
  Net_Model.is_generic_hide f && negb (Net_Model.is_csp f) && negb (Net_Model.is_removeparam f).
Proof.
  unfold Net_Model.category_of.
  destruct (Net_Model.is_csp f); [destruct (Net_Model.is_generic_hide f); reflexivity|].
  destruct (Net_Model.is_removeparam f); [destruct (Net_Model.is_generic_hide f); reflexivity|].
  destruct (Net_Model.is_generic_hide f); [reflexivity|]. cbn [andb negb].
  repeat match goal with |- context [if ?b then _ else _] => destruct b end; reflexivity.
Qed.

Lemma act_tags matches T f : Net_Model.act matches T f = Net_Model.tag_ok T f && matches f.
Proof. unfold Net_Model.act. apply Bool.andb_comm. Qed.

Theorem spec_generichide_cats matches L T :
  spec_generichide matches L T = Net_Model.spec_generic_hide matches L T.
Proof.
  unfold spec_generichide, Net_Model.spec_generic_hide, Net_Model.of_cat, Net_Model.live.
  rewrite !existsb_filter. apply existsb_ext_in. intros f _.
  unfold generichide_rule, cancelled. rewrite cat_generic_hide, act_tags.
  destruct (Net_Model.is_generic_hide f), (Net_Model.is_csp f), (Net_Model.is_removeparam f),
           (memN (Net_Model.get_id f) (Net_Model.badfilter_ids L) || Net_Model.is_badfilter f),
           (Net_Model.tag_ok T f), (matches f); reflexivity.
Qed.

Lemma generichide_rule_core matches L T f :
  generichide_rule matches L T f = generichide_core matches L f && Net_Model.tag_ok T f.
Proof.
  unfold generichide_rule, generichide_core.
  destruct (Net_Model.is_generic_hide f), (Net_Model.is_csp f), (Net_Model.is_removeparam f),
           (cancelled L f), (Net_Model.tag_ok T f), (matches f); reflexivity.
Qed.

Lemma spec_generichide_true_iff matches L T :
  spec_generichide matches L T = true <-> exists f, In f L /\ generichide_rule matches L T f = true.
Proof. unfold spec_generichide. apply existsb_exists. Qed.
Lemma spec_generichide_false_iff matches L T :
  spec_generichide matches L T = false <-> forall f, In f L -> generichide_rule matches L T f = false.
Proof.
  split.
  - intros H f Hf. destruct (generichide_rule matches L T f) eqn:E; [|reflexivity].
    rewrite (proj2 (spec_generichide_true_iff matches L T)) in H; [discriminate|]. exists f; auto.
  - intros H. destruct (spec_generichide matches L T) eqn:E; [|reflexivity].
    apply spec_generichide_true_iff in E as [f [Hf Hg]]. rewrite (H f Hf) in Hg. discriminate.
Qed.

(* ================================================================ (a) lookup = rule by rule *)
(* Premises: [id_inj] (equal ids = equal rules: the bucket insert drops an equal id), [TG] (token
   guarantee: a matching rule has a token group among the probes; C01 proves it per pattern class),
   [In 0 pr] (the fallback probe, C01_probes_zero).  Same premises as C01_generic_hide_exact. *)
Theorem generichide_eq_spec h matches pr L T :
  Net_Proofs.id_inj L -> Net_Proofs.TG h matches pr L -> In 0 pr ->
  Net_Model.generic_hide_hit matches pr (Net_Model.tags_with_set h (Net_Model.blocker_new h L) T)
  = spec_generichide matches L T.
Proof.
  intros Hinj Htg H0. rewrite spec_generichide_cats.
  exact (Net_Proofs.generic_hide_exact h matches pr H0 L T Hinj Htg).
Qed.

(* ---------------------------------------------------------------- tags *)
(* rule by rule: a generichide rule carrying `$tag=t` counts exactly when t is enabled; an untagged
   one whatever is enabled *)
Theorem tagged_generichide_iff_enabled matches L T f t :
  Net_Model.rtag f = Some t ->
  generichide_rule matches L T f = generichide_core matches L f && mem_str t T.
Proof. intros E. rewrite generichide_rule_core. unfold Net_Model.tag_ok. rewrite E. reflexivity. Qed.
Theorem untagged_generichide_any_tags matches L T f :
  Net_Model.rtag f = None -> generichide_rule matches L T f = generichide_core matches L f.
Proof.
  intros E. rewrite generichide_rule_core. unfold Net_Model.tag_ok. rewrite E. apply Bool.andb_true_r.
Qed.

(* at the level of the lookup: when f (tag t) is the only rule of the list that could decide
   generichide for this page, the answer IS "t is enabled" *)
Theorem tagged_generichide_lookup_iff_enabled h matches pr L T f t :
  Net_Proofs.id_inj L -> Net_Proofs.TG h matches pr L -> In 0 pr ->
  In f L -> Net_Model.rtag f = Some t -> generichide_core matches L f = true ->
  (forall g, In g L -> g <> f -> generichide_core matches L g = false) ->
  Net_Model.generic_hide_hit matches pr (Net_Model.tags_with_set h (Net_Model.blocker_new h L) T)
  = mem_str t T.
Proof.
  intros Hinj Htg H0 Hf Et Hc Hothers. rewrite (generichide_eq_spec h matches pr L T Hinj Htg H0).
  destruct (mem_str t T) eqn:M.
  - apply spec_generichide_true_iff. exists f. split; [exact Hf|].
    rewrite (tagged_generichide_iff_enabled matches L T f t Et), Hc, M. reflexivity.
  - apply spec_generichide_false_iff. intros g Hg.
    destruct (N.eq_dec (Net_Model.rid g) (Net_Model.rid f)) as [E|NE].
    + assert (g = f) by (apply Hinj; assumption). subst g.
      rewrite (tagged_generichide_iff_enabled matches L T f t Et), M. apply Bool.andb_false_r.
    + rewrite generichide_rule_core, (Hothers g Hg); [reflexivity|]. intros ->. apply NE. reflexivity.
Qed.

(* ================================================================ (b) the composed answer *)
Lemma cosmetic_answer_of_gh h uw crules host dom gh :
  inj_on h (lookup_strings host dom ++ all_locations crules) ->
  cosmetic_answer_spec uw crules host dom gh
    (hostname_cosmetic_resources h (build_cache h uw crules) host dom gh).
Proof. intros Hi. exact (cosmetic_spec h uw crules host dom gh Hi). Qed.

Theorem url_cosmetic_resources_unparsed h matches pr b c host dom :
  url_cosmetic_resources_model h matches pr false b c host dom = empty_resources.
Proof. reflexivity. Qed.

(* Premises: those of (a) for the network half, and C16's [inj_on] (the 64-bit hash does not
   collide on the strings hashed for this page and the locations of the cosmetic rules). *)
Theorem url_cosmetic_resources_spec h uw matches pr L T crules host dom :
  Net_Proofs.id_inj L -> Net_Proofs.TG h matches pr L -> In 0 pr ->
  inj_on h (lookup_strings host dom ++ all_locations crules) ->
  cosmetic_answer_spec uw crules host dom (spec_generichide matches L T)
    (url_cosmetic_resources_model h matches pr true
       (Net_Model.tags_with_set h (Net_Model.blocker_new h L) T) (build_cache h uw crules) host dom).
Proof.
  intros Hinj Htg H0 Hi. unfold url_cosmetic_resources_model. cbn [negb].
  rewrite (generichide_eq_spec h matches pr L T Hinj Htg H0).
  apply cosmetic_answer_of_gh. exact Hi.
Qed.

(* the two directions, read off any answer that meets the specification *)
Lemma answer_generichide_on uw crules host dom R :
  cosmetic_answer_spec uw crules host dom true R ->
  generichide R = true /\
  (forall s, In s (hide_selectors R) <->
             applies_s crules host dom THide s /\ ~ applies_s crules host dom TUnhide s) /\
  (forall s, ~ applies_s crules host dom THide s -> ~ In s (hide_selectors R)).
Proof.
  intros (Hh & _ & _ & _ & Hg). split; [exact Hg|]. split.
  - intros s. rewrite (Hh s). split; [intros [H|[H _]]; [exact H|discriminate]|intros H; left; exact H].
  - intros s Hn Hin. apply Hh in Hin as [[H _]|[H _]]; [exact (Hn H)|discriminate].
Qed.
Lemma answer_generichide_off uw crules host dom R :
  cosmetic_answer_spec uw crules host dom false R ->
  generichide R = false /\
  (forall s, In s (hide_selectors R) <->
     (applies_s crules host dom THide s /\ ~ applies_s crules host dom TUnhide s) \/
     (In s (generic_selectors crules) /\ key_from_selector uw s = None /\ ~ applies_s crules host dom TUnhide s)) /\
  (forall s, In s (generic_selectors crules) -> key_from_selector uw s = None ->
             ~ applies_s crules host dom TUnhide s -> In s (hide_selectors R)).
Proof.
  intros (Hh & _ & _ & _ & Hg). split; [exact Hg|]. split.
  - intros s. rewrite (Hh s). split; (intros [H|H]; [left; exact H|right; tauto]).
  - intros s H1 H2 H3. apply Hh. right. auto.
Qed.

(* some generichide exception (untagged or with an enabled tag, not cancelled, not csp/removeparam) matches the page:
   only the selectors scoped to the host are returned, no generic one *)
Theorem generichide_on h uw matches pr L T crules host dom :
  Net_Proofs.id_inj L -> Net_Proofs.TG h matches pr L -> In 0 pr ->
  inj_on h (lookup_strings host dom ++ all_locations crules) ->
  (exists f, In f L /\ generichide_rule matches L T f = true) ->
  let R := url_cosmetic_resources_model h matches pr true
             (Net_Model.tags_with_set h (Net_Model.blocker_new h L) T) (build_cache h uw crules) host dom in
  generichide R = true /\
  (forall s, In s (hide_selectors R) <->
             applies_s crules host dom THide s /\ ~ applies_s crules host dom TUnhide s) /\
  (forall s, ~ applies_s crules host dom THide s -> ~ In s (hide_selectors R)).
Proof.
  intros Hinj Htg H0 Hi Hex R. apply (answer_generichide_on uw).
  pose proof (url_cosmetic_resources_spec h uw matches pr L T crules host dom Hinj Htg H0 Hi) as S.
  rewrite (proj2 (spec_generichide_true_iff matches L T) Hex) in S. exact S.
Qed.

(* none matches: every generic selector of the misc store that is not unhidden for the host is
   returned, next to the scoped ones *)
Theorem generichide_off h uw matches pr L T crules host dom :
  Net_Proofs.id_inj L -> Net_Proofs.TG h matches pr L -> In 0 pr ->
  inj_on h (lookup_strings host dom ++ all_locations crules) ->
  (forall f, In f L -> generichide_rule matches L T f = false) ->
  let R := url_cosmetic_resources_model h matches pr true
             (Net_Model.tags_with_set h (Net_Model.blocker_new h L) T) (build_cache h uw crules) host dom in
  generichide R = false /\
  (forall s, In s (hide_selectors R) <->
     (applies_s crules host dom THide s /\ ~ applies_s crules host dom TUnhide s) \/
     (In s (generic_selectors crules) /\ key_from_selector uw s = None /\ ~ applies_s crules host dom TUnhide s)) /\
  (forall s, In s (generic_selectors crules) -> key_from_selector uw s = None ->
             ~ applies_s crules host dom TUnhide s -> In s (hide_selectors R)).
Proof.
  intros Hinj Htg H0 Hi Hno R. apply (answer_generichide_off uw).
  pose proof (url_cosmetic_resources_spec h uw matches pr L T crules host dom Hinj Htg H0 Hi) as S.
  rewrite (proj2 (spec_generichide_false_iff matches L T) Hno) in S. exact S.
Qed.

(* ================================================================ (c) after any history *)
(* the blocker reached by ANY interleaving of add_filter / use_tags / enable_tags / disable_tags /
   optimize answers as the rule-by-rule reading of the rules loaded so far under the tag set the
   tag operations add up to ([tagset ops]: plain set algebra); matcher shape and the premise [wfp]
   are those of C06_history_generic_hide *)
Theorem generichide_history h om pm pr ops :
  In 0 pr -> Net_Proofs.id_inj (C06_History_Model.loaded ops) ->
  Net_Proofs.TG h (C05_Model.rmatch om pm) pr (C06_History_Model.loaded ops) ->
  (forall g, In g (C06_History_Model.loaded ops) -> C05_Model.wfp g = true) ->
  Net_Model.generic_hide_hit (C05_Model.rmatch om pm) pr (C06_History_Model.hrun h ops)
  = spec_generichide (C05_Model.rmatch om pm) (C06_History_Model.loaded ops) (C06_History_Model.tagset ops).
Proof.
  intros H0 Hinj Htg Hw. rewrite spec_generichide_cats.
  exact (C06_History_Proofs.history_generic_hide h om pm pr H0 ops Hinj Htg Hw).
Qed.

Theorem url_cosmetic_resources_history h uw om pm pr ops crules host dom :
  In 0 pr -> Net_Proofs.id_inj (C06_History_Model.loaded ops) ->
  Net_Proofs.TG h (C05_Model.rmatch om pm) pr (C06_History_Model.loaded ops) ->
  (forall g, In g (C06_History_Model.loaded ops) -> C05_Model.wfp g = true) ->
  inj_on h (lookup_strings host dom ++ all_locations crules) ->
  cosmetic_answer_spec uw crules host dom
    (spec_generichide (C05_Model.rmatch om pm) (C06_History_Model.loaded ops) (C06_History_Model.tagset ops))
    (url_cosmetic_resources_model h (C05_Model.rmatch om pm) pr true
       (C06_History_Model.hrun h ops) (build_cache h uw crules) host dom).
Proof.
  intros H0 Hinj Htg Hw Hi. unfold url_cosmetic_resources_model. cbn [negb].
  rewrite (generichide_history h om pm pr ops H0 Hinj Htg Hw).
  apply cosmetic_answer_of_gh. exact Hi.
Qed.

(* add_filter refuses $badfilter rules, so nothing loaded is ever cancelled: after a history the
   rule-by-rule reading needs no badfilter clause *)
Lemma loaded_from_no_badfilter ops : forall L,
  (forall f, In f L -> Net_Model.is_badfilter f = false) ->
  forall f, In f (C06_History_Model.loaded_from L ops) -> Net_Model.is_badfilter f = false.
Proof.
  unfold C06_History_Model.loaded_from.
  induction ops as [|o ops IH]; intros L HL; [exact HL|]. cbn [fold_left]. apply IH.
  destruct o as [g| | | |]; cbn [C06_History_Model.rules_step]; try exact HL.
  destruct (Net_Model.is_badfilter g) eqn:E; [exact HL|].
  intros f Hf. apply in_app_or in Hf as [Hf|[<-|[]]]; [exact (HL f Hf)|exact E].
Qed.
Lemma no_badfilter_not_cancelled L f :
  (forall g, In g L -> Net_Model.is_badfilter g = false) -> In f L -> cancelled L f = false.
Proof.
  intros HL Hf. unfold cancelled, Net_Model.badfilter_ids. rewrite (HL f Hf).
  assert (E : filter Net_Model.is_badfilter L = []).
  { clear Hf. induction L as [|g r IH]; [reflexivity|]. cbn [filter].
    rewrite (HL g (or_introl eq_refl)). apply IH. intros x Hx. apply HL. right; exact Hx. }
  rewrite E. reflexivity.
Qed.
Theorem spec_generichide_history matches ops T :
  spec_generichide matches (C06_History_Model.loaded ops) T =
  existsb (fun f => Net_Model.is_generic_hide f && negb (Net_Model.is_csp f) && negb (Net_Model.is_removeparam f)
                    && Net_Model.tag_ok T f && matches f) (C06_History_Model.loaded ops).
Proof.
  unfold spec_generichide. apply existsb_ext_in. intros f Hf. unfold generichide_rule.
  assert (NC : cancelled (C06_History_Model.loaded ops) f = false).
  { apply no_badfilter_not_cancelled; [|exact Hf].
    exact (loaded_from_no_badfilter ops [] (fun _ (F : In _ []) => match F with end)). }
  rewrite NC.
  cbn [negb]. rewrite Bool.andb_true_r. reflexivity.
Qed.

(* ================================================================ (d) serialization round trip *)
(* blockers whose seven query-side lists read alike bucket by bucket give the same whole answer,
   for every cosmetic cache *)
Theorem url_cosmetic_resources_agree h matches pr parsed a b c host dom :
  C08_Query_Model.net_agree a b ->
  url_cosmetic_resources_model h matches pr parsed a c host dom =
  url_cosmetic_resources_model h matches pr parsed b c host dom.
Proof.
  intros H. unfold url_cosmetic_resources_model.
  rewrite (C08_Query_Proofs.generic_hide_agree matches pr a b H). reflexivity.
Qed.

(* serialize e, load into any engine l, install any tag set: the network-dependent part of the
   answer is preserved — with the same cosmetic cache [c] on both sides the answers are equal
   (the cosmetic side's own round trip is C08's cosmetic_equiv / hostdb theorems) *)
Theorem url_cosmetic_resources_roundtrip as_css build_list l e tags :
  C08_Model.rules_ok (Wire_Model.e_blocker e) -> C08_Query_Model.keys_distinct (Wire_Model.e_blocker e) ->
  let w := Wire_Model.to_wire as_css (Wire_Model.e_blocker e) (Wire_Model.e_cosmetic e) in
  let e' := C08_Model.engine_use_tags build_list tags (Wire_Model.install build_list l w) in
  let e0 := C08_Model.engine_use_tags build_list tags e in
  forall h matches pr parsed c host dom,
  url_cosmetic_resources_model h matches pr parsed (C08_Query_Model.net_blocker (Wire_Model.e_blocker e')) c host dom =
  url_cosmetic_resources_model h matches pr parsed (C08_Query_Model.net_blocker (Wire_Model.e_blocker e0)) c host dom.
Proof.
  intros RO KD w e' e0 h matches pr parsed c host dom. unfold url_cosmetic_resources_model.
  pose proof (C08_Query_Proofs.generic_hide_roundtrip as_css build_list l e tags RO KD matches pr) as E.
  fold w in E. fold e' in E. fold e0 in E. rewrite E. reflexivity.
Qed.

(* ================================================================ examples (non-vacuity) *)
Definition A_COM : str := bs "a.com".
Definition B_COM : str := bs "b.com".

(* the premises of url_cosmetic_resources_spec hold for rules [@@||a.com^$generichide], cosmetic
   rules ##.ad, ##div[ad], a.com##.x on both pages, and the answers differ as they should:
   on a.com the generichide exception matches and only the scoped selector is returned; on b.com it
   does not and the generic misc-store selector is returned (##.ad is keyed by its class: C17) *)
Example url_cosmetic_resources_example :
  Net_Proofs.id_inj [ex_gh] /\
  Net_Proofs.TG Hashing.seahash (ex_page_matches A_COM) (ex_page_probes A_COM) [ex_gh] /\
  Net_Proofs.TG Hashing.seahash (ex_page_matches B_COM) (ex_page_probes B_COM) [ex_gh] /\
  In 0 (ex_page_probes A_COM) /\ In 0 (ex_page_probes B_COM) /\
  inj_on Hashing.seahash (lookup_strings A_COM A_COM ++ all_locations ex_crules) /\
  inj_on Hashing.seahash (lookup_strings B_COM B_COM ++ all_locations ex_crules) /\
  ex_page_matches A_COM ex_gh = true /\
  spec_generichide (ex_page_matches A_COM) [ex_gh] [] = true /\
  spec_generichide (ex_page_matches B_COM) [ex_gh] [] = false /\
  ex_answer [ex_gh] [] A_COM = mkRes [bs ".x"] [] [] [] true /\
  ex_answer [ex_gh] [] B_COM = mkRes [bs "div[ad]"] [] [] [] false.
Proof.
  repeat match goal with |- _ /\ _ => split end.
  - apply Net_Proofs.nodup_ids_inj. apply Net_Proofs.nodupN_b_sound. vm_compute. reflexivity.
  - apply Net_Proofs.TG_b_sound. vm_compute. reflexivity.
  - apply Net_Proofs.TG_b_sound. vm_compute. reflexivity.
  - apply memN_In. vm_compute. reflexivity.
  - apply memN_In. vm_compute. reflexivity.
  - apply inj_onb_sound. vm_compute. reflexivity.
  - apply inj_onb_sound. vm_compute. reflexivity.
  - vm_compute. reflexivity.
  - vm_compute. reflexivity.
  - vm_compute. reflexivity.
  - vm_compute. reflexivity.
  - vm_compute. reflexivity.
Qed.

(* a tagged generichide exception fires iff its tag is enabled (was a FINDING, class "tagged
   generichide rules are inert", repaired in /repo b8d0ade):
   @@||a.com^$generichide,tag=x , page https://a.com/ : every premise of the theorems holds; with x
   enabled generichide is true and only the scoped selector is returned, with nothing enabled (or
   another tag) generichide is false and the generic selector div[ad] is returned as well. *)
Example tagged_generichide_example :
  Net_Model.rtag ex_gh_tagged = Some (bs "x") /\
  Net_Proofs.id_inj [ex_gh_tagged] /\
  Net_Proofs.TG Hashing.seahash (ex_page_matches A_COM) (ex_page_probes A_COM) [ex_gh_tagged] /\
  In 0 (ex_page_probes A_COM) /\
  generichide_core (ex_page_matches A_COM) [ex_gh_tagged] ex_gh_tagged = true /\
  Net_Model.generic_hide_hit (ex_page_matches A_COM) (ex_page_probes A_COM)
    (Net_Model.tags_with_set Hashing.seahash (Net_Model.blocker_new Hashing.seahash [ex_gh_tagged]) [bs "x"]) = true /\
  Net_Model.generic_hide_hit (ex_page_matches A_COM) (ex_page_probes A_COM)
    (Net_Model.tags_with_set Hashing.seahash (Net_Model.blocker_new Hashing.seahash [ex_gh_tagged]) []) = false /\
  ex_answer [ex_gh_tagged] [bs "x"] A_COM = mkRes [bs ".x"] [] [] [] true /\
  ex_answer [ex_gh_tagged] [bs "y"; bs "x"] A_COM = mkRes [bs ".x"] [] [] [] true /\
  ex_answer [ex_gh_tagged] [] A_COM = mkRes [bs "div[ad]"; bs ".x"] [] [] [] false /\
  ex_answer [ex_gh_tagged] [bs "y"] A_COM = mkRes [bs "div[ad]"; bs ".x"] [] [] [] false.
Proof.
  repeat match goal with |- _ /\ _ => split end.
  - reflexivity.
  - apply Net_Proofs.nodup_ids_inj. apply Net_Proofs.nodupN_b_sound. vm_compute. reflexivity.
  - apply Net_Proofs.TG_b_sound. vm_compute. reflexivity.
  - apply memN_In. vm_compute. reflexivity.
  - vm_compute. reflexivity.
  - vm_compute. reflexivity.
  - vm_compute. reflexivity.
  - vm_compute. reflexivity.
  - vm_compute. reflexivity.
  - vm_compute. reflexivity.
  - vm_compute. reflexivity.
Qed.

(* the premises of (a) cannot be dropped.
   TG: page https://b.org/ and a matcher that says yes although the rule's only token "com" is not
   among the probes - the lookup never sees the rule. *)
Lemma generichide_TG_needed_refuted : exists matches pr L T,
  Net_Proofs.id_inj L /\ In 0 pr /\
  Net_Model.generic_hide_hit matches pr
    (Net_Model.tags_with_set Hashing.seahash (Net_Model.blocker_new Hashing.seahash L) T)
  <> spec_generichide matches L T.
Proof.
  exists (fun _ => true), (ex_page_probes (bs "b.org")), [ex_gh], [].
  split; [|split].
  - apply Net_Proofs.nodup_ids_inj. apply Net_Proofs.nodupN_b_sound. vm_compute. reflexivity.
  - apply memN_In. vm_compute. reflexivity.
  - vm_compute. discriminate.
Qed.
(* id_inj: two different rules under one id in one bucket - the second insert is dropped, and it
   was the one that matches *)
Lemma generichide_id_inj_needed_refuted : exists matches pr L T,
  Net_Proofs.TG Hashing.seahash matches pr L /\ In 0 pr /\
  Net_Model.generic_hide_hit matches pr
    (Net_Model.tags_with_set Hashing.seahash (Net_Model.blocker_new Hashing.seahash L) T)
  <> spec_generichide matches L T.
Proof.
  exists (ex_page_matches A_COM), (ex_page_probes A_COM),
         [Net_Model.mkr (Net_Model.rid ex_gh) ex_mask Net_Model.FEmpty (Some B_COM) None None None None; ex_gh], [].
  split; [|split].
  - apply Net_Proofs.TG_b_sound. vm_compute. reflexivity.
  - apply memN_In. vm_compute. reflexivity.
  - vm_compute. discriminate.
Qed.

(* ---------------------------------------------------------------- after a history *)
(* matcher of C05's shape: options always pass, a pattern matches when the URL contains it;
   rules  @@a.com/index$generichide , @@a.com/in$generichide (fused with the first by optimize()),
   the first one again as a $badfilter rule (refused by add_filter: it cancels nothing), a rule
   for b.com tagged x, tag switches; page https://a.com/index.html against https://b.com/index.html *)
Definition hg_mask : N :=
  fold_left N.lor [Generated.M_THIRD_PARTY; Generated.M_FIRST_PARTY; Generated.M_FROM_HTTPS; Generated.M_FROM_HTTP;
                   Generated.M_IS_EXCEPTION; Generated.M_GENERIC_HIDE; Generated.M_FROM_NETWORK_TYPES] 0.
Definition hg_rule (line pat : string) (m : N) (tg : option str) : Net_Model.rule :=
  Net_Model.mkr (Hashing.seahash (bs line)) m (Net_Model.FSimple (bs pat)) None None None None tg.
Definition hg_r1 := hg_rule "@@a.com/index$generichide" "a.com/index" hg_mask None.
Definition hg_r2 := hg_rule "@@a.com/in$generichide" "a.com/in" hg_mask None.
Definition hg_bad := hg_rule "@@a.com/index$generichide,badfilter" "a.com/index" (N.lor hg_mask Generated.M_BAD_FILTER) None.
Definition hg_tag := hg_rule "@@b.com/index$generichide,tag=x" "b.com/index" hg_mask (Some (bs "x")).
Definition hg_ops : list C06_History_Model.hop :=
  [ C06_History_Model.HAdd hg_r1; C06_History_Model.HAdd hg_r2; C06_History_Model.HOptimize;
    C06_History_Model.HEnable [bs "x"]; C06_History_Model.HAdd hg_bad; C06_History_Model.HAdd hg_tag;
    C06_History_Model.HAdd hg_r1; C06_History_Model.HOptimize; C06_History_Model.HUse [bs "x"; bs "y"] ].
Definition hg_url (host : str) : str := bs "https://" ++ host ++ bs "/index.html".
Definition hg_pm (host : str) : N -> str -> bool := fun _ s => containsb s (hg_url host).
Definition hg_probes (host : str) : list N :=
  Net_Model.probes Hashing.seahash (Some [Hashing.seahash host]) (hg_url host).
Definition hg_answer (ops : list C06_History_Model.hop) (host : str) : resources :=
  url_cosmetic_resources_model Hashing.seahash (C05_Model.rmatch (fun _ => true) (hg_pm host)) (hg_probes host) true
    (C06_History_Model.hrun Hashing.seahash ops) (build_cache Hashing.seahash ex_uw0 ex_crules) host host.
(* one more step: tag x is switched off again *)
Definition hg_ops_off : list C06_History_Model.hop := hg_ops ++ [C06_History_Model.HDisable [bs "x"]].

Example url_cosmetic_resources_history_example :
  C06_History_Model.loaded hg_ops = [hg_r1; hg_r2; hg_tag; hg_r1] /\
  Net_Proofs.id_inj (C06_History_Model.loaded hg_ops) /\
  Net_Proofs.TG Hashing.seahash (C05_Model.rmatch (fun _ => true) (hg_pm A_COM)) (hg_probes A_COM) (C06_History_Model.loaded hg_ops) /\
  Net_Proofs.TG Hashing.seahash (C05_Model.rmatch (fun _ => true) (hg_pm B_COM)) (hg_probes B_COM) (C06_History_Model.loaded hg_ops) /\
  (forall g, In g (C06_History_Model.loaded hg_ops) -> C05_Model.wfp g = true) /\
  In 0 (hg_probes A_COM) /\ In 0 (hg_probes B_COM) /\
  (* the first optimize() fused the two rules into one *)
  map (fun kb => List.length (snd kb)) (Net_Model.b_generic_hide (C06_History_Model.hrun Hashing.seahash (firstn 3 hg_ops))) = [1%nat] /\
  (* on b.com the only matching generichide rule is the tagged one: it fires while x is enabled
     (the history ends with use_tags [x; y]) and stops firing once x is disabled *)
  C05_Model.rmatch (fun _ => true) (hg_pm B_COM) hg_tag = true /\
  C06_History_Model.tagset hg_ops = [bs "x"; bs "y"] /\
  C06_History_Model.loaded hg_ops_off = C06_History_Model.loaded hg_ops /\
  C06_History_Model.tagset hg_ops_off = [bs "y"] /\
  hg_answer hg_ops A_COM = mkRes [bs ".x"] [] [] [] true /\
  hg_answer hg_ops B_COM = mkRes [] [] [] [] true /\
  hg_answer hg_ops_off A_COM = mkRes [bs ".x"] [] [] [] true /\
  hg_answer hg_ops_off B_COM = mkRes [bs "div[ad]"] [] [] [] false.
Proof.
  assert (EL : C06_History_Model.loaded hg_ops = [hg_r1; hg_r2; hg_tag; hg_r1]) by (vm_compute; reflexivity).
  repeat match goal with |- _ /\ _ => split end.
  - exact EL.
  - apply (Net_Proofs.id_inj_incl [hg_r1; hg_r2; hg_tag]).
    + rewrite EL. intros x Hx. cbn [In] in *. tauto.
    + apply Net_Proofs.nodup_ids_inj. apply Net_Proofs.nodupN_b_sound. vm_compute. reflexivity.
  - apply Net_Proofs.TG_b_sound. vm_compute. reflexivity.
  - apply Net_Proofs.TG_b_sound. vm_compute. reflexivity.
  - intros g Hg. assert (E : forallb C05_Model.wfp (C06_History_Model.loaded hg_ops) = true) by (vm_compute; reflexivity).
    rewrite forallb_forall in E. apply E. exact Hg.
  - apply memN_In. vm_compute. reflexivity.
  - apply memN_In. vm_compute. reflexivity.
  - vm_compute. reflexivity.
  - vm_compute. reflexivity.
  - vm_compute. reflexivity.
  - vm_compute. reflexivity.
  - vm_compute. reflexivity.
  - vm_compute. reflexivity.
  - vm_compute. reflexivity.
  - vm_compute. reflexivity.
  - vm_compute. reflexivity.
Qed.

(* ---------------------------------------------------------------- across the round trip *)
(* C08_Query_Proofs' example engine (a generichide rule under token 0, tags, five other lists):
   premises of url_cosmetic_resources_roundtrip hold, and the reloaded engine answers generichide *)
Example url_cosmetic_resources_roundtrip_example :
  C08_Model.rules_ok (Wire_Model.e_blocker C08_Query_Proofs.exq_engine) /\
  C08_Query_Model.keys_distinct (Wire_Model.e_blocker C08_Query_Proofs.exq_engine) /\
  url_cosmetic_resources_model Hashing.seahash C08_Query_Proofs.exq_matches [9; 7; 5; 0] true
    (C08_Query_Model.net_blocker (Wire_Model.e_blocker (C08_Query_Proofs.exq_reloaded [bs "t1"])))
    (build_cache Hashing.seahash ex_uw0 ex_crules) A_COM A_COM
  = mkRes [bs ".x"] [] [] [] true.
Proof.
  split; [exact C08_Query_Proofs.exq_rules_ok|]. split; [exact C08_Query_Proofs.exq_keys_distinct|].
  vm_compute. reflexivity.
Qed.

