(* Wire_Model.v — shared model for C08 / C09 / C10: engine state, wire structs, the mapping both
   ways (src/data_format/v0.rs), the ordered views (src/data_format/utils.rs), the msgpack
   *encoder* (rmp-serde's compact struct-as-array encoding; the decoder is not modelled), and the
   header written by `SerializeFormat::serialize`.  Definitions only.

   Conventions.  A Rust `HashMap<K, V>` / `HashSet<K>` is an association list / list **in an
   arbitrary order** with distinct keys: nothing below may depend on that order, and the C09
   theorems say so.  A `Vec` is a list in its real order.  `BTreeMap<&K,&V>` / `BTreeSet<&K>`
   views are lists sorted by key.  `Hash = u64` is `N`; `String` is `str` (bytes; Rust orders
   strings bytewise). *)
From Adb Require Import Base Generated.

(* ------------------------------------------------------------------ ordered views *)
Section Sort.
  Context {A K : Type} (key : A -> K) (leb : K -> K -> bool).
  (* stable insertion sort (an element goes in front of the first element whose key is not
     smaller; `isort` inserts from the right).  Keys are map keys, hence distinct, wherever this
     is a BTreeMap/BTreeSet view; a stable sort is a function of its input, so this is also
     Rust's `sort_by_key` (C09_Model) *)
  Fixpoint ins (x : A) (l : list A) : list A :=
    match l with
    | [] => [x]
    | y :: r => if leb (key x) (key y) then x :: l else y :: ins x r
    end.
  Fixpoint isort (l : list A) : list A :=
    match l with [] => [] | x :: r => ins x (isort r) end.
End Sort.

Fixpoint str_leb (a b : str) : bool :=      (* <= on Rust Strings: bytewise lexicographic *)
  match a, b with
  | [], _ => true
  | _ :: _, [] => false
  | x :: a', y :: b' => if N.ltb x y then true else if N.eqb x y then str_leb a' b' else false
  end.

Definition sort_set (s : list str) : list str := isort (fun x => x) str_leb s.
Definition sort_smap {V} (m : list (str * V)) : list (str * V) := isort fst str_leb m.
Definition sort_nmap {V} (m : list (N * V)) : list (N * V) := isort fst N.leb m.

(* Iterator::filter_map *)
Fixpoint fmap {A B} (f : A -> option B) (l : list A) : list B :=
  match l with
  | [] => []
  | a :: r => match f a with Some b => b :: fmap f r | None => fmap f r end
  end.

(* `map.get(k)` read as "the bin of k", absent = empty: this is all the query functions read *)
Fixpoint getn {V} (k : N) (m : list (N * list V)) : list V :=
  match m with [] => [] | (k', v) :: r => if N.eqb k k' then v else getn k r end.
Fixpoint gets {V} (k : str) (m : list (str * list V)) : list V :=
  match m with [] => [] | (k', v) :: r => if str_eqb k k' then v else gets k r end.

(* ------------------------------------------------------------------ engine state *)
Inductive filter_part := FEmpty | FSimple (s : str) | FAnyOf (l : list str).

Record rule := {                               (* NetworkFilter *)
  r_mask : N; r_filter : filter_part;
  r_opt_domains : option (list N); r_opt_not_domains : option (list N);
  r_modifier : option str; r_hostname : option str; r_tag : option str;
  r_raw : option str; r_id : N; r_dunion : option N; r_ndunion : option N }.

Definition bucket_map := list (N * list rule).  (* NetworkFilterList.filter_map *)

Record blocker := {
  b_csp : bucket_map; b_exceptions : bucket_map; b_importants : bucket_map;
  b_redirects : bucket_map; b_removeparam : bucket_map; b_filters_tagged : bucket_map;
  b_filters : bucket_map; b_generic_hide : bucket_map;
  b_tags_enabled : list str;                   (* HashSet<String> *)
  b_tagged_all : list rule;                    (* Vec *)
  b_opt : bool }.                              (* regex_manager: a cache, rebuilt on demand *)

Record hostdb := {                             (* HostnameRuleDb: six HostnameFilterBin *)
  h_hide : list (N * list str); h_unhide : list (N * list str);
  h_inject : list (N * list (str * N));        (* (scriptlet args, PermissionMask bits) *)
  h_uninject : list (N * list str);
  h_proc : list (N * list str); h_proc_exc : list (N * list str) }.

Record cosmetic := {
  c_simple_class : list str; c_simple_id : list str;
  c_complex_class : list (str * list str); c_complex_id : list (str * list str);
  c_specific : hostdb; c_misc : list str }.

(* `resources` is never touched by serialize/deserialize; it is carried to state that. *)
Record engine := { e_blocker : blocker; e_cosmetic : cosmetic; e_resources : list (str * str) }.

Definition mask_has (m b : N) : bool := N.eqb (N.land m b) b.          (* bitflags `contains` *)
Definition is_redirect (r : rule) := mask_has (r_mask r) M_IS_REDIRECT.
Definition is_csp (r : rule) := mask_has (r_mask r) M_IS_CSP.
Definition is_removeparam (r : rule) := mask_has (r_mask r) M_IS_REMOVEPARAM.

(* ------------------------------------------------------------------ wire structs *)
Record wrule := {                              (* NetworkFilterV0{Serialize,Deserialize}Fmt *)
  w_mask : N; w_filter : filter_part;
  w_opt_domains : option (list N); w_opt_not_domains : option (list N);
  w_redirect : option str; w_hostname : option str; w_csp : option str; w_bug : option N;
  w_tag : option str; w_raw : option str; w_id : N; w_dunion : option N; w_ndunion : option N }.

Inductive legacy :=                            (* LegacySpecificFilterType, declaration order *)
  | LHide (s : str) | LUnhide (s : str) | LStyle (s st : str) | LUnhideStyle (s st : str)
  | LInject (s : str) | LUninject (s : str).

Definition wlist := list (N * list wrule).     (* sorted by key on the way out *)

Record wire := {
  wi_csp : wlist; wi_exceptions : wlist; wi_importants : wlist; wi_redirects : wlist;
  wi_filters_tagged : wlist; wi_filters : wlist; wi_generic_hide : wlist;
  wi_tagged_all : list wrule;
  wi_opt : bool;
  wi_resources : list (str * (str * str));     (* LegacyRedirectResourceStorage: always empty *)
  wi_simple_class : list str; wi_simple_id : list str;
  wi_complex_class : list (str * list str); wi_complex_id : list (str * list str);
  wi_specific : list (N * list legacy);        (* LegacyHostnameRuleDb.db *)
  wi_misc : list str;
  wi_scriptlets : list (str * str);            (* LegacyScriptletResourceStorage: always empty *)
  wi_proc : list (N * list str); wi_proc_exc : list (N * list str) }.

(* ------------------------------------------------------------------ to_wire *)
Definition to_wrule (r : rule) : wrule := {|
  w_mask := r_mask r; w_filter := r_filter r;
  w_opt_domains := r_opt_domains r; w_opt_not_domains := r_opt_not_domains r;
  w_redirect := if is_redirect r then r_modifier r else None;
  w_hostname := r_hostname r;
  w_csp := if is_csp r then r_modifier r else None;
  w_bug := None;
  w_tag := r_tag r; w_raw := r_raw r; w_id := r_id r;
  w_dunion := r_dunion r; w_ndunion := r_ndunion r |}.

Definition to_wlist (m : bucket_map) : wlist :=
  sort_nmap (map (fun kv => (fst kv, map to_wrule (snd kv))) m).

(* `db.entry(k).and_modify(|v| v.push(x)).or_insert_with(|| vec![x])`, also
   `HostnameFilterBin::insert` (get_mut/push, else insert); a new key lands somewhere in the
   hash map – here: at the end *)
Fixpoint upsert {V} (k : N) (x : V) (m : list (N * list V)) : list (N * list V) :=
  match m with
  | [] => [(k, [x])]
  | (k', v) :: r => if N.eqb k k' then (k', v ++ [x]) :: r else (k', v) :: upsert k x r
  end.

(* for (hash, bin) in map.iter() { for f in bin { if let Some(y) = sel f { upsert hash y } } } *)
Definition push_all {A V} (sel : A -> option V) (bins : list (N * list A)) (db : list (N * list V))
  : list (N * list V) :=
  fold_left (fun db kb =>
    fold_left (fun db a => match sel a with Some y => upsert (fst kb) y db | None => db end) (snd kb) db)
    bins db.

Section ToWire.
  (* `serde_json::from_str::<ProceduralOrActionFilter>(f)` followed by `as_css()`:
     third-party JSON parsing, a function of the string *)
  Variable as_css : str -> option (str * str).

  Definition sel_style (f : str) : option legacy :=
    match as_css f with Some (s, st) => Some (LStyle s st) | None => None end.
  Definition sel_unstyle (f : str) : option legacy :=
    match as_css f with Some (s, st) => Some (LUnhideStyle s st) | None => None end.

  (* impl From<&HostnameRuleDb> for LegacyHostnameRuleDb: six loops, in this order *)
  Definition legacy_db (h : hostdb) : list (N * list legacy) :=
    let db := push_all (fun s => Some (LHide s)) (h_hide h) [] in
    let db := push_all (fun s => Some (LUnhide s)) (h_unhide h) db in
    let db := push_all (fun sm => Some (LInject (fst sm))) (h_inject h) db in
    let db := push_all (fun s => Some (LUninject s)) (h_uninject h) db in
    let db := push_all sel_style (h_proc h) db in
    push_all sel_unstyle (h_proc_exc h) db.

  Definition to_wire (b : blocker) (c : cosmetic) : wire := {|
    wi_csp := to_wlist (b_csp b); wi_exceptions := to_wlist (b_exceptions b);
    wi_importants := to_wlist (b_importants b); wi_redirects := to_wlist (b_redirects b);
    wi_filters_tagged := to_wlist (b_filters_tagged b); wi_filters := to_wlist (b_filters b);
    wi_generic_hide := to_wlist (b_generic_hide b);
    wi_tagged_all := map to_wrule (b_tagged_all b);
    wi_opt := b_opt b;
    wi_resources := [];
    wi_simple_class := sort_set (c_simple_class c); wi_simple_id := sort_set (c_simple_id c);
    wi_complex_class := sort_smap (c_complex_class c); wi_complex_id := sort_smap (c_complex_id c);
    wi_specific := sort_nmap (legacy_db (c_specific c));
    wi_misc := sort_set (c_misc c);
    wi_scriptlets := [];
    wi_proc := sort_nmap (h_proc (c_specific c));
    wi_proc_exc := sort_nmap (h_proc_exc (c_specific c)) |}.
End ToWire.

(* ------------------------------------------------------------------ from_wire *)
Definition from_wrule (w : wrule) : rule := {|
  r_mask := w_mask w; r_filter := w_filter w;
  r_opt_domains := w_opt_domains w; r_opt_not_domains := w_opt_not_domains w;
  r_modifier := match w_redirect w with Some x => Some x | None => w_csp w end;   (* redirect.or(csp) *)
  r_hostname := w_hostname w; r_tag := w_tag w; r_raw := w_raw w; r_id := w_id w;
  r_dunion := w_dunion w; r_ndunion := w_ndunion w |}.

Definition from_wlist (l : wlist) : bucket_map :=
  map (fun kv => (fst kv, map from_wrule (snd kv))) l.

Definition sel_hide (x : legacy) := match x with LHide s => Some s | _ => None end.
Definition sel_unhide (x : legacy) := match x with LUnhide s => Some s | _ => None end.
Definition sel_inject (x : legacy) : option (str * N) :=
  match x with LInject s => Some (s, 0) | _ => None end.          (* PermissionMask::default() *)
Definition sel_uninject (x : legacy) := match x with LUninject s => Some s | _ => None end.

(* impl Into<HostnameRuleDb> for LegacyHostnameRuleDb, then the two procedural maps are replaced
   by the wire's own (so the Style/UnhideStyle entries are ignored on this path) *)
Definition from_wire_hostdb (w : wire) : hostdb := {|
  h_hide := push_all sel_hide (wi_specific w) [];
  h_unhide := push_all sel_unhide (wi_specific w) [];
  h_inject := push_all sel_inject (wi_specific w) [];
  h_uninject := push_all sel_uninject (wi_specific w) [];
  h_proc := wi_proc w;
  h_proc_exc := wi_proc_exc w |}.

(* impl From<DeserializeFormat> for (Blocker, CosmeticFilterCache) *)
Definition from_wire_blocker (w : wire) : blocker := {|
  b_csp := from_wlist (wi_csp w); b_exceptions := from_wlist (wi_exceptions w);
  b_importants := from_wlist (wi_importants w); b_redirects := from_wlist (wi_redirects w);
  b_removeparam := [];                                              (* NetworkFilterList::default() *)
  b_filters_tagged := from_wlist (wi_filters_tagged w);
  b_filters := from_wlist (wi_filters w); b_generic_hide := from_wlist (wi_generic_hide w);
  b_tags_enabled := [];
  b_tagged_all := map from_wrule (wi_tagged_all w);
  b_opt := wi_opt w |}.

Definition from_wire_cosmetic (w : wire) : cosmetic := {|
  c_simple_class := wi_simple_class w; c_simple_id := wi_simple_id w;
  c_complex_class := wi_complex_class w; c_complex_id := wi_complex_id w;
  c_specific := from_wire_hostdb w; c_misc := wi_misc w |}.

(* ------------------------------------------------------------------ Blocker::use_tags *)
Definition tag_enabled (tags : list str) (r : rule) : bool :=
  match r_tag r with Some t => mem_str t tags | None => false end.

Section Tags.
  (* NetworkFilterList::new(filters, optimize): its bucket choice is C01's subject, its bucket
     order C09's (C09_Model.fl_insert / fl_optimize); here only "a function of its arguments" *)
  Variable build_list : list rule -> bool -> bucket_map.

  Definition use_tags (tags : list str) (b : blocker) : blocker := {|
    b_csp := b_csp b; b_exceptions := b_exceptions b; b_importants := b_importants b;
    b_redirects := b_redirects b; b_removeparam := b_removeparam b;
    b_filters_tagged := build_list (filter (tag_enabled tags) (b_tagged_all b)) (b_opt b);
    b_filters := b_filters b; b_generic_hide := b_generic_hide b;
    b_tags_enabled := tags; b_tagged_all := b_tagged_all b; b_opt := b_opt b |}.

  (* the part of Engine::deserialize after a successful decode *)
  Definition install (e : engine) (w : wire) : engine := {|
    e_blocker := use_tags (b_tags_enabled (e_blocker e)) (from_wire_blocker w);
    e_cosmetic := from_wire_cosmetic w;
    e_resources := e_resources e |}.
End Tags.

(* ------------------------------------------------------------------ msgpack encoding *)
(* what serde's derive + rmp-serde 0.15 (`rmps::encode::write`, compact: struct = array of the
   fields in declaration order, enum = 1-entry map variant-index -> payload, None = nil) emit *)
Inductive mp := MNil | MBool (b : bool) | MInt (n : N) | MStr (s : str)
              | MArr (l : list mp) | MMap (l : list (mp * mp)).

Fixpoint be (k : nat) (n : N) : list N :=      (* k big-endian bytes of n *)
  match k with O => [] | S k' => N.land (N.shiftr n (8 * N.of_nat k')) 255 :: be k' n end.

Definition enc_uint (n : N) : list N :=        (* rmp::encode::write_uint: smallest form *)
  if N.ltb n 128 then [n]
  else if N.ltb n 256 then 204 :: be 1 n
  else if N.ltb n 65536 then 205 :: be 2 n
  else if N.ltb n 4294967296 then 206 :: be 4 n
  else 207 :: be 8 n.
Definition enc_str_hdr (n : N) : list N :=
  if N.ltb n 32 then [160 + n]
  else if N.ltb n 256 then 217 :: be 1 n
  else if N.ltb n 65536 then 218 :: be 2 n
  else 219 :: be 4 n.
Definition enc_arr_hdr (n : N) : list N :=
  if N.ltb n 16 then [144 + n] else if N.ltb n 65536 then 220 :: be 2 n else 221 :: be 4 n.
Definition enc_map_hdr (n : N) : list N :=
  if N.ltb n 16 then [128 + n] else if N.ltb n 65536 then 222 :: be 2 n else 223 :: be 4 n.

Fixpoint encode (t : mp) : list N :=
  match t with
  | MNil => [192]
  | MBool b => [if b then 195 else 194]
  | MInt n => enc_uint n
  | MStr s => enc_str_hdr (N.of_nat (length s)) ++ s
  | MArr l => enc_arr_hdr (N.of_nat (length l)) ++
              (fix go (l : list mp) := match l with [] => [] | x :: r => encode x ++ go r end) l
  | MMap l => enc_map_hdr (N.of_nat (length l)) ++
              (fix go (l : list (mp * mp)) :=
                 match l with [] => [] | (k, v) :: r => encode k ++ encode v ++ go r end) l
  end.

Definition t_opt {A} (f : A -> mp) (o : option A) : mp := match o with Some x => f x | None => MNil end.
Definition t_list {A} (f : A -> mp) (l : list A) : mp := MArr (map f l).
Definition t_nmap {V} (f : V -> mp) (m : list (N * V)) : mp := MMap (map (fun kv => (MInt (fst kv), f (snd kv))) m).
Definition t_smap {V} (f : V -> mp) (m : list (str * V)) : mp := MMap (map (fun kv => (MStr (fst kv), f (snd kv))) m).
Definition t_variant (idx : N) (payload : mp) : mp := MMap [(MInt idx, payload)].

Definition t_filter_part (f : filter_part) : mp :=
  match f with
  | FEmpty => t_variant 0 MNil
  | FSimple s => t_variant 1 (MStr s)
  | FAnyOf l => t_variant 2 (t_list MStr l)
  end.

Definition wrule_fields (w : wrule) : list (string * mp) := [
  ("mask"%string, MInt (w_mask w)); ("filter"%string, t_filter_part (w_filter w));
  ("opt_domains"%string, t_opt (t_list MInt) (w_opt_domains w));
  ("opt_not_domains"%string, t_opt (t_list MInt) (w_opt_not_domains w));
  ("redirect"%string, t_opt MStr (w_redirect w)); ("hostname"%string, t_opt MStr (w_hostname w));
  ("csp"%string, t_opt MStr (w_csp w)); ("_bug"%string, t_opt MInt (w_bug w));
  ("tag"%string, t_opt MStr (w_tag w)); ("raw_line"%string, t_opt MStr (w_raw w));
  ("id"%string, MInt (w_id w));
  ("opt_domains_union"%string, t_opt MInt (w_dunion w));
  ("opt_not_domains_union"%string, t_opt MInt (w_ndunion w)) ].
Definition t_wrule (w : wrule) : mp := MArr (map snd (wrule_fields w)).

Definition t_legacy (x : legacy) : mp :=
  match x with
  | LHide s => t_variant 0 (MStr s)
  | LUnhide s => t_variant 1 (MStr s)
  | LStyle s st => t_variant 2 (MArr [MStr s; MStr st])
  | LUnhideStyle s st => t_variant 3 (MArr [MStr s; MStr st])
  | LInject s => t_variant 4 (MStr s)
  | LUninject s => t_variant 5 (MStr s)
  end.
Definition legacy_variant_names : list string :=
  ["Hide"; "Unhide"; "Style"; "UnhideStyle"; "ScriptInject"; "UnhideScriptInject"]%string.

(* a struct with the single field filter_map / db / resources *)
Definition t_wlist (l : wlist) : mp := MArr [t_nmap (t_list t_wrule) l].

Definition wire_fields (w : wire) : list (string * mp) := [
  ("csp"%string, t_wlist (wi_csp w)); ("exceptions"%string, t_wlist (wi_exceptions w));
  ("importants"%string, t_wlist (wi_importants w)); ("redirects"%string, t_wlist (wi_redirects w));
  ("filters_tagged"%string, t_wlist (wi_filters_tagged w)); ("filters"%string, t_wlist (wi_filters w));
  ("generic_hide"%string, t_wlist (wi_generic_hide w));
  ("tagged_filters_all"%string, t_list t_wrule (wi_tagged_all w));
  ("enable_optimizations"%string, MBool (wi_opt w));
  ("resources"%string, MArr [t_smap (fun cd => MArr [MStr (fst cd); MStr (snd cd)]) (wi_resources w)]);
  ("simple_class_rules"%string, t_list MStr (wi_simple_class w));
  ("simple_id_rules"%string, t_list MStr (wi_simple_id w));
  ("complex_class_rules"%string, t_smap (t_list MStr) (wi_complex_class w));
  ("complex_id_rules"%string, t_smap (t_list MStr) (wi_complex_id w));
  ("specific_rules"%string, MArr [t_nmap (t_list t_legacy) (wi_specific w)]);
  ("misc_generic_selectors"%string, t_list MStr (wi_misc w));
  ("scriptlets"%string, MArr [t_smap (fun s => MArr [MStr s]) (wi_scriptlets w)]);
  ("procedural_action"%string, t_nmap (t_list MStr) (wi_proc w));
  ("procedural_action_exception"%string, t_nmap (t_list MStr) (wi_proc_exc w)) ].
Definition wire_tree (w : wire) : mp := MArr (map snd (wire_fields w)).

(* SerializeFormat::serialize: magic, version byte, payload *)
Definition serialize_wire (w : wire) : list N := DAT_MAGIC ++ [V0_VERSION_BYTE] ++ encode (wire_tree w).
Definition serialize (as_css : str -> option (str * str)) (e : engine) : list N :=
  serialize_wire (to_wire as_css (e_blocker e) (e_cosmetic e)).

(* ------------------------------------------------------------------ harness helpers *)
(* as_css as a finite table supplied by the harness (the implementation's own answers) *)
Fixpoint css_table (t : list (str * option (str * str))) (f : str) : option (str * str) :=
  match t with [] => None | (k, v) :: r => if str_eqb f k then v else css_table r f end.
Definition bytes_eqb (a b : list N) : bool := list_eqb N.eqb a b.
