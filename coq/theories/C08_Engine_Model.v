(* C08_Engine_Model.v — C08 at the level of the whole `Engine` (src/engine.rs): the three fields

       pub struct Engine { blocker, cosmetic_cache, resources: ResourceStorage }

   with the operations that move state in and out (serialize_raw / deserialize / use_tags /
   use_resources / add_resource) and the three network-side queries as the ENGINE answers them,
   i.e. with the engine's own resources handed to the blocker:

       check_network_request_subset(req, mr, fc) = blocker.check_parameterised(req, &self.resources, mr, fc)
       get_csp_directives(req)                   = blocker.get_csp_directives(req)
       url_cosmetic_resources: generichide       = blocker.check_generic_hide(req)

   Reused, not duplicated: the blocker / cosmetic state, to_wire / install (Wire_Model), the byte
   encoder `serialize` (Wire_Model), the header dispatch and `deserialize` with the msgpack decoder
   as a parameter (C10_Model), the translation net_blocker (C08_Query_Model), the answers
   engine_check / engine_csp (Engine_Model), generic_hide_hit (Net_Model), the resource storage and
   its operations (C13_Model).

   Resources and the wire.  In this version of the crate the resources are NOT serialized:
   SerializeFormat::build(&self.blocker, &self.cosmetic_cache) never sees `self.resources`, the two
   legacy resource fields of the format are written empty (Wire_Model.wi_resources /
   wi_scriptlets, "always empty") and ignored on the way in (`_resources`, `_scriptlets` in
   src/data_format/v0.rs), and Engine::deserialize assigns `self.blocker` and
   `self.cosmetic_cache` only.  So "the reloaded resources" are the resources of the RECEIVING
   engine: [fe_install] keeps [fe_store] of the receiver.  Wire_Model.engine carries an
   uninterpreted `e_resources : list (str * str)` for the single purpose of stating that loading
   does not touch it; here the resources are the real thing, a C13_Model.storage, kept beside the
   wire-side state; nothing below reads e_resources.  Definitions only. *)
From Adb Require Import Base Generated Wire_Model Wire_Proofs C08_Model C08_Query_Model.
From Adb Require Net_Model Engine_Model C13_Model C10_Model.

Record full_engine := { fe_state : engine; fe_store : C13_Model.storage }.

(* Engine::new(optimize) *)
Definition fe_new (optimize : bool) : full_engine :=
  {| fe_state := Build_engine (Build_blocker [] [] [] [] [] [] [] [] [] [] optimize) empty_cosmetic [];
     fe_store := C13_Model.empty_store |}.

(* Engine::use_resources / Engine::add_resource (Err(..) leaves the storage as it was) *)
Definition fe_use_resources (rs : list C13_Model.resource) (g : full_engine) : full_engine :=
  {| fe_state := fe_state g; fe_store := C13_Model.from_resources rs |}.
Definition fe_add_resource (r : C13_Model.resource) (g : full_engine) : full_engine :=
  {| fe_state := fe_state g; fe_store := C13_Model.add_resource (fe_store g) r |}.

Section Ops.
  Variable as_css : str -> option (str * str).                (* see Wire_Model.ToWire *)
  Variable build_list : list rule -> bool -> bucket_map.      (* NetworkFilterList::new *)

  (* Engine::use_tags *)
  Definition fe_use_tags (tags : list str) (g : full_engine) : full_engine :=
    {| fe_state := engine_use_tags build_list tags (fe_state g); fe_store := fe_store g |}.

  (* Engine::serialize_raw: the value handed to the encoder, and the bytes *)
  Definition fe_wire (g : full_engine) : wire := to_wire as_css (e_blocker (fe_state g)) (e_cosmetic (fe_state g)).
  Definition fe_serialize (g : full_engine) : list N := serialize as_css (fe_state g).

  (* Engine::deserialize after a successful decode: blocker (with the receiver's enabled tags
     re-applied) and cosmetic cache are replaced, `self.resources` stays *)
  Definition fe_install (g : full_engine) (w : wire) : full_engine :=
    {| fe_state := install build_list (fe_state g) w; fe_store := fe_store g |}.

  (* Engine::deserialize on bytes; `decode` = rmps::decode::from_read (Err = None), not modelled:
     C10_Model.  The result is (engine after the call, None = Ok(()) | Some err). *)
  Definition fe_deserialize (decode : list N -> option wire) (g : full_engine) (b : list N)
    : res (full_engine * option C10_Model.load_error) :=
    match C10_Model.deserialize decode build_list (fe_state g) b with
    | Ok (e', err) => Ok ({| fe_state := e'; fe_store := fe_store g |}, err)
    | Panic why => Panic why
    end.
End Ops.

(* ------------------------------------------------------------------ the queries, as the Engine answers them *)
Section Answers.
  Variable matches : Net_Model.rule -> bool.     (* NetworkFilter::matches against the request at hand *)
  Variable pr : list N.                          (* the request's probes *)

  Definition fe_net (g : full_engine) : Net_Model.blocker := net_blocker (e_blocker (fe_state g)).

  (* Engine::check_network_request_subset (check_network_request = both flags false) *)
  Definition fe_check (supported : bool) (url : str) (mr fc : bool) (g : full_engine) : Engine_Model.result :=
    Engine_Model.engine_check matches pr supported url (fe_store g) mr fc (fe_net g).
  (* Engine::get_csp_directives *)
  Definition fe_csp (rtype : request_type) (g : full_engine) : option (list str) :=
    Engine_Model.engine_csp matches pr rtype (fe_net g).
  (* the generichide bit computed by Engine::url_cosmetic_resources *)
  Definition fe_generic_hide (g : full_engine) : bool := Net_Model.generic_hide_hit matches pr (fe_net g).
End Answers.

(* "answers every query identically": every matcher (= every request as the per-rule matcher sees
   it), probe list, is_supported bit, URL, request type and both flags of the subset query *)
Definition same_answers (g g' : full_engine) : Prop :=
  forall matches pr supported url rtype mr fc,
    fe_check matches pr supported url mr fc g = fe_check matches pr supported url mr fc g' /\
    fe_csp matches pr rtype g = fe_csp matches pr rtype g' /\
    fe_generic_hide matches pr g = fe_generic_hide matches pr g'.

(* ... and the same up to BlockerResult.rewritten_url (what F8 costs) *)
Definition same_answers_but_rewritten (g g' : full_engine) : Prop :=
  forall matches pr supported url rtype mr fc,
    same_but_rewritten (fe_check matches pr supported url mr fc g) (fe_check matches pr supported url mr fc g') /\
    fe_csp matches pr rtype g = fe_csp matches pr rtype g' /\
    fe_generic_hide matches pr g = fe_generic_hide matches pr g'.

(* ------------------------------------------------------------------ premises *)
(* all the network query reads of a ResourceStorage is get_redirect_resource (C13_Model.redirect_of):
   the receiver must hold resources that answer it like the sender's.  Equal storages agree;
   so do storages filled by use_resources with the same resources. *)
Definition stores_agree (s s' : C13_Model.storage) : Prop :=
  forall name, C13_Model.get_redirect_resource s name = C13_Model.get_redirect_resource s' name.

(* filters_tagged is what use_tags(tags_enabled) builds from tagged_filters_all: true of every state
   the crate reaches (Blocker::new: no tags, empty list; use_tags / enable_tags / disable_tags end
   in tags_with_set, which rebuilds it).  Stated bucket-wise, as the queries read it. *)
Definition tags_installed (build_list : list rule -> bool -> bucket_map) (b : blocker) : Prop :=
  bins_equiv (b_filters_tagged b)
             (build_list (filter (tag_enabled (b_tags_enabled b)) (b_tagged_all b)) (b_opt b)).

(* every rule of the state keeps its two domain unions as the crate computes them
   (C08_Query_Model.unions_canonical): needed only when the per-rule matcher is given on the
   wire-side rule (it may read the unions, as check_options does) *)
Definition bucket_unions_ok (m : bucket_map) : Prop := Forall (fun kb => Forall unions_canonical (snd kb)) m.
Record unions_ok (b : blocker) : Prop := {
  uo_csp : bucket_unions_ok (b_csp b); uo_exceptions : bucket_unions_ok (b_exceptions b);
  uo_importants : bucket_unions_ok (b_importants b); uo_redirects : bucket_unions_ok (b_redirects b);
  uo_removeparam : bucket_unions_ok (b_removeparam b);
  uo_filters_tagged : bucket_unions_ok (b_filters_tagged b); uo_filters : bucket_unions_ok (b_filters b);
  uo_generic_hide : bucket_unions_ok (b_generic_hide b) }.

(* ------------------------------------------------------------------ the matcher on the wire-side rule *)
(* The per-rule matcher as the crate has it is a function of the stored NetworkFilter (all eleven
   fields of Wire_Model.rule; it may read the two unions, as check_options does).  Such a matcher
   is transported to the query side by C08_Query_Model.net_matcher; [w_check_all] is
   NetworkFilterList::check_all read directly on the wire-side list, and
   C08_Engine_Proofs.check_all_wire shows that on states with canonical unions the query-side
   check_all under the transported matcher delivers exactly the translated rules of w_check_all:
   so every theorem stated "for every matches : Net_Model.rule -> bool" covers the crate's
   matcher on the stored rules. *)
Definition w_tag_ok (tags : list str) (r : rule) : bool :=
  match r_tag r with Some t => mem_str t tags | None => true end.
Definition w_check_all (wm : rule -> bool) (m : bucket_map) (pr : list N) (tags : list str) : list rule :=
  flat_map (fun k => filter (fun r => wm r && w_tag_ok tags r) (getn k m)) pr.
(* the bucket-wise reading of bucket_unions_ok (what survives the round trip as it stands) *)
Definition bins_unions_ok (m : bucket_map) : Prop := forall k, Forall unions_canonical (getn k m).
