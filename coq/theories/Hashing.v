(* Hashing.v — seahash 4.1.0 (utils::fast_hash) and compute_filter_id in Gallina.
   Wrapping 64-bit arithmetic is explicit.  Definitions only. *)
From Adb Require Import Base.

Definition MASK64 : N := 18446744073709551615.
Definition wmul (x y : N) := N.land (x * y) MASK64.
Definition SEA_K : N := 0x6eed0e9da4d94a4f.
Definition diffuse (x : N) : N :=
  let x := wmul x SEA_K in
  let a := N.shiftr x 32 in
  let b := N.shiftr x 60 in
  let x := N.lxor x (N.shiftr a b) in
  wmul x SEA_K.
Fixpoint read_le (b : list N) : N :=
  match b with [] => 0 | x :: r => x + 256 * read_le r end.
Definition sea_state := (N * N * N * N)%type.
Fixpoint sea_blocks (fuel : nat) (buf : list N) (s : sea_state) : sea_state * list N :=
  match fuel with
  | O => (s, buf)
  | S f =>
      if Nat.leb 32 (length buf) then
        let '(a, b, c, d) := s in
        let a := diffuse (N.lxor a (read_le (take 8 buf))) in
        let b := diffuse (N.lxor b (read_le (take 8 (drop 8 buf)))) in
        let c := diffuse (N.lxor c (read_le (take 8 (drop 16 buf)))) in
        let d := diffuse (N.lxor d (read_le (take 8 (drop 24 buf)))) in
        sea_blocks f (drop 32 buf) (a, b, c, d)
      else (s, buf)
  end.
Definition sea_tail (rest : list N) (s : sea_state) : sea_state :=
  let '(a, b, c, d) := s in
  let n := length rest in
  let w i := read_le (take 8 (drop i rest)) in
  if Nat.eqb n 0 then s
  else if Nat.leb n 8 then (diffuse (N.lxor a (w 0%nat)), b, c, d)
  else if Nat.leb n 16 then (diffuse (N.lxor a (w 0%nat)), diffuse (N.lxor b (w 8%nat)), c, d)
  else if Nat.leb n 24 then
    (diffuse (N.lxor a (w 0%nat)), diffuse (N.lxor b (w 8%nat)), diffuse (N.lxor c (w 16%nat)), d)
  else (diffuse (N.lxor a (w 0%nat)), diffuse (N.lxor b (w 8%nat)),
        diffuse (N.lxor c (w 16%nat)), diffuse (N.lxor d (w 24%nat))).
Definition seahash (buf : list N) : N :=
  let '(s, rest) := sea_blocks (length buf) buf
        (0x16f11fe89b0d677c, 0xb480a793d8e6c86c, 0x6fe2e5aaf078ebc9, 0x14f994a4c5259381) in
  let '(a, b, c, d) := sea_tail rest s in
  diffuse (N.lxor (N.lxor (N.lxor a b) (N.lxor c d)) (N.of_nat (length buf))).

(* compute_filter_id (src/filters/network.rs): 33-multiplicative, wrapping; characters are code
   points, which for ASCII text are the bytes (the model is used on ASCII fields only). *)
Definition id_step (acc c : N) : N := N.lxor (wmul acc 33) c.
Definition id_str (acc : N) (s : option str) : N :=
  match s with Some t => fold_left id_step t acc | None => acc end.
Definition id_hashes (acc : N) (d : option (list N)) : N :=
  match d with Some l => fold_left id_step l acc | None => acc end.
(* the sequence of symbols fed to the hash after the mask: each optional section after the modifier
   is introduced by its own marker 1..4 (since /repo b71a5fe) *)
Definition sec {A} (marker : N) (o : option (list A)) (inj : A -> N) : list N :=
  match o with Some l => marker :: map inj l | None => [] end.
Definition id_symbols (modifier : option str) (filter hostname : option str)
           (doms notdoms : option (list N)) : list N :=
  (match modifier with Some t => t | None => [] end)
  ++ sec 1 doms (fun x => x) ++ sec 2 notdoms (fun x => x)
  ++ sec 3 filter (fun x => x) ++ sec 4 hostname (fun x => x).
Definition compute_filter_id (modifier : option str) (mask : N) (filter hostname : option str)
           (doms notdoms : option (list N)) : N :=
  fold_left id_step (id_symbols modifier filter hostname doms notdoms) (N.lxor (5408 * 33) mask).
