(* Props_C04.v — pinned statements for C04: exception / important / $badfilter precedence and
   monotonicity of rule addition.  [TG] and [id_inj] are the C01 premises (token guarantee,
   no id collision); the spec-level theorems need neither. *)
From Adb Require Import Base Generated Hashing Net_Model Net_Proofs C04_Proofs.

(* blocked <-> an important rule matches, or a blocking rule matches and no active exception does *)
Theorem C04_blocked_engine_spec : forall h matches pr, In 0 pr -> forall L T,
  id_inj L -> TG h matches pr L ->
  blocked_engine h matches pr L T = imp matches L T || (blk matches L T && negb (exc matches L T)).
Proof. exact blocked_engine_spec. Qed.
Print Assumptions C04_blocked_engine_spec.

Theorem C04_add_exception_monotone_spec : forall matches L T x,
  is_badfilter x = false -> category_of x = CException ->
  blocked_spec matches (L ++ [x]) T = true -> blocked_spec matches L T = true.
Proof. exact add_exception_monotone. Qed.
Print Assumptions C04_add_exception_monotone_spec.

Theorem C04_add_blocking_monotone_spec : forall matches L T x,
  is_badfilter x = false ->
  (category_of x = CNormal \/ category_of x = CTagged \/ category_of x = CImportant) ->
  blocked_spec matches L T = true -> blocked_spec matches (L ++ [x]) T = true.
Proof. exact add_blocking_monotone. Qed.
Print Assumptions C04_add_blocking_monotone_spec.

Theorem C04_engine_add_exception_monotone : forall h matches pr, In 0 pr -> forall L T x,
  id_inj (L ++ [x]) -> TG h matches pr (L ++ [x]) ->
  is_badfilter x = false -> category_of x = CException ->
  blocked_engine h matches pr (L ++ [x]) T = true -> blocked_engine h matches pr L T = true.
Proof. exact engine_add_exception_monotone. Qed.
Print Assumptions C04_engine_add_exception_monotone.

Theorem C04_engine_add_blocking_monotone : forall h matches pr, In 0 pr -> forall L T x,
  id_inj (L ++ [x]) -> TG h matches pr (L ++ [x]) ->
  is_badfilter x = false ->
  (category_of x = CNormal \/ category_of x = CTagged \/ category_of x = CImportant) ->
  blocked_engine h matches pr L T = true -> blocked_engine h matches pr (L ++ [x]) T = true.
Proof. exact engine_add_blocking_monotone. Qed.
Print Assumptions C04_engine_add_blocking_monotone.

(* a $badfilter rule never takes part in any category *)
Theorem C04_badfilter_never_active : forall c L f, In f (of_cat c L) -> is_badfilter f = false.
Proof. exact (badfilter_never_active (fun _ => true)). Qed.
Print Assumptions C04_badfilter_never_active.

(* a rule survives iff no $badfilter rule of the list has its option-insensitive id *)
Theorem C04_badfilter_cancels_exactly : forall L y,
  In y (live L) <->
  In y L /\ is_badfilter y = false /\
  (forall z, In z L -> is_badfilter z = true -> get_id_without_badfilter z <> get_id y).
Proof. exact badfilter_cancels_exactly. Qed.
Print Assumptions C04_badfilter_cancels_exactly.

(* same pattern and same matching options => cancelled (the converse: different fields give
   different symbol sequences, C04_id_encoding_injective below, so only a collision of the 64-bit
   hash itself could cancel a different rule: the property's own no-collision assumption) *)
Theorem C04_badfilter_cancels_same : forall L y z,
  In z L -> is_badfilter z = true -> same_modulo_badfilter y z -> ~ In y (live L).
Proof. exact badfilter_cancels_same. Qed.
Print Assumptions C04_badfilter_cancels_same.

(* ------------------------------------------------------------------ translator tie: the control
   structure of src/blocker.rs as extracted on this run (Generated.BlockerGen, written by
   tools/gen_fragments/c01_blocker_structure.py) denotes the hand-written model *)
From Coq Require Import String.
From Adb Require Import Struct_Proofs.
Import Generated.BlockerGen.

(* exception is tested before important, in the batch constructor and in add_filter alike: an
   exception rule carrying $important is an exception *)
Theorem C04_src_category_chain_new : forall f c e,
  run_chain (pv_of f c e) new_chain = cat_name (category_of f).
Proof. exact new_chain_is_category_of. Qed.
Print Assumptions C04_src_category_chain_new.

Theorem C04_src_category_chain_add : forall f c e,
  run_chain (pv_of f c e) add_chain = cat_name (category_of f).
Proof. exact add_chain_is_category_of. Qed.
Print Assumptions C04_src_category_chain_add.

Theorem C04_src_badfilter_skip : forall f c e, eval (pv_of f c e) new_skip = c || is_badfilter f.
Proof. exact new_skip_is_not_live. Qed.
Print Assumptions C04_src_badfilter_skip.

(* ------------------------------------------------------------------ the id is the hash of an
   INJECTIVE encoding of (modifier, included domains, excluded domains, filter, hostname): the
   former collisions (F20: filter/hostname split; F29: sign of a domain) are gone by construction
   (/repo b71a5fe) *)
From Adb Require Import C04_Id_Proofs.

Theorem C04_id_is_hash_of_symbols : forall f,
  get_id f = fold_left id_step (id_symbols (rmod f) (fpart_view (rfilter f)) (rhost f) (rdomains f) (rnotdomains f))
                       (N.lxor (5408 * 33) (rmask f)).
Proof. exact get_id_is_hash_of_symbols. Qed.
Print Assumptions C04_id_is_hash_of_symbols.

Theorem C04_id_encoding_injective : forall m f h d nd m' f' h' d' nd',
  plain (mod_syms m) = true -> oplain d = true -> oplain nd = true -> oplain f = true -> oplain h = true ->
  plain (mod_syms m') = true -> oplain d' = true -> oplain nd' = true -> oplain f' = true -> oplain h' = true ->
  id_symbols m f h d nd = id_symbols m' f' h' d' nd' ->
  mod_syms m = mod_syms m' /\ d = d' /\ nd = nd' /\ f = f' /\ h = h'.
Proof. exact id_symbols_inj. Qed.
Print Assumptions C04_id_encoding_injective.

Theorem C04_id_decodable : forall m f h d nd,
  plain (mod_syms m) = true -> oplain d = true -> oplain nd = true -> oplain f = true -> oplain h = true ->
  decode (id_symbols m f h d nd) = (mod_syms m, d, nd, f, h).
Proof. exact decode_id_symbols. Qed.
Print Assumptions C04_id_decodable.
