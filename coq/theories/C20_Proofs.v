(* C20_Proofs.v — lemmas and proofs for property C20 (content-blocking export). *)
From Adb Require Import Base BaseProofs Generated C20_Model.
From Coq Require Import ZifyBool ZifyNat ZifyN.

(* ================================================================== tables (tie T) *)
Lemma special_table_ok c : In c safari_meta <-> In c (STAR :: cb_special_chars).
Proof. cbv [safari_meta cb_special_chars In STAR DOT PLUS QM CARET DOLLAR LPAR RPAR PIPE LBR RBR BSL]. tauto. Qed.

Lemma meta_special c : memN c safari_meta = is_special c || N.eqb c STAR.
Proof.
  unfold is_special.
  destruct (memN c safari_meta) eqn:E.
  - apply memN_In, special_table_ok in E. destruct E as [E|E].
    + subst c. rewrite N.eqb_refl. apply eq_sym, orb_true_r.
    + apply memN_In in E. rewrite E. reflexivity.
  - destruct (memN c cb_special_chars) eqn:F.
    + apply memN_In in F. assert (G : In c safari_meta) by (apply special_table_ok; right; exact F).
      apply memN_In in G. congruence.
    + destruct (N.eqb c STAR) eqn:G; [|reflexivity].
      apply N.eqb_eq in G. assert (K : In c safari_meta) by (apply special_table_ok; left; auto).
      apply memN_In in K. congruence.
Qed.

Lemma star_not_special : is_special STAR = false.
Proof. reflexivity. Qed.
Lemma caret_special : is_special CARET = true.
Proof. reflexivity. Qed.

Lemma host_prefix_text_ok : print_regex (mkRx true host_prefix_items false) = cb_host_prefix_text.
Proof. reflexivity. Qed.
Lemma scheme_texts_ok :
  print_regex (mkRx true (sch_http ++ any_star) false) = cb_scheme_part_http /\
  print_regex (mkRx true (sch_https ++ any_star) false) = cb_scheme_part_https /\
  print_regex (mkRx true (sch_ws ++ any_star) false) = cb_scheme_part_ws /\
  print_regex (mkRx true sch_both false) = cb_scheme_only_both /\
  print_regex (mkRx true sch_http false) = cb_scheme_only_http /\
  print_regex (mkRx true sch_https false) = cb_scheme_only_https /\
  print_regex (mkRx true sch_ws false) = cb_scheme_only_ws /\
  print_regex match_all = cb_match_all_text.
Proof. repeat split; reflexivity. Qed.
Lemma resource_table_ok : cb_resource_table = l0_resource_table.
Proof. reflexivity. Qed.
Lemma wildcard_consts_ok :
  cb_wildcard_char = STAR /\ cb_wildcard_text = print_item (IAtom AAny QStar) /\ cb_trailing_separator_char = CARET.
Proof. repeat split; reflexivity. Qed.

(* ================================================================== into_content_blocking *)
Section IntoCbProofs.
  Context {NF CF : Type}.
  Variable rawN : NF -> option str.
  Variable convN : NF -> res (conv (list cb_rule)).
  Variable rawC : CF -> option str.
  Variable convC : CF -> res (conv cb_rule).

  Lemma net_loop_spec fs ig ot us :
    net_loop rawN convN fs = Ok (ig, ot, us) ->
    ig = filter is_ignore (emitted_net convN fs) /\
    ot = filter not_ignore (emitted_net convN fs) /\
    us = used_lines rawN convN fs /\
    Forall (fun f => rawN f <> None) fs.
  Proof.
    revert ig ot us. induction fs as [|f fs IH]; intros ig ot us H.
    - cbn in H. inversion H; subst. cbn. auto.
    - cbn [net_loop] in H. unfold emitted_net, used_lines. cbn [flat_map].
      destruct (rawN f) as [raw|] eqn:R; [|discriminate].
      destruct (convN f) as [[rules|e]|w] eqn:C; [| |discriminate].
      + destruct (net_loop rawN convN fs) as [[[ig' ot'] us']|w] eqn:L; [|discriminate].
        cbn in H. inversion H; subst; clear H.
        destruct (IH _ _ _ eq_refl) as (A & B & D & E).
        unfold emitted_net, used_lines in A, B, D. cbn [produced].
        rewrite !filter_app. rewrite <- A, <- B, <- D.
        repeat split; auto. constructor; [congruence|exact E].
      + destruct (IH _ _ _ H) as (A & B & D & E). cbn [produced app].
        repeat split; auto. constructor; [congruence|exact E].
  Qed.

  Lemma cos_loop_spec fs ig ot us :
    cos_loop rawC convC fs = Ok (ig, ot, us) ->
    ig = filter is_ignore (emitted_cos convC fs) /\
    ot = filter not_ignore (emitted_cos convC fs) /\
    us = used_lines rawC convC fs /\
    Forall (fun f => rawC f <> None) fs.
  Proof.
    revert ig ot us. induction fs as [|f fs IH]; intros ig ot us H.
    - cbn in H. inversion H; subst. cbn. auto.
    - cbn [cos_loop] in H. unfold emitted_cos, used_lines. cbn [flat_map].
      destruct (rawC f) as [raw|] eqn:R; [|discriminate].
      destruct (convC f) as [[rule|e]|w] eqn:C; [| |discriminate].
      + destruct (cos_loop rawC convC fs) as [[[ig' ot'] us']|w] eqn:L; [|discriminate].
        cbn [rbind] in H.
        destruct (IH _ _ _ eq_refl) as (A & B & D & E).
        unfold emitted_cos, used_lines in A, B, D. cbn [produced app filter]. unfold not_ignore at 1.
        destruct (is_ignore rule) eqn:I; cbn [negb]; inversion H; subst; clear H;
          (repeat split; auto; constructor; [congruence|exact E]).
      + destruct (IH _ _ _ H) as (A & B & D & E). cbn [produced app].
        repeat split; auto. constructor; [congruence|exact E].
  Qed.

  (* complete functional description of a successful run *)
  Theorem into_cb_spec nets coss rules used :
    into_cb_gen rawN convN rawC convC true nets coss = Ok (Some (rules, used)) ->
    rules = (filter not_ignore (emitted_net convN nets) ++ filter not_ignore (emitted_cos convC coss)) ++
            (filter is_ignore (emitted_net convN nets) ++ filter is_ignore (emitted_cos convC coss)) ++
            (if is_nil (used_lines rawN convN nets) then [] else [ignore_previous_fp_documents]) /\
    used = used_lines rawN convN nets ++ used_lines rawC convC coss.
  Proof.
    unfold into_cb_gen. cbn [negb].
    destruct (net_loop rawN convN nets) as [[[ig1 ot1] us1]|w] eqn:L1; [|discriminate].
    cbn [rbind].
    destruct (cos_loop rawC convC coss) as [[[ig2 ot2] us2]|w] eqn:L2; [|discriminate].
    cbn [rbind]. intros H. inversion H; subst; clear H.
    destruct (net_loop_spec _ _ _ _ L1) as (A1 & B1 & D1 & _).
    destruct (cos_loop_spec _ _ _ _ L2) as (A2 & B2 & D2 & _).
    subst. split; [|reflexivity].
    destruct (is_nil (used_lines rawN convN nets)); reflexivity.
  Qed.

  Lemma filter_forallb {A} (p : A -> bool) l : forallb p (filter p l) = true.
  Proof. induction l as [|x l IH]; cbn; [reflexivity|]. destruct (p x) eqn:E; cbn; [rewrite E|]; auto. Qed.

  (* ordering, split form *)
  Theorem into_cb_order_split nets coss rules used :
    into_cb_gen rawN convN rawC convC true nets coss = Ok (Some (rules, used)) ->
    exists pre post, rules = pre ++ post /\ forallb not_ignore pre = true /\ forallb is_ignore post = true.
  Proof.
    intros H. apply into_cb_spec in H as [H _]. eexists _, _. split; [exact H|]. split.
    - rewrite forallb_app, !filter_forallb. reflexivity.
    - rewrite !forallb_app, !filter_forallb. cbn.
      destruct (is_nil (used_lines rawN convN nets)); reflexivity.
  Qed.

  Lemma nth_error_split_order {A} (p : A -> bool) pre post i j a b :
    forallb (fun x => negb (p x)) pre = true -> forallb p post = true ->
    nth_error (pre ++ post) i = Some a -> nth_error (pre ++ post) j = Some b ->
    p a = true -> p b = false -> (j < i)%nat.
  Proof.
    intros Hpre Hpost Hi Hj Pa Pb.
    rewrite forallb_forall in Hpre, Hpost.
    destruct (Nat.lt_ge_cases i (length pre)) as [Li|Li].
    - rewrite nth_error_app1 in Hi by exact Li. apply nth_error_In, Hpre in Hi. rewrite Pa in Hi. discriminate.
    - destruct (Nat.lt_ge_cases j (length pre)) as [Lj|Lj]; [lia|].
      rewrite nth_error_app2 in Hj by exact Lj. apply nth_error_In, Hpost in Hj. congruence.
  Qed.

  (* ordering, index form: every ignore-previous-rules entry comes after every other entry *)
  Theorem into_cb_order nets coss rules used i j a b :
    into_cb_gen rawN convN rawC convC true nets coss = Ok (Some (rules, used)) ->
    nth_error rules i = Some a -> nth_error rules j = Some b ->
    is_ignore a = true -> is_ignore b = false -> (j < i)%nat.
  Proof.
    intros H Hi Hj Pa Pb. destruct (into_cb_order_split _ _ _ _ H) as (pre & post & E & P1 & P2). subst rules.
    eapply (nth_error_split_order is_ignore); eauto.
  Qed.

  Theorem into_cb_not_debug nets coss : into_cb_gen rawN convN rawC convC false nets coss = Ok None.
  Proof. reflexivity. Qed.

  (* a panic can only come from a converter or from a rule without raw line *)
  Theorem into_cb_total nets coss :
    Forall (fun f => rawN f <> None /\ is_ok (convN f) = true) nets ->
    Forall (fun f => rawC f <> None /\ is_ok (convC f) = true) coss ->
    forall debug, is_ok (into_cb_gen rawN convN rawC convC debug nets coss) = true.
  Proof.
    intros HN HC debug. unfold into_cb_gen. destruct debug; [|reflexivity]. cbn [negb].
    assert (A : exists x, net_loop rawN convN nets = Ok x).
    { induction HN as [|f fs [R K] _ IH]; [eexists; reflexivity|]. cbn [net_loop].
      destruct (rawN f); [|congruence]. destruct (convN f) as [[rs|e]|w]; [| |discriminate].
      - destruct IH as [[[a b] c] ->]. eexists; reflexivity.
      - exact IH. }
    assert (B : exists x, cos_loop rawC convC coss = Ok x).
    { induction HC as [|f fs [R K] _ IH]; [eexists; reflexivity|]. cbn [cos_loop].
      destruct (rawC f); [|congruence]. destruct (convC f) as [[rs|e]|w]; [| |discriminate].
      - destruct IH as [[[a b] c] ->]. cbn [rbind]. destruct (is_ignore rs); eexists; reflexivity.
      - exact IH. }
    destruct A as [[[a b] c] ->], B as [[[a' b'] c'] ->]. reflexivity.
  Qed.
End IntoCbProofs.

(* ================================================================== the network converter *)
Definition same_trigger (url : regex) (ifd unl : option (list str)) (r : cb_rule) : Prop :=
  r_selector r = None /\ r_url r = url /\ r_if r = ifd /\ r_unless r = unl.

Lemma rule_is_ascii_fields r url ifd unl :
  same_trigger url ifd unl r ->
  rule_is_ascii r = all_ascii (print_regex url) && opt_all_ascii ifd && opt_all_ascii unl.
Proof. intros (A & B & C & D). unfold rule_is_ascii. rewrite A, B, C, D. reflexivity. Qed.

(* everything a successful conversion tells us *)
Lemma convert_network_inv norm nf rules :
  convert_network norm nf = Ok (COk rules) ->
  exists raw url ifd unl,
    nf_raw nf = Some raw /\
    url_filter_final nf = Ok (COk url) /\
    (ifd = None \/ unl = None) /\
    ((nf_has_dom nf || nf_has_notdom nf = true /\ reparse_domains norm raw = Ok (COk (ifd, unl))) \/
     (nf_has_dom nf || nf_has_notdom nf = false /\ ifd = None /\ unl = None)) /\
    all_ascii (print_regex url) && opt_all_ascii ifd && opt_all_ascii unl = true /\
    rules <> [] /\
    Forall (same_trigger url ifd unl) rules /\
    Forall (fun r => r_type r = if has (nf_mask nf) M_IS_EXCEPTION then CbIgnorePrevious else CbBlock) rules.
Proof.
  unfold convert_network. intros H.
  destruct (nf_raw nf) as [raw|]; [|discriminate].
  repeat match type of H with (if ?b then _ else _) = _ => destruct b; [discriminate|] end.
  destruct (url_filter_final nf) as [[url|e]|w]; cbn [conv_bind] in H; [| discriminate..].
  set (doms := if nf_has_dom nf || nf_has_notdom nf then reparse_domains norm raw else Ok (COk (None, None))) in H.
  assert (D : forall ifd unl, doms = Ok (COk (ifd, unl)) ->
     (nf_has_dom nf || nf_has_notdom nf = true /\ reparse_domains norm raw = Ok (COk (ifd, unl))) \/
     (nf_has_dom nf || nf_has_notdom nf = false /\ ifd = None /\ unl = None)).
  { intros ifd unl. unfold doms. destruct (nf_has_dom nf || nf_has_notdom nf); intros E; [left; auto|].
    right. inversion E. auto. }
  destruct doms as [[[ifd unl]|e]|w]; cbn [conv_bind] in H; [| discriminate..].
  specialize (D ifd unl eq_refl).
  exists raw, url, ifd, unl. split; [reflexivity|]. split; [reflexivity|].
  assert (X : (ifd = None \/ unl = None) /\
     exists rt load ty cs,
       ty = (if has (nf_mask nf) M_IS_EXCEPTION then CbIgnorePrevious else CbBlock) /\
       (if negb (rule_is_ascii (mkRule ty None url cs ifd unl rt load)) then Ok (CErr ENonASCII)
        else match rt with
             | Some types =>
                 if Nat.ltb 1 (length types) && memN CbRT_Document types && match load with [] => true | _ => false end
                 then Ok (COk [mkRule ty None url cs ifd unl (Some (remove_code CbRT_Document types)) load;
                               mkRule ty None url cs ifd unl (Some [CbRT_Document]) [LT_THIRD]])
                 else Ok (COk [mkRule ty None url cs ifd unl rt load])
             | None => Ok (COk [mkRule ty None url cs ifd unl rt load])
             end) = Ok (COk rules)).
  { destruct ifd as [i|], unl as [u|]; try discriminate;
      (split; [auto|]);
      (destruct (resource_type (nf_mask nf)) as [rt|e]; cbn [conv_bind] in H; [|discriminate]);
      do 4 eexists; (split; [reflexivity|exact H]). }
  destruct X as (X1 & rt & load & ty & cs & Ety & X2).
  split; [exact X1|]. split; [exact D|].
  destruct (rule_is_ascii (mkRule ty None url cs ifd unl rt load)) eqn:A; cbn [negb] in X2; [|discriminate].
  rewrite (rule_is_ascii_fields _ url ifd unl) in A by (repeat split).
  split; [exact A|].
  assert (Y : rules = [mkRule ty None url cs ifd unl rt load] \/
              exists t1 l1 t2 l2, rules = [mkRule ty None url cs ifd unl t1 l1; mkRule ty None url cs ifd unl t2 l2]).
  { destruct rt as [types|].
    - destruct (Nat.ltb 1 (length types) && memN CbRT_Document types && match load with [] => true | _ => false end);
        inversion X2; [right; do 4 eexists; reflexivity | left; reflexivity].
    - inversion X2. left. reflexivity. }
  destruct Y as [->|(t1 & l1 & t2 & l2 & ->)].
  - split; [discriminate|]. split; repeat constructor; cbn; auto.
  - split; [discriminate|]. split; repeat constructor; cbn; auto.
Qed.

Theorem convert_network_exclusive norm nf rules r :
  convert_network norm nf = Ok (COk rules) -> In r rules -> r_if r = None \/ r_unless r = None.
Proof.
  intros H I. destruct (convert_network_inv _ _ _ H) as (raw & url & ifd & unl & _ & _ & X & _ & _ & _ & F & _).
  rewrite Forall_forall in F. destruct (F r I) as (_ & _ & A & B). rewrite A, B. exact X.
Qed.

Theorem convert_network_ascii norm nf rules r :
  convert_network norm nf = Ok (COk rules) -> In r rules -> rule_is_ascii r = true.
Proof.
  intros H I. destruct (convert_network_inv _ _ _ H) as (raw & url & ifd & unl & _ & _ & _ & _ & A & _ & F & _).
  rewrite Forall_forall in F. rewrite (rule_is_ascii_fields r url ifd unl) by (apply F; exact I). exact A.
Qed.

Theorem convert_network_nonempty norm nf rules : convert_network norm nf = Ok (COk rules) -> rules <> [].
Proof. intros H. destruct (convert_network_inv _ _ _ H) as (raw & url & ifd & unl & _ & _ & _ & _ & _ & N & _). exact N. Qed.

Theorem convert_network_url norm nf rules :
  convert_network norm nf = Ok (COk rules) ->
  exists url, url_filter_final nf = Ok (COk url) /\ forall r, In r rules -> r_url r = url.
Proof.
  intros H. destruct (convert_network_inv _ _ _ H) as (raw & url & ifd & unl & _ & U & _ & _ & _ & _ & F & _).
  exists url. split; [exact U|]. rewrite Forall_forall in F. intros r I. apply F. exact I.
Qed.

(* the domain re-parser on its own: both lists present is turned into an error by the caller;
   what it returns is well-formed: "*" ++ normalised entry, in source order *)
Lemma collect_domains_star norm es ifd unl f :
  collect_domains norm es = (ifd, unl, f) ->
  Forall (fun d => exists n, d = STAR :: n) ifd /\ Forall (fun d => exists n, d = STAR :: n) unl.
Proof.
  revert ifd unl f. induction es as [|e es IH]; intros ifd unl f H; cbn [collect_domains] in H.
  - inversion H. auto.
  - destruct (collect_domains norm es) as [[i u] f'] eqn:E. destruct (IH _ _ _ eq_refl) as [A B].
    destruct (match e with c :: t => if N.eqb c TILDE then (true, t) else (false, e) | [] => (false, e) end) as [neg d'].
    destruct (normalize_domain norm d') as [n|]; [destruct neg|]; inversion H; subst; split; auto;
      constructor; auto; eexists; reflexivity.
Qed.

(* ================================================================== the cosmetic converter *)
Lemma convert_cosmetic_inv idna cf r :
  convert_cosmetic idna cf = Ok (COk r) ->
  r_type r = CbCssDisplayNone /\ r_url r = match_all /\ (r_if r = None \/ r_unless r = None) /\
  rule_is_ascii r = true /\ r_selector r = cf_plain cf /\ cf_plain cf <> None.
Proof.
  unfold convert_cosmetic. intros H.
  destruct (cf_has_action cf); [discriminate|]. destruct (cf_script cf); [discriminate|].
  destruct (cf_raw cf) as [raw|]; [|discriminate].
  destruct (find_byte SHARP raw) as [sharp|]; [|discriminate].
  destruct (locations (split_on COMMA (take sharp raw))) as [locs|w]; [|discriminate].
  destruct (collect_locations idna locs) as [[hs nhs] unsup].
  destruct (unsup && is_nil hs && is_nil nhs); [discriminate|].
  assert (X : exists ifd unl, (ifd = None \/ unl = None) /\
     (if N.eqb (cf_nsel cf) 0 then Panic "assertion failed: self.selector.len() > 0"
      else match cf_plain cf with
           | None => Ok (CErr EProcedural)
           | Some sel =>
               if negb (rule_is_ascii (mkRule CbCssDisplayNone (Some sel) match_all false ifd unl None []))
               then Ok (CErr ENonASCII)
               else Ok (COk (mkRule CbCssDisplayNone (Some sel) match_all false ifd unl None []))
           end) = Ok (COk r)).
  { destruct (non_empty hs) as [h|], (non_empty nhs) as [n|]; try discriminate;
      destruct (cf_unhide cf); do 2 eexists; (split; [|exact H]); auto. }
  destruct X as (ifd & unl & X1 & X2).
  destruct (N.eqb (cf_nsel cf) 0); [discriminate|].
  destruct (cf_plain cf) as [sel|]; [|discriminate].
  destruct (rule_is_ascii (mkRule CbCssDisplayNone (Some sel) match_all false ifd unl None [])) eqn:A;
    cbn [negb] in X2; [|discriminate].
  inversion X2; subst r. cbn. repeat split; auto. discriminate.
Qed.

(* ================================================================== the concrete export *)
Lemma fp_rule_ascii : rule_is_ascii ignore_previous_fp_documents = true.
Proof. reflexivity. Qed.

Lemma in_emitted_net {NF} (convN : NF -> res (conv (list cb_rule))) fs r :
  In r (emitted_net convN fs) -> exists f rs, In f fs /\ convN f = Ok (COk rs) /\ In r rs.
Proof.
  unfold emitted_net. rewrite in_flat_map. intros (f & I & J).
  destruct (convN f) as [[rs|e]|w] eqn:E; try contradiction. exists f, rs. auto.
Qed.
Lemma in_emitted_cos {CF} (convC : CF -> res (conv cb_rule)) fs r :
  In r (emitted_cos convC fs) -> exists f, In f fs /\ convC f = Ok (COk r).
Proof.
  unfold emitted_cos. rewrite in_flat_map. intros (f & I & J).
  destruct (convC f) as [[r'|e]|w] eqn:E; try contradiction. destruct J as [<-|[]]. exists f. auto.
Qed.

(* where an output rule comes from *)
Lemma into_cb_origin norm idna nets coss rules used r :
  into_content_blocking norm idna true nets coss = Ok (Some (rules, used)) -> In r rules ->
  (exists f rs, In f nets /\ convert_network norm f = Ok (COk rs) /\ In r rs) \/
  (exists f, In f coss /\ convert_cosmetic idna f = Ok (COk r)) \/
  r = ignore_previous_fp_documents.
Proof.
  unfold into_content_blocking. intros H I. apply into_cb_spec in H as [H _]. subst rules.
  rewrite !in_app_iff in I. rewrite !filter_In in I.
  destruct I as [[[I _]|[I _]]|[[[I _]|[I _]]|I]].
  - left. apply in_emitted_net. exact I.
  - right. left. apply in_emitted_cos. exact I.
  - left. apply in_emitted_net. exact I.
  - right. left. apply in_emitted_cos. exact I.
  - right. right. destruct (is_nil _); [contradiction|]. destruct I as [<-|[]]. reflexivity.
Qed.

Theorem into_cb_ascii norm idna nets coss rules used r :
  into_content_blocking norm idna true nets coss = Ok (Some (rules, used)) -> In r rules ->
  rule_is_ascii r = true.
Proof.
  intros H I. destruct (into_cb_origin _ _ _ _ _ _ _ H I) as [(f & rs & _ & C & J)|[(f & _ & C)| ->]].
  - eapply convert_network_ascii; eauto.
  - apply convert_cosmetic_inv in C. apply C.
  - exact fp_rule_ascii.
Qed.

Theorem into_cb_exclusive norm idna nets coss rules used r :
  into_content_blocking norm idna true nets coss = Ok (Some (rules, used)) -> In r rules ->
  r_if r = None \/ r_unless r = None.
Proof.
  intros H I. destruct (into_cb_origin _ _ _ _ _ _ _ H I) as [(f & rs & _ & C & J)|[(f & _ & C)| ->]].
  - eapply convert_network_exclusive; eauto.
  - apply convert_cosmetic_inv in C. apply C.
  - left. reflexivity.
Qed.

(* rule_is_ascii unfolded into the property's wording *)
Lemma rule_is_ascii_spec r :
  rule_is_ascii r = true <->
  all_ascii (print_regex (r_url r)) = true /\
  (forall s, r_selector r = Some s -> all_ascii s = true) /\
  (forall l d, r_if r = Some l -> In d l -> all_ascii d = true) /\
  (forall l d, r_unless r = Some l -> In d l -> all_ascii d = true).
Proof.
  unfold rule_is_ascii, opt_all_ascii. rewrite !andb_true_iff. split.
  - intros [[[A B] C] D]. split; [exact B|]. split; [|split].
    + intros s E. rewrite E in A. exact A.
    + intros l d E I. rewrite E in C. rewrite forallb_forall in C. auto.
    + intros l d E I. rewrite E in D. rewrite forallb_forall in D. auto.
  - intros (B & A & C & D). repeat split; auto.
    + destruct (r_selector r); auto.
    + destruct (r_if r) as [l|]; auto. apply forallb_forall. intros d I. eapply C; eauto.
    + destruct (r_unless r) as [l|]; auto. apply forallb_forall. intros d I. eapply D; eauto.
Qed.

(* ================================================================== printer output is in the Safari subset *)
Lemma srun_app s a b : srun s (a ++ b) = srun (srun s a) b.
Proof. unfold srun. apply fold_left_app. Qed.

Lemma not_meta_eqb c x : memN c safari_meta = false -> In x safari_meta -> N.eqb c x = false.
Proof.
  intros H I. destruct (N.eqb c x) eqn:E; [|reflexivity].
  apply N.eqb_eq in E. subst. apply memN_In in I. congruence.
Qed.

Local Ltac inmeta := cbn [In safari_meta]; repeat (first [left; reflexivity | right]).

Lemma nonmeta_step_top g gi q c :
  memN c safari_meta = false -> sstep (STop g gi q) c = STop g true true.
Proof.
  intros H. unfold sstep.
  rewrite (not_meta_eqb c BSL H) by inmeta. rewrite (not_meta_eqb c DOT H) by inmeta.
  rewrite (not_meta_eqb c LBR H) by inmeta. rewrite (not_meta_eqb c LPAR H) by inmeta.
  rewrite (not_meta_eqb c RPAR H) by inmeta. rewrite (not_meta_eqb c STAR H) by inmeta.
  rewrite (not_meta_eqb c PLUS H) by inmeta. rewrite (not_meta_eqb c QM H) by inmeta.
  rewrite (not_meta_eqb c DOLLAR H) by inmeta. rewrite H. reflexivity.
Qed.

Lemma nonmeta_step_cls (s : sst) g c :
  (s = SClsNeg g \/ s = SClsBody g \/ s = SClsOpen g) ->
  memN c safari_meta = false -> sstep s c = SClsBody g.
Proof.
  intros S H. destruct S as [->|[->| ->]]; unfold sstep;
    try rewrite (not_meta_eqb c RBR H) by inmeta; try rewrite (not_meta_eqb c CARET H) by inmeta;
    rewrite (not_meta_eqb c BSL H) by inmeta; rewrite H; reflexivity.
Qed.

Lemma lit_meta c : lit_ok c = true -> memN c safari_meta = is_special c.
Proof.
  unfold lit_ok. intros H. rewrite meta_special. apply negb_true_iff in H. rewrite H. apply orb_false_r.
Qed.

Lemma srun_print_lit g gi q c :
  lit_ok c = true -> srun (STop g gi q) (print_lit c) = STop g true true.
Proof.
  intros H. pose proof (lit_meta c H) as M. unfold print_lit. destruct (is_special c).
  - cbn [srun fold_left]. change (sstep (STop g gi q) BSL) with (SEsc g). unfold sstep. rewrite M. reflexivity.
  - cbn [srun fold_left]. apply nonmeta_step_top. exact M.
Qed.

Lemma srun_print_lit_cls g c :
  lit_ok c = true -> srun (SClsNeg g) (print_lit c) = SClsBody g.
Proof.
  intros H. pose proof (lit_meta c H) as M. unfold print_lit. destruct (is_special c).
  - cbn [srun fold_left]. change (sstep (SClsNeg g) BSL) with (SClsEsc g). unfold sstep. rewrite M. reflexivity.
  - cbn [srun fold_left]. apply (nonmeta_step_cls _ g); auto.
Qed.

Lemma srun_print_atom g gi q a :
  atom_wf a = true -> srun (STop g gi q) (print_atom a) = STop g true true.
Proof.
  destruct a as [c| |c]; cbn [atom_wf print_atom]; intros H.
  - apply srun_print_lit. exact H.
  - reflexivity.
  - change ([LBR; CARET] ++ print_lit c ++ [RBR]) with (LBR :: CARET :: (print_lit c ++ [RBR])).
    cbn [srun fold_left]. change (sstep (sstep (STop g gi q) LBR) CARET) with (SClsNeg g).
    fold (srun (SClsNeg g) (print_lit c ++ [RBR])). rewrite srun_app, srun_print_lit_cls by exact H.
    reflexivity.
Qed.

Lemma srun_print_quant g gi q :
  exists q', srun (STop g gi true) (print_quant q) = STop g gi q'.
Proof. destruct q; eexists; reflexivity. Qed.

Lemma srun_print_qatom g gi q x :
  atom_wf (fst x) = true -> exists q', srun (STop g gi q) (print_qatom x) = STop g true q'.
Proof.
  intros H. unfold print_qatom. rewrite srun_app, srun_print_atom by exact H. apply srun_print_quant.
Qed.

Lemma srun_group_items g l : forall gi q,
  forallb (fun x => atom_wf (fst x)) l = true ->
  exists q', srun (STop g gi q) (flat_map print_qatom l) = STop g (if is_nil l then gi else true) q'.
Proof.
  induction l as [|x l IH]; intros gi q H.
  - eexists. reflexivity.
  - cbn [forallb] in H. apply andb_true_iff in H as [H1 H2]. cbn [flat_map is_nil].
    rewrite srun_app. destruct (srun_print_qatom g gi q x H1) as [q1 ->].
    destruct (IH true q1 H2) as [q2 E]. exists q2. rewrite E. destruct l; reflexivity.
Qed.

Lemma srun_print_item gi q i :
  item_wf i = true -> exists gi' q', srun (STop false gi q) (print_item i) = STop false gi' q'.
Proof.
  destruct i as [a qq|g]; cbn [item_wf print_item]; intros H.
  - destruct (srun_print_qatom false gi q (a, qq) H) as [q' E]. eauto.
  - apply andb_true_iff in H as [H1 H2].
    change ([LPAR] ++ flat_map print_qatom g ++ [RPAR; QM]) with (LPAR :: (flat_map print_qatom g ++ [RPAR; QM])).
    cbn [srun fold_left]. change (sstep (STop false gi q) LPAR) with (STop true false false).
    fold (srun (STop true false false) (flat_map print_qatom g ++ [RPAR; QM])).
    rewrite srun_app. destruct (srun_group_items true g false false H2) as [q' ->].
    destruct g; [discriminate|]. cbn [is_nil]. eexists _, _. reflexivity.
Qed.

Lemma srun_print_items l : forall gi q,
  forallb item_wf l = true ->
  exists gi' q', srun (STop false gi q) (flat_map print_item l) = STop false gi' q'.
Proof.
  induction l as [|i l IH]; intros gi q H.
  - eexists _, _. reflexivity.
  - cbn [forallb] in H. apply andb_true_iff in H as [H1 H2]. cbn [flat_map]. rewrite srun_app.
    destruct (srun_print_item gi q i H1) as (gi1 & q1 & ->). apply IH. exact H2.
Qed.

Lemma print_item_head i : item_wf i = true -> exists c r, print_item i = c :: r /\ N.eqb c CARET = false.
Proof.
  destruct i as [a q|g]; cbn [item_wf print_item]; intros H.
  - unfold print_qatom. cbn [fst snd]. destruct a as [c| |c]; cbn [print_atom atom_wf] in *.
    + unfold print_lit. destruct (is_special c) eqn:S; cbn [app].
      * eexists _, _. split; reflexivity.
      * eexists _, _. split; [reflexivity|]. destruct (N.eqb c CARET) eqn:E; [|reflexivity].
        apply N.eqb_eq in E. subst. rewrite caret_special in S. discriminate.
    + cbn [app]. eexists _, _. split; reflexivity.
    + cbn [app]. eexists _, _. split; reflexivity.
  - cbn [app]. eexists _, _. split; reflexivity.
Qed.

Lemma srun_tail_accept gi q (e : bool) :
  saccept (srun (STop false gi q) (if e then [DOLLAR] else [])) = true.
Proof. destruct e; reflexivity. Qed.

Theorem printer_subset r : regex_wf r = true -> safari_ok (print_regex r) = true.
Proof.
  unfold regex_wf. intros H. apply andb_true_iff in H as [W NE].
  destruct r as [st body en]. cbn [rx_body] in W. unfold print_regex in *. cbn [rx_start rx_body rx_end] in *.
  destruct st.
  - cbn [app safari_ok]. rewrite N.eqb_refl. unfold top0.
    rewrite srun_app. destruct (srun_print_items body false false W) as (gi & q & ->). apply srun_tail_accept.
  - cbn [app] in *. destruct body as [|i body].
    + cbn [flat_map app] in *. destruct en; [reflexivity|discriminate].
    + assert (W' := W). cbn [forallb] in W'. apply andb_true_iff in W' as [W1 W2].
      destruct (print_item_head i W1) as (c & t & E & C).
      assert (X : exists t', flat_map print_item (i :: body) ++ (if en then [DOLLAR] else []) = c :: t').
      { cbn [flat_map]. rewrite E. cbn [app]. eexists. reflexivity. }
      destruct X as [t' X]. unfold safari_ok. rewrite X, C. rewrite <- X. unfold top0.
      rewrite srun_app. destruct (srun_print_items (i :: body) false false W) as (gi & q & ->).
      apply srun_tail_accept.
Qed.

(* every literal metacharacter is escaped, every other literal is printed as itself *)
Theorem printer_escapes c :
  (In c safari_meta -> c <> STAR -> print_atom (ALit c) = [BSL; c]) /\
  (~ In c safari_meta -> print_atom (ALit c) = [c]).
Proof.
  cbn [print_atom]. unfold print_lit. split.
  - intros I NS. apply special_table_ok in I. destruct I as [I|I]; [congruence|].
    apply memN_In in I. unfold is_special. rewrite I. reflexivity.
  - intros NI. unfold is_special. destruct (memN c cb_special_chars) eqn:E; [|reflexivity].
    exfalso. apply NI. apply special_table_ok. right. apply memN_In. exact E.
Qed.

(* ================================================================== converter output is in the subset *)
Lemma part_items_wf p : forallb item_wf (part_items p) = true.
Proof.
  unfold part_items. induction (strip_trailing_caret p) as [|c l IH]; [reflexivity|].
  cbn [map forallb]. rewrite IH, andb_true_r. unfold part_item.
  destruct (N.eqb c cb_wildcard_char) eqn:E; [reflexivity|]. cbn [item_wf atom_wf]. unfold lit_ok.
  change cb_wildcard_char with STAR in E. rewrite E. reflexivity.
Qed.
Lemma lits_wf h : forallb lit_ok h = true -> forallb item_wf (lits h) = true.
Proof.
  unfold lits. induction h as [|c h IH]; cbn [map forallb]; [reflexivity|].
  intros H. apply andb_true_iff in H as [A B]. rewrite (IH B), andb_true_r. exact A.
Qed.

Lemma url_filter_items_wf nf r :
  url_filter_ast nf = Ok (COk r) -> host_ok nf = true -> forallb item_wf (rx_body r) = true.
Proof.
  unfold url_filter_ast, host_ok. intros H HO.
  destruct (has (nf_mask nf) M_IS_HOSTNAME_REGEX);
  destruct (nf_filter nf) as [|p|]; destruct (nf_hostname nf) as [h|];
    repeat match type of H with
      | (if ?b then _ else _) = _ => destruct b
      end; first [injection H as <- | discriminate H]; cbn [rx_body];
    cbn [forallb]; rewrite ?forallb_app; cbn [forallb]; rewrite ?part_items_wf; rewrite ?lits_wf by exact HO; reflexivity.
Qed.

Lemma url_filter_final_inv nf u :
  url_filter_final nf = Ok (COk u) ->
  exists r, url_filter_ast nf = Ok (COk r) /\ u = (if is_nil (print_regex r) then match_all else r).
Proof.
  unfold url_filter_final. destruct (url_filter_ast nf) as [[r|e]|w]; intros H; try discriminate.
  injection H as <-. exists r. auto.
Qed.

(* the final url-filter is never the empty text (fix 26d3d76) and always well-formed *)
Theorem url_filter_wf nf u :
  url_filter_final nf = Ok (COk u) -> host_ok nf = true -> regex_wf u = true.
Proof.
  intros H HO. destruct (url_filter_final_inv nf u H) as (r & R & ->).
  destruct (is_nil (print_regex r)) eqn:E; [reflexivity|].
  unfold regex_wf. rewrite (url_filter_items_wf nf r R HO), E. reflexivity.
Qed.

Theorem url_filter_nonempty nf u : url_filter_final nf = Ok (COk u) -> print_regex u <> [].
Proof.
  intros H. destruct (url_filter_final_inv nf u H) as (r & R & ->).
  destruct (is_nil (print_regex r)) eqn:E; [discriminate|]. intros K. rewrite K in E. discriminate.
Qed.

Theorem convert_network_subset norm nf rules r :
  convert_network norm nf = Ok (COk rules) -> host_ok nf = true ->
  In r rules -> safari_ok (print_regex (r_url r)) = true.
Proof.
  intros H HO I. destruct (convert_network_url _ _ _ H) as (url & U & F). rewrite (F r I).
  apply printer_subset. eapply url_filter_wf; eauto.
Qed.

Theorem into_cb_subset norm idna nets coss rules used r :
  into_content_blocking norm idna true nets coss = Ok (Some (rules, used)) ->
  Forall (fun nf => host_ok nf = true) nets ->
  In r rules -> safari_ok (print_regex (r_url r)) = true.
Proof.
  intros H FN I. destruct (into_cb_origin _ _ _ _ _ _ _ H I) as [(f & rs & J & C & K)|[(f & _ & C)| ->]].
  - rewrite Forall_forall in FN. eapply convert_network_subset; eauto.
  - apply convert_cosmetic_inv in C. destruct C as (_ & -> & _). reflexivity.
  - reflexivity.
Qed.

(* the pipeline of the three replace_all calls is the printed AST *)
Lemma part_items_text p :
  flat_map print_item (part_items p) = fix_wildcards (escape_special (strip_trailing_caret p)).
Proof.
  unfold part_items, escape_special, fix_wildcards. induction (strip_trailing_caret p) as [|c l IH]; [reflexivity|].
  cbn [map flat_map]. rewrite IH, flat_map_app. f_equal. unfold part_item.
  destruct (N.eqb c cb_wildcard_char) eqn:E.
  - apply N.eqb_eq in E. subst c. reflexivity.
  - change (print_item (IAtom (ALit c) QOne)) with (print_lit c ++ []). rewrite app_nil_r. unfold print_lit.
    destruct (is_special c) eqn:S; cbn [flat_map app]; rewrite E.
    + replace (N.eqb BSL cb_wildcard_char) with false by reflexivity. reflexivity.
    + reflexivity.
Qed.
Lemma lits_text h : flat_map print_item (lits h) = escape_special h.
Proof.
  unfold lits, escape_special. induction h as [|c h IH]; [reflexivity|]. cbn [map flat_map]. rewrite IH.
  change (print_item (IAtom (ALit c) QOne)) with (print_lit c ++ []). rewrite app_nil_r. reflexivity.
Qed.

(* non-ASCII patterns and hostnames are rejected *)
Lemma all_ascii_app a b : all_ascii (a ++ b) = all_ascii a && all_ascii b.
Proof. unfold all_ascii. apply forallb_app. Qed.
Lemma print_lit_ascii c : all_ascii (print_lit c) = is_ascii c.
Proof. unfold print_lit. destruct (is_special c); cbn; rewrite ?andb_true_r; reflexivity. Qed.
Lemma escape_special_ascii s : all_ascii (escape_special s) = all_ascii s.
Proof.
  unfold escape_special. induction s as [|c s IH]; [reflexivity|]. cbn [flat_map]. rewrite all_ascii_app, print_lit_ascii, IH.
  reflexivity.
Qed.
Lemma fix_wildcards_ascii s : all_ascii (fix_wildcards s) = all_ascii s.
Proof.
  unfold fix_wildcards. induction s as [|c s IH]; [reflexivity|]. cbn [flat_map]. rewrite all_ascii_app, IH.
  destruct (N.eqb c cb_wildcard_char) eqn:E.
  - apply N.eqb_eq in E. subst c. reflexivity.
  - cbn. rewrite andb_true_r. reflexivity.
Qed.
Lemma strip_trailing_caret_ascii s : all_ascii (strip_trailing_caret s) = all_ascii s.
Proof.
  induction s as [|c s IH]; [reflexivity|]. destruct s as [|d s].
  - cbn [strip_trailing_caret]. destruct (N.eqb c cb_trailing_separator_char) eqn:E; [|reflexivity].
    apply N.eqb_eq in E. subst c. reflexivity.
  - change (strip_trailing_caret (c :: d :: s)) with (c :: strip_trailing_caret (d :: s)).
    unfold all_ascii in *. cbn [forallb]. cbn [forallb] in IH. rewrite IH. reflexivity.
Qed.
Lemma part_items_ascii p : all_ascii (flat_map print_item (part_items p)) = all_ascii p.
Proof. rewrite part_items_text, fix_wildcards_ascii, escape_special_ascii. apply strip_trailing_caret_ascii. Qed.

Lemma flat_map_in_ascii {A} (f : A -> str) l x :
  all_ascii (flat_map f l) = true -> In x l -> all_ascii (f x) = true.
Proof.
  induction l as [|y l IH]; cbn [flat_map]; intros H I; [contradiction|].
  rewrite all_ascii_app in H. apply andb_true_iff in H as [H1 H2]. destruct I as [<-|I]; auto.
Qed.

Lemma flat_map_all_ascii {A} (f : A -> str) l :
  (forall x, In x l -> all_ascii (f x) = true) -> all_ascii (flat_map f l) = true.
Proof.
  induction l as [|y l IH]; cbn [flat_map]; intros H; [reflexivity|].
  rewrite all_ascii_app, (H y (or_introl eq_refl)), IH; [reflexivity|]. intros x I. apply H. right. exact I.
Qed.

Lemma url_filter_contains nf r :
  url_filter_ast nf = Ok (COk r) ->
  (forall p i, nf_filter nf = FSimple p -> In i (part_items p) -> In i (rx_body r)) /\
  (forall h i, nf_hostname nf = Some h -> In i (lits h) -> In i (rx_body r)).
Proof.
  unfold url_filter_ast. intros H. split.
  - intros p i E I. rewrite E in H. destruct (nf_hostname nf) as [h|];
      repeat match type of H with (if ?b then _ else _) = _ => destruct b end;
      first [injection H as <- | discriminate H]; cbn [rx_body]; cbn [In]; rewrite ?in_app_iff; tauto.
  - intros h i E I. rewrite E in H. destruct (nf_filter nf) as [|p|];
      first [injection H as <- | discriminate H]; cbn [rx_body]; cbn [In]; rewrite ?in_app_iff; tauto.
Qed.

Theorem url_filter_rejects_non_ascii nf r :
  url_filter_ast nf = Ok (COk r) -> all_ascii (print_regex r) = true ->
  (forall p, nf_filter nf = FSimple p -> all_ascii p = true) /\
  (forall h, nf_hostname nf = Some h -> all_ascii h = true).
Proof.
  intros H A.
  assert (B : all_ascii (flat_map print_item (rx_body r)) = true).
  { unfold print_regex in A. rewrite !all_ascii_app in A. apply andb_true_iff in A as [_ A].
    apply andb_true_iff in A as [A _]. exact A. }
  destruct (url_filter_contains nf r H) as [C1 C2]. split.
  - intros p E. rewrite <- part_items_ascii. apply flat_map_all_ascii. intros i I.
    eapply flat_map_in_ascii; [exact B|]. eapply C1; eauto.
  - intros h E. rewrite <- escape_special_ascii, <- lits_text. apply flat_map_all_ascii. intros i I.
    eapply flat_map_in_ascii; [exact B|]. eapply C2; eauto.
Qed.

Theorem convert_network_rejects_non_ascii norm nf rules :
  convert_network norm nf = Ok (COk rules) ->
  (forall p, nf_filter nf = FSimple p -> all_ascii p = true) /\
  (forall h, nf_hostname nf = Some h -> all_ascii h = true).
Proof.
  intros H. destruct (convert_network_inv _ _ _ H) as (raw & url & ifd & unl & _ & U & _ & _ & A & _).
  apply andb_true_iff in A as [A _]. apply andb_true_iff in A as [A _].
  destruct (url_filter_final_inv nf url U) as (r & R & ->).
  eapply url_filter_rejects_non_ascii; [exact R|].
  destruct (is_nil (print_regex r)) eqn:E; [|exact A]. destruct (print_regex r); [reflexivity|discriminate].
Qed.

(* ================================================================== totality *)
Lemma url_filter_total nf : is_ok (url_filter_final nf) = true.
Proof.
  unfold url_filter_final, url_filter_ast.
  destruct (nf_filter nf) as [|p|]; destruct (nf_hostname nf) as [h|]; try reflexivity;
    repeat match goal with |- context [if ?b then Ok _ else _] => destruct b; try reflexivity end.
Qed.

Lemma reparse_total norm raw : memN DOLLAR raw = true -> is_ok (reparse_domains norm raw) = true.
Proof.
  intros H. unfold reparse_domains. destruct (find_byte DOLLAR raw) as [i|] eqn:F.
  - destruct (find_sub DOMAIN_EQ (drop (S i) raw)) as [j|]; [|reflexivity].
    destruct (collect_domains norm _) as [[a b] f]. destruct f; reflexivity.
  - apply find_byte_None in F. apply memN_In in H. contradiction.
Qed.

Theorem convert_network_total norm nf :
  dollar_ok nf = true -> is_ok (convert_network norm nf) = true.
Proof.
  intros DO. unfold convert_network.
  destruct (nf_raw nf) as [raw|] eqn:R; [|reflexivity].
  repeat match goal with |- is_ok (if ?b then _ else _) = true => destruct b; [reflexivity|] end.
  pose proof (url_filter_total nf) as U.
  destruct (url_filter_final nf) as [[url|e]|w]; [|reflexivity|discriminate]. cbn [conv_bind].
  assert (D : is_ok (if nf_has_dom nf || nf_has_notdom nf then reparse_domains norm raw else Ok (COk (None, None))) = true).
  { unfold dollar_ok in DO. rewrite R in DO. destruct (nf_has_dom nf || nf_has_notdom nf); [|reflexivity].
    cbn [negb orb] in DO. apply reparse_total. exact DO. }
  destruct (if nf_has_dom nf || nf_has_notdom nf then reparse_domains norm raw else Ok (COk (None, None)))
    as [[[ifd unl]|e]|w]; [|reflexivity|discriminate]. cbn [conv_bind].
  destruct ifd, unl; try reflexivity;
    (destruct (resource_type (nf_mask nf)) as [rt|e]; cbn [conv_bind]; [|reflexivity]);
    match goal with |- is_ok (if ?b then _ else _) = true => destruct b; [reflexivity|] end;
    (destruct rt as [types|]; [|reflexivity]);
    match goal with |- is_ok (if ?b then _ else _) = true => destruct b; reflexivity end.
Qed.

(* the parser finds its options after the last '$'; the converter looks for the first one: whenever
   the parser saw options at all, the converter's unwrap succeeds *)
Lemma rfind_find c s i : rfind_byte c s = Some i -> memN c s = true.
Proof.
  revert i. induction s as [|x s IH]; cbn [rfind_byte memN]; intros i H; [discriminate|].
  destruct (rfind_byte c s) as [j|].
  - rewrite (IH j eq_refl). apply orb_true_r.
  - destruct (N.eqb x c) eqn:E; [|discriminate]. apply N.eqb_eq in E. subst. rewrite N.eqb_refl. reflexivity.
Qed.
Theorem parser_options_dollar line opts :
  parser_options line = Some opts -> memN DOLLAR line = true /\ find_byte DOLLAR line <> None.
Proof.
  unfold parser_options. destruct (rfind_byte DOLLAR line) as [i|] eqn:E; [|discriminate]. intros _.
  pose proof (rfind_find _ _ _ E) as M. split; [exact M|]. intros F. apply find_byte_None in F.
  apply memN_In in M. contradiction.
Qed.

(* cosmetic side *)
Lemma location_of_total part : is_ok (location_of part) = true.
Proof.
  unfold location_of. destruct part as [|c0 t]; [reflexivity|].
  assert (L : Nat.ltb (if suffixb DOTSTAR (c0 :: t) then (length (c0 :: t) - 2)%nat else length (c0 :: t))
                      (if N.eqb c0 TILDE then 1%nat else 0%nat) = false).
  { apply Nat.ltb_ge. destruct (N.eqb c0 TILDE) eqn:T; [|lia].
    apply N.eqb_eq in T. subst c0.
    destruct (suffixb DOTSTAR (TILDE :: t)) eqn:S; [|cbn [length]; lia].
    destruct t as [|x [|y t']]; [discriminate S| discriminate S |]. cbn [length]. lia. }
  rewrite L.
  destruct (take _ _) as [|c l]; [reflexivity|]. destruct (N.eqb c SLASH); reflexivity.
Qed.
Lemma locations_total parts : is_ok (locations parts) = true.
Proof.
  induction parts as [|p r IH]; [reflexivity|]. cbn [locations].
  pose proof (location_of_total p) as L. destruct (location_of p) as [o|w]; [|discriminate]. cbn [rbind].
  destruct (locations r) as [l|w]; [reflexivity|discriminate].
Qed.

Theorem convert_cosmetic_total idna cf : cos_ok cf = true -> is_ok (convert_cosmetic idna cf) = true.
Proof.
  unfold cos_ok, convert_cosmetic. intros H. apply andb_true_iff in H as [H1 H2].
  destruct (cf_has_action cf); [reflexivity|]. destruct (cf_script cf); [reflexivity|].
  destruct (cf_raw cf) as [raw|]; [|reflexivity].
  destruct (find_byte SHARP raw) as [sharp|] eqn:F.
  - pose proof (locations_total (split_on COMMA (take sharp raw))) as L.
    destruct (locations _) as [locs|w]; [|discriminate].
    destruct (collect_locations idna locs) as [[hs nhs] unsup].
    destruct (unsup && is_nil hs && is_nil nhs); [reflexivity|].
    apply negb_true_iff in H2.
    destruct (non_empty hs), (non_empty nhs); try reflexivity; destruct (cf_unhide cf); rewrite H2;
      (destruct (cf_plain cf); [|reflexivity]);
      match goal with |- is_ok (if ?b then _ else _) = true => destruct b; reflexivity end.
  - apply find_byte_None in F. apply memN_In in H1. contradiction.
Qed.

Theorem into_cb_total_concrete norm idna debug nets coss :
  Forall (fun nf => nf_raw nf <> None /\ dollar_ok nf = true) nets ->
  Forall (fun cf => cf_raw cf <> None /\ cos_ok cf = true) coss ->
  is_ok (into_content_blocking norm idna debug nets coss) = true.
Proof.
  intros HN HC. unfold into_content_blocking. apply into_cb_total.
  - eapply Forall_impl; [|exact HN]. intros nf (A & C). split; [exact A|]. apply convert_network_total; auto.
  - eapply Forall_impl; [|exact HC]. intros cf (A & B). split; [exact A|]. apply convert_cosmetic_total; auto.
Qed.

(* ================================================================== the two repaired findings (fix 26d3d76), as examples *)
(* `|ws://$~websocket` as parsed by the crate: mask 198399, empty filter, no hostname.  It used to
   hit unreachable!(); it is now a conversion error and the rule is skipped. *)
Definition ws_neg_rule : netf :=
  mkNet 198399 FEmpty None false false (Some (bs "|ws://$~websocket")).
Example ws_neg_rule_skipped : forall norm,
  dollar_ok ws_neg_rule = true /\ host_ok ws_neg_rule = true /\
  convert_network norm ws_neg_rule = Ok (CErr ENoSupportedNetworkOptions) /\
  into_content_blocking norm norm true [ws_neg_rule] [] = Ok (Some ([], [])).
Proof. intros norm. repeat split; vm_compute; reflexivity. Qed.

(* `*^` as parsed by the crate: mask 466943, filter "^", no hostname.  It used to be exported with
   the empty url-filter; it now carries ".*" *)
Definition sep_only_rule : netf := mkNet 466943 (FSimple [CARET]) None false false (Some (bs "*^")).
Example sep_only_rule_match_all : forall norm,
  host_ok sep_only_rule = true /\
  exists r, convert_network norm sep_only_rule = Ok (COk [r]) /\ print_regex (r_url r) = bs ".*" /\
            safari_ok (print_regex (r_url r)) = true.
Proof. intros norm. split; [reflexivity|]. eexists. repeat split; vm_compute; reflexivity. Qed.

(* ================================================================== examples: hypotheses are satisfiable *)
Definition ex_mask : N := 204799.   (* default options: all network types, both parties, http+https *)
Definition ex_host_rule : netf :=
  mkNet (N.lor ex_mask (N.lor M_IS_HOSTNAME_ANCHOR M_IS_LEFT_ANCHOR)) (FSimple (bs "/ads*.js")) (Some (bs "foo.com"))
        true false (Some (bs "||foo.com/ads*.js$domain=a.com|b.com")).
Example ex_host_rule_ok :
  host_ok ex_host_rule = true /\ dollar_ok ex_host_rule = true /\
  conv_out (convert_network (fun _ => None) ex_host_rule) =
    Ok (inl [mkOut 0 None (bs "^[^:]+:(//)?([^/]+\.)?foo\.com/ads.*\.js") false
                   (Some [bs "*a.com"; bs "*b.com"]) None None []]).
Proof. repeat split; vm_compute; reflexivity. Qed.
Definition ex_exception : netf :=
  mkNet (N.lor ex_mask M_IS_EXCEPTION) (FSimple (bs "good")) None false false (Some (bs "@@good")).
Definition ex_cosmetic : cosf := mkCos (Some (bs "example.com##.ad")) false false false 1 (Some (bs ".ad")).
Example ex_list_ok :
  option_map (fun '(rs, used) => (map (fun r => (type_code (r_type r), print_regex (r_url r))) rs, used))
    (match into_content_blocking (fun _ => None) (fun s => Some s) true [ex_exception; ex_host_rule] [ex_cosmetic]
     with Ok x => x | Panic _ => None end) =
  Some ([(0, bs "^[^:]+:(//)?([^/]+\.)?foo\.com/ads.*\.js"); (1, bs ".*"); (2, bs "good"); (2, bs ".*")],
        [bs "@@good"; bs "||foo.com/ads*.js$domain=a.com|b.com"; bs "example.com##.ad"]).
Proof. vm_compute. reflexivity. Qed.

(* ================================================================== inclusion for plain patterns *)
Lemma seq_app {X} (m : X -> str -> Prop) xs ys s t :
  seq_matches m xs s -> seq_matches m ys t -> seq_matches m (xs ++ ys) (s ++ t).
Proof.
  intros H K. induction H as [|x xs s1 s2 Hx Hxs IH]; [exact K|].
  rewrite <- app_assoc. cbn [app]. constructor; assumption.
Qed.

Lemma lit_item_match c : item_matches (IAtom (ALit c) QOne) [c].
Proof. constructor. constructor. cbn. apply N.eqb_refl. Qed.

Lemma lits_match s : seq_matches item_matches (lits s) s.
Proof.
  induction s as [|c s IH]; [constructor|]. change (c :: s) with ([c] ++ s).
  cbn [lits map]. constructor; [apply lit_item_match|exact IH].
Qed.

Lemma not_in_forallb c s : ~ In c s -> forallb (atom_okb (ANot c)) s = true.
Proof.
  intros H. apply forallb_forall. intros x I. cbn. apply negb_true_iff. apply N.eqb_neq. intros ->. contradiction.
Qed.

Lemma strip_trailing_caret_plain p : ~ In CARET p -> strip_trailing_caret p = p.
Proof.
  induction p as [|c p IH]; intros H; [reflexivity|]. destruct p as [|d p].
  - cbn [strip_trailing_caret]. destruct (N.eqb c cb_trailing_separator_char) eqn:E; [|reflexivity].
    apply N.eqb_eq in E. exfalso. apply H. left. rewrite E. reflexivity.
  - change (strip_trailing_caret (c :: d :: p)) with (c :: strip_trailing_caret (d :: p)).
    rewrite IH; [reflexivity|]. intros I. apply H. right. exact I.
Qed.

Lemma part_items_plain p : plain p -> part_items p = lits p.
Proof.
  intros [HS HC]. unfold part_items. rewrite (strip_trailing_caret_plain p HC). unfold lits.
  apply map_ext_in. intros c I. unfold part_item. destruct (N.eqb c cb_wildcard_char) eqn:E; [|reflexivity].
  apply N.eqb_eq in E. exfalso. apply HS. subst c. exact I.
Qed.

Lemma host_prefix_match scheme a :
  scheme <> [] -> ~ In COLON scheme -> ~ In SLASH a ->
  (a = [] \/ exists a', a' <> [] /\ a = a' ++ [DOT]) ->
  seq_matches item_matches host_prefix_items (scheme ++ COLON :: SLASH :: SLASH :: a).
Proof.
  intros NE NC NS HA. unfold host_prefix_items.
  change (scheme ++ COLON :: SLASH :: SLASH :: a) with (scheme ++ [COLON] ++ [SLASH; SLASH] ++ a).
  constructor.
  { constructor. constructor; [exact NE|apply not_in_forallb; exact NC]. }
  constructor; [apply lit_item_match|].
  constructor.
  { apply IM_grp1. change [SLASH; SLASH] with ([SLASH] ++ [SLASH] ++ []).
    constructor; [constructor; reflexivity|]. constructor; [constructor; reflexivity|constructor]. }
  rewrite <- (app_nil_r a). constructor; [|constructor].
  destruct HA as [->|(a' & NE' & ->)]; [apply IM_grp0|].
  apply IM_grp1. rewrite <- (app_nil_r [DOT]). constructor.
  - constructor; [exact NE'|]. apply not_in_forallb. intros I. apply NS. apply in_or_app. left. exact I.
  - constructor; [constructor; reflexivity|constructor].
Qed.

(* unanchored, |left-anchored and right-anchored| plain patterns without hostname *)
Theorem plain_inclusion_pattern nf p r url :
  nf_hostname nf = None -> nf_filter nf = FSimple p -> plain p ->
  (has (nf_mask nf) M_IS_LEFT_ANCHOR = true \/ has (nf_mask nf) (N.lor M_FROM_HTTP M_FROM_HTTPS) = true) ->
  url_filter_ast nf = Ok (COk r) ->
  plain_match (has (nf_mask nf) M_IS_LEFT_ANCHOR) (has (nf_mask nf) M_IS_RIGHT_ANCHOR) p url ->
  ast_matches r url.
Proof.
  unfold url_filter_ast. intros HH HF PL SC U (a & b & -> & LA & RA). rewrite HH, HF in U.
  assert (E : r = mkRx (has (nf_mask nf) M_IS_LEFT_ANCHOR) (lits p) (has (nf_mask nf) M_IS_RIGHT_ANCHOR)).
  { rewrite (part_items_plain p PL) in U. destruct (has (nf_mask nf) M_IS_LEFT_ANCHOR); [injection U as <-; reflexivity|].
    destruct SC as [SC|SC]; [discriminate|]. rewrite SC in U. injection U as <-. reflexivity. }
  subst r. exists a, p, b. cbn [rx_start rx_body rx_end]. repeat split; auto. apply lits_match.
Qed.

(* ||h and ||h/path (no wildcard in the hostname), for URLs of the shape scheme://[labels.]h path *)
Theorem plain_inclusion_host nf h p r url :
  nf_hostname nf = Some h -> has (nf_mask nf) M_IS_HOSTNAME_REGEX = false ->
  ((nf_filter nf = FEmpty /\ p = []) \/ (nf_filter nf = FSimple p /\ plain p)) ->
  url_filter_ast nf = Ok (COk r) ->
  host_path_match (match nf_filter nf with FEmpty => false | _ => has (nf_mask nf) M_IS_RIGHT_ANCHOR end) h p url ->
  ast_matches r url.
Proof.
  unfold url_filter_ast. intros HH HR HF U (scheme & a & rest & -> & NE & NC & NS & HA & RA). rewrite HH in U.
  assert (E : rx_start r = true /\ rx_body r = host_prefix_items ++ lits h ++ lits p /\
              rx_end r = match nf_filter nf with FEmpty => false | _ => has (nf_mask nf) M_IS_RIGHT_ANCHOR end).
  { destruct HF as [[HF ->]|[HF PL]]; rewrite HF in U |- *.
    - injection U as <-. cbn [rx_start rx_body rx_end lits map]. rewrite app_nil_r. auto.
    - rewrite HR, (part_items_plain p PL) in U. injection U as <-. cbn [rx_start rx_body rx_end app]. auto. }
  destruct E as (E1 & E2 & E3).
  exists [], (scheme ++ COLON :: SLASH :: SLASH :: a ++ h ++ p), rest.
  split; [cbn [app]; rewrite <- !app_assoc; cbn [app]; rewrite <- !app_assoc; reflexivity|].
  split; [|split; [auto|rewrite E3; exact RA]].
  rewrite E2.
  replace (scheme ++ COLON :: SLASH :: SLASH :: a ++ h ++ p)
    with ((scheme ++ COLON :: SLASH :: SLASH :: a) ++ h ++ p)
    by (rewrite <- app_assoc; cbn [app]; reflexivity).
  apply seq_app; [apply host_prefix_match; auto|]. apply seq_app; apply lits_match.
Qed.

(* ".*" (what an empty url-filter is replaced by) matches every URL *)
Lemma match_all_matches url : ast_matches match_all url.
Proof.
  exists [], url, []. cbn [rx_start rx_body rx_end match_all]. rewrite app_nil_r. repeat split; try discriminate.
  rewrite <- (app_nil_r url). constructor; [|constructor]. constructor. constructor.
  apply forallb_forall. reflexivity.
Qed.

(* tie to the converter: every emitted rule carries that url-filter *)
Theorem convert_network_plain_pattern norm nf rules p url r :
  convert_network norm nf = Ok (COk rules) -> In r rules ->
  nf_hostname nf = None -> nf_filter nf = FSimple p -> plain p ->
  (has (nf_mask nf) M_IS_LEFT_ANCHOR = true \/ has (nf_mask nf) (N.lor M_FROM_HTTP M_FROM_HTTPS) = true) ->
  plain_match (has (nf_mask nf) M_IS_LEFT_ANCHOR) (has (nf_mask nf) M_IS_RIGHT_ANCHOR) p url ->
  ast_matches (r_url r) url.
Proof.
  intros C I HH HF PL SC M. destruct (convert_network_url _ _ _ C) as (u & U & F). rewrite (F r I).
  destruct (url_filter_final_inv nf u U) as (r0 & R & ->).
  destruct (is_nil (print_regex r0)); [apply match_all_matches|]. eapply plain_inclusion_pattern; eauto.
Qed.

Theorem convert_network_plain_host norm nf rules h p url r :
  convert_network norm nf = Ok (COk rules) -> In r rules ->
  nf_hostname nf = Some h -> has (nf_mask nf) M_IS_HOSTNAME_REGEX = false ->
  ((nf_filter nf = FEmpty /\ p = []) \/ (nf_filter nf = FSimple p /\ plain p)) ->
  host_path_match (match nf_filter nf with FEmpty => false | _ => has (nf_mask nf) M_IS_RIGHT_ANCHOR end) h p url ->
  ast_matches (r_url r) url.
Proof.
  intros C I HH HR HF M. destruct (convert_network_url _ _ _ C) as (u & U & F). rewrite (F r I).
  destruct (url_filter_final_inv nf u U) as (r0 & R & ->).
  destruct (is_nil (print_regex r0)); [apply match_all_matches|]. eapply plain_inclusion_host; eauto.
Qed.

(* examples: the hypotheses are satisfiable *)
Lemma not_memN_not_In c s : memN c s = false -> ~ In c s.
Proof. intros H I. apply memN_In in I. congruence. Qed.
Lemma plainb_plain p : negb (memN STAR p) && negb (memN CARET p) = true -> plain p.
Proof.
  intros H. apply andb_true_iff in H as [A B]. apply negb_true_iff in A, B.
  split; apply not_memN_not_In; assumption.
Qed.
Definition ex_plain : netf := mkNet ex_mask (FSimple (bs "/ads/")) None false false (Some (bs "/ads/")).
Example ex_plain_inclusion :
  exists r, convert_network (fun _ => None) ex_plain = Ok (COk [r]) /\
            ast_matches (r_url r) (bs "https://x.com/ads/banner.js").
Proof.
  eexists. split; [vm_compute; reflexivity|].
  eapply (convert_network_plain_pattern (fun _ => None) ex_plain _ (bs "/ads/")).
  - vm_compute. reflexivity.
  - left. reflexivity.
  - reflexivity.
  - reflexivity.
  - apply plainb_plain. reflexivity.
  - right. reflexivity.
  - exists (bs "https://x.com"), (bs "banner.js"). repeat split; discriminate.
Qed.
Definition ex_host : netf :=
  mkNet (N.lor ex_mask (N.lor M_IS_HOSTNAME_ANCHOR M_IS_RIGHT_ANCHOR)) FEmpty (Some (bs "foo.com")) false false (Some (bs "||foo.com^")).
Example ex_host_inclusion :
  exists r, convert_network (fun _ => None) ex_host = Ok (COk [r]) /\
            ast_matches (r_url r) (bs "https://ads.foo.com/x").
Proof.
  eexists. split; [vm_compute; reflexivity|].
  eapply (convert_network_plain_host (fun _ => None) ex_host _ (bs "foo.com") []).
  - vm_compute. reflexivity.
  - left. reflexivity.
  - reflexivity.
  - reflexivity.
  - left. split; reflexivity.
  - exists (bs "https"), (bs "ads."), (bs "/x"). cbn [nf_filter ex_host].
    split; [reflexivity|]. split; [discriminate|].
    split; [apply not_memN_not_In; reflexivity|].
    split; [apply not_memN_not_In; reflexivity|].
    split; [right; exists (bs "ads"); split; [discriminate|reflexivity]|discriminate].
Qed.

Example ex_total_hyps :
  Forall (fun nf => nf_raw nf <> None /\ dollar_ok nf = true) [ex_exception; ex_host_rule] /\
  Forall (fun nf => host_ok nf = true) [ex_exception; ex_host_rule] /\
  Forall (fun cf => cf_raw cf <> None /\ cos_ok cf = true) [ex_cosmetic].
Proof. repeat split; repeat constructor; try discriminate; vm_compute; reflexivity. Qed.

(* ================================================================== inclusion: the two carve-outs, refuted *)
(* `*$third-party` as parsed: mask 335871 = default options without FIRST_PARTY, plus IS_REGEX; empty filter, no hostname.
   The crate's matcher applies it to wss:// URLs; the exported ^https?:// does not. *)
Definition patternless_rule : netf := mkNet 335871 FEmpty None false false (Some (bs "*$third-party")).
Theorem cb_patternless_ws_refuted : forall norm,
  exists r, convert_network norm patternless_rule = Ok (COk [r]) /\
            print_regex (r_url r) = bs "^https?://" /\
            ~ ast_matches (r_url r) (bs "wss://x.com/").
Proof.
  intros norm. eexists. split; [vm_compute; reflexivity|]. split; [vm_compute; reflexivity|].
  intros (a & m & b & E & S & A & _). cbn [r_url rx_start rx_body] in *.
  rewrite (A eq_refl) in E. cbn [app] in E. clear A.
  change sch_both with (IAtom (ALit 104) QOne :: (lits (bs "ttp") ++ s_opt ++ lits (bs "://"))) in S.
  inversion S as [|x xs s1 t Hx Hxs]; subst. inversion Hx as [a0 q0 s0 Hq| |]; subst.
  inversion Hq as [a1 c Hc| | | |]; subst. cbn in Hc. apply N.eqb_eq in Hc. subst c.
  cbn in E. discriminate E.
Qed.

(* `||a` (hostname "a", empty filter) vs the URL s://u@a : the rule's host is the URL's host,
   the exported ^[^:]+:(//)?([^/]+\.)?a cannot get past the credentials *)
Definition userinfo_rule : netf :=
  mkNet (N.lor ex_mask M_IS_HOSTNAME_ANCHOR) FEmpty (Some (bs "a")) false false (Some (bs "||a")).
Lemma notplus_inv c s : item_matches (IAtom (ANot c) QPlus) s -> s <> [] /\ ~ In c s.
Proof.
  intros H. inversion H as [a q s0 Hq| |]; subst. inversion Hq as [| |a1 s1 NE F| |]; subst.
  split; [exact NE|]. intros I. rewrite forallb_forall in F. specialize (F c I). cbn in F.
  rewrite N.eqb_refl in F. discriminate.
Qed.
Lemma lit_inv c s : item_matches (IAtom (ALit c) QOne) s -> s = [c].
Proof.
  intros H. inversion H as [a q s0 Hq| |]; subst. inversion Hq as [a1 d Hd| | | |]; subst.
  cbn in Hd. apply N.eqb_eq in Hd. subst. reflexivity.
Qed.
Lemma qlit_inv c s : qatom_matches (ALit c, QOne) s -> s = [c].
Proof. intros Hq. inversion Hq as [a1 d Hd| | | |]; subst. cbn in Hd. apply N.eqb_eq in Hd. subst. reflexivity. Qed.

Theorem cb_userinfo_refuted : forall norm,
  exists r, convert_network norm userinfo_rule = Ok (COk [r]) /\
            print_regex (r_url r) = bs "^[^:]+:(//)?([^/]+\.)?a" /\
            ~ ast_matches (r_url r) (bs "s://u@a").
Proof.
  intros norm. eexists. split; [vm_compute; reflexivity|]. split; [vm_compute; reflexivity|].
  intros (a & m & b & E & S & A & _). cbn [r_url rx_start rx_body] in *.
  rewrite (A eq_refl) in E. cbn [app] in E. clear A.
  change (host_prefix_items ++ lits (bs "a")) with
    [IAtom (ANot COLON) QPlus; IAtom (ALit COLON) QOne;
     IOptGroup [(ALit SLASH, QOne); (ALit SLASH, QOne)];
     IOptGroup [(ANot SLASH, QPlus); (ALit DOT, QOne)]; IAtom (ALit 97) QOne] in S.
  inversion S as [|x1 xs1 s1 t1 H1 S1]; subst. clear S.
  inversion S1 as [|x2 xs2 s2 t2 H2 S2]; subst. clear S1.
  inversion S2 as [|x3 xs3 s3 t3 H3 S3]; subst. clear S2.
  inversion S3 as [|x4 xs4 s4 t4 H4 S4]; subst. clear S3.
  inversion S4 as [|x5 xs5 s5 t5 H5 S5]; subst. clear S4.
  inversion S5; subst. clear S5.
  apply notplus_inv in H1 as [NE1 NC1]. apply lit_inv in H2. apply lit_inv in H5. subst s2 s5.
  (* s1 = "s" *)
  destruct s1 as [|c1 s1]; [congruence|]. cbn in E. injection E as E0 E. subst c1.
  destruct s1 as [|c2 s1].
  2:{ cbn in E. injection E as E1 E. exfalso. apply NC1. right. left. exact (eq_sym E1). }
  cbn in E. injection E as E.
  (* group (//)? *)
  assert (G3 : s3 = [] \/ s3 = [SLASH; SLASH]).
  { inversion H3 as [|g|g s Hs]; subst; [left; reflexivity|].
    inversion Hs as [|y1 ys1 u1 v1 K1 Ks1]; subst. inversion Ks1 as [|y2 ys2 u2 v2 K2 Ks2]; subst.
    inversion Ks2; subst. apply qlit_inv in K1. apply qlit_inv in K2. subst. right. reflexivity. }
  (* group ([^/]+\.)? *)
  assert (G4 : s4 = [] \/ exists x, x <> [] /\ ~ In SLASH x /\ s4 = x ++ [DOT]).
  { inversion H4 as [|g|g s Hs]; subst; [left; reflexivity|].
    inversion Hs as [|y1 ys1 u1 v1 K1 Ks1]; subst. inversion Ks1 as [|y2 ys2 u2 v2 K2 Ks2]; subst.
    inversion Ks2; subst. apply qlit_inv in K2. subst.
    inversion K1 as [| |a1 s1' NE F| |]; subst. right. exists u1. split; [exact NE|]. split.
    - intros I. rewrite forallb_forall in F. specialize (F _ I). cbn in F. rewrite N.eqb_refl in F. discriminate.
    - rewrite app_nil_r. reflexivity. }
  assert (ND : forall x y, ~ (x ++ [DOT] ++ y = bs "//u@a") /\ ~ (x ++ [DOT] ++ y = bs "u@a")).
  { intros x y. split; intros K;
      (assert (I : In DOT (x ++ [DOT] ++ y)) by (apply in_or_app; right; left; reflexivity));
      rewrite K in I; cbn in I; repeat (destruct I as [I|I]; [discriminate I|]); contradiction. }
  destruct G3 as [->| ->]; destruct G4 as [->|(x & NEx & NSx & ->)]; cbn [app] in E.
  - discriminate E.
  - rewrite <- !app_assoc in E. exact (proj1 (ND x _) (eq_sym E)).
  - discriminate E.
  - injection E as E. rewrite <- !app_assoc in E. exact (proj2 (ND x _) (eq_sym E)).
Qed.

(* `||.a` (hostname ".a") vs s://x.a : the crate takes the dot of the rule's hostname as the label
   boundary; the exported ^[^:]+:(//)?([^/]+\.)?\.a needs two consecutive dots *)
Definition leading_dot_rule : netf :=
  mkNet (N.lor ex_mask M_IS_HOSTNAME_ANCHOR) FEmpty (Some (bs ".a")) false false (Some (bs "||.a")).
Theorem cb_leading_dot_refuted : forall norm,
  exists r, convert_network norm leading_dot_rule = Ok (COk [r]) /\
            print_regex (r_url r) = bs "^[^:]+:(//)?([^/]+\.)?\.a" /\
            ~ ast_matches (r_url r) (bs "s://x.a").
Proof.
  intros norm. eexists. split; [vm_compute; reflexivity|]. split; [vm_compute; reflexivity|].
  intros (a & m & b & E & S & A & _). cbn [r_url rx_start rx_body] in *.
  rewrite (A eq_refl) in E. cbn [app] in E. clear A.
  change (host_prefix_items ++ lits (bs ".a")) with
    [IAtom (ANot COLON) QPlus; IAtom (ALit COLON) QOne;
     IOptGroup [(ALit SLASH, QOne); (ALit SLASH, QOne)];
     IOptGroup [(ANot SLASH, QPlus); (ALit DOT, QOne)]; IAtom (ALit DOT) QOne; IAtom (ALit 97) QOne] in S.
  inversion S as [|x1 xs1 s1 t1 H1 S1]; subst. clear S.
  inversion S1 as [|x2 xs2 s2 t2 H2 S2]; subst. clear S1.
  inversion S2 as [|x3 xs3 s3 t3 H3 S3]; subst. clear S2.
  inversion S3 as [|x4 xs4 s4 t4 H4 S4]; subst. clear S3.
  inversion S4 as [|x5 xs5 s5 t5 H5 S5]; subst. clear S4.
  inversion S5 as [|x6 xs6 s6 t6 H6 S6]; subst. clear S5.
  inversion S6; subst. clear S6.
  apply notplus_inv in H1 as [NE1 NC1]. apply lit_inv in H2. apply lit_inv in H5. apply lit_inv in H6. subst s2 s5 s6.
  destruct s1 as [|c1 s1]; [congruence|]. cbn in E. injection E as E0 E. subst c1.
  destruct s1 as [|c2 s1].
  2:{ cbn in E. injection E as E1 E. exfalso. apply NC1. right. left. exact (eq_sym E1). }
  cbn in E. injection E as E.
  assert (G3 : s3 = [] \/ s3 = [SLASH; SLASH]).
  { inversion H3 as [|g|g s Hs]; subst; [left; reflexivity|].
    inversion Hs as [|y1 ys1 u1 v1 K1 Ks1]; subst. inversion Ks1 as [|y2 ys2 u2 v2 K2 Ks2]; subst.
    inversion Ks2; subst. apply qlit_inv in K1. apply qlit_inv in K2. subst. right. reflexivity. }
  assert (G4 : s4 = [] \/ exists x, x <> [] /\ ~ In SLASH x /\ s4 = x ++ [DOT]).
  { inversion H4 as [|g|g s Hs]; subst; [left; reflexivity|].
    inversion Hs as [|y1 ys1 u1 v1 K1 Ks1]; subst. inversion Ks1 as [|y2 ys2 u2 v2 K2 Ks2]; subst.
    inversion Ks2; subst. apply qlit_inv in K2. subst.
    inversion K1 as [| |a1 s1' NE F| |]; subst. right. exists u1. split; [exact NE|]. split.
    - intros I. rewrite forallb_forall in F. specialize (F _ I). cbn in F. rewrite N.eqb_refl in F. discriminate.
    - rewrite app_nil_r. reflexivity. }
  destruct G3 as [->| ->]; destruct G4 as [->|(x & NEx & NSx & ->)]; cbn [app] in E.
  - discriminate E.
  - destruct x as [|c x]; [congruence|]. cbn in E. injection E as E1 E. apply NSx. left. exact (eq_sym E1).
  - discriminate E.
  - injection E as E. rewrite <- !app_assoc in E. cbn [app] in E.
    destruct x as [|c x]; [congruence|]. cbn in E. injection E as E1 E.
    destruct x as [|d x]; cbn in E; [discriminate E|]. injection E as E2 E.
    destruct x as [|e x]; cbn in E; [discriminate E|]. injection E as E3 E.
    destruct x; cbn in E; discriminate E.
Qed.
