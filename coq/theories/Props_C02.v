(* Props_C02.v — pinned statements for property C02 (pattern semantics).
   Only statements, `exact`, and Print Assumptions. *)
From Adb Require Import Base BaseProofs Generated C02_Model C02_Proofs.

(* ---- hostname anchoring (fn anchored_hostname_end), for all strings ---- *)

(* the loop returns the offset after the FIRST occurrence of the filter hostname that starts and
   ends at a label boundary (declarative executable reference: a left-to-right scan) *)
Theorem C02_anchor_loop_is_first_occurrence : forall h host w e,
  anchored_hostname_end h host w e = ref_anchor_end h host w e.
Proof. exact ahe_eq_ref. Qed.
Print Assumptions C02_anchor_loop_is_first_occurrence.

(* the offset arithmetic of that scan is the decomposition host = pre ++ h ++ post with pre empty
   or ending in '.', (or h starting with '.'), and post empty or -- unless the occurrence must end
   the hostname -- starting with '.' (or h ending in '.', or the pattern continuing with '*') *)
Theorem C02_anchor_at_decomposition : forall h host w e o, h <> [] ->
  (anchor_atb h host w e o = true <-> anchor_at h host w e o).
Proof. exact anchor_atb_spec. Qed.
Print Assumptions C02_anchor_at_decomposition.

Theorem C02_anchored_some : forall h host w e k, h <> [] ->
  anchored_hostname_end h host w e = Some k ->
  exists o, k = (o + length h)%nat /\ anchor_at h host w e o /\
            forall o', (o' < o)%nat -> ~ anchor_at h host w e o'.
Proof. exact ahe_some. Qed.
Print Assumptions C02_anchored_some.

Theorem C02_anchored_none : forall h host w e,
  anchored_hostname_end h host w e = None <-> h <> [] /\ forall o, ~ anchor_at h host w e o.
Proof. exact ahe_none. Qed.
Print Assumptions C02_anchored_none.

Theorem C02_is_anchored_iff : forall h host w, h <> [] ->
  (is_anchored_by_hostname h host w = true <-> exists o, anchor_at h host w false o).
Proof. exact is_anchored_iff. Qed.
Print Assumptions C02_is_anchored_iff.

(* ---- the pattern language ---- *)

Theorem C02_matcher_spec : forall e p s, mb e p s = true <-> m e p s.
Proof. exact mb_spec. Qed.
Print Assumptions C02_matcher_spec.

Theorem C02_search_spec : forall la e p s,
  search la e p s = true <-> if la then m e p s else m_somewhere e p s.
Proof. exact search_spec. Qed.
Print Assumptions C02_search_spec.

(* ---- the plain tests of check_pattern_* are the token semantics of a literal pattern ---- *)
Theorem C02_plain_tests_are_search : forall f s : str, all_lits f = true ->
  containsb f s = search false false (toks f) s /\
  suffixb f s = search false true (toks f) s /\
  prefixb f s = search true false (toks f) s /\
  str_eqb s f = search true true (toks f) s.
Proof. exact plain_tests_are_search. Qed.
Print Assumptions C02_plain_tests_are_search.

(* ---- compile_regex: string translation = canonical printing of the token list ---- *)
Theorem C02_translate_is_print : forall f la ra,
  has_double_caret f = false -> no_nl f = true ->
  translate f la ra = regex_text (toks f) la ra.
Proof. exact translate_is_print. Qed.
Print Assumptions C02_translate_is_print.

(* ---- get_url_after_anchor ---- *)
Theorem C02_url_after_anchor : forall url host hs ae,
  (host_search_start url <= hs)%nat ->
  find_sub host (drop (host_search_start url) url) = Some (hs - host_search_start url)%nat ->
  (0 < ae <= length host)%nat ->
  get_url_after_anchor url host ae = drop (hs + ae) url.
Proof. exact get_url_after_anchor_spec. Qed.
Print Assumptions C02_url_after_anchor.

(* ---- the mask bits that select the check_pattern_* function (generated from the source) ---- *)
Theorem C02_mask_bits_independent : forall sh, shape_of_mask (mask_of_shape sh) = sh.
Proof. exact mask_bits_independent. Qed.
Print Assumptions C02_mask_bits_independent.

(* ---- main theorem: check_pattern (dispatch + the nine functions) = ABP semantics of what the
   parsed fields denote.  Carve-outs, all boolean: wf_fields (parser invariants) and
   nondegenerate_fields (field shapes only degenerate spellings produce); wf_request says that the
   request hostname is what follows "://" and the credentials in the URL, and excludes
   IPv6-literal hosts.  The regex crate enters through the premise re_std for this rule's regex
   text.  (The former carve-outs suffix_mid_label and host-in-URL-prefix are gone: both defects
   were repaired in /repo and the theorem now covers those inputs.) ---- *)
Theorem C02_check_pattern_ref : forall re_ok re_match mask filter hostname r hs,
  let sh := shape_of_mask mask in
  wf_fields sh filter hostname = true ->
  nondegenerate_fields sh filter hostname = true ->
  wf_request r hs ->
  (forall f, filter = Some f -> s_rx sh = true ->
             re_std re_ok re_match (translate f (s_la sh) (s_ra sh)) (s_la sh) (s_ra sh) (toks f)) ->
  (check_pattern re_ok re_match mask (fs_of filter) hostname r = true <->
   ref_match (ast_of_fields sh filter hostname) (lower_str (r_url r)) (r_host r) hs).
Proof. exact check_pattern_ref_mask. Qed.
Print Assumptions C02_check_pattern_ref.

Theorem C02_ref_matchb_spec : forall a url host hs,
  (forall h, pa_left a = LHost h -> h <> []) ->
  (ref_matchb a url host hs = true <-> ref_match a url host hs).
Proof. exact ref_matchb_spec. Qed.
Print Assumptions C02_ref_matchb_spec.

(* ---- from the text of a rule.  (Formerly PARTIAL; see C02_check_line_ref at the end of this file, where the premise parse_ok is discharged for every line.)  The parse step (model parse_line of
   NetworkFilter::parse) enters through the decidable premise [parse_ok line]; that every
   non-degenerate line outside F22 satisfies it is proved only for the finite domain below and is
   otherwise evaluated per generated rule by the correspondence run (text_tie). ---- *)
Theorem C02_check_line_ref_partial : forall re_ok re_match line r hs,
  let pf := parse_line line in
  parse_ok line = true ->
  wf_request r hs ->
  (forall f, pf_filter pf = Some f -> s_rx (pf_shape pf) = true ->
             re_std re_ok re_match (translate f (s_la (pf_shape pf)) (s_ra (pf_shape pf)))
                    (s_la (pf_shape pf)) (s_ra (pf_shape pf)) (toks f)) ->
  (check_pattern_sh re_ok re_match (pf_shape pf) (fs_of (pf_filter pf)) (pf_hostname pf) r = true <->
   ref_match (ast_of_text line) (lower_str (r_url r)) (r_host r) hs).
Proof. exact check_line_ref. Qed.
Print Assumptions C02_check_line_ref_partial.

Theorem C02_parse_preserves_ast_bounded : forall line,
  (length line <= 6)%nat -> Forall (fun b => In b ALPHA) line ->
  nondegenerate_text line = true -> host_right_pipe line = false -> parse_ok line = true.
Proof. exact parse_preserves_ast_bounded. Qed.
Print Assumptions C02_parse_preserves_ast_bounded.

(* ---- refutation (the witness replayed on the crate is the listed finding F22) ---- *)
Theorem C02_host_right_pipe_refuted :
  exists line url host hs,
    host_right_pipe line = true /\ nondegenerate_text line = true /\
    wf_request {| r_url := url; r_host := host |} hs /\
    cp_line line url host = true /\ ~ ref_match (ast_of_text line) url host hs.
Proof. exact host_right_pipe_refuted. Qed.
Print Assumptions C02_host_right_pipe_refuted.

Theorem C02_wf_request_decidable : forall r hs, wf_requestb r hs = true -> wf_request r hs.
Proof. exact wf_requestb_spec. Qed.
Print Assumptions C02_wf_request_decidable.

(* ------------------------------------------------------------------ the parse step for ALL lines
   (C02_Parse_Proofs.v): the text-level theorem is no longer partial *)
From Adb Require Import C02_Parse_Proofs.

(* ---- the parse step, for ALL lines (no length bound, no alphabet restriction): outside the
   degenerate spellings (nondegenerate_text) and the known finding F22 (host_right_pipe), the
   fields the model of NetworkFilter::parse produces are well-formed (wf_fields), non-degenerate
   (nondegenerate_fields), and denote exactly the declarative reading of the text
   (ast_of_fields = ast_of_text).  No further side condition is needed. ---- *)
Theorem C02_parse_preserves_ast : forall line,
  nondegenerate_text line = true -> host_right_pipe line = false -> parse_ok line = true.
Proof. exact parse_preserves_ast. Qed.
Print Assumptions C02_parse_preserves_ast.

(* ---- from the text of a rule: check_pattern on the parsed fields of a line = ABP semantics of
   the text of the line.  The parse premise [parse_ok line] of C02_check_line_ref_partial is
   discharged by C02_parse_preserves_ast. ---- *)
Theorem C02_check_line_ref : forall re_ok re_match line r hs,
  let pf := parse_line line in
  nondegenerate_text line = true ->
  host_right_pipe line = false ->
  wf_request r hs ->
  (forall f, pf_filter pf = Some f -> s_rx (pf_shape pf) = true ->
             re_std re_ok re_match (translate f (s_la (pf_shape pf)) (s_ra (pf_shape pf)))
                    (s_la (pf_shape pf)) (s_ra (pf_shape pf)) (toks f)) ->
  (check_pattern_sh re_ok re_match (pf_shape pf) (fs_of (pf_filter pf)) (pf_hostname pf) r = true <->
   ref_match (ast_of_text line) (lower_str (r_url r)) (r_host r) hs).
Proof. exact check_line_ref_full. Qed.
Print Assumptions C02_check_line_ref.

(* ---- the per-rule check of the correspondence run (text_tie), on the model's own parse of
   any line, is always true ---- *)
Theorem C02_text_tie_parse_line : forall line,
  let pf := parse_line line in
  text_tie line (mask_of_shape (pf_shape pf)) (pf_filter pf) (pf_hostname pf) = true.
Proof. exact text_tie_parse_line. Qed.
Print Assumptions C02_text_tie_parse_line.

(* ---- regression: the former finite-domain statement follows from the general one ---- *)
Theorem C02_parse_preserves_ast_bounded_from_general : forall line,
  (length line <= 6)%nat -> Forall (fun b => In b ALPHA) line ->
  nondegenerate_text line = true -> host_right_pipe line = false -> parse_ok line = true.
Proof. exact parse_preserves_ast_implies_bounded. Qed.
Print Assumptions C02_parse_preserves_ast_bounded_from_general.

(* ------------------------------------------------------------------ translator tie for compile_regex:
   escape class and replacement texts as extracted from src/regex_manager.rs on this run *)
From Adb Require Import C02_Tables_Proofs.

Theorem C02_src_special_table : forall b, is_special b = memN b C02Gen.special_re_chars.
Proof. exact special_table_agrees. Qed.
Print Assumptions C02_src_special_table.

Theorem C02_src_special_is_l0_meta : forall b, memN b C02Gen.special_re_chars = memN b l0_regex_meta.
Proof. exact special_is_l0_meta. Qed.
Print Assumptions C02_src_special_is_l0_meta.

Theorem C02_src_replacement_texts :
  C02Gen.wildcard_txt = DOTSTAR /\ C02Gen.sep_txt = SEP_TXT /\ C02Gen.sep_eol_txt = SEP_EOL_TXT.
Proof. exact replacement_texts_agree. Qed.
Print Assumptions C02_src_replacement_texts.

(* ---- the matchers themselves, re-read from src/filters/network_matchers.rs on every run
   (tools/gen_fragments/c02_matchers_structure.py -> Generated.MatchGen): the dispatch of
   `check_pattern` on the mask, the predicate of each plain matcher, the offset handed to the regex
   manager, and for each hostname-anchored matcher the must-end condition given to
   anchored_hostname_end and the test behind the occurrence.  Interpreted over the model's helpers
   this description IS check_pattern, for every regex oracle, mask, pattern list, rule hostname and
   request; it never names a matcher that is not described. ---- *)
From Adb Require Struct_Matchers_Proofs.
Theorem C02_src_check_pattern_is_model :
  forall (re_ok : str -> bool) (re_match : str -> str -> bool) (mask : N) (fs : list str)
         (hostname : option str) (r : request),
  Struct_Matchers_Proofs.interp_check_pattern re_ok re_match (shape_of_mask mask) fs hostname r =
  Some (check_pattern re_ok re_match mask fs hostname r).
Proof. intros. exact (Struct_Matchers_Proofs.interp_check_pattern_is_model re_ok re_match _ fs hostname r). Qed.
Print Assumptions C02_src_check_pattern_is_model.

Theorem C02_src_check_pattern_sh_is_model :
  forall (re_ok : str -> bool) (re_match : str -> str -> bool) (sh : shape) (fs : list str)
         (hostname : option str) (r : request),
  Struct_Matchers_Proofs.interp_check_pattern re_ok re_match sh fs hostname r =
  Some (check_pattern_sh re_ok re_match sh fs hostname r).
Proof. exact Struct_Matchers_Proofs.interp_check_pattern_is_model. Qed.
Print Assumptions C02_src_check_pattern_sh_is_model.

Theorem C02_src_dispatch_total :
  exists name, last MatchGen.dispatch (MatchGen.MTrue, ""%string) = (MatchGen.MTrue, name).
Proof. exact Struct_Matchers_Proofs.dispatch_total. Qed.
Print Assumptions C02_src_dispatch_total.

(* `anchored_hostname_end` itself (Generated.AnchorGen: the two early returns, the loop condition,
   the search for the next occurrence, the two label tests as formulas with short-circuit
   evaluation, the accepting return, the step of `search_from`): interpreted with every index
   `hostname.as_bytes()[k]` bounds-checked, it is never stuck (no index out of range, no
   `match_index - 1` at 0) and IS the model's function for all strings and both flags. *)
Theorem C02_src_anchored_hostname_end_is_model : forall (fh host : str) (w e : bool),
  Struct_Matchers_Proofs.interp_ahe fh host w e = Some (anchored_hostname_end fh host w e).
Proof. exact Struct_Matchers_Proofs.interp_ahe_is_model. Qed.
Print Assumptions C02_src_anchored_hostname_end_is_model.

Theorem C02_src_anchored_hostname_end_no_index_panic : forall (fh host : str) (w e : bool),
  Struct_Matchers_Proofs.interp_ahe fh host w e <> None.
Proof. exact Struct_Matchers_Proofs.interp_ahe_never_stuck. Qed.
Print Assumptions C02_src_anchored_hostname_end_no_index_panic.

(* `get_url_after_anchor`: the scheme separator, the authority terminators and the userinfo
   separator are read off the source (Generated.AfterGen); the search for the request hostname
   starts where the model says, for every URL *)
Theorem C02_src_host_search_start_is_model : forall url : str,
  Struct_Matchers_Proofs.interp_host_search_start url = host_search_start url.
Proof. exact Struct_Matchers_Proofs.interp_host_search_start_is_model. Qed.
Print Assumptions C02_src_host_search_start_is_model.

Theorem C02_src_get_url_after_anchor_is_model : forall (url h : str) (a : nat),
  Struct_Matchers_Proofs.interp_get_url_after_anchor url h a = get_url_after_anchor url h a.
Proof. exact Struct_Matchers_Proofs.interp_get_url_after_anchor_is_model. Qed.
Print Assumptions C02_src_get_url_after_anchor_is_model.

(* the regex manager (Generated.RegexMgrGen): the mask flags reach compile_regex as the model says,
   and a discarded regex is rebuilt by the expression that builds a new one *)
Theorem C02_src_regex_manager_matches_is_model :
  forall (re_ok : str -> bool) (re_match : str -> str -> bool) (sh : shape) (fs : list str) (s : str),
  Struct_Matchers_Proofs.interp_regex_manager_matches re_ok re_match sh fs s =
  Some (regex_manager_matches re_ok re_match sh fs s).
Proof. exact Struct_Matchers_Proofs.interp_regex_manager_matches_is_model. Qed.
Print Assumptions C02_src_regex_manager_matches_is_model.

Theorem C02_src_recreate_is_create : RegexMgrGen.recreate_expr = RegexMgrGen.create_expr.
Proof. exact Struct_Matchers_Proofs.recreate_is_create. Qed.
Print Assumptions C02_src_recreate_is_create.
