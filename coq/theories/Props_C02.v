(* Props_C02.v — pinned statements for property C02 (pattern semantics).
   Only statements, `exact`, and Print Assumptions. *)
From Adb Require Import Base BaseProofs Generated C02_Model C02_Proofs.

(* ---- hostname anchoring (fn anchored_hostname_end), for all strings ---- *)

(* the loop returns the offset after the FIRST occurrence of the filter hostname that starts and
   ends at a label boundary (declarative executable reference: a left-to-right scan) *)
Theorem C02_anchor_loop_is_first_occurrence : forall h host w e,
  anchored_hostname_end h host w e = ref_anchor_end h host w e.
Proof. exact ahe_eq_ref. Qed.
Print Assumptions C02_anchor_loop_is_first_occurrence.

(* the offset arithmetic of that scan is the decomposition host = pre ++ h ++ post with pre empty
   or ending in '.', (or h starting with '.'), and post empty or -- unless the occurrence must end
   the hostname -- starting with '.' (or h ending in '.', or the pattern continuing with '*') *)
Theorem C02_anchor_at_decomposition : forall h host w e o, h <> [] ->
  (anchor_atb h host w e o = true <-> anchor_at h host w e o).
Proof. exact anchor_atb_spec. Qed.
Print Assumptions C02_anchor_at_decomposition.

Theorem C02_anchored_some : forall h host w e k, h <> [] ->
  anchored_hostname_end h host w e = Some k ->
  exists o, k = (o + length h)%nat /\ anchor_at h host w e o /\
            forall o', (o' < o)%nat -> ~ anchor_at h host w e o'.
Proof. exact ahe_some. Qed.
Print Assumptions C02_anchored_some.

Theorem C02_anchored_none : forall h host w e,
  anchored_hostname_end h host w e = None <-> h <> [] /\ forall o, ~ anchor_at h host w e o.
Proof. exact ahe_none. Qed.
Print Assumptions C02_anchored_none.

Theorem C02_is_anchored_iff : forall h host w, h <> [] ->
  (is_anchored_by_hostname h host w = true <-> exists o, anchor_at h host w false o).
Proof. exact is_anchored_iff. Qed.
Print Assumptions C02_is_anchored_iff.

(* ---- the pattern language ---- *)

Theorem C02_matcher_spec : forall e p s, mb e p s = true <-> m e p s.
Proof. exact mb_spec. Qed.
Print Assumptions C02_matcher_spec.

Theorem C02_search_spec : forall la e p s,
  search la e p s = true <-> if la then m e p s else m_somewhere e p s.
Proof. exact search_spec. Qed.
Print Assumptions C02_search_spec.
