(* Tok_Proofs.v — the token guarantee for plain patterns, proved from the concrete tokenizer:
   every token that tokenize_filter keeps for a pattern is a whole token of any URL that the plain
   matcher accepts (substring / prefix / suffix / equality according to the anchors), hence is
   among the request's probes.  This discharges the TG premise of the C01 engine theorem for
   rules without hostname, domain options, scheme restriction or regex. *)
From Adb Require Import Base BaseProofs Generated Hashing Net_Model Net_Proofs.
From Coq Require Import ZifyBool ZifyNat ZifyN.

(* ---------------------------------------------------------------- the tokenizer without cut-off *)
Fixpoint tku (skip_first skip_last : bool) (s : str) (i : nat) (cur : option (nat * str))
         (prec : option N) : list str :=
  match s with
  | [] =>
      match cur with
      | Some (st, t) =>
          if negb skip_last && (negb (Nat.eqb st 0) || negb skip_first) && Nat.ltb 1 (length t)
             && negb (is_star_opt prec) then [rev t] else []
      | None => []
      end
  | c :: r =>
      if allowed c then
        match cur with
        | None => tku skip_first skip_last r (S i) (Some (i, [c])) prec
        | Some (st, t) => tku skip_first skip_last r (S i) (Some (st, c :: t)) prec
        end
      else
        match cur with
        | Some (st, t) =>
            if (negb (Nat.eqb st 0) || negb skip_first) && Nat.ltb 1 (length t)
               && negb (N.eqb c STAR) && negb (is_star_opt prec)
            then rev t :: tku skip_first skip_last r (S i) None (Some c)
            else tku skip_first skip_last r (S i) None (Some c)
        | None => tku skip_first skip_last r (S i) None (Some c)
        end
  end.

(* below the 127-token cut-off the real tokenizer is the unbounded one *)
Lemma tk_eq_tku sf sl s : forall i cur prec n,
  (n + length (tku sf sl s i cur prec) <= TOKENS_MAX)%nat ->
  tk sf sl s i cur prec n = tku sf sl s i cur prec.
Proof.
  induction s as [|c r IH]; intros i cur prec n H; [reflexivity|].
  cbn [tk tku] in *.
  destruct (Nat.leb TOKENS_MAX n) eqn:E.
  - apply Nat.leb_le in E.
    assert (length (if allowed c
       then match cur with
            | Some (st, t) => tku sf sl r (S i) (Some (st, c :: t)) prec
            | None => tku sf sl r (S i) (Some (i, [c])) prec
            end
       else match cur with
            | Some (st, t) =>
                if (negb (Nat.eqb st 0) || negb sf) && Nat.ltb 1 (length t) && negb (N.eqb c STAR) && negb (is_star_opt prec)
                then rev t :: tku sf sl r (S i) None (Some c)
                else tku sf sl r (S i) None (Some c)
            | None => tku sf sl r (S i) None (Some c)
            end) = 0%nat) as L by lia.
    apply length_zero_iff_nil in L. rewrite L. reflexivity.
  - destruct (allowed c).
    + destruct cur as [[st t]|]; apply IH; exact H.
    + destruct cur as [[st t]|].
      * destruct ((negb (Nat.eqb st 0) || negb sf) && Nat.ltb 1 (length t) && negb (N.eqb c STAR) && negb (is_star_opt prec)).
        -- f_equal. apply IH. cbn [length] in H. lia.
        -- apply IH. exact H.
      * apply IH. exact H.
Qed.

(* ---------------------------------------------------------------- what a token is *)
Definition delim (d : N) : Prop := allowed d = false /\ d <> STAR.
(* [x = u ++ t ++ v]: t is a maximal run of allowed bytes, longer than one byte, not next to '*' *)
Definition Good (sf sl : bool) (x t : str) : Prop :=
  exists u v, x = u ++ t ++ v /\
    (u = [] \/ exists u' d, u = u' ++ [d] /\ delim d) /\
    (v = [] \/ exists d v', v = d :: v' /\ delim d) /\
    (u = [] -> sf = false) /\ (v = [] -> sl = false) /\
    forallb allowed t = true /\ (1 < length t)%nat.

(* state invariant while [p] has been consumed *)
Definition prec_of (q : str) (prec : option N) : Prop :=
  (q = [] /\ prec = None) \/ (exists q' d, q = q' ++ [d] /\ prec = Some d).
Definition ends_open (q : str) : Prop := q = [] \/ exists q' d, q = q' ++ [d] /\ allowed d = false.
Definition Inv (p : str) (cur : option (nat * str)) (prec : option N) : Prop :=
  match cur with
  | None => prec_of p prec /\ ends_open p
  | Some (st, t) => exists p0, p = p0 ++ rev t /\ length p0 = st /\ t <> [] /\
                               forallb allowed t = true /\ ends_open p0 /\ prec_of p0 prec
  end.

Lemma star_opt_delim prec d : prec = Some d -> is_star_opt prec = false -> d <> STAR.
Proof. intros -> H. cbn in H. apply N.eqb_neq. exact H. Qed.

Lemma forallb_rev_allowed t : forallb allowed (rev t) = forallb allowed t.
Proof.
  induction t as [|c r IH]; [reflexivity|]. cbn [rev]. rewrite forallb_app, IH. cbn. rewrite andb_true_r. apply andb_comm.
Qed.

(* soundness: whatever the tokenizer emits is a Good token of the whole string *)
Lemma tku_sound sf sl r : forall p cur prec t,
  Inv p cur prec -> In t (tku sf sl r (length p) cur prec) -> Good sf sl (p ++ r) t.
Proof.
  induction r as [|c r IH]; intros p cur prec t HI Hin.
  - (* end of input *)
    cbn [tku] in Hin. destruct cur as [[st tk0]|]; [|destruct Hin].
    destruct (negb sl && (negb (Nat.eqb st 0) || negb sf) && Nat.ltb 1 (length tk0) && negb (is_star_opt prec)) eqn:E;
      [|destruct Hin].
    destruct Hin as [<-|[]].
    apply andb_true_iff in E as [E E4]. apply andb_true_iff in E as [E E3]. apply andb_true_iff in E as [E1 E2].
    destruct HI as (p0 & Hp & Hlen & Hne & Hall & Hopen & Hprec).
    exists p0, []. rewrite !app_nil_r. split; [exact Hp|]. repeat split.
    + destruct Hopen as [->|(q' & d & -> & Hd)]; [left; reflexivity|]. right. exists q', d. split; [reflexivity|].
      split; [exact Hd|]. destruct Hprec as [[Hq _]|(q'' & d' & Hq & Hpr)].
      * destruct q'; discriminate.
      * apply app_inj_tail in Hq as [_ ->]. apply (star_opt_delim prec d' Hpr). apply negb_true_iff. exact E4.
    + left. reflexivity.
    + intros ->. cbn in Hlen. subst st. cbn in E2. apply negb_true_iff in E2. exact E2.
    + intros _. apply negb_true_iff in E1. exact E1.
    + rewrite forallb_rev_allowed. exact Hall.
    + rewrite rev_length. apply Nat.ltb_lt. exact E3.
  - cbn [tku] in Hin.
    replace (p ++ c :: r) with ((p ++ [c]) ++ r) by (rewrite <- app_assoc; reflexivity).
    assert (Hlen1 : S (length p) = length (p ++ [c])) by (rewrite app_length; cbn; lia).
    destruct (allowed c) eqn:Ec.
    + destruct cur as [[st tk0]|].
      * rewrite Hlen1 in Hin. apply (IH (p ++ [c]) (Some (st, c :: tk0)) prec t); [|exact Hin].
        destruct HI as (p0 & Hp & Hl & Hne & Hall & Hopen & Hprec).
        exists p0. cbn [rev]. rewrite Hp, <- app_assoc. repeat split; auto; try discriminate.
        cbn. rewrite Ec, Hall. reflexivity.
      * rewrite Hlen1 in Hin. apply (IH (p ++ [c]) (Some (length p, [c])) prec t); [|exact Hin].
        destruct HI as [Hprec Hopen]. exists p. cbn. repeat split; auto; try discriminate. rewrite Ec. reflexivity.
    + assert (HI' : Inv (p ++ [c]) None (Some c)).
      { split; [right; exists p, c; auto|right; exists p, c; auto]. }
      destruct cur as [[st tk0]|].
      * destruct ((negb (Nat.eqb st 0) || negb sf) && Nat.ltb 1 (length tk0) && negb (N.eqb c STAR) && negb (is_star_opt prec)) eqn:E.
        -- destruct Hin as [<-|Hin]; [|rewrite Hlen1 in Hin; apply (IH _ _ _ t HI' Hin)].
           apply andb_true_iff in E as [E E4]. apply andb_true_iff in E as [E E3]. apply andb_true_iff in E as [E1 E2].
           destruct HI as (p0 & Hp & Hl & Hne & Hall & Hopen & Hprec).
           exists p0, (c :: r). split; [rewrite <- app_assoc; cbn; rewrite Hp, <- app_assoc; reflexivity|]. repeat split.
           ++ destruct Hopen as [->|(q' & d & -> & Hd)]; [left; reflexivity|]. right. exists q', d. split; [reflexivity|].
              split; [exact Hd|]. destruct Hprec as [[Hq _]|(q'' & d' & Hq & Hpr)].
              ** destruct q'; discriminate.
              ** apply app_inj_tail in Hq as [_ ->]. apply (star_opt_delim prec d' Hpr). apply negb_true_iff. exact E4.
           ++ right. exists c, r. split; [reflexivity|]. split; [exact Ec|]. apply N.eqb_neq. apply negb_true_iff. exact E3.
           ++ intros ->. cbn in Hl. subst st. cbn in E1. apply negb_true_iff in E1. exact E1.
           ++ discriminate.
           ++ rewrite forallb_rev_allowed. exact Hall.
           ++ rewrite rev_length. apply Nat.ltb_lt. exact E2.
        -- rewrite Hlen1 in Hin. apply (IH _ _ _ t HI' Hin).
      * rewrite Hlen1 in Hin. apply (IH _ _ _ t HI' Hin).
Qed.

Theorem tokenize_filter_sound sf sl s t : In t (tku sf sl s 0 None None) -> Good sf sl s t.
Proof.
  intros H. apply (tku_sound sf sl s [] None None t); [|exact H].
  split; [left; auto|left; auto].
Qed.

(* ---------------------------------------------------------------- completeness on the URL side *)
Lemma tku_run sf sl t : forall v i st acc prec, forallb allowed t = true ->
  tku sf sl (t ++ v) i (Some (st, acc)) prec = tku sf sl v (i + length t) (Some (st, rev t ++ acc)) prec.
Proof.
  induction t as [|c r IH]; intros v i st acc prec H.
  - cbn. rewrite Nat.add_0_r. reflexivity.
  - cbn [forallb] in H. apply andb_true_iff in H as [Hc Hr]. cbn [app tku]. rewrite Hc. cbv iota.
    rewrite IH by exact Hr. cbn [rev length]. rewrite <- app_assoc. cbn.
    replace (i + S (length r))%nat with (S (i + length r))%nat by lia. reflexivity.
Qed.

Lemma tku_start sf sl t v i prec : t <> [] -> forallb allowed t = true ->
  tku sf sl (t ++ v) i None prec = tku sf sl v (i + length t) (Some (i, rev t)) prec.
Proof.
  destruct t as [|c r]; [congruence|]. intros _ H. cbn [forallb] in H. apply andb_true_iff in H as [Hc Hr].
  cbn [app tku]. rewrite Hc. cbv iota. rewrite tku_run by exact Hr. cbn [rev length].
  cbn [Nat.add]. replace (i + S (length r))%nat with (S (i + length r))%nat by lia. reflexivity.
Qed.

(* after a non-allowed byte the state is (outside, prec = that byte), whatever came before *)
Lemma tku_after_delim sf sl u d w : allowed d = false -> forall i cur prec,
  exists E, tku sf sl (u ++ d :: w) i cur prec = E ++ tku sf sl w (i + length u + 1) None (Some d).
Proof.
  intros Hd. induction u as [|c r IH]; intros i cur prec.
  - cbn [app tku length]. rewrite Hd. replace (i + 0 + 1)%nat with (S i) by lia.
    destruct cur as [[st t]|]; [|exists []; reflexivity].
    destruct (_ && _); [exists [rev t]|exists []]; reflexivity.
  - cbn [app tku length]. replace (i + S (length r) + 1)%nat with (S i + length r + 1)%nat by lia.
    destruct (allowed c).
    + destruct cur as [[st t]|]; apply IH.
    + destruct cur as [[st t]|].
      * destruct (_ && _).
        -- destruct (IH (S i) None (Some c)) as [E HE]. exists (rev t :: E). rewrite HE. reflexivity.
        -- apply IH.
      * apply IH.
Qed.

Theorem tokenize_complete x t : Good false false x t -> In t (tku false false x 0 None None).
Proof.
  intros (u & v & -> & Hu & Hv & _ & _ & Hall & Hlen).
  assert (Hne : t <> []) by (destruct t; [cbn in Hlen; lia|discriminate]).
  assert (Tail : forall i prec, (i = 0%nat \/ True) -> is_star_opt prec = false ->
            In t (tku false false (t ++ v) i None prec)).
  { intros i prec _ Hprec. rewrite (tku_start false false t v i prec Hne Hall).
    destruct Hv as [->|(d & v' & -> & Hd & Hstar)].
    - cbn [tku]. rewrite rev_length, rev_involutive. cbn [negb andb orb].
      rewrite orb_true_r. cbn [andb].
      destruct (Nat.ltb_spec 1 (length t)); [|lia]. rewrite Hprec. cbn. left. reflexivity.
    - cbn [tku]. rewrite Hd. rewrite rev_length, rev_involutive. cbn [negb]. rewrite orb_true_r. cbn [andb].
      destruct (Nat.ltb_spec 1 (length t)); [|lia]. cbn [andb].
      apply N.eqb_neq in Hstar. rewrite Hstar, Hprec. cbn. left. reflexivity. }
  destruct Hu as [->|(u' & d & -> & Hd & Hstar)].
  - cbn [app]. apply Tail; auto.
  - rewrite <- app_assoc. cbn [app].
    destruct (tku_after_delim false false u' d (t ++ v) Hd 0 None None) as [E HE]. rewrite HE.
    apply in_or_app. right. apply Tail; auto. cbn. apply N.eqb_neq. exact Hstar.
Qed.

(* ---------------------------------------------------------------- embedding an occurrence *)
Theorem occurrence_tokens_covered sf sl s pre post t :
  (sf = false -> pre = []) -> (sl = false -> post = []) ->
  In t (tku sf sl s 0 None None) -> In t (tku false false (pre ++ s ++ post) 0 None None).
Proof.
  intros Hpre Hpost Hin. apply tokenize_complete.
  destruct (tokenize_filter_sound sf sl s t Hin) as (u & v & -> & Hu & Hv & Hsf & Hsl & Hall & Hlen).
  exists (pre ++ u), (v ++ post). split; [rewrite <- !app_assoc; reflexivity|]. repeat split; auto.
  - destruct Hu as [->|(u' & d & -> & Hd)].
    + rewrite app_nil_r. left. apply Hpre. apply Hsf. reflexivity.
    + right. exists (pre ++ u'), d. rewrite <- app_assoc. auto.
  - destruct Hv as [->|(d & v' & -> & Hd)].
    + cbn [app]. left. apply Hpost. apply Hsl. reflexivity.
    + right. exists d, (v' ++ post). auto.
Qed.

(* ---------------------------------------------------------------- plain rules *)
(* the plain paths of check_pattern (no hostname anchor, no regex): substring / prefix / suffix /
   equality on the lower-cased URL *)
Definition plain_match (left right : bool) (s url : str) : bool :=
  if left && right then str_eqb url s
  else if left then prefixb s url
  else if right then suffixb s url
  else containsb s url.

Lemma prefixb_split p s : prefixb p s = true -> s = p ++ drop (length p) s.
Proof.
  revert s; induction p as [|x p IH]; intros s H; [reflexivity|].
  destruct s as [|y s]; [discriminate|]. cbn in H. apply andb_true_iff in H as [E H]. apply N.eqb_eq in E. subst y.
  cbn. f_equal. apply IH. exact H.
Qed.
Lemma find_sub_split p s i : find_sub p s = Some i -> exists pre post, s = pre ++ p ++ post.
Proof.
  revert i; induction s as [|y s IH]; intros i H.
  - cbn in H. destruct (prefixb p []) eqn:E; [|discriminate]. exists [], []. destruct p; [reflexivity|discriminate].
  - cbn [find_sub] in H. destruct (prefixb p (y :: s)) eqn:E.
    + exists [], (drop (length p) (y :: s)). apply prefixb_split. exact E.
    + destruct (find_sub p s) as [j|] eqn:F; [|discriminate].
      destruct (IH j eq_refl) as (pre & post & ->). exists (y :: pre), post. reflexivity.
Qed.

Theorem plain_match_occurrence left right s url : plain_match left right s url = true ->
  exists pre post, url = pre ++ s ++ post /\ (left = true -> pre = []) /\ (right = true -> post = []).
Proof.
  unfold plain_match. destruct left, right; cbn [andb]; intros H.
  - apply str_eqb_eq in H. subst. exists [], []. rewrite app_nil_r. auto.
  - exists [], (drop (length s) url). split; [apply prefixb_split; exact H|]. split; auto. discriminate.
  - unfold suffixb in H. apply andb_true_iff in H as [_ H]. apply str_eqb_eq in H.
    exists (take (length url - length s) url), []. rewrite app_nil_r. split; [|split; auto; discriminate].
    rewrite H at 2. symmetry. apply take_drop.
  - unfold containsb in H. destruct (find_sub s url) as [i|] eqn:F; [|discriminate].
    destruct (find_sub_split s url i F) as (pre & post & E). exists pre, post. split; [exact E|]. split; discriminate.
Qed.

(* a rule whose only tokens are those of its plain pattern *)
Definition plain_rule (f : rule) (s : str) : Prop :=
  rfilter f = FSimple s /\ rhost f = None /\ rdomains f = None /\ rnotdomains f = None /\
  is_complete_regex f = false /\ flag f M_FROM_HTTP = true /\ flag f M_FROM_HTTPS = true /\
  tokenize_filter s (negb (is_left_anchor f)) (negb (is_right_anchor f)) <> [].

Theorem token_guarantee_plain h f s src url :
  plain_rule f s ->
  plain_match (is_left_anchor f) (is_right_anchor f) s url = true ->
  (length (tku false false url 0 None None) <= TOKENS_MAX)%nat ->
  (length (tku (negb (is_left_anchor f)) (negb (is_right_anchor f)) s 0 None None) <= TOKENS_MAX)%nat ->
  covered h (probes h src url) f.
Proof.
  intros (Hf & Hh & Hd & Hnd & Hcr & Hhttp & Hhttps & Hne) Hm Hu Hs.
  destruct (plain_match_occurrence _ _ s url Hm) as (pre & post & Hurl & Hpre & Hpost).
  unfold covered.
  exists (map h (tokenize_filter s (negb (is_left_anchor f)) (negb (is_right_anchor f)))). split.
  - unfold get_tokens. rewrite Hf, Hh, Hd, Hcr.
    assert (Hs2 : (if flag f M_IS_HOSTNAME_REGEX then [] else []) = @nil N)
      by (destruct (flag f M_IS_HOSTNAME_REGEX); reflexivity).
    rewrite Hs2. cbn [app]. rewrite !app_nil_r.
    set (T := map h (tokenize_filter s (negb (is_left_anchor f)) (negb (is_right_anchor f)))).
    assert (HT : nullb T = false).
    { destruct T eqn:E; [|reflexivity]. apply map_eq_nil in E. contradiction. }
    rewrite HT. cbn [andb]. rewrite Hhttp, Hhttps. cbn [andb negb]. rewrite app_nil_r.
    rewrite HT. left. reflexivity.
  - intros k Hk. apply in_map_iff in Hk as (t & <- & Ht).
    unfold probes. apply in_or_app. right. unfold request_tokens. apply in_or_app. left. apply in_map.
    unfold tokenize, tokenize_filter in *.
    rewrite (tk_eq_tku false false url 0 None None 0) by (cbn; exact Hu).
    rewrite (tk_eq_tku _ _ s 0 None None 0) in Ht by (cbn; exact Hs).
    rewrite Hurl. apply (occurrence_tokens_covered (negb (is_left_anchor f)) (negb (is_right_anchor f)) s pre post t); auto.
    + intros E. apply Hpre. destruct (is_left_anchor f); [reflexivity|discriminate].
    + intros E. apply Hpost. destruct (is_right_anchor f); [reflexivity|discriminate].
Qed.

(* non-vacuity *)
Example plain_tg_example :
  let f := mkr 11 M_DEFAULT_OPTIONS (FSimple (bs "/ads/banner.")) None None None None None in
  plain_rule f (bs "/ads/banner.") /\
  plain_match (is_left_anchor f) (is_right_anchor f) (bs "/ads/banner.") (bs "https://x.com/ads/banner.js") = true /\
  tokenize_filter (bs "/ads/banner.") true true = [bs "ads"; bs "banner"].
Proof.
  cbn zeta. split; [|split]; [|vm_compute; reflexivity|vm_compute; reflexivity].
  repeat split; try (vm_compute; reflexivity). vm_compute. discriminate.
Qed.

(* ---------------------------------------------------------------- TG discharged for plain lists *)
Definition within_cutoff (sf sl : bool) (s : str) : Prop :=
  (length (tku sf sl s 0 None None) <= TOKENS_MAX)%nat.

(* every rule that matches is a plain rule matched by the plain matcher *)
Definition plain_hits (matches : rule -> bool) (url : str) (L : list rule) : Prop :=
  forall f, In f L -> matches f = true ->
    exists s, plain_rule f s /\ plain_match (is_left_anchor f) (is_right_anchor f) s url = true /\
              within_cutoff (negb (is_left_anchor f)) (negb (is_right_anchor f)) s.

Theorem TG_plain_list h matches src url L :
  within_cutoff false false url -> plain_hits matches url L -> TG h matches (probes h src url) L.
Proof.
  intros Hu Hp f Hf Hm. destruct (Hp f Hf Hm) as (s & Hpr & Hpm & Hs).
  apply (token_guarantee_plain h f s src url Hpr Hpm Hu Hs).
Qed.

(* the engine theorem with the token guarantee proved instead of assumed *)
Theorem engine_eq_spec_plain h matches src url L T :
  id_inj L -> within_cutoff false false url -> plain_hits matches url L ->
  blocker_check matches (probes h src url) (tags_with_set h (blocker_new h L) T) = spec_verdict matches L T.
Proof.
  intros Hi Hu Hp. apply engine_eq_spec; auto.
  - unfold probes, request_tokens. apply in_or_app. right. apply in_or_app. right. left. reflexivity.
  - apply TG_plain_list; auto.
Qed.
