(* Base.v — shared model vocabulary: byte strings as [list N], slicing, searching,
   ASCII classes, hex decoding of harness literals.  Definitions only (proofs: BaseProofs.v). *)
From Coq Require Export List NArith Bool Arith Lia String Ascii.
Export ListNotations.
(* String exports its own [length]; the model always means the list one *)
Notation length := List.length.
Open Scope N_scope.
Arguments N.add : simpl never.
Arguments N.sub : simpl never.
Arguments N.mul : simpl never.
Arguments N.eqb : simpl never.
Arguments N.ltb : simpl never.
Arguments N.leb : simpl never.

Definition str := list N.            (* bytes; every model function is total on all lists *)

(* Outcome of a modelled Rust function that may panic. *)
Inductive res (A : Type) : Type := Ok (a : A) | Panic (why : string).
Arguments Ok {A} a.
Arguments Panic {A} why.
Definition rbind {A B} (x : res A) (f : A -> res B) : res B :=
  match x with Ok a => f a | Panic w => Panic w end.
Definition is_ok {A} (x : res A) : bool := match x with Ok _ => true | Panic _ => false end.

Fixpoint str_eqb (a b : str) : bool :=
  match a, b with
  | [], [] => true
  | x :: a', y :: b' => N.eqb x y && str_eqb a' b'
  | _, _ => false
  end.

Fixpoint list_eqb {A} (eq : A -> A -> bool) (a b : list A) : bool :=
  match a, b with
  | [], [] => true
  | x :: a', y :: b' => eq x y && list_eqb eq a' b'
  | _, _ => false
  end.

Definition opt_eqb {A} (eq : A -> A -> bool) (a b : option A) : bool :=
  match a, b with
  | None, None => true
  | Some x, Some y => eq x y
  | _, _ => false
  end.

Definition pair_eqb {A B} (ea : A -> A -> bool) (eb : B -> B -> bool) (a b : A * B) : bool :=
  ea (fst a) (fst b) && eb (snd a) (snd b).

Definition res_eqb {A} (eq : A -> A -> bool) (a b : res A) : bool :=
  match a, b with
  | Ok x, Ok y => eq x y
  | Panic _, Panic _ => true
  | _, _ => false
  end.

Fixpoint mem_str (x : str) (l : list str) : bool :=
  match l with [] => false | y :: r => str_eqb x y || mem_str x r end.

Fixpoint memN (x : N) (l : list N) : bool :=
  match l with [] => false | y :: r => N.eqb x y || memN x r end.

(* take / drop on nat offsets (Coq's firstn / skipn) *)
Definition take {A} (n : nat) (l : list A) := firstn n l.
Definition drop {A} (n : nat) (l : list A) := skipn n l.

Fixpoint prefixb (p s : str) : bool :=
  match p, s with
  | [], _ => true
  | x :: p', y :: s' => N.eqb x y && prefixb p' s'
  | _ :: _, [] => false
  end.

Definition suffixb (p s : str) : bool :=
  Nat.leb (length p) (length s) && str_eqb p (drop (length s - length p) s).

(* first offset at which [p] occurs in [s] (memmem::find); [find_from] is relative to [s] *)
Fixpoint find_sub (p s : str) : option nat :=
  if prefixb p s then Some O else
  match s with
  | [] => None
  | _ :: s' => match find_sub p s' with Some i => Some (S i) | None => None end
  end.

Definition containsb (p s : str) : bool :=
  match find_sub p s with Some _ => true | None => false end.

(* memchr *)
Fixpoint find_byte (c : N) (s : str) : option nat :=
  match s with
  | [] => None
  | x :: s' => if N.eqb x c then Some O else
               match find_byte c s' with Some i => Some (S i) | None => None end
  end.

(* memrchr *)
Fixpoint rfind_byte (c : N) (s : str) : option nat :=
  match s with
  | [] => None
  | x :: s' => match rfind_byte c s' with
               | Some i => Some (S i)
               | None => if N.eqb x c then Some O else None
               end
  end.

(* split on a byte, Rust [str::split]: always at least one piece *)
Fixpoint split_on (c : N) (s : str) : list str :=
  match s with
  | [] => [[]]
  | x :: s' =>
      if N.eqb x c then [] :: split_on c s'
      else match split_on c s' with
           | [] => [[x]]          (* unreachable *)
           | p :: ps => (x :: p) :: ps
           end
  end.

Fixpoint join_with (sep : str) (l : list str) : str :=
  match l with
  | [] => []
  | [x] => x
  | x :: r => x ++ sep ++ join_with sep r
  end.

(* ASCII classes (bytes < 128 only; non-ASCII goes through oracles where it matters) *)
Definition is_digit (c : N) : bool := N.leb 48 c && N.leb c 57.
Definition is_upper (c : N) : bool := N.leb 65 c && N.leb c 90.
Definition is_lower (c : N) : bool := N.leb 97 c && N.leb c 122.
Definition is_alpha (c : N) : bool := is_upper c || is_lower c.
Definition is_alnum (c : N) : bool := is_digit c || is_alpha c.
Definition is_ascii (c : N) : bool := N.ltb c 128.
Definition to_lower (c : N) : N := if is_upper c then c + 32 else c.
Definition lower_str (s : str) : str := map to_lower s.
Definition all_ascii (s : str) : bool := forallb is_ascii s.
Definition is_byte (c : N) : bool := N.ltb c 256.
Definition all_bytes (s : str) : bool := forallb is_byte s.

(* --- literals written by the harness: hex strings --- *)
Definition hexval (a : ascii) : N :=
  let n := N_of_ascii a in
  if N.leb 48 n && N.leb n 57 then n - 48
  else if N.leb 97 n && N.leb n 102 then n - 87
  else 0.
Fixpoint hx (s : string) : str :=
  match s with
  | String a (String b r) => (16 * hexval a + hexval b) :: hx r
  | _ => []
  end.
(* ASCII text literal -> bytes, for readable examples *)
Fixpoint bs (s : string) : str :=
  match s with
  | EmptyString => []
  | String a r => N_of_ascii a :: bs r
  end.

(* indices (as N) of the [false] entries of a case list *)
Fixpoint failing_from (i : N) (l : list bool) : list N :=
  match l with
  | [] => []
  | b :: r => if b then failing_from (i + 1) r else i :: failing_from (i + 1) r
  end.
Definition failing (l : list bool) : list N := failing_from 0 l.
