(* Struct_Tokenizer_Proofs.v — tie between the tokenizer as the translator extracts it on every run
   (Generated.TokzGen: the two push conditions of fast_tokenizer_no_regex as formulas, the flags
   and the character predicate each wrapper passes, calculate_tokens and get_tokens_for_match) and
   the hand-written Net_Model (tk / tokenize_filter / tokenize / request_tokens / probes).
   [tk_gen] is Net_Model.tk with the EXTRACTED conditions in place of the hand-written ones;
   [tk_gen_is_tk] proves the two equal for every input, position and state.  A condition that
   loses a conjunct, `>` turned into `>=` (the atom is no longer recognised), a wrapper that
   passes another predicate or swaps its flags, a request tokenised from another string or
   without the fallback 0, or probes in another order change the generated data and break a
   proof. *)
From Coq Require Import String.
From Adb Require Import Base Generated Hashing Net_Model.
Import TokzGen.
Local Open Scope string_scope.
Local Open Scope list_scope.

Record tenv := { e_start_nonzero : bool; e_skip_first : bool; e_skip_last : bool; e_len_gt1 : bool;
                 e_c_not_star : bool; e_prec_not_star : bool; e_inside : bool }.
Definition tatom_val (v : tenv) (a : tatom) : bool :=
  match a with
  | T_start_nonzero => e_start_nonzero v | T_skip_first => e_skip_first v | T_skip_last => e_skip_last v
  | T_len_gt1 => e_len_gt1 v | T_c_not_star => e_c_not_star v | T_prec_not_star => e_prec_not_star v
  | T_inside => e_inside v
  end.
Fixpoint teval (v : tenv) (c : tcond) : bool :=
  match c with
  | TAtom a => tatom_val v a
  | TNot c => negb (teval v c)
  | TAnd a b => teval v a && teval v b
  | TOr a b => teval v a || teval v b
  end.

(* the state of the Rust loop as the conditions see it *)
Definition env_of (skip_first skip_last : bool) (cur : option (nat * str)) (c : option N) (prec : option N) : tenv :=
  {| e_start_nonzero := match cur with Some (st, _) => negb (Nat.eqb st 0) | None => false end;
     e_skip_first := skip_first; e_skip_last := skip_last;
     e_len_gt1 := match cur with Some (_, t) => Nat.ltb 1 (length t) | None => false end;
     e_c_not_star := match c with Some c => negb (N.eqb c STAR) | None => true end;
     e_prec_not_star := negb (is_star_opt prec);
     e_inside := match cur with Some _ => true | None => false end |}.

(* Net_Model.tk with the extracted push conditions *)
Fixpoint tk_gen (skip_first skip_last : bool) (s : str) (i : nat) (cur : option (nat * str))
         (prec : option N) (n : nat) : list str :=
  match s with
  | [] =>
      if teval (env_of skip_first skip_last cur None prec) end_push_cond
      then match cur with Some (_, t) => [rev t] | None => [] end else []
  | c :: r =>
      if Nat.leb TOKENS_MAX n then []
      else if allowed c then
        match cur with
        | None => tk_gen skip_first skip_last r (S i) (Some (i, [c])) prec n
        | Some (st, t) => tk_gen skip_first skip_last r (S i) (Some (st, c :: t)) prec n
        end
      else
        match cur with
        | Some (st, t) =>
            if teval (env_of skip_first skip_last cur (Some c) prec) mid_push_cond
            then rev t :: tk_gen skip_first skip_last r (S i) None (Some c) (S n)
            else tk_gen skip_first skip_last r (S i) None (Some c) n
        | None => tk_gen skip_first skip_last r (S i) None (Some c) n
        end
  end.

Theorem tk_gen_is_tk sf sl s : forall i cur prec n, tk_gen sf sl s i cur prec n = tk sf sl s i cur prec n.
Proof.
  induction s as [|c r IH]; intros i cur prec n.
  - cbn [tk_gen tk]. unfold end_push_cond, env_of.
    destruct cur as [[st t]|];
      cbn [teval tatom_val e_start_nonzero e_skip_first e_skip_last e_len_gt1 e_prec_not_star e_inside].
    + (* by cases on every atom: a reordering of the conjuncts in the source is harmless *)
      destruct sl, sf, (Nat.eqb st 0), (Nat.ltb 1 (length t)), (is_star_opt prec); reflexivity.
    + destruct sl; reflexivity.
  - cbn [tk_gen tk]. destruct (Nat.leb TOKENS_MAX n); [reflexivity|].
    destruct (allowed c).
    + destruct cur as [[st t]|]; apply IH.
    + destruct cur as [[st t]|]; [|apply IH].
      unfold mid_push_cond, env_of.
      cbn [teval tatom_val e_start_nonzero e_skip_first e_len_gt1 e_c_not_star e_prec_not_star].
      rewrite !IH.
      destruct sf, (Nat.eqb st 0), (Nat.ltb 1 (length t)), (N.eqb c STAR), (is_star_opt prec); reflexivity.
Qed.

(* ---- the wrappers ---- *)
Definition flag_arg (a : string) (skip_first skip_last : bool) : option bool :=
  if String.eqb a "false" then Some false
  else if String.eqb a "true" then Some true
  else if String.eqb a "skip_first_token" then Some skip_first
  else if String.eqb a "skip_last_token" then Some skip_last
  else None.
Definition wrapper_named (n : string) : option (string * string * string) :=
  match find (fun w => String.eqb (fst (fst (fst w))) n) wrappers with
  | Some (_, p, a, b) => Some (p, a, b) | None => None end.
(* what a wrapper computes: the generated loop with the flags it passes, provided it passes the
   crate's one character predicate *)
Definition interp_wrapper (n : string) (s : str) (skip_first skip_last : bool) : option (list str) :=
  match wrapper_named n with
  | Some (p, a, b) =>
      if String.eqb p "is_allowed_filter" then
        match flag_arg a skip_first skip_last, flag_arg b skip_first skip_last with
        | Some x, Some y => Some (tk_gen x y s O None None O)
        | _, _ => None
        end
      else None
  | None => None
  end.

Theorem wrappers_are_model s sf sl :
  interp_wrapper "tokenize_filter" s sf sl = Some (tokenize_filter s sf sl)
  /\ interp_wrapper "tokenize" s sf sl = Some (tokenize s)
  /\ interp_wrapper "tokenize_pooled" s sf sl = Some (tokenize s).
Proof.
  unfold interp_wrapper, wrapper_named, wrappers.
  cbn [find fst snd String.eqb Ascii.eqb Bool.eqb flag_arg].
  rewrite !tk_gen_is_tk. repeat split; reflexivity.
Qed.

(* ---- the request side ---- *)
Section WithHash.
Variable h : str -> N.
Definition interp_request_tokens (url_lower original : str) : option (list N) :=
  let arg := if String.eqb request_tokens_of "url_lower_cased" then Some url_lower
             else if String.eqb request_tokens_of "url" then Some original else None in
  match arg, interp_wrapper calculate_tokens_calls (match arg with Some a => a | None => [] end) false false with
  | Some _, Some toks => Some (map h toks ++ [calculate_tokens_pushes_last])
  | _, _ => None
  end.
Definition part_named (n : string) (source_hashes : option (list N)) (rt : list N) : option (list N) :=
  if String.eqb n "source_hostname_hashes" then Some (match source_hashes with Some l => l | None => [] end)
  else if String.eqb n "request_tokens" then Some rt
  else None.
Fixpoint concat_parts (ns : list string) (source_hashes : option (list N)) (rt : list N) : option (list N) :=
  match ns with
  | [] => Some []
  | n :: r => match part_named n source_hashes rt, concat_parts r source_hashes rt with
              | Some a, Some b => Some (a ++ b)
              | _, _ => None
              end
  end.

Theorem request_side_is_model url_lower original source_hashes :
  interp_request_tokens url_lower original = Some (request_tokens h url_lower)
  /\ concat_parts probes_order source_hashes (request_tokens h url_lower) = Some (probes h source_hashes url_lower).
Proof.
  split.
  - unfold interp_request_tokens, request_tokens_of, calculate_tokens_calls, calculate_tokens_pushes_last.
    cbn [String.eqb Ascii.eqb Bool.eqb].
    destruct (wrappers_are_model url_lower false false) as [_ [_ ->]]. reflexivity.
  - unfold probes_order, probes. cbn [concat_parts part_named String.eqb Ascii.eqb Bool.eqb].
    rewrite app_nil_r. reflexivity.
Qed.
End WithHash.
