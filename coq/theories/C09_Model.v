(* C09_Model.v — serialization is deterministic and a fixpoint under reload.
   Vocabulary on top of Wire_Model.v: "the same containers in any iteration order", bucket
   insertion (src/network_filter_list.rs insert_dup), the order-sensitive part of the optimizer
   (src/optimizer.rs apply_optimisation / optimize, src/network_filter_list.rs optimize), and the
   well-formedness of wire values under which re-serialization is the identity.
   Definitions only. *)
From Adb Require Import Base Generated Wire_Model Wire_Proofs.
From Coq Require Import Permutation Sorted.

(* ------------------------------------------------------------------ same state, any hash order *)
Record blocker_perm (a b : blocker) : Prop := {
  bp_csp : Permutation (b_csp a) (b_csp b);
  bp_exceptions : Permutation (b_exceptions a) (b_exceptions b);
  bp_importants : Permutation (b_importants a) (b_importants b);
  bp_redirects : Permutation (b_redirects a) (b_redirects b);
  bp_filters_tagged : Permutation (b_filters_tagged a) (b_filters_tagged b);
  bp_filters : Permutation (b_filters a) (b_filters b);
  bp_generic_hide : Permutation (b_generic_hide a) (b_generic_hide b);
  bp_tagged_all : b_tagged_all a = b_tagged_all b;      (* a Vec: same order *)
  bp_opt : b_opt a = b_opt b }.
  (* b_removeparam and b_tags_enabled are not constrained: serialization does not read them *)

Record hostdb_perm (a b : hostdb) : Prop := {
  hp_hide : Permutation (h_hide a) (h_hide b); hp_unhide : Permutation (h_unhide a) (h_unhide b);
  hp_inject : Permutation (h_inject a) (h_inject b);
  hp_uninject : Permutation (h_uninject a) (h_uninject b);
  hp_proc : Permutation (h_proc a) (h_proc b); hp_proc_exc : Permutation (h_proc_exc a) (h_proc_exc b) }.

Record cosmetic_perm (a b : cosmetic) : Prop := {
  cp_simple_class : Permutation (c_simple_class a) (c_simple_class b);
  cp_simple_id : Permutation (c_simple_id a) (c_simple_id b);
  cp_complex_class : Permutation (c_complex_class a) (c_complex_class b);
  cp_complex_id : Permutation (c_complex_id a) (c_complex_id b);
  cp_specific : hostdb_perm (c_specific a) (c_specific b);
  cp_misc : Permutation (c_misc a) (c_misc b) }.

(* map keys / set elements are distinct (what a HashMap / HashSet guarantees) *)
Record blocker_wf (b : blocker) : Prop := {
  bw_csp : NoDup (map fst (b_csp b)); bw_exceptions : NoDup (map fst (b_exceptions b));
  bw_importants : NoDup (map fst (b_importants b)); bw_redirects : NoDup (map fst (b_redirects b));
  bw_filters_tagged : NoDup (map fst (b_filters_tagged b));
  bw_filters : NoDup (map fst (b_filters b)); bw_generic_hide : NoDup (map fst (b_generic_hide b)) }.

Record cosmetic_wf (c : cosmetic) : Prop := {
  cw_simple_class : NoDup (c_simple_class c); cw_simple_id : NoDup (c_simple_id c);
  cw_complex_class : NoDup (map fst (c_complex_class c));
  cw_complex_id : NoDup (map fst (c_complex_id c));
  cw_specific : hostdb_wf (c_specific c); cw_misc : NoDup (c_misc c) }.

(* ------------------------------------------------------------------ insert_dup *)
Definition id_lt (x y : rule) : Prop := N.ltb (r_id x) (r_id y) = true.
Definition id_le (x y : rule) : Prop := N.leb (r_id x) (r_id y) = true.

(* entry.binary_search_by(|f| f.id.partial_cmp(&v.id)): Ok(_) => (), Err(slot) => insert(slot, v).
   On a bucket that is strictly sorted by id (the invariant proved in C09_Proofs) the binary
   search answers Ok iff the id is present and otherwise Err(number of smaller ids); this is that
   answer computed linearly. *)
Fixpoint bucket_insert (v : rule) (b : list rule) : list rule :=
  match b with
  | [] => [v]
  | f :: r => if N.eqb (r_id f) (r_id v) then b
              else if N.ltb (r_id v) (r_id f) then v :: b
              else f :: bucket_insert v r
  end.

(* insert_dup(map, k, v): map.entry(k).or_insert_with(Vec::new), then the sorted insert *)
Fixpoint insert_dup (k : N) (v : rule) (m : bucket_map) : bucket_map :=
  match m with
  | [] => [(k, [v])]
  | (k', b) :: r => if N.eqb k k' then (k', bucket_insert v b) :: r else (k', b) :: insert_dup k v r
  end.

(* NetworkFilterList::new before `optimize`: the (best_token, filter) placements in list order;
   which token is best is C01's subject and irrelevant here *)
Definition fl_insert_all (placements : list (N * rule)) : bucket_map :=
  fold_left (fun m kv => insert_dup (fst kv) (snd kv) m) placements [].

Definition buckets_sorted (m : bucket_map) : Prop := Forall (fun kb => Sorted id_lt (snd kb)) m.

(* ------------------------------------------------------------------ optimizer *)
Definition by_id (l : list rule) : list rule := isort r_id N.leb l.     (* sort_by_key(|f| f.id), stable *)

Section Optimize.
  Variable fuse : list rule -> rule.           (* SimplePatternGroup::fusion: C05's subject *)

  (* `for (_, group) in to_fuse { if group.len() > 1 { fused.push(fusion(group)) } else
     { negative.extend(group) } }` where `groups` are the values of the `to_fuse` hash map in
     its iteration order *)
  Definition big (g : list rule) : bool := Nat.ltb 1 (length g).
  Definition fused_of (groups : list (list rule)) : list rule := map fuse (filter big groups).
  Definition singles_of (groups : list (list rule)) : list rule :=
    List.concat (filter (fun g => negb (big g)) groups).

  (* optimizer::optimize: optimized = fused ++ (negative ++ singles); sort_by_key(id) *)
  Definition optimize_from (negative : list rule) (groups : list (list rule)) : list rule :=
    by_id (fused_of groups ++ negative ++ singles_of groups).

  (* NetworkFilterList::optimize on one bucket: rules held by this bucket alone
     (Arc::try_unwrap succeeds) are optimized when there are at least two of them; rules shared
     with another bucket are appended in bucket order.  `split` = partition by `select` +
     grouping by `group_by_criteria`; `hash_order` = the iteration order of `to_fuse`. *)
  Variable shared : rule -> bool.
  Variable split : list rule -> list rule * list (list rule).
  Definition optimize_bucket (hash_order : list (list rule) -> list (list rule)) (b : list rule) : list rule :=
    let own := filter (fun r => negb (shared r)) b in
    by_id ((if Nat.ltb 1 (length own)
            then optimize_from (fst (split own)) (hash_order (snd (split own)))
            else own) ++ filter shared b).      (* sorted by id again since /repo e89168f *)

  (* the whole map: `for (key, filters) in self.filter_map.drain()` *)
  Definition fl_optimize (hash_order : list (list rule) -> list (list rule)) (m : bucket_map) : bucket_map :=
    map (fun kb => (fst kb, optimize_bucket hash_order (snd kb))) m.
End Optimize.

(* ------------------------------------------------------------------ well-formed wire values *)
Record wlist_wf (l : wlist) : Prop := {
  wl_sorted : Sorted nle l;
  wl_rules : Forall (fun kv => Forall wrule_wf (snd kv)) l }.

Section WireWf.
  Variable as_css : str -> option (str * str).

  (* what to_wire rebuilds for the bin of k from what from_wire keeps of it *)
  Definition recon (w : wire) (k : N) (v : list legacy) : list legacy :=
    map LHide (fmap sel_hide v) ++ map LUnhide (fmap sel_unhide v) ++
    map (fun sm => LInject (fst sm)) (fmap sel_inject v) ++ map LUninject (fmap sel_uninject v) ++
    fmap (sel_style as_css) (getn k (wi_proc w)) ++ fmap (sel_unstyle as_css) (getn k (wi_proc_exc w)).

  Record wire_wf (w : wire) : Prop := {
    ww_csp : wlist_wf (wi_csp w); ww_exceptions : wlist_wf (wi_exceptions w);
    ww_importants : wlist_wf (wi_importants w); ww_redirects : wlist_wf (wi_redirects w);
    ww_filters : wlist_wf (wi_filters w); ww_generic_hide : wlist_wf (wi_generic_hide w);
    ww_tagged_all : Forall wrule_wf (wi_tagged_all w);
    ww_resources : wi_resources w = []; ww_scriptlets : wi_scriptlets w = [];
    ww_simple_class : Sorted setle (wi_simple_class w); ww_simple_id : Sorted setle (wi_simple_id w);
    ww_misc : Sorted setle (wi_misc w);
    ww_complex_class : Sorted sle (wi_complex_class w); ww_complex_id : Sorted sle (wi_complex_id w);
    ww_proc : Sorted nle (wi_proc w); ww_proc_nd : NoDup (map fst (wi_proc w));
    ww_proc_exc : Sorted nle (wi_proc_exc w); ww_proc_exc_nd : NoDup (map fst (wi_proc_exc w));
    ww_spec_sorted : Sorted nle (wi_specific w); ww_spec_nd : NoDup (map fst (wi_specific w));
    ww_spec_ne : nonempty_vals (wi_specific w);
    (* every bin of the legacy db is grouped by category in the order Hide, Unhide, ScriptInject,
       UnhideScriptInject, Style, UnhideStyle, and its Style / UnhideStyle entries are exactly
       the CSS-expressible entries of the two procedural maps under the same key *)
    ww_spec_bins : forall k, getn k (wi_specific w) = recon w k (getn k (wi_specific w)) }.
End WireWf.

(* the loader's enabled tags reproduce the serialized filters_tagged *)
Definition tagged_consistent (build_list : list rule -> bool -> bucket_map) (tags : list str) (w : wire) : Prop :=
  wi_filters_tagged w =
  to_wlist (build_list (filter (tag_enabled tags) (map from_wrule (wi_tagged_all w))) (wi_opt w)).

(* ------------------------------------------------------------------ harness helpers *)
Fixpoint sorted_by_id_b (l : list rule) : bool :=
  match l with
  | [] => true
  | x :: r => match r with [] => true | y :: _ => N.ltb (r_id x) (r_id y) && sorted_by_id_b r end
  end.
Definition buckets_sorted_b (m : bucket_map) : bool := forallb (fun kb => sorted_by_id_b (snd kb)) m.
Definition rule_eqb_id (a b : rule) : bool := N.eqb (r_id a) (r_id b).
