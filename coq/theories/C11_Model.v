(* C11_Model.v — L1 model of the list/rule parsers of brave/adblock-rust (src/lists.rs,
   src/filters/abstract_network.rs, src/filters/network.rs, src/filters/cosmetic.rs,
   src/resources/resource_storage.rs) with Rust's string slicing made explicit:
   [slice s a b] is [&s[a..b]] and panics unless a <= b <= len and both offsets are UTF-8
   char boundaries.  Definitions only (proofs: C11_Proofs.v).

   Third-party / Unicode-table behaviour is a Section variable:
     lower : str -> str          str::to_lowercase on a string that is not pure ASCII
     idna  : str -> option str   idna::domain_to_ascii(..).ok()
   ASCII behaviour is never an oracle. *)
From Adb Require Import Base Generated.

Definition null {A} (l : list A) : bool := match l with [] => true | _ => false end.

(* ------------------------------------------------------------------ outcomes *)
(* pr A: a Rust  Result<A, E>  computed by code that may also panic; E is the variant name *)
Definition pr (A : Type) := res (A + string).
Definition ret {A} (a : A) : pr A := Ok (inl a).
Definition fail {A} (e : string) : pr A := Ok (inr e).
Definition pbind {A B} (x : pr A) (f : A -> pr B) : pr B :=
  match x with Ok (inl a) => f a | Ok (inr e) => Ok (inr e) | Panic w => Panic w end.
Notation "x <- e ;; k" := (rbind e (fun x => k)) (at level 61, e at next level, right associativity).
Notation "x <-? e ;; k" := (pbind e (fun x => k)) (at level 61, e at next level, right associativity).
Definition safe {A} (x : res A) : Prop := match x with Ok _ => True | Panic _ => False end.

(* ------------------------------------------------------------------ UTF-8 *)
(* Validity as the usual 9-state automaton (Unicode 15 table 3-7: no overlongs, no surrogates,
   nothing above U+10FFFF).  UA = between characters. *)
Inductive ust := UA | UR | U1 | U2 | U3 | UE0 | UED | UF0 | UF4.
Definition rng (lo hi b : N) : bool := N.leb lo b && N.leb b hi.
Definition is_cont (b : N) : bool := rng 128 191 b.
Definition ustep (q : ust) (b : N) : ust :=
  match q with
  | UA => if N.ltb b 128 then UA
          else if rng 194 223 b then U1
          else if N.eqb b 224 then UE0
          else if N.eqb b 237 then UED
          else if rng 225 239 b then U2
          else if N.eqb b 240 then UF0
          else if rng 241 243 b then U3
          else if N.eqb b 244 then UF4
          else UR
  | UR => UR
  | U1 => if is_cont b then UA else UR
  | U2 => if is_cont b then U1 else UR
  | U3 => if is_cont b then U2 else UR
  | UE0 => if rng 160 191 b then U1 else UR
  | UED => if rng 128 159 b then U1 else UR
  | UF0 => if rng 144 191 b then U2 else UR
  | UF4 => if rng 128 143 b then U2 else UR
  end.
Definition urun (q : ust) (s : str) : ust := fold_left ustep s q.
Definition valid_utf8 (s : str) : bool := match urun UA s with UA => true | _ => false end.

(* str::is_char_boundary, byte for byte as in core: 0 and len are boundaries, beyond len is
   not, otherwise the byte at i must not be a continuation byte (b as i8 >= -0x40). *)
Definition is_boundary (s : str) (i : nat) : bool :=
  match i with
  | O => true
  | _ => match nth_error s i with
         | Some b => negb (is_cont b)
         | None => Nat.eqb i (length s)
         end
  end.

(* &s[a..b] *)
Definition slice (s : str) (a b : nat) : res str :=
  if Nat.leb a b && Nat.leb b (length s) && is_boundary s a && is_boundary s b
  then Ok (take (b - a) (drop a s)) else Panic "str slice".
Definition slice_from (s : str) (a : nat) : res str := slice s a (length s).
Definition slice_to (s : str) (b : nat) : res str := slice s 0 b.
(* &s.as_bytes()[a..b]: range check only *)
Definition bslice (s : str) (a b : nat) : res str :=
  if Nat.leb a b && Nat.leb b (length s) then Ok (take (b - a) (drop a s)) else Panic "byte slice".

(* ------------------------------------------------------------------ Unicode White_Space *)
(* char::is_whitespace / regex \s: U+0009..000D 0020 0085 00A0 1680 2000..200A 2028 2029 202F
   205F 3000.  [ws_len s] = byte width of a white-space character at the head of s, else 0. *)
Definition ws3 (a b c : N) : bool :=
  (N.eqb a 225 && N.eqb b 154 && N.eqb c 128)
  || (N.eqb a 226 && N.eqb b 128 && (rng 128 138 c || N.eqb c 168 || N.eqb c 169 || N.eqb c 175))
  || (N.eqb a 226 && N.eqb b 129 && N.eqb c 159)
  || (N.eqb a 227 && N.eqb b 128 && N.eqb c 128).
Definition ws2 (a b : N) : bool := N.eqb a 194 && (N.eqb b 133 || N.eqb b 160).
Definition ws1 (a : N) : bool := rng 9 13 a || N.eqb a 32.
Definition ws_len (s : str) : nat :=
  match s with
  | a :: r =>
      if ws1 a then 1%nat else
      match r with
      | b :: r' => if ws2 a b then 2%nat else
                   match r' with c :: _ => if ws3 a b c then 3%nat else O | [] => O end
      | [] => O
      end
  | [] => O
  end.
(* the same at the end of a string, on the reversed bytes *)
Definition ws_len_rev (r : str) : nat :=
  match r with
  | c :: r1 =>
      if ws1 c then 1%nat else
      match r1 with
      | b :: r2 => if ws2 b c then 2%nat else
                   match r2 with a :: _ => if ws3 a b c then 3%nat else O | [] => O end
      | [] => O
      end
  | [] => O
  end.

Fixpoint trim_start_f (fuel : nat) (s : str) : str :=
  match fuel with
  | O => s
  | S f => match ws_len s with O => s | n => trim_start_f f (drop n s) end
  end.
Definition trim_start (s : str) : str := trim_start_f (length s) s.
Fixpoint trim_rev_f (fuel : nat) (r : str) : str :=
  match fuel with
  | O => r
  | S f => match ws_len_rev r with O => r | n => trim_rev_f f (drop n r) end
  end.
Definition trim_end (s : str) : str := rev (trim_rev_f (length s) (rev s)).
Definition trim (s : str) : str := trim_end (trim_start s).

(* byte length of the maximal white-space prefix: s.find(|c| !c.is_whitespace()) = Some of this
   when it is < len, None otherwise *)
Definition ws_prefix_len (s : str) : nat := (length s - length (trim_start s))%nat.

(* str::split_whitespace *)
Fixpoint split_ws_f (fuel : nat) (s cur : str) : list str :=
  match fuel with
  | O => []
  | S f =>
      match s with
      | [] => if null cur then [] else [rev cur]
      | b :: r =>
          match ws_len s with
          | O => split_ws_f f r (b :: cur)
          | n => (if null cur then [] else [rev cur]) ++ split_ws_f f (drop n s) []
          end
      end
  end.
Definition split_whitespace (s : str) : list str := split_ws_f (S (length s)) s [].

(* str::lines (Rust >= 1.66): split at '\n'; a piece that ended in '\n' also loses one
   preceding '\r'; a final piece without '\n' is kept as is unless empty *)
Definition strip_cr (l : str) : str := if suffixb [13] l then take (length l - 1) l else l.
Definition lines (s : str) : list str :=
  let ps := split_on 10 s in
  map strip_cr (removelast ps) ++ (if null (last ps []) then [] else [last ps []]).

(* ------------------------------------------------------------------ bytes used below *)
Definition c_TAB : N := 9.   Definition c_BANG : N := 33.  Definition c_HASH : N := 35.
Definition c_DOLLAR : N := 36.  Definition c_STAR : N := 42. Definition c_COMMA : N := 44.
Definition c_DOT : N := 46.  Definition c_SLASH : N := 47. Definition c_EQ : N := 61.
Definition c_AT : N := 64.   Definition c_LBRACK : N := 91. Definition c_BSLASH : N := 92.
Definition c_CARET : N := 94. Definition c_PIPE : N := 124. Definition c_TILDE : N := 126.
Definition c_RPAREN : N := 41. Definition c_PLUS : N := 43. Definition c_SPACE : N := 32.

Definition to_lowercase (lower : str -> str) (s : str) : str :=
  if all_ascii s then lower_str s else lower s.

Fixpoint strip_prefix_rep_f (fuel : nat) (p s : str) : str :=   (* trim_start_matches(p), p non-empty *)
  match fuel with
  | O => s
  | S f => if prefixb p s then strip_prefix_rep_f f p (drop (length p) s) else s
  end.
Definition trim_start_matches (p s : str) : str := strip_prefix_rep_f (length s) p s.

(* ------------------------------------------------------------------ lists.rs: detect_filter_type *)
(* 0 = Network, 1 = Cosmetic, 2 = NotSupported *)
Definition FT_NETWORK : N := 0. Definition FT_COSMETIC : N := 1. Definition FT_NOTSUPPORTED : N := 2.

Definition detect_filter_type (filter : str) : res N :=
  c1 <- (if Nat.eqb (length filter) 1 then Ok true
         else if prefixb [c_BANG] filter then Ok true
         else if prefixb [c_HASH] filter then
                rest <- slice_from filter 1 ;; Ok (Nat.ltb 0 (ws_len rest))
         else Ok false) ;;
  if c1 || prefixb (bs "[Adblock") filter then Ok FT_NOTSUPPORTED
  else if prefixb [c_PIPE] filter || prefixb (bs "@@|") filter then Ok FT_NETWORK
  else
    cosm <- match find_byte c_HASH filter with
            | Some sharp_index =>
                let after := S sharp_index in
                w <- bslice filter after (Nat.min (after + 4) (length filter)) ;;
                Ok (match find_byte c_HASH w with Some _ => true | None => false end)
            | None => Ok false
            end ;;
    if cosm then Ok FT_COSMETIC
    else if containsb (bs "$$") filter then Ok FT_NOTSUPPORTED
    else Ok FT_NETWORK.

(* ------------------------------------------------------------------ abstract_network.rs *)
Inductive nf_option :=
| ODomain (l : list (bool * str)) | OBadfilter | OImportant | OMatchCase
| OThirdParty (b : bool) | OFirstParty (b : bool) | OTag (s : str)
| ORedirect (s : str) | ORedirectRule (s : str) | OCsp (o : option str) | ORemoveparam (s : str)
| OGenerichide | ODocument | OCpt (bit : N) (enabled : bool).

(* content-type options that take a negation: (name, mask bit) — hand-written (uBO/ABP option
   names); related to the crate's own match arms through [option_kind] and the generated
   table [c11_option_arms] (C11_Proofs.option_table_agrees) *)
Definition cpt_options : list (string * N) :=
  [("image", M_FROM_IMAGE); ("media", M_FROM_MEDIA); ("object", M_FROM_OBJECT);
   ("object-subrequest", M_FROM_OBJECT); ("other", M_FROM_OTHER); ("ping", M_FROM_PING);
   ("beacon", M_FROM_PING); ("script", M_FROM_SCRIPT); ("stylesheet", M_FROM_STYLESHEET);
   ("css", M_FROM_STYLESHEET); ("subdocument", M_FROM_SUBDOCUMENT); ("frame", M_FROM_SUBDOCUMENT);
   ("xmlhttprequest", M_FROM_XMLHTTPREQUEST); ("xhr", M_FROM_XMLHTTPREQUEST);
   ("websocket", M_FROM_WEBSOCKET); ("font", M_FROM_FONT)]%string.
Fixpoint lookup_cpt (name : str) (t : list (string * N)) : option N :=
  match t with
  | [] => None
  | (n, b) :: r => if str_eqb name (bs n) then Some b else lookup_cpt name r
  end.

Fixpoint drop_while_eq (c : N) (s : str) : str :=
  match s with x :: r => if N.eqb x c then drop_while_eq c r else s | [] => [] end.

(* VALID_PARAM = ^[a-zA-Z0-9_\-]+$ *)
Definition valid_param (v : str) : bool :=
  negb (null v) && forallb (fun c => is_alnum c || N.eqb c 95 || N.eqb c 45) v.

Definition parse_domains (value : str) : list (bool * str) :=
  filter (fun p => negb (prefixb [c_SLASH] (snd p) && suffixb [c_SLASH] (snd p)))
         (map (fun d => if prefixb [c_TILDE] d then (false, drop 1 d) else (true, d))
              (split_on c_PIPE value)).

Definition parse_option (raw : str) : nf_option + string :=
  let negation := prefixb [c_TILDE] raw in
  let o := drop_while_eq c_TILDE raw in
  let nv := match find_byte c_EQ o with
            | Some i => (take i o, drop (S i) o)
            | None => (o, []) end in
  let name := fst nv in let value := snd nv in
  let is (n : string) := str_eqb name (bs n) in
  if is "domain" || is "from" then
    (let ds := parse_domains value in
     if null ds then inr "NoSupportedDomains" else inl (ODomain ds))%string
  else if is "badfilter" then (if negation then inr "NegatedBadFilter" else inl OBadfilter)%string
  else if is "important" then (if negation then inr "NegatedImportant" else inl OImportant)%string
  else if is "match-case" then (if negation then inr "NegatedOptionMatchCase" else inl OMatchCase)%string
  else if is "third-party" || is "3p" then inl (OThirdParty (negb negation))
  else if is "first-party" || is "1p" then inl (OFirstParty (negb negation))
  else if is "tag" then (if negation then inr "NegatedTag" else inl (OTag value))%string
  else if is "redirect" then
    (if negation then inr "NegatedRedirection"
     else if null value then inr "EmptyRedirection" else inl (ORedirect value))%string
  else if is "redirect-rule" then
    (if negation then inr "NegatedRedirection"
     else if null value then inr "EmptyRedirection" else inl (ORedirectRule value))%string
  else if is "csp" then inl (OCsp (if null value then None else Some value))
  else if is "removeparam" then
    (if negation then inr "NegatedRemoveparam"
     else if null value then inr "EmptyRemoveparam"
     else if negb (valid_param value) then inr "RemoveparamRegexUnsupported"
     else inl (ORemoveparam value))%string
  else if is "generichide" || is "ghide" then
    (if negation then inr "NegatedGenericHide" else inl OGenerichide)%string
  else if is "document" || is "doc" then
    (if negation then inr "NegatedDocument" else inl ODocument)%string
  else match lookup_cpt name cpt_options with
       | Some bit => inl (OCpt bit (negb negation))
       | None => inr "UnrecognisedOption"%string
       end.

Fixpoint parse_options_list (raws : list str) : list nf_option + string :=
  match raws with
  | [] => inl []
  | r :: rest => match parse_option r with
                 | inr e => inr e
                 | inl o => match parse_options_list rest with
                            | inr e => inr e
                            | inl os => inl (o :: os)
                            end
                 end
  end.
Definition parse_filter_options (raw : str) : list nf_option + string :=
  parse_options_list (split_on c_COMMA raw).

Inductive left_anchor := DoublePipe | SinglePipe.
Record abs_filter := mkAbs {
  af_exception : bool; af_left : option left_anchor; af_pattern : str; af_right : bool;
  af_options : option (list nf_option) }.

(* AbstractNetworkFilter::parse — every slice is explicit.  [abstract_tail] is the part after
   the options have been split off: fis0 = filter_index_start (0, or 2 after "@@"),
   fie0 = filter_index_end (len, or the offset of the last '$'). *)
Definition abstract_tail (line : str) (exception : bool) (fis0 fie0 : nat)
           (options : option (list nf_option)) : pr abs_filter :=
  r1 <- slice_from line fis0 ;;
  sl <- (if prefixb (bs "||") r1 then Ok ((fis0 + 2)%nat, Some DoublePipe)
         else r2 <- slice_from line fis0 ;;
              if prefixb [c_PIPE] r2 then Ok ((fis0 + 1)%nat, Some SinglePipe)
              else Ok (fis0, None)) ;;
  let fis := fst sl in let left := snd sl in
  right <- (if Nat.ltb 0 fie0 && Nat.ltb fis fie0
            then p <- slice_to line fie0 ;; Ok (suffixb [c_PIPE] p)
            else Ok false) ;;
  let fie := if right then (fie0 - 1)%nat else fie0 in
  pattern <- slice line fis fie ;;
  ret (mkAbs exception left pattern right options).

Definition abstract_parse (line : str) : pr abs_filter :=
  let exception := prefixb (bs "@@") line in
  let fis0 := if exception then 2%nat else O in
  match rfind_byte c_DOLLAR line with
  | Some oi =>
      raw <- slice_from line (S oi) ;;
      match parse_filter_options raw with
      | inl os => abstract_tail line exception fis0 oi (Some os)
      | inr e => fail e
      end
  | None => abstract_tail line exception fis0 (length line) None
  end.

(* ------------------------------------------------------------------ network.rs: NetworkFilter::parse *)
Definition mset (m bit : N) (v : bool) : N := if v then N.lor m bit else N.ldiff m bit.
Definition mhas (m bit : N) : bool := N.eqb (N.land m bit) bit.
Definition mnone (m : N) : bool := N.eqb m 0.

Definition is_content_type (o : nf_option) : bool :=
  match o with ODocument | OCpt _ _ => true | _ => false end.
Definition is_redirection (o : nf_option) : bool :=
  match o with ORedirect _ | ORedirectRule _ => true | _ => false end.

Definition validate_options (os : list nf_option) : option string :=
  let has_csp := existsb (fun o => match o with OCsp _ => true | _ => false end) os in
  let has_ct := existsb (fun o => match o with OCsp _ => false | _ => is_content_type o end) os in
  let modifiers := length (filter (fun o => match o with
                                            | OCsp _ | ORemoveparam _ => true
                                            | _ => is_redirection o end) os) in
  if has_csp && has_ct then Some "CspWithContentType"%string
  else if Nat.ltb 1 modifiers then Some "MultipleModifierOptions"%string
  else None.

Record net_rule := mkNet {
  nr_mask : N; nr_filter : option str; nr_hostname : option str;
  nr_modifier : option str; nr_tag : option str;
  nr_domains : option (list str);      (* distinct positive domain= values (hashed by the crate) *)
  nr_not_domains : option (list str);
  nr_raw_line : str }.

Record opt_acc := mkAcc {
  a_mask : N; a_pos : N; a_neg : N; a_modifier : option str; a_tag : option str;
  a_dom : option (list str); a_ndom : option (list str) }.

Fixpoint dedup_str (l : list str) : list str :=
  match l with [] => [] | x :: r => if mem_str x r then dedup_str r else x :: dedup_str r end.
Definition some_if_nonempty (l : list str) : option (list str) := if null l then None else Some l.

Definition apply_option (a : opt_acc) (o : nf_option) : opt_acc :=
  let '(mkAcc m p n mo tg d nd) := a in
  match o with
  | ODomain ds =>
      let pos := dedup_str (map snd (filter (fun x => fst x) ds)) in
      let neg := dedup_str (map snd (filter (fun x => negb (fst x)) ds)) in
      mkAcc m p n mo tg (match some_if_nonempty pos with Some x => Some x | None => d end)
                        (match some_if_nonempty neg with Some x => Some x | None => nd end)
  | OBadfilter => mkAcc (mset m M_BAD_FILTER true) p n mo tg d nd
  | OImportant => mkAcc (mset m M_IS_IMPORTANT true) p n mo tg d nd
  | OMatchCase => mkAcc (mset m M_MATCH_CASE true) p n mo tg d nd
  | OThirdParty false | OFirstParty true => mkAcc (mset m M_THIRD_PARTY false) p n mo tg d nd
  | OThirdParty true | OFirstParty false => mkAcc (mset m M_FIRST_PARTY false) p n mo tg d nd
  | OTag v => mkAcc m p n mo (Some v) d nd
  | ORedirect v => mkAcc (mset (mset m M_IS_REDIRECT true) M_ALSO_BLOCK_REDIRECT true) p n (Some v) tg d nd
  | ORedirectRule v => mkAcc (mset m M_IS_REDIRECT true) p n (Some v) tg d nd
  | ORemoveparam v => mkAcc (mset m M_IS_REMOVEPARAM true) p n (Some v) tg d nd
  | OCsp v => mkAcc (mset (mset m M_IS_CSP true) M_FROM_DOCUMENT true) p n v tg d nd
  | OGenerichide => mkAcc (mset m M_GENERIC_HIDE true) p n mo tg d nd
  | ODocument => mkAcc m (mset p M_FROM_DOCUMENT true) n mo tg d nd
  | OCpt bit true => mkAcc m (mset p bit true) n mo tg d nd
  | OCpt bit false => mkAcc m p (mset n bit true) mo tg d nd
  end.

Definition check_is_regex (p : str) : bool :=
  match find_byte c_STAR p, find_byte c_CARET p with None, None => false | _, _ => true end.

(* SEPARATOR = [/^*] : offset of the first such byte *)
Fixpoint find_separator (s : str) : option nat :=
  match s with
  | [] => None
  | x :: r => if N.eqb x c_SLASH || N.eqb x c_CARET || N.eqb x c_STAR then Some O
              else match find_separator r with Some i => Some (S i) | None => None end
  end.

Section Oracles.
Variable lower : str -> str.
Variable idna : str -> option str.

Definition decode_hostname (mask : N) (host : str) : str + string :=
  (* lower-case first, then the leading "www." goes (since /repo 2c775fa: ||WWW.host = ||www.host) *)
  let lowercase0 := to_lowercase lower host in
  let lowercase := if mhas mask M_IS_HOSTNAME_ANCHOR then trim_start_matches (bs "www.") lowercase0 else lowercase0 in
  if all_ascii lowercase then inl lowercase
  else match idna lowercase with Some h => inl h | None => inr "PunycodeError"%string end.

(* protocol-only patterns: |ws:// |http:// |https:// |http*:// *)
Definition protocol_step (pattern : str) (mask : N) (fis fie : nat) : res (N * nat) :=
  if mhas mask M_IS_LEFT_ANCHOR then
    b1 <- (if Nat.eqb fie (fis + 5) then r <- slice_from pattern fis ;; Ok (prefixb (bs "ws://") r) else Ok false) ;;
    if b1 then Ok (mset (mset (mset (mset mask M_FROM_WEBSOCKET true) M_FROM_HTTP false) M_FROM_HTTPS false) M_IS_LEFT_ANCHOR false, fie)
    else
    b2 <- (if Nat.eqb fie (fis + 7) then r <- slice_from pattern fis ;; Ok (prefixb (bs "http://") r) else Ok false) ;;
    if b2 then Ok (mset (mset (mset mask M_FROM_HTTP true) M_FROM_HTTPS false) M_IS_LEFT_ANCHOR false, fie)
    else
    b3 <- (if Nat.eqb fie (fis + 8) then r <- slice_from pattern fis ;; Ok (prefixb (bs "https://") r) else Ok false) ;;
    if b3 then Ok (mset (mset (mset mask M_FROM_HTTPS true) M_FROM_HTTP false) M_IS_LEFT_ANCHOR false, fie)
    else
    b4 <- (if Nat.eqb fie (fis + 8) then r <- slice_from pattern fis ;; Ok (prefixb (bs "http*://") r) else Ok false) ;;
    if b4 then Ok (mset (mset (mset mask M_FROM_HTTPS true) M_FROM_HTTP true) M_IS_LEFT_ANCHOR false, fie)
    else Ok (mask, fis)
  else Ok (mask, fis).

(* the hostname-anchor part: returns (mask, hostname, filter_index_start) *)
Definition hostname_step (pattern : str) (mask : N) (is_regex : bool) : res (N * option str * nat) :=
  let fie := length pattern in
  if is_regex then
    match find_separator pattern with
    | Some sep =>
        star <- (if Nat.ltb sep (length pattern)
                 then c <- slice pattern sep (S sep) ;; Ok (prefixb [c_STAR] c) else Ok false) ;;
        let mask := if star then mset mask M_IS_HOSTNAME_REGEX true else mask in
        host <- slice_to pattern sep ;;
        only_caret <- (if Nat.eqb (fie - sep) 1
                       then r <- slice_from pattern sep ;; Ok (prefixb [c_CARET] r) else Ok false) ;;
        if only_caret
        then Ok (mset (mset mask M_IS_REGEX false) M_IS_RIGHT_ANCHOR true, Some host, fie)
        else
          mid <- slice pattern sep fie ;;
          Ok (mset (mset mask M_IS_LEFT_ANCHOR true) M_IS_REGEX (check_is_regex mid), Some host, sep)
    | None => Ok (mask, None, O)
    end
  else
    match find_byte c_SLASH pattern with
    | Some i => host <- slice_to pattern i ;; Ok (mset mask M_IS_LEFT_ANCHOR true, Some host, i)
    | None => Ok (mask, Some pattern, fie)
    end.

(* remove a trailing '*', then a leading '*' *)
Definition strip_stars (pattern : str) (mask : N) (fis : nat) : res (N * nat * nat) :=
  let fie := length pattern in
  let fie := if Nat.ltb fis fie && suffixb [c_STAR] pattern then (fie - 1)%nat else fie in
  lead <- (if Nat.ltb fis fie then r <- slice_from pattern fis ;; Ok (prefixb [c_STAR] r) else Ok false) ;;
  Ok (if lead then mset mask M_IS_LEFT_ANCHOR false else mask, if lead then S fis else fis, fie).

(* lowercase_regex_body: lower-case a /regex/ body except the byte that follows a backslash *)
Fixpoint lower_regex_esc (escaped : bool) (s : str) : str :=
  match s with
  | [] => []
  | c :: r => if escaped then c :: lower_regex_esc false r
              else to_lower c :: lower_regex_esc (N.eqb c 92) r
  end.
Definition lower_regex_body (s : str) : str := lower_regex_esc false s.

Definition final_filter (pattern : str) (mask : N) (fis fie : nat) : res (N * option str) :=
  if Nat.ltb fis fie
  then f <- slice pattern fis fie ;;
       Ok (mset mask M_IS_REGEX (check_is_regex f),
           Some (if mhas mask M_MATCH_CASE then f
                 else if mhas mask M_IS_COMPLETE_REGEX then lower_regex_body f   (* since /repo 5436c47 *)
                 else lower_str f))
  else Ok (mask, None).

(* the offset pipeline of NetworkFilter::parse on the pattern: (mask, hostname, filter) *)
Definition pattern_pipeline (pattern : str) (mask : N) (hostname_anchor : bool) (is_regex : bool)
  : res (N * option str * option str) :=
  hs <- (if hostname_anchor then hostname_step pattern mask is_regex else Ok (mask, None, O)) ;;
  let '(mask, hostname, fis) := hs in
  st <- strip_stars pattern mask fis ;;
  let '(mask, fis, fie) := st in
  ps <- protocol_step pattern mask fis fie ;;
  let '(mask, fis) := ps in
  flt <- final_filter pattern mask fis fie ;;
  let '(mask, filter) := flt in
  Ok (mask, hostname, filter).

Definition network_build (line : str) (parsed : abs_filter) : pr net_rule :=
  let mask0 := N.lor (N.lor M_THIRD_PARTY M_FIRST_PARTY) (N.lor M_FROM_HTTPS M_FROM_HTTP) in
  let mask0 := if af_exception parsed then mset mask0 M_IS_EXCEPTION true else mask0 in
  acc <-? match af_options parsed with
          | Some os => match validate_options os with
                       | Some e => fail e
                       | None => ret (fold_left apply_option os (mkAcc mask0 0 0 None None None None))
                       end
          | None => ret (mkAcc mask0 0 0 None None None None)
          end ;;
  let pos := a_pos acc in let neg := a_neg acc in
  let mask := N.lor (a_mask acc) pos in
  let mask := if negb (mhas mask M_IS_REMOVEPARAM) && negb (mnone (N.land neg M_FROM_NETWORK_TYPES))
              then N.lor mask M_FROM_NETWORK_TYPES else mask in
  let mask := if mnone (N.land pos M_FROM_ALL_TYPES)
              then (if mhas mask M_IS_REMOVEPARAM
                    then N.lor mask (N.lor M_FROM_DOCUMENT (N.lor M_FROM_SUBDOCUMENT M_FROM_XMLHTTPREQUEST))
                    else N.lor mask M_FROM_NETWORK_TYPES)
              else mask in
  let mask := match af_left parsed with
              | Some DoublePipe => mset mask M_IS_HOSTNAME_ANCHOR true
              | Some SinglePipe => mset mask M_IS_LEFT_ANCHOR true
              | None => mask end in
  let end_url_anchor := af_right parsed in
  let mask := if end_url_anchor then mset mask M_IS_RIGHT_ANCHOR true else mask in
  let pattern := af_pattern parsed in
  let is_regex := check_is_regex pattern in
  let mask := mset mask M_IS_REGEX is_regex in
  let complete := prefixb [c_SLASH] pattern && suffixb [c_SLASH] pattern && Nat.ltb 1 (length pattern) in
  if negb complete && mhas mask M_MATCH_CASE then fail "MatchCaseWithoutFullRegex" else
  let mask := if complete then mset mask M_IS_COMPLETE_REGEX true else mask in
  pp <- pattern_pipeline pattern mask
          (match af_left parsed with Some DoublePipe => true | _ => false end) is_regex ;;
  let '(mask, hostname, filter) := pp in
  let hostname_decoded := match hostname with
                          | Some h => match decode_hostname mask h with
                                      | inl x => inl (Some x) | inr e => inr e end
                          | None => inl None end in
  if mhas mask M_GENERIC_HIDE && negb (af_exception parsed) then fail "GenericHideWithoutException" else
  if mhas mask M_IS_REMOVEPARAM && af_exception parsed then fail "RemoveparamWithException" else
  let mask := if mnone (N.land pos M_FROM_ALL_TYPES) && mnone (N.land neg M_FROM_ALL_TYPES)
                 && mhas mask M_IS_HOSTNAME_ANCHOR && mhas mask M_IS_RIGHT_ANCHOR
                 && negb end_url_anchor && negb (mhas mask M_IS_REMOVEPARAM)
              then N.lor mask M_FROM_ALL_TYPES else mask in
  let mask := N.ldiff mask neg in
  match hostname_decoded with
  | inr e => fail e
  | inl h => ret (mkNet mask filter h (a_modifier acc) (a_tag acc) (a_dom acc) (a_ndom acc) line)
  end.

Definition network_parse (line : str) : pr net_rule :=
  parsed <-? abstract_parse line ;; network_build line parsed.

(* INVALID_CHARS of parse_hosts_style: the ASCII punctuation below (byte values) or any \s character *)
Definition invalid_host_bytes : list N :=
  [47; 94; 42; 33; 63; 36; 38; 40; 41; 123; 125; 91; 93; 43; 61; 126; 96; 124; 64; 44; 39; 34; 62; 60; 58; 59].
Fixpoint has_invalid_host_char (s : str) : bool :=
  match s with
  | [] => false
  | b :: r => memN b invalid_host_bytes || Nat.ltb 0 (ws_len s) || has_invalid_host_char r
  end.

(* hostname normalisation of parse_hosts_style: lower case, leading "www." removed, punycode *)
Definition norm_host (hostname : str) : option str :=
  let n := trim_start_matches (bs "www.") (to_lowercase lower hostname) in
  if all_ascii n then Some n else idna n.
(* the text handed to NetworkFilter::parse by parse_hosts_style:
   let mut hostname = "||".to_string(); hostname.push_str(..); hostname.push('^') *)
Definition hosts_rule_text (hostname : str) : str + string :=
  match norm_host hostname with
  | Some a => inl (bs "||" ++ a ++ bs "^")
  | None => inr "PunycodeError"%string
  end.

Definition parse_hosts_style (hostname : str) : pr net_rule :=
  if has_invalid_host_char hostname then fail "FilterParseError" else
  bad <- (match find_byte c_DOT hostname with
          | None => Ok true
          | Some _ =>
              lone <- (if prefixb [c_DOT] hostname
                       then r <- slice_from hostname 1 ;;
                            Ok (match find_byte c_DOT r with None => true | Some _ => false end)
                       else Ok false) ;;
              Ok (lone || suffixb [c_DOT] hostname)
          end) ;;
  if bad then fail "FilterParseError" else
  match hosts_rule_text hostname with
  | inl text => network_parse text
  | inr e => fail e
  end.

(* ------------------------------------------------------------------ resource_storage.rs *)
(* while t < i && rest[..i - t].ends_with('\\') { t += 1 } *)
Fixpoint count_trailing_escapes (fuel : nat) (rest : str) (i t : nat) : res nat :=
  match fuel with
  | O => Ok t
  | S f =>
      if Nat.ltb t i then
        pre <- slice_to rest (i - t) ;;
        if suffixb [c_BSLASH] pre then count_trailing_escapes f rest i (S t) else Ok t
      else Ok t
  end.

Definition inus_finish (s : str) (nae : nat) (nt : bool) : option nat * bool :=
  (if Nat.leb (length s) nae then None else Some nae, nt).

Fixpoint inus_loop (fuel : nat) (s : str) (sep : N) (nae : nat) (nt : bool) : res (option nat * bool) :=
  match fuel with
  | O => Panic "fuel"
  | S f =>
      if Nat.ltb nae (length s) then
        rest <- slice_from s nae ;;
        match find_byte sep rest with
        | Some i =>
            t <- count_trailing_escapes (S i) rest i O ;;
            if Nat.even t then Ok (inus_finish s (nae + i) nt)
            else inus_loop f s sep (nae + i + 1) true
        | None => Ok (None, nt)
        end
      else Ok (inus_finish s nae nt)
  end.
(* index_next_unescaped_separator(s, separator) for an ASCII separator other than '\\' *)
Definition index_next_unescaped_separator (s : str) (sep : N) : res (option nat * bool) :=
  inus_loop (S (length s)) s sep O false.

Fixpoint normalize_arg_f (arg : str) (sep : N) (escaped : bool) : str :=
  match arg with
  | [] => []
  | c :: r =>
      if N.eqb c c_BSLASH then
        (if escaped then c_BSLASH :: c_BSLASH :: normalize_arg_f r sep false
         else normalize_arg_f r sep true)
      else (if escaped then (if N.eqb c sep then [] else [c_BSLASH]) else [])
           ++ c :: normalize_arg_f r sep false
  end.
Definition normalize_arg (arg : str) (sep : N) : str := normalize_arg_f arg sep false.

(* if let Some(i) = args.find(|c: char| !c.is_whitespace()) { args = &args[i..]; } *)
Definition skip_ws (args : str) : res str :=
  let i := ws_prefix_len args in
  if Nat.ltb i (length args) then slice_from args i else Ok args.

Definition is_quote (c : N) : bool := N.eqb c 34 || N.eqb c 39 || N.eqb c 96.

Fixpoint psa_loop (fuel : nat) (args : str) (acc : list str) : res (option (list str)) :=
  match fuel with
  | O => Panic "fuel"
  | S f =>
      args <- skip_ws args ;;
      match args with
      | [] => Ok (Some (rev acc))
      | qc :: _ =>
          if is_quote qc then
            args <- slice_from args 1 ;;
            r <- index_next_unescaped_separator args qc ;;
            match fst r with
            | Some i =>
                arg <- slice_to args i ;;
                args <- slice_from args (S i) ;;
                args <- skip_ws args ;;
                let arg := if snd r then normalize_arg arg c_COMMA else arg in
                if prefixb [c_COMMA] args then
                  args <- slice_from args 1 ;; psa_loop f args (arg :: acc)
                else if negb (null args) then Ok None
                else psa_loop f args (arg :: acc)
            | None => Ok None
            end
          else
            r <- index_next_unescaped_separator args c_COMMA ;;
            a0 <- slice_to args (match fst r with Some i => i | None => length args end) ;;
            let arg := trim_end a0 in
            args <- slice_from args (match fst r with Some i => S i | None => length args end) ;;
            let arg := if snd r then normalize_arg arg c_COMMA else arg in
            psa_loop f args (arg :: acc)
      end
  end.
Definition parse_scriptlet_args (args : str) : res (option (list str)) :=
  if null (trim args) then Ok (Some []) else psa_loop (S (length args)) args [].

(* ------------------------------------------------------------------ cosmetic.rs: CosmeticFilter::parse *)
(* location kinds: 0 Entity, 1 NotEntity, 2 Hostname, 3 NotHostname, 4 Unsupported *)
Definition location_of (part : str) : res (N * str) :=
  let negation := prefixb [c_TILDE] part in
  let entity := suffixb (bs ".*") part in
  let start := if negation then 1%nat else O in
  let e := if entity then (length part - 2)%nat else length part in
  loc <- slice part start e ;;
  if prefixb [c_SLASH] loc then Ok (4, part)
  else Ok (match negation, entity with
           | true, true => 1 | true, false => 3 | false, true => 0 | false, false => 2 end, loc).

Record cos_rule := mkCos {
  cr_unhide : bool; cr_script : bool; cr_selector : str;
  cr_action : option (N * str);            (* 0 Remove, 1 Style, 2 RemoveAttr, 3 RemoveClass *)
  cr_entities : list str; cr_not_entities : list str;
  cr_hostnames : list str; cr_not_hostnames : list str;
  cr_raw_line : str }.

Fixpoint locations_loop (parts : list str) (acc : list (N * str)) (unsupported : bool)
  : pr (list (N * str) * bool) :=
  match parts with
  | [] => ret (rev acc, unsupported)
  | p :: r =>
      if null p then locations_loop r acc unsupported else
      kl <- location_of p ;;
      let '(k, loc) := kl in
      if all_ascii loc then
        (if N.eqb k 4 then locations_loop r acc true else locations_loop r ((k, loc) :: acc) unsupported)
      else match idna loc with
           | Some x => if null x then fail "PunycodeError"
                       else if N.eqb k 4 then locations_loop r acc true
                       else locations_loop r ((k, x) :: acc) unsupported
           | None => fail "PunycodeError"
           end
  end.

Definition parse_before_sharp (line : str) (sharp_index : nat) : pr (list (N * str)) :=
  if prefixb [c_LBRACK] line then fail "LocationModifiersUnsupported" else
  pre <- slice line O sharp_index ;;
  lu <-? locations_loop (split_on c_COMMA pre) [] false ;;
  if snd lu && null (fst lu) then fail "UnsupportedSyntax" else ret (fst lu).

Definition action_tokens : list (string * N) :=
  [(":style(", 1); (":remove-attr(", 2); (":remove-class(", 3)]%string.

Definition forbid_regex_or_quoted (arg : str) : bool :=
  prefixb [c_SLASH] arg || prefixb [34] arg || prefixb [39] arg.

(* the for-loop over PAIRS: first token (in table order) that occurs anywhere decides *)
Fixpoint action_loop (toks : list (string * N)) (after : str) : pr (option (str * option (N * str))) :=
  match toks with
  | [] => ret None
  | (tok, kind) :: r =>
      match find_sub (bs tok) after with
      | Some i =>
          if suffixb [c_RPAREN] after then
            arg <- slice after (i + length (bs tok)) (length after - 1) ;;
            if negb (N.eqb kind 1) && forbid_regex_or_quoted arg then fail "UnsupportedSyntax" else
            sel <- slice_to after i ;;
            ret (Some (sel, Some (kind, arg)))
          else fail "InvalidActionSpecifier"
      | None => action_loop r after
      end
  end.

Definition parse_after_sharp_nonscript (after : str) : pr (str * option (N * str)) :=
  if prefixb [c_CARET] after then fail "HtmlFilteringUnsupported" else
  found <-? action_loop action_tokens after ;;
  match found with
  | Some x => ret x
  | None =>
      if suffixb (bs ":remove()") after
      then ret (take (length after - 9) after, Some (0, []))
      else ret (after, None)
  end.

Definition locs_of (k : N) (l : list (N * str)) : list str :=
  map snd (filter (fun x => N.eqb (fst x) k) l).

Definition cosmetic_parse (line : str) : pr cos_rule :=
  match find_byte c_HASH line with
  | None => fail "MissingSharp"
  | Some sharp_index =>
      let asi := S sharp_index in
      rest <- slice_from line asi ;;
      match find_byte c_HASH rest with
      | None => fail "UnsupportedSyntax"
      | Some i =>
          let ssi := (i + asi)%nat in
          between <- slice line asi ssi ;;
          ub <-? (if prefixb [c_AT] between
                  then (if Nat.eqb sharp_index 0 then fail "GenericUnhide"
                        else b <- slice_from between 1 ;; ret (true, b))
                  else ret (false, between)) ;;
          let unhide := fst ub in let between := snd ub in
          if prefixb [37] between then fail "UnsupportedSyntax" else
          if prefixb [c_DOLLAR] between then fail "UnsupportedSyntax" else
          between <- (if prefixb [63] between then slice_from between 1 else Ok between) ;;
          if negb (null between) then fail "UnsupportedSyntax" else
          let ss := S ssi in
          locs <-? (if Nat.ltb 0 sharp_index then parse_before_sharp line sharp_index else ret []) ;;
          tail <- slice_from line ss ;;
          let after := trim tail in
          if null after then fail "EmptyRule" else
          is_js <- (if Nat.ltb 4 (length line - ss)
                    then t <- slice_from line ss ;; Ok (prefixb (bs "+js(") t && suffixb [c_RPAREN] line)
                    else Ok false) ;;
          sa <-? (if is_js then
                    (if Nat.eqb sharp_index 0 then fail "GenericScriptInject" else
                     args <- slice line (ss + 4) (length line - 1) ;;
                     parsed <- parse_scriptlet_args args ;;
                     match parsed with
                     | None => fail "InvalidScriptletArgs"
                     | Some _ => sel <- slice line (ss + 4) (length line - 1) ;; ret (true, sel, None)
                     end)
                  else
                    (sa <-? parse_after_sharp_nonscript after ;;
                     if Nat.eqb sharp_index 0 && (match snd sa with Some _ => true | None => false end)
                     then fail "GenericAction" else ret (false, fst sa, snd sa))) ;;
          let '(script, selector, action) := sa in
          if (negb (null (locs_of 1 locs)) || negb (null (locs_of 3 locs))) && unhide
          then fail "DoubleNegation" else
          ret (mkCos unhide script selector action (locs_of 0 locs) (locs_of 1 locs)
                     (locs_of 2 locs) (locs_of 3 locs) line)
      end
  end.

(* ------------------------------------------------------------------ lists.rs: parse_filter *)
Inductive rule_types := RT_All | RT_NetworkOnly | RT_CosmeticOnly.
Definition loads_network (rt : rule_types) : bool := match rt with RT_CosmeticOnly => false | _ => true end.
Definition loads_cosmetic (rt : rule_types) : bool := match rt with RT_NetworkOnly => false | _ => true end.
Inductive filter_format := FF_Standard | FF_Hosts.
Inductive parsed_filter := PNetwork (f : net_rule) | PCosmetic (f : cos_rule).

(* the hosts-line normalisation: from the trimmed, non-empty line to the hostname field *)
Definition hosts_hostname (filter : str) : pr str :=
  if prefixb [c_BANG] filter then fail "Unsupported" else
  f2 <-? (match find_byte c_HASH filter with
          | Some h => pre <- slice_to filter h ;;
                      let t := trim pre in
                      if null t then fail "Unsupported" else ret t
          | None => ret filter
          end) ;;
  h <-? (match split_whitespace f2 with
         | [h] => ret h
         | [_; h] => ret h
         | _ => fail "Unsupported"
         end) ;;
  if str_eqb h (bs "localhost") then fail "Unsupported" else ret h.

Definition parse_filter (line : str) (fmt : filter_format) (rt : rule_types) : pr parsed_filter :=
  let filter := trim line in
  if null filter then fail "Empty" else
  match fmt with
  | FF_Standard =>
      ty <- detect_filter_type filter ;;
      if N.eqb ty FT_NETWORK && loads_network rt then
        f <-? network_parse filter ;; ret (PNetwork f)
      else if N.eqb ty FT_COSMETIC && loads_cosmetic rt then
        f <-? cosmetic_parse filter ;; ret (PCosmetic f)
      else fail "Unsupported"
  | FF_Hosts =>
      if negb (loads_network rt) then fail "Unsupported" else
      h <-? hosts_hostname filter ;;
      f <-? parse_hosts_style h ;; ret (PNetwork f)
  end.

End Oracles.

(* ------------------------------------------------------------------ lists.rs: metadata *)
Record metadata := mkMd {
  md_homepage : option str; md_title : option str;
  md_expires : option (bool * N);        (* (true, n) = Hours n, (false, n) = Days n *)
  md_redirect : option str }.
Definition md_empty : metadata := mkMd None None None None.

Definition all_digits (s : str) : bool := negb (null s) && forallb is_digit s.
Definition digits_val (s : str) : N := fold_left (fun a c => 10 * a + (c - 48)) s 0.

(* ExpiresInterval::try_from *)
Definition parse_expires (v : str) : option (bool * N) :=
  match split_on c_SPACE v with
  | amount :: unit :: _ =>
      if prefixb [c_PLUS] amount then None
      else if str_eqb unit (bs "hour") || str_eqb unit (bs "hours") then
        (if all_digits amount && N.leb 1 (digits_val amount) && N.leb (digits_val amount) 336
         then Some (true, digits_val amount) else None)
      else if str_eqb unit (bs "day") || str_eqb unit (bs "days") then
        (if all_digits amount && N.leb 1 (digits_val amount) && N.leb (digits_val amount) 14
         then Some (false, digits_val amount) else None)
      else None
  | _ => None
  end.

Definition is_none {A} (o : option A) : bool := match o with None => true | Some _ => false end.

Definition try_add (m : metadata) (line : str) : metadata :=
  if prefixb (bs "! ") line then
    let kv := drop 2 line in
    match find_sub (bs ": ") kv with
    | Some i =>
        let key := take i kv in let value := drop (i + 2) kv in
        if str_eqb key (bs "Homepage") && is_none (md_homepage m)
        then mkMd (Some value) (md_title m) (md_expires m) (md_redirect m)
        else if str_eqb key (bs "Title") && is_none (md_title m)
        then mkMd (md_homepage m) (Some value) (md_expires m) (md_redirect m)
        else if str_eqb key (bs "Expires") && is_none (md_expires m)
        then mkMd (md_homepage m) (md_title m) (parse_expires value) (md_redirect m)
        else if str_eqb key (bs "Redirect") && is_none (md_redirect m)
        then mkMd (md_homepage m) (md_title m) (md_expires m) (Some value)
        else m
    | None => m
    end
  else m.

(* while !list.is_char_boundary(cutoff) { cutoff -= 1; } — the subtraction would panic at 0 *)
Fixpoint back_to_boundary (s : str) (c : nat) : res nat :=
  if is_boundary s c then Ok c
  else match c with O => Panic "cutoff underflow" | S c' => back_to_boundary s c' end.
Definition cutoff (s : str) : res nat := back_to_boundary s (Nat.min (length s) (N.to_nat 1024)).

Fixpoint md_loop (ls : list str) (m : metadata) : metadata :=
  match ls with
  | [] => m
  | l :: r => if prefixb [c_BANG] l then md_loop r (try_add m l)
              else if prefixb [c_LBRACK] l then md_loop r m
              else m
  end.
Definition read_list_metadata (list : str) : res metadata :=
  c <- cutoff list ;;
  head <- slice list O c ;;
  Ok (md_loop (lines head) md_empty).

(* ------------------------------------------------------------------ lists.rs: the list driver *)
(* parse_filters_with_metadata + FilterSet::add_filters, generic in the per-line parser.
   The Rust iterator chain  map(try_add; parse_filter) . filter_map(ok) . partition_map  visits
   the lines in order; the only value threaded from one line to the next is the metadata. *)
Section Driver.
Variable parse_line : str -> pr parsed_filter.

Fixpoint parse_list (ls : list str) (m : metadata)
  : res (metadata * list net_rule * list cos_rule) :=
  match ls with
  | [] => Ok (m, [], [])
  | l :: r =>
      let m' := try_add m l in
      p <- parse_line l ;;
      t <- parse_list r m' ;;
      let '(mm, ns, cs) := t in
      Ok (match p with
          | inl (PNetwork n) => (mm, n :: ns, cs)
          | inl (PCosmetic c) => (mm, ns, c :: cs)
          | inr _ => (mm, ns, cs)
          end)
  end.

Record filter_set := mkFs { fs_network : list net_rule; fs_cosmetic : list cos_rule }.

(* FilterSet::add_filter_list: returns the metadata and the extended set *)
Definition add_filter_list (fs : filter_set) (text : str) : res (metadata * filter_set) :=
  t <- parse_list (lines text) md_empty ;;
  let '(m, ns, cs) := t in
  Ok (m, mkFs (fs_network fs ++ ns) (fs_cosmetic fs ++ cs)).

Definition rules_of (x : res (metadata * list net_rule * list cos_rule))
  : res (list net_rule * list cos_rule) :=
  t <- x ;; Ok (snd (fst t), snd t).
End Driver.

(* a line on which try_add does nothing, whatever has been collected so far *)
Definition md_neutral (line : str) : Prop := forall m, try_add m line = m.

(* ------------------------------------------------------------------ oracle tables for the harness *)
Fixpoint assoc_str {B} (k : str) (t : list (str * B)) : option B :=
  match t with [] => None | (a, b) :: r => if str_eqb k a then Some b else assoc_str k r end.
(* a miss yields a value no implementation returns (byte 0), so a bad table shows up as a disagreement *)
Definition lower_of (t : list (str * str)) : str -> str :=
  fun s => match assoc_str s t with Some x => x | None => [0] end.
Definition idna_of (t : list (str * option str)) : str -> option str :=
  fun s => match assoc_str s t with Some x => x | None => Some [0] end.

(* ------------------------------------------------------------------ comparison helpers (cases) *)
Definition ostr_eqb := opt_eqb str_eqb.
Definition strs_eqb := list_eqb str_eqb.
Definition onat_eqb := opt_eqb Nat.eqb.
Definition olen_eqb (a : option (list str)) (n : option nat) : bool :=
  onat_eqb (match a with Some l => Some (length l) | None => None end) n.

(* expected view of a network rule: mask, filter, hostname, modifier, tag, #domains, #not_domains *)
Definition net_view := (N * option str * option str * option str * option str * option nat * option nat)%type.
Definition net_matches (r : net_rule) (v : net_view) : bool :=
  let '(m, f, h, mo, tg, d, nd) := v in
  N.eqb (nr_mask r) m && ostr_eqb (nr_filter r) f && ostr_eqb (nr_hostname r) h
  && ostr_eqb (nr_modifier r) mo && ostr_eqb (nr_tag r) tg
  && olen_eqb (nr_domains r) d && olen_eqb (nr_not_domains r) nd.

Definition pr_check {A V} (f : A -> V -> bool) (x : pr A) (want : V + string) : bool :=
  match x, want with
  | Ok (inl a), inl v => f a v
  | Ok (inr e), inr e' => String.eqb e e'
  | _, _ => false
  end.

(* expected view of a cosmetic rule: unhide, script, selector, action, the four location counts *)
Definition cos_view := (bool * bool * str * option (N * str) * nat * nat * nat * nat)%type.
Definition cos_matches (r : cos_rule) (v : cos_view) : bool :=
  let '(u, s, sel, act, e, ne, h, nh) := v in
  Bool.eqb (cr_unhide r) u && Bool.eqb (cr_script r) s && str_eqb (cr_selector r) sel
  && opt_eqb (pair_eqb N.eqb str_eqb) (cr_action r) act
  && Nat.eqb (length (cr_entities r)) e && Nat.eqb (length (cr_not_entities r)) ne
  && Nat.eqb (length (cr_hostnames r)) h && Nat.eqb (length (cr_not_hostnames r)) nh.

Definition pf_matches (p : parsed_filter) (v : net_view + cos_view) : bool :=
  match p, v with
  | PNetwork n, inl nv => net_matches n nv
  | PCosmetic c, inr cv => cos_matches c cv
  | _, _ => false
  end.

Definition md_view := (option str * option str * option (bool * N) * option str)%type.
Definition md_matches (m : metadata) (v : md_view) : bool :=
  let '(h, t, e, r) := v in
  ostr_eqb (md_homepage m) h && ostr_eqb (md_title m) t
  && opt_eqb (pair_eqb Bool.eqb N.eqb) (md_expires m) e && ostr_eqb (md_redirect m) r.

Definition res_check {A} (f : A -> bool) (x : res A) : bool :=
  match x with Ok a => f a | Panic _ => false end.
Definition inus_eqb (a b : option nat * bool) : bool := onat_eqb (fst a) (fst b) && Bool.eqb (snd a) (snd b).

(* list-level view: metadata, raw lines of the network rules, raw lines of the cosmetic rules *)
Definition list_matches (x : res (metadata * filter_set)) (mv : md_view) (ns cs : list str) : bool :=
  match x with
  | Ok (m, fs) => md_matches m mv && strs_eqb (map nr_raw_line (fs_network fs)) ns
                  && strs_eqb (map cr_raw_line (fs_cosmetic fs)) cs
  | Panic _ => false
  end.
