(* Props_C12.v — pinned statements for property C12 (request normalisation).
   Only statements, `exact`, and Print Assumptions.
   Oracles: idna = idna::domain_to_ascii (None = Err), psl = get_host_domain, hash = fast_hash,
   tokenize = tokenize_pooled; contracts idna_contract (ASCII output) and psl_contract
   (a <= b = |h|, a = 0 or h[a-1] = '.') are explicit hypotheses. *)
From Adb Require Import Base BaseProofs Generated C12_Model C12_Proofs.

(* Building a request from any two Rust strings never panics (Ok None = Err(HostnameParseError)). *)
Theorem C12_request_new_total :
  forall idna psl hash tokenize, idna_contract idna -> psl_contract psl ->
  forall u s t, valid_utf8 u -> valid_utf8 s ->
  exists o, Request_new idna psl hash tokenize u s t = Ok o.
Proof. exact request_new_total. Qed.
Print Assumptions C12_request_new_total.

(* The reported hostname is the non-empty, ASCII [host_start, host_end) slice of the normalised
   URL produced by the scanner; the original URL is kept and the lower-cased copy is of the
   normalised URL. *)
Theorem C12_host_is_slice :
  forall idna psl hash tokenize, idna_contract idna -> psl_contract psl ->
  forall u s t r, Request_new idna psl hash tokenize u s t = Ok (Some r) ->
  exists se hs he,
    scan idna u = Ok (POk (url r, se, hs, he)) /\ (hs < he <= length (url r))%nat /\
    slice (url r) hs he = Ok (hostname r) /\ all_ascii (hostname r) = true /\
    original_url r = u /\ url_lower_cased r = lower_str (url r).
Proof. exact host_is_slice. Qed.
Print Assumptions C12_host_is_slice.

(* supported_iff, ws_forces_websocket: the scheme is the text before the first ':' of the
   normalised URL; only http/https/ws/wss are eligible; ws/wss force the websocket type, every
   other scheme takes the type from cpt_match_type. *)
Theorem C12_supported_iff_and_ws_forces_websocket :
  forall idna psl hash tokenize, idna_contract idna -> psl_contract psl ->
  forall u s t r, Request_new idna psl hash tokenize u s t = Ok (Some r) ->
  exists scheme se hs he,
    scan idna u = Ok (POk (url r, se, hs, he)) /\ slice (url r) 0 se = Ok scheme /\ scheme <> [] /\
    find_byte COLON (url r) = Some se /\
    (is_supported r = true <-> In scheme supported_schemes) /\
    (is_http r = true <-> scheme = S_HTTP) /\ (is_https r = true <-> scheme = S_HTTPS) /\
    (In scheme websocket_schemes -> request_type_of r = RT_Websocket) /\
    (~ In scheme websocket_schemes -> request_type_of r = cpt_match_type t).
Proof. exact scheme_flags_of_request. Qed.
Print Assumptions C12_supported_iff_and_ws_forces_websocket.

(* The same table for an arbitrary schema string (what Request::preparsed can reach: the empty
   schema counts as https and supported). *)
Theorem C12_scheme_flags :
  forall schema t,
  let fl := scheme_flags schema t in
  (fst (fst (fst fl)) = true <-> schema = S_HTTP) /\
  (snd (fst (fst fl)) = true <-> schema = S_HTTPS \/ schema = []) /\
  (snd (fst fl) = true <-> schema = [] \/ In schema supported_schemes) /\
  (In schema websocket_schemes -> snd fl = RT_Websocket) /\
  (~ In schema websocket_schemes -> snd fl = cpt_match_type t).
Proof. exact scheme_flags_spec. Qed.
Print Assumptions C12_scheme_flags.

(* third-party iff the source does not parse, or the registrable domains (psl suffix of the two
   hostnames) differ as strings. *)
Theorem C12_third_party_iff :
  forall idna psl hash tokenize, idna_contract idna -> psl_contract psl ->
  forall u s t r, Request_new idna psl hash tokenize u s t = Ok (Some r) ->
  match parse_url idna psl s with
  | Ok None => is_third_party r = true
  | Ok (Some ps) =>
      exists sh, ru_hostname ps = Ok sh /\ ru_domain_str ps = Ok (domain_of psl sh) /\
                 (is_third_party r = true <-> domain_of psl sh <> domain_of psl (hostname r))
  | Panic _ => False
  end /\
  exists pu, parse_url idna psl u = Ok (Some pu) /\ ru_domain_str pu = Ok (domain_of psl (hostname r)).
Proof. exact third_party_iff. Qed.
Print Assumptions C12_third_party_iff.

(* the registrable domain is a label-aligned suffix of the hostname *)
Theorem C12_domain_is_label_suffix :
  forall psl, psl_contract psl -> forall host,
  exists pre, host = pre ++ domain_of psl host /\ (pre = [] \/ exists p, pre = p ++ [DOT]).
Proof. exact domain_of_suffix. Qed.
Print Assumptions C12_domain_is_label_suffix.

(* Request::preparsed on the parts of a Request::new result rebuilds the same request (every
   field; original_url is the normalised URL): the text before the first ':' is schema(). *)
Theorem C12_preparsed_eq_new :
  forall idna psl hash tokenize, idna_contract idna -> psl_contract psl ->
  forall u s t r, Request_new idna psl hash tokenize u s t = Ok (Some r) ->
  exists sh, source_hostname_of idna psl s = Ok sh /\
    Request_preparsed hash tokenize (url r) (hostname r) sh t (is_third_party r)
    = Ok (with_original r (url r)).
Proof. exact preparsed_eq_new. Qed.
Print Assumptions C12_preparsed_eq_new.

(* source_hostname_hashes = hash of the source hostname followed by the hashes of exactly its
   non-empty dot-suffixes; absent iff there is no source hostname. *)
Theorem C12_source_hashes_are_dot_suffixes :
  forall idna psl hash tokenize, idna_contract idna -> psl_contract psl ->
  forall u s t r, Request_new idna psl hash tokenize u s t = Ok (Some r) ->
  exists sh, source_hostname_of idna psl s = Ok sh /\
    match source_hostname_hashes r with
    | None => sh = []
    | Some hs => sh <> [] /\ exists l, hs = map hash (sh :: l) /\ forall x, In x l <-> dot_suffix_of sh x
    end.
Proof. exact source_hashes_are_dot_suffixes. Qed.
Print Assumptions C12_source_hashes_are_dot_suffixes.

(* Faithful normalisation (idn_punycode, host component), for every request that is built: the
   hostname is the host text of the input with tab/LF/CR dropped -- copied when ASCII, its idna
   image otherwise --, the normalised URL continues after the host with exactly what followed it in
   the input, which is empty or starts with : / ? # (\ for special schemes), and neither the host
   text nor the reported hostname contains / ? # @ (\).  (Findings F21 and F25 were fixed in /repo
   115106e; the former carve-outs are gone.) *)
Theorem C12_normalisation_faithful :
  forall idna psl hash tokenize, idna_contract idna -> psl_contract psl ->
  forall u s t r input,
  Request_new idna psl hash tokenize u s t = Ok (Some r) ->
  decode_utf8 u = Some input ->
  exists sp consumed rest_cps se hs he,
    scan idna u = Ok (POk (url r, se, hs, he)) /\
    suffix_of (consumed ++ rest_cps) (trim_input input) /\
    host_out idna (encode_all (host_filter consumed)) (hostname r) /\
    drop he (url r) = encode_all rest_cps /\
    existsb (host_forbidden sp) consumed = false /\
    (rest_cps = [] \/ exists c r', rest_cps = c :: r' /\ host_terminator sp c = true) /\
    existsb (host_forbidden sp) (hostname r) = false.
Proof. exact normalisation_faithful. Qed.
Print Assumptions C12_normalisation_faithful.

(* decidable corollary: from host_end on, the normalised URL is a suffix of the (trimmed) input *)
Theorem C12_rest_copied :
  forall idna input ser se hs he, idna_contract idna ->
  scan_chars idna input = POk (ser, se, hs, he) -> (hs < he)%nat ->
  is_suffixb (drop he ser) (encode_all (trim_input input)) = true.
Proof. exact rest_copied. Qed.
Print Assumptions C12_rest_copied.

(* the inputs of the former findings: F21 "http://a<TAB>b.com/x" now scans to host "ab.com";
   F25: an idna answer containing '/' is rejected and no request is built *)
Theorem C12_F21_input_now_handled :
  scan (fun _ => None) (bs "http://a" ++ [9] ++ bs "b.com/x") = Ok (POk (bs "http://ab.com/x", 4%nat, 7%nat, 13%nat)).
Proof. exact F21_input_now_handled. Qed.
Print Assumptions C12_F21_input_now_handled.

Theorem C12_F25_input_now_rejected :
  let idna := fun _ : str => Some (bs "xn--/b-9ia.com") in
  let u := hx "687474703a2f2fc3a9efbc8f622e636f6d2f78" in
  idna_contract idna /\ scan idna u = Ok (PErr IdnaError) /\
  Request_new idna psl_whole (fun _ => 0) (fun _ => []) u [] [] = Ok None.
Proof. exact F25_input_now_rejected. Qed.
Print Assumptions C12_F25_input_now_rejected.

(* the tables regenerated from /repo/src equal the hand-written ones *)
Theorem C12_cpt_table_is_L0 : cpt_table = cpt_table_L0 /\ cpt_default = RT_Other.
Proof. exact cpt_table_is_L0. Qed.
Print Assumptions C12_cpt_table_is_L0.

Theorem C12_url_tables_are_L0 :
  url_special_schemes = special_schemes_L0 /\ url_file_schemes = ["file"%string] /\
  url_ignored_next_utf8 = [9; 10; 13] /\ url_ignored_parse_host = [9; 10; 13] /\
  url_ignored_host_filter = [9; 10; 13] /\ url_trim_max = 32 /\
  (forall b, idna_rejected b = true <-> b <= 32 \/ b = 127 \/ In b (bs "#/:<>?@[\]^|")).
Proof. exact url_tables_are_L0. Qed.
Print Assumptions C12_url_tables_are_L0.

Theorem C12_userinfo_set_is_whatwg :
  forall b, b < 128 -> in_userinfo_set b = whatwg_userinfo_encode b.
Proof. exact userinfo_set_is_whatwg. Qed.
Print Assumptions C12_userinfo_set_is_whatwg.

(* ------------------------------------------------------------------ facts of the URL scanner used by
   C14's url tie: UTF-8 decode/encode round trip; the prefix rewritten by the normaliser holds no '?' *)
From Adb Require Import Base BaseProofs Generated Hashing Net_Model Net_Proofs Engine_Model Engine_Proofs Tok_Proofs Tok_Ext_Model Tok_Ext_Proofs C14_Relevant_Model C14_Relevant_Proofs C14_UrlTie_Model C14_UrlTie_Proofs.
From Adb Require C03_Model C12_Model C13_Model C14_Model.

Theorem C12_utf8_round_trip :
  forall (s : str) (l : list N), C12_Model.decode_utf8 s = Some l -> C12_Model.encode_all l = s.
Proof. exact Scan.decode_encode. Qed.
Print Assumptions C12_utf8_round_trip.

Theorem C12_scan_copies_from_first_qmark :
  forall (idna : str -> option str) (u ser : str) (se hs he : nat),
  C12_Model.scan idna u = Ok (C12_Model.POk (ser, se, hs, he)) ->
  (hs < he)%nat ->
  exists A B C scheme P : list N,
    u = A ++ B ++ C /\
    ~ In C12_Model.QMARK A /\
    forallb (fun c : N => (c <=? 32)%N) C = true /\
    ser = scheme ++ C12_Model.COLON :: P ++ B /\ se = length scheme /\ scheme <> [].
Proof. exact Scan.scan_shape. Qed.
Print Assumptions C12_scan_copies_from_first_qmark.


(* `Request::preparsed` re-read from src/request.rs on every run (Generated.RequestGen): the scheme
   is cut at the first ':' (offset 0 when there is none), the arguments are handed on in the order
   the model uses — it IS C12_Model.Request_preparsed for every input *)
From Adb Require Struct_Request12_Proofs.
Theorem C12_src_preparsed_is_model :
  forall (h : str -> N) (tokenize : str -> list N)
         (url hostname source_hostname request_type : str) (third_party : bool),
  Struct_Request12_Proofs.interp_preparsed h tokenize url hostname source_hostname request_type third_party =
  C12_Model.Request_preparsed h tokenize url hostname source_hostname request_type third_party.
Proof. exact Struct_Request12_Proofs.interp_preparsed_is_model. Qed.
Print Assumptions C12_src_preparsed_is_model.
