(* C05_Order_Proofs.v — optimisation does not change the ORDER in which rules that are never fused
   (redirect and csp rules) are delivered: a list holding only such rules, with buckets strictly
   sorted by id (what insert_dup builds), is left untouched by NetworkFilterList::optimize.  So the
   redirect answer — which among equal priorities depends on delivery order — is literally the same
   with and without optimisation.  Before /repo e89168f the rules stored in several buckets were
   moved to the end of their bucket (finding F31: `$script,~image,redirect=noop.js,domain=a.com|b.com`
   + `$script,redirect=noop.txt,domain=a.com`, script request from a.com: noop.js unoptimised,
   noop.txt optimised). *)
From Coq Require Import Lia ZifyBool ZifyNat ZifyN.
From Adb Require Import Base BaseProofs Generated Hashing Net_Model C05_Model C05_Proofs.

Fixpoint sorted_ids (l : list rule) : Prop :=
  match l with
  | [] => True
  | x :: r => (forall y, In y r -> (rid x < rid y)%N) /\ sorted_ids r
  end.

Lemma insert_below x l : (forall y, In y l -> (rid x <= rid y)%N) -> insert_by_id x l = x :: l.
Proof.
  destruct l as [|g r]; [reflexivity|]. intros H. cbn [insert_by_id].
  assert (Hg : (rid x <= rid g)%N) by (apply H; left; reflexivity).
  destruct (N.leb_spec (rid x) (rid g)); [reflexivity|lia].
Qed.

Lemma insert_above a x l : (rid x < rid a)%N -> insert_by_id a (x :: l) = x :: insert_by_id a l.
Proof.
  intros H. cbn [insert_by_id]. destruct (N.leb_spec (rid a) (rid x)); [lia|reflexivity].
Qed.

(* an element below everything else comes out first, wherever it stood *)
Lemma sort_app_cons A x B :
  (forall a, In a A -> (rid x < rid a)%N) -> (forall b, In b B -> (rid x < rid b)%N) ->
  sort_by_id (A ++ x :: B) = x :: sort_by_id (A ++ B).
Proof.
  induction A as [|a A IH]; intros HA HB.
  - cbn [app]. change (sort_by_id (x :: B)) with (insert_by_id x (sort_by_id B)).
    apply insert_below. intros y Hy. apply (proj1 (sort_by_id_in _ _)) in Hy. specialize (HB y Hy). lia.
  - cbn [app]. change (sort_by_id (a :: A ++ x :: B)) with (insert_by_id a (sort_by_id (A ++ x :: B))).
    rewrite IH; [|intros a' Ha'; apply HA; right; exact Ha'|exact HB].
    rewrite insert_above; [|apply HA; left; reflexivity].
    reflexivity.
Qed.

Lemma sort_sorted l : sorted_ids l -> sort_by_id l = l.
Proof.
  induction l as [|x r IH]; [reflexivity|]. intros [Hx Hr].
  change (sort_by_id (x :: r)) with (insert_by_id x (sort_by_id r)). rewrite (IH Hr).
  apply insert_below. intros y Hy. specialize (Hx y Hy). lia.
Qed.

Lemma sorted_filter p l : sorted_ids l -> sorted_ids (filter p l).
Proof.
  induction l as [|x r IH]; [auto|]. intros [Hx Hr]. cbn [filter]. destruct (p x).
  - split; [|apply IH; exact Hr]. intros y Hy. apply filter_In in Hy. apply Hx. tauto.
  - apply IH; exact Hr.
Qed.

(* splitting a sorted bucket by any predicate and sorting the two halves glued together gives it back *)
Lemma sort_split p l : sorted_ids l ->
  sort_by_id (filter p l ++ filter (fun f => negb (p f)) l) = l.
Proof.
  induction l as [|x r IH]; [reflexivity|]. intros [Hx Hr]. cbn [filter]. destruct (p x) eqn:E; cbn [negb].
  - cbn [app].
    change (sort_by_id (x :: filter p r ++ filter (fun f => negb (p f)) r))
      with (insert_by_id x (sort_by_id (filter p r ++ filter (fun f => negb (p f)) r))).
    rewrite (IH Hr). apply insert_below. intros y Hy. specialize (Hx y Hy). lia.
  - rewrite sort_app_cons.
    + rewrite (IH Hr). reflexivity.
    + intros a Ha. apply filter_In in Ha. apply Hx. tauto.
    + intros b Hb. apply filter_In in Hb. apply Hx. tauto.
Qed.

(* optimizer::optimize on rules none of which may be fused: they come back sorted by id *)
Lemma groups_of_nil : groups_of [] = [].
Proof. reflexivity. Qed.
Lemma filter_all_false {A} (p : A -> bool) l : (forall x, In x l -> p x = false) -> filter p l = [].
Proof.
  induction l as [|x r IH]; [reflexivity|]. intros H. cbn [filter]. rewrite (H x (or_introl eq_refl)).
  apply IH. intros y Hy. apply H. right. exact Hy.
Qed.
Lemma filter_all_true {A} (p : A -> bool) l : (forall x, In x l -> p x = true) -> filter p l = l.
Proof.
  induction l as [|x r IH]; [reflexivity|]. intros H. cbn [filter]. rewrite (H x (or_introl eq_refl)).
  f_equal. apply IH. intros y Hy. apply H. right. exact Hy.
Qed.
Lemma optimize_unselectable_sorted fs :
  (forall f, In f fs -> opt_select f = false) -> sorted_ids fs -> optimize fs = fs.
Proof.
  intros H S. unfold optimize. rewrite (filter_all_false opt_select fs H). cbn [groups_of fold_left flat_map app].
  rewrite filter_all_true; [|intros x Hx; rewrite (H x Hx); reflexivity].
  rewrite app_nil_r. apply sort_sorted. exact S.
Qed.

(* the whole list *)
Definition unselectable_map (m : fmap) : Prop := forall kb, In kb m -> forall f, In f (snd kb) -> opt_select f = false.
Definition sorted_map (m : fmap) : Prop := forall kb, In kb m -> sorted_ids (snd kb).

Theorem fl_optimize_unselectable_id m : unselectable_map m -> sorted_map m -> fl_optimize m = m.
Proof.
  intros U S. unfold fl_optimize.
  transitivity (map (fun kb : N * list rule => kb) m); [|apply map_id].
  apply map_ext_in. intros [k b] Hkb. cbn [fst snd].
  f_equal.
  set (p := fun f : rule => Nat.eqb (occurrences m (rid f)) 1).
  assert (Sb : sorted_ids b) by exact (S (k, b) Hkb).
  assert (Ub : forall f, In f (filter p b) -> opt_select f = false).
  { intros f Hf. apply filter_In in Hf. exact (U (k, b) Hkb f (proj1 Hf)). }
  assert (E : (if Nat.ltb 1 (length (filter p b)) then optimize (filter p b) else filter p b) = filter p b).
  { destruct (Nat.ltb 1 (length (filter p b))); [|reflexivity].
    apply optimize_unselectable_sorted; [exact Ub|apply sorted_filter; exact Sb]. }
  rewrite E. apply sort_split. exact Sb.
Qed.

(* buckets built by insert_dup are strictly sorted *)
Lemma ins_sorted_in f b x : In x (ins_sorted f b) -> x = f \/ In x b.
Proof.
  induction b as [|g r IH]; cbn [ins_sorted]; [intros [<-|[]]; auto|].
  destruct (N.ltb (rid f) (rid g)); [intros [<-|H]; auto|].
  destruct (N.eqb (rid f) (rid g)); [auto|]. intros [<-|H]; [right; left; reflexivity|].
  destruct (IH H); auto. right. right. assumption.
Qed.
Lemma ins_sorted_sorted f b : sorted_ids b -> sorted_ids (ins_sorted f b).
Proof.
  induction b as [|g r IH]; cbn [ins_sorted]; [intros _; split; [intros y []|exact I]|].
  intros [Hg Hr]. destruct (N.ltb_spec (rid f) (rid g)).
  - split; [|split; assumption]. intros y [<-|Hy]; [assumption|]. specialize (Hg y Hy). lia.
  - destruct (N.eqb_spec (rid f) (rid g)); [split; assumption|].
    split; [|apply IH; exact Hr]. intros y Hy. destruct (ins_sorted_in _ _ _ Hy) as [->|Hy']; [lia|apply Hg; exact Hy'].
Qed.
Lemma insert_dup_sorted m k f : sorted_map m -> sorted_map (insert_dup m k f).
Proof.
  induction m as [|[k' b] r IH]; cbn [insert_dup]; intros S.
  - intros kb [<-|[]]. cbn. split; [intros y []|exact I].
  - destruct (N.eqb k k').
    + intros kb [<-|H]; [cbn; apply ins_sorted_sorted; exact (S (k', b) (or_introl eq_refl))|apply S; right; exact H].
    + intros kb [<-|H]; [exact (S (k', b) (or_introl eq_refl))|].
      apply IH; [|exact H]. intros kb' H'. apply S. right. exact H'.
Qed.
Lemma fold_insert_sorted cnt total (gs : list (list N)) f : forall m,
  sorted_map m -> sorted_map (fold_left (fun m g => insert_dup m (best_token cnt total g) f) gs m).
Proof.
  induction gs as [|g r IH]; cbn [fold_left]; intros m S; [exact S|].
  apply IH. apply insert_dup_sorted. exact S.
Qed.
Theorem fl_new_sorted h L : sorted_map (fl_new h L).
Proof.
  unfold fl_new. destruct (histogram h L) as [total cnt].
  assert (G : forall L' m, sorted_map m -> sorted_map (fold_left (place h cnt total) L' m)).
  { induction L' as [|f r IH]; cbn [fold_left]; intros m S; [exact S|].
    apply IH. unfold place. apply fold_insert_sorted. exact S. }
  apply G. intros kb [].
Qed.

(* redirect and csp rules are never selected *)
Lemma redirect_unselectable f : is_redirect f = true -> opt_select f = false.
Proof.
  intros H. unfold opt_select. destruct (rdomains f), (rnotdomains f); try reflexivity. rewrite H.
  destruct (flag f M_IS_HOSTNAME_ANCHOR), (is_csp f); reflexivity.
Qed.
Lemma csp_unselectable f : is_csp f = true -> opt_select f = false.
Proof.
  intros H. unfold opt_select. destruct (rdomains f), (rnotdomains f); try reflexivity. rewrite H.
  destruct (flag f M_IS_HOSTNAME_ANCHOR), (is_redirect f); reflexivity.
Qed.

(* every rule stored by fl_new comes from the list it was built from *)
Definition all_in (P : rule -> Prop) (m : fmap) : Prop := forall kb, In kb m -> forall f, In f (snd kb) -> P f.
Lemma insert_dup_all_in (P : rule -> Prop) m k f : P f -> all_in P m -> all_in P (insert_dup m k f).
Proof.
  intros Pf. induction m as [|[k' b] r IH]; cbn [insert_dup]; intros A.
  - intros kb [<-|[]] g [<-|[]]. exact Pf.
  - destruct (N.eqb k k').
    + intros kb [<-|H] g Hg.
      * cbn in Hg. destruct (ins_sorted_in _ _ _ Hg) as [->|Hb]; [exact Pf|]. exact (A (k', b) (or_introl eq_refl) g Hb).
      * exact (A kb (or_intror H) g Hg).
    + intros kb [<-|H] g Hg; [exact (A (k', b) (or_introl eq_refl) g Hg)|].
      apply (IH (fun kb' H' => A kb' (or_intror H')) kb H g Hg).
Qed.
Theorem fl_new_all_in h (P : rule -> Prop) L : (forall f, In f L -> P f) -> all_in P (fl_new h L).
Proof.
  intros HP. unfold fl_new. destruct (histogram h L) as [total cnt].
  assert (G : forall L' m, (forall f, In f L' -> P f) -> all_in P m -> all_in P (fold_left (place h cnt total) L' m)).
  { induction L' as [|f r IH]; cbn [fold_left]; intros m HL A; [exact A|].
    apply IH; [intros g Hg; apply HL; right; exact Hg|].
    unfold place. generalize (get_tokens h f) as gs. intros gs. revert m A.
    induction gs as [|g gs IHg]; cbn [fold_left]; intros m A; [exact A|].
    apply IHg. apply insert_dup_all_in; [apply HL; left; reflexivity|exact A]. }
  apply G; [exact HP|]. intros kb [].
Qed.

(* ---------------------------------------------------------------- the engine built from a list:
   the redirects list and the csp list are literally unchanged by optimisation *)
Section EngineLists.
Variable h : str -> N.
Variable L : list rule.
Variable T : list str.
Let B := tags_with_set h (blocker_new h L) T.

Theorem redirects_list_unchanged : b_redirects (blocker_optimize B) = b_redirects B.
Proof.
  unfold B, blocker_optimize, tags_with_set, blocker_new. cbn [b_redirects].
  apply fl_optimize_unselectable_id; [|apply fl_new_sorted].
  intros kb Hkb f Hf. apply redirect_unselectable.
  apply (fl_new_all_in h (fun f => is_redirect f = true) (filter is_redirect (live L))
           (fun g Hg => proj2 (proj1 (filter_In _ _ _) Hg)) kb Hkb f Hf).
Qed.

Theorem csp_list_unchanged : b_csp (blocker_optimize B) = b_csp B.
Proof.
  unfold B, blocker_optimize, tags_with_set, blocker_new. cbn [b_csp].
  apply fl_optimize_unselectable_id; [|apply fl_new_sorted].
  intros kb Hkb f Hf. apply csp_unselectable.
  assert (A : all_in (fun f => category_of f = CCsp) (fl_new h (of_cat CCsp L))).
  { apply fl_new_all_in. intros g Hg. unfold of_cat in Hg. apply filter_In in Hg as [_ Hg].
    destruct (category_of g); cbn in Hg; try discriminate. reflexivity. }
  specialize (A kb Hkb f Hf). unfold category_of in A. destruct (is_csp f); [reflexivity|].
  destruct (is_removeparam f); [discriminate|]. destruct (is_generic_hide f); [discriminate|].
  destruct (is_exception f); [discriminate|]. destruct (_ && _); [discriminate|].
  destruct (_ && _); [discriminate|]. destruct (_ || _); discriminate.
Qed.

(* hence the same rules are delivered in the same order: redirect choice (ties included) and the
   CSP directive list are identical with and without optimisation *)
Theorem redirect_hits_unchanged matches pr :
  redirect_hits matches pr (blocker_optimize B) = redirect_hits matches pr B.
Proof. unfold redirect_hits. rewrite redirects_list_unchanged. reflexivity. Qed.
Theorem csp_hits_unchanged matches pr :
  csp_hits matches pr (blocker_optimize B) = csp_hits matches pr B.
Proof. unfold csp_hits. rewrite csp_list_unchanged. reflexivity. Qed.
Theorem removeparam_hits_unchanged matches pr :
  removeparam_hits matches pr (blocker_optimize B) = removeparam_hits matches pr B.
Proof. reflexivity. Qed.
End EngineLists.
