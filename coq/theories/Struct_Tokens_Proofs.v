(* Struct_Tokens_Proofs.v — tie between the control structure of NetworkFilter::get_tokens as the
   translator extracts it on every run (Generated.TokensGen: the token sources in source order
   with their guards, the skip_first / skip_last expressions, the dispatch condition, the scheme
   chain) and the hand-written Net_Model.get_tokens, on which the token guarantee (Tok_*_Proofs)
   and the index theorems (Net_Proofs) are stated.
   [interp] runs the extracted structure over a model rule; [interp_is_model] shows that it is
   Net_Model.get_tokens for EVERY rule and every hash function.  A reordered statement, an altered
   guard, swapped tokenizer flags or a dropped validation changes the generated data and breaks it. *)
From Coq Require Import String.
From Adb Require Import Base Generated Hashing Net_Model.
Import TokensGen.
Local Open Scope string_scope.
Local Open Scope list_scope.

(* the predicates a guard may read; [empty] = tokens.is_empty() at that point *)
Definition tatom_val (f : rule) (empty : bool) (a : tatom) : bool :=
  match a with
  | T_domains_some => match rdomains f with Some _ => true | None => false end
  | T_not_domains_none => match rnotdomains f with None => true | Some _ => false end
  | T_one_domain => match rdomains f with Some ds => Nat.eqb (List.length ds) 1 | None => false end
  | T_complete_regex => is_complete_regex f
  | T_plain => negb (is_regex f)               (* fn is_plain(&self) { !self.is_regex() } *)
  | T_regex => is_regex f
  | T_right_anchor => is_right_anchor f
  | T_left_anchor => is_left_anchor f
  | T_hostname_regex => flag f M_IS_HOSTNAME_REGEX
  | T_removeparam => is_removeparam f
  | T_tokens_empty => empty
  | T_for_http => flag f M_FROM_HTTP
  | T_for_https => flag f M_FROM_HTTPS
  end.
Fixpoint teval (f : rule) (empty : bool) (c : tcond) : bool :=
  match c with
  | TTrue => true
  | TAtom a => tatom_val f empty a
  | TNot c => negb (teval f empty c)
  | TAnd a b => teval f empty a && teval f empty b
  | TOr a b => teval f empty a || teval f empty b
  end.

Section Interp.
Variable h : str -> N.

(* what each token source appends once its guard holds *)
Definition source (f : rule) (name : string) : list N :=
  if String.eqb name "domain" then
    match rdomains f with Some (d :: _) => [d] | _ => [] end          (* domains.first() *)
  else if String.eqb name "pattern" then
    match rfilter f with
    | FSimple s => map h (tokenize_filter s (teval f false skip_first) (teval f false skip_last))
    | _ => []
    end
  else if String.eqb name "hostname" then
    match rhost f with Some hn => map h (tokenize hn) | None => [] end
  else if String.eqb name "param" then
    match rmod f with
    | Some p => if negb param_validated || valid_param p
                then map h (tokenize (if param_lowercased then lower_str p else p)) else []
    | None => []
    end
  else [].

Fixpoint run_steps (f : rule) (st : list (string * tcond)) (toks : list N) : list N :=
  match st with
  | [] => toks
  | (name, c) :: r => run_steps f r (toks ++ (if teval f (nullb toks) c then source f name else []))
  end.

Fixpoint run_scheme (f : rule) (ch : list (tcond * string)) : list N :=
  match ch with
  | [] => []
  | (c, name) :: r => if teval f false c then [h (bs name)] else run_scheme f r
  end.

Definition interp (f : rule) : list (list N) :=
  let toks := run_steps f steps [] in
  if teval f (nullb toks) dispatch
  then map (fun d => [d]) (match rdomains f with Some ds => ds | None => [] end)
  else [toks ++ run_scheme f scheme_chain].

Lemma app_nil_l3 {A} (a b : list A) : nullb (a ++ b) = nullb a && nullb b.
Proof. destruct a; reflexivity. Qed.

(* the extracted structure denotes the model, for every rule *)
Theorem interp_is_model f : interp f = get_tokens h f.
Proof.
  unfold interp, get_tokens.
  unfold steps, dispatch, scheme_chain. cbn [run_steps run_scheme].
  unfold source. cbn [String.eqb Ascii.eqb Bool.eqb].
  unfold skip_first, skip_last, param_validated, param_lowercased.
  cbn [teval tatom_val negb orb andb nullb app].
  (* the three unconditional sources, one at a time *)
  set (D := if _ && _ && _ then match rdomains f with Some (d :: _) => [d] | _ => [] end else []).
  assert (HD : D = match rdomains f, rnotdomains f with Some [d], None => [d] | _, _ => [] end).
  { subst D. destruct (rdomains f) as [[|d [|d' ds]]|], (rnotdomains f); reflexivity. }
  set (P := if negb (is_complete_regex f) then match rfilter f with FSimple s => _ | _ => [] end else []).
  assert (HP : P = match rfilter f with
                   | FSimple s => if is_complete_regex f then []
                                  else map h (tokenize_filter s (negb (is_left_anchor f)) (negb (is_right_anchor f)))
                   | _ => [] end).
  { subst P. destruct (is_complete_regex f), (rfilter f), (is_regex f); reflexivity. }
  set (H := if negb (flag f M_IS_HOSTNAME_REGEX) then _ else []).
  assert (HH : H = if flag f M_IS_HOSTNAME_REGEX then []
                   else match rhost f with Some hn => map h (tokenize hn) | None => [] end).
  { subst H. destruct (flag f M_IS_HOSTNAME_REGEX); reflexivity. }
  rewrite <- HD, <- HP, <- HH. clearbody D P H. clear HD HP HH.
  rewrite <- (app_assoc D P H). generalize (D ++ P ++ H). intros X.
  destruct X as [|x X]; cbn [nullb andb app].
  - destruct (is_removeparam f); cbn [nullb andb app].
    + destruct (rmod f) as [p|]; [destruct (valid_param p)|]; cbn [nullb andb app];
        try (destruct (map h (tokenize (lower_str p))) as [|y Y]; cbn [nullb andb app]);
        destruct (rdomains f) as [ds|], (rnotdomains f) as [nd|]; cbn [andb];
        destruct (flag f M_FROM_HTTP), (flag f M_FROM_HTTPS); reflexivity.
    + destruct (rdomains f) as [ds|], (rnotdomains f) as [nd|]; cbn [andb];
        destruct (flag f M_FROM_HTTP), (flag f M_FROM_HTTPS); reflexivity.
  - rewrite app_nil_r.
    destruct (rdomains f) as [ds|], (rnotdomains f) as [nd|]; cbn [andb];
      destruct (flag f M_FROM_HTTP), (flag f M_FROM_HTTPS); reflexivity.
Qed.
End Interp.

(* what the tokenizer flags are, spelled out: skip_last is `!right_anchor` because
   (is_plain || is_regex) is a tautology, skip_first is `!left_anchor` *)
Theorem skip_flags f :
  teval f false skip_first = negb (is_left_anchor f) /\ teval f false skip_last = negb (is_right_anchor f).
Proof.
  unfold skip_first, skip_last. cbn [teval tatom_val]. split; [reflexivity|].
  destruct (is_regex f); reflexivity.
Qed.

(* the parameter-name fallback only applies to a rule without any other token, is validated and
   lower-cased; fused rules (AnyOf) and complete regexes contribute no pattern token *)
Theorem param_fallback_guard :
  In ("param", TAnd (TAtom T_tokens_empty) (TAtom T_removeparam)) steps
  /\ param_validated = true /\ param_lowercased = true.
Proof. cbv. repeat split; auto 10. Qed.
