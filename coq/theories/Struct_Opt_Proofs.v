(* Struct_Opt_Proofs.v — tie between the structure of src/optimizer.rs as the translator extracts
   it on every run (Generated.OptGen: the `select` condition, the components of the grouping key,
   how `fusion` flattens the members' patterns, which FilterPart variant it builds, which mask
   bits it recomputes, the group size from which groups are fused) and the hand-written
   C05_Model (opt_select / same_key / fusion / optimize).
   [interp_select], [interp_same_key] and [interp_fusion] run the extracted structure over the
   model's rules; the theorems show that they ARE the model's functions for every rule and group.
   A dropped conjunct of `select`, a key that forgets the tag, a variant of FilterPart that
   contributes something else, a fused rule that takes its options from another member, or a
   mask bit computed with `all` changes the generated data and breaks a proof. *)
From Coq Require Import String Lia.
From Adb Require Import Base Generated Hashing Net_Model C05_Model.
Import OptGen.
Local Open Scope string_scope.
Local Open Scope list_scope.

(* ---- select ---- *)
Definition satom_val (f : rule) (a : satom) : bool :=
  match a with
  | S_domains_none => match rdomains f with None => true | Some _ => false end
  | S_not_domains_none => match rnotdomains f with None => true | Some _ => false end
  | S_hostname_anchor => flag f M_IS_HOSTNAME_ANCHOR
  | S_redirect => is_redirect f
  | S_csp => is_csp f
  | S_removeparam => is_removeparam f
  | S_important => is_important f
  | S_exception => is_exception f
  | S_regex => is_regex f
  | S_complete_regex => is_complete_regex f
  | S_tag_none => match rtag f with None => true | Some _ => false end
  end.
Fixpoint seval (f : rule) (c : scond) : bool :=
  match c with
  | SAtom a => satom_val f a
  | SNot c => negb (seval f c)
  | SAnd a b => seval f a && seval f b
  | SOr a b => seval f a || seval f b
  end.
Definition interp_select (f : rule) : bool := seval f select_cond.

Theorem interp_select_is_model f : interp_select f = opt_select f.
Proof.
  unfold interp_select, select_cond, opt_select. cbn [seval satom_val].
  (* by cases on every atom, so that a reordering of the conjuncts in the source is harmless *)
  destruct (rdomains f), (rnotdomains f), (flag f M_IS_HOSTNAME_ANCHOR), (is_redirect f), (is_csp f); reflexivity.
Qed.

(* ---- the grouping key: two rules share a group iff every component of the key agrees ---- *)
Definition key_component_eqb (n : string) (f g : rule) : option bool :=
  if String.eqb n "mask" then Some (N.eqb (rmask f) (rmask g))
  else if String.eqb n "tag" then Some (opt_eqb str_eqb (rtag f) (rtag g))
  else if String.eqb n "is_complete_regex" then Some (Bool.eqb (is_complete_regex f) (is_complete_regex g))
  else if String.eqb n "is_regex" then Some (Bool.eqb (is_regex f) (is_regex g))
  else None.
Fixpoint interp_same_key_of (ks : list string) (f g : rule) : option bool :=
  match ks with
  | [] => Some true
  | k :: r => match key_component_eqb k f g, interp_same_key_of r f g with
              | Some a, Some b => Some (a && b)
              | _, _ => None
              end
  end.
Definition interp_same_key := interp_same_key_of group_key.

(* is_complete_regex is a bit of the mask: it adds nothing to a key that contains the mask *)
Lemma same_mask_same_flag f g bit : N.eqb (rmask f) (rmask g) = true -> flag f bit = flag g bit.
Proof. intro H. apply N.eqb_eq in H. unfold flag. rewrite H. reflexivity. Qed.

Theorem interp_same_key_is_model f g : interp_same_key f g = Some (same_key f g).
Proof.
  unfold interp_same_key, group_key, same_key.
  cbn [interp_same_key_of key_component_eqb String.eqb Ascii.eqb Bool.eqb].
  destruct (N.eqb (rmask f) (rmask g)) eqn:Hm; cbn [andb]; [|reflexivity].
  unfold is_complete_regex. rewrite (same_mask_same_flag f g _ Hm), Bool.eqb_reflx.
  cbn [andb]. rewrite Bool.andb_true_r. reflexivity.
Qed.

(* the key contains the mask and the tag (what the fusion theorems of C05 need) *)
Theorem key_has_mask_and_tag :
  existsb (String.eqb "mask") group_key = true /\ existsb (String.eqb "tag") group_key = true.
Proof. split; reflexivity. Qed.

(* ---- fusion ---- *)
Definition lookup (k : string) (l : list (string * string)) : string :=
  match find (fun kv => String.eqb (fst kv) k) l with Some kv => snd kv | None => "" end.

(* what one member contributes to the flattened pattern list, per the extracted match arms *)
Definition contribution (f : rule) : option (list str) :=
  let act v := lookup v fusion_contribution in
  match rfilter f with
  | FEmpty => if String.eqb (act "Empty") "nothing" then Some [] else None
  | FSimple s => if String.eqb (act "Simple") "push" then Some [s] else None
  | FAnyOf l => if String.eqb (act "AnyOf") "extend" then Some l else None
  end.
Fixpoint flatten (g : list rule) : option (list str) :=
  match g with
  | [] => Some []
  | f :: r => match contribution f, flatten r with
              | Some a, Some b => Some (a ++ b)
              | _, _ => None
              end
  end.
Definition variant (n : string) (l : list str) : option fpart :=
  let v := lookup n fusion_shape in
  if String.eqb v "Empty" then Some FEmpty
  else if String.eqb v "Simple" then match l with s :: _ => Some (FSimple s) | [] => None end
  else if String.eqb v "AnyOf" then Some (FAnyOf l)
  else None.
Definition shape_of (l : list str) : option fpart :=
  match l with
  | [] => variant "0" l
  | [_] => variant "1" l
  | _ => variant "many" l
  end.
Definition member_pred (p : string) : option (rule -> bool) :=
  if String.eqb p "is_regex" then Some is_regex
  else if String.eqb p "is_complete_regex" then Some is_complete_regex
  else None.
Definition bit_named (b : string) : option N :=
  if String.eqb b "IS_REGEX" then Some M_IS_REGEX
  else if String.eqb b "IS_COMPLETE_REGEX" then Some M_IS_COMPLETE_REGEX
  else None.
Fixpoint apply_bits (bits : list (string * string)) (g : list rule) (m : N) : option N :=
  match bits with
  | [] => Some m
  | (b, p) :: r => match bit_named b, member_pred p with
                   | Some bit, Some pr => apply_bits r g (set_bit m bit (existsb pr g))
                   | _, _ => None
                   end
  end.

Definition interp_fusion (g : list rule) : option rule :=
  match g with
  | [] => None
  | base :: _ =>
      if negb (String.eqb fusion_base "first") then None else
      let filt :=
        if fusion_empty_if_any_member_empty && existsb is_fempty g then Some FEmpty
        else match flatten g with Some l => shape_of l | None => None end in
      match filt, apply_bits fusion_mask_bits g (rmask base) with
      | Some fp, Some m =>
          Some {| rid := rid base; rmask := m; rfilter := fp; rhost := rhost base;
                  rdomains := rdomains base; rnotdomains := rnotdomains base;
                  rmod := rmod base; rtag := rtag base |}
      | _, _ => None
      end
  end.

Lemma contribution_is_patterns f : contribution f = Some (patterns_of f).
Proof. unfold contribution, patterns_of. destruct (rfilter f); reflexivity. Qed.
Lemma flatten_is_flat_map g : flatten g = Some (flat_map patterns_of g).
Proof.
  induction g as [|f r IH]; cbn [flatten flat_map]; [reflexivity|].
  rewrite contribution_is_patterns, IH. reflexivity.
Qed.
Lemma shape_of_is_model l :
  shape_of l = Some (match l with [] => FEmpty | [s] => FSimple s | _ => FAnyOf l end).
Proof. destruct l as [|a [|b r]]; reflexivity. Qed.

Theorem interp_fusion_is_model g : interp_fusion g = fusion g.
Proof.
  destruct g as [|base r]; [reflexivity|].
  unfold interp_fusion, fusion, fusion_base, fusion_empty_if_any_member_empty, fusion_mask_bits.
  cbn [String.eqb Ascii.eqb Bool.eqb negb andb apply_bits bit_named member_pred].
  rewrite flatten_is_flat_map, shape_of_is_model.
  destruct (existsb is_fempty (base :: r)); [reflexivity|].
  destruct (flat_map patterns_of (base :: r)) as [|a [|b t]]; reflexivity.
Qed.

(* groups of two and more are fused, single rules are handed back; the result is sorted by id *)
Theorem apply_structure_is_model :
  fuse_groups_larger_than = 1%N /\ optimize_final_sort = "id".
Proof. split; reflexivity. Qed.

(* ---- NetworkFilterList::optimize, bucket by bucket, from the steps the translator extracts
   (Generated.ListGen.optimize_steps / optimize_threshold / optimize_sorts_by) ---- *)
Record bucket_state := { bs_owned : list rule; bs_shared : list rule; bs_cur : list rule }.
Definition bucket_step (m : fmap) (bucket : list rule) (st : string) (s : bucket_state) : option bucket_state :=
  if String.eqb st "split owned/shared" then
    Some {| bs_owned := filter (fun f => Nat.eqb (occurrences m (rid f)) 1) bucket;
            bs_shared := filter (fun f => negb (Nat.eqb (occurrences m (rid f)) 1)) bucket;
            bs_cur := bs_cur s |}
  else if String.eqb st "owned>threshold: optimizer::optimize, else unchanged" then
    Some {| bs_owned := bs_owned s; bs_shared := bs_shared s;
            bs_cur := if N.ltb ListGen.optimize_threshold (N.of_nat (length (bs_owned s)))
                      then optimize (bs_owned s) else bs_owned s |}
  else if String.eqb st "append shared" then
    Some {| bs_owned := bs_owned s; bs_shared := bs_shared s; bs_cur := bs_cur s ++ bs_shared s |}
  else if String.eqb st "sort" then
    (if String.eqb ListGen.optimize_sorts_by "id"
     then Some {| bs_owned := bs_owned s; bs_shared := bs_shared s; bs_cur := sort_by_id (bs_cur s) |}
     else None)
  else if String.eqb st "store under the same key" then Some s
  else if String.eqb st "replace the map" then Some s
  else None.
Fixpoint bucket_steps (m : fmap) (bucket : list rule) (sts : list string) (s : bucket_state) : option bucket_state :=
  match sts with
  | [] => Some s
  | st :: r => match bucket_step m bucket st s with Some s' => bucket_steps m bucket r s' | None => None end
  end.
Definition interp_bucket (m : fmap) (bucket : list rule) : option (list rule) :=
  match bucket_steps m bucket ListGen.optimize_steps {| bs_owned := []; bs_shared := []; bs_cur := [] |} with
  | Some s => Some (bs_cur s) | None => None end.

Lemma ltb_1_length {A} (l : list A) : N.ltb 1 (N.of_nat (length l)) = Nat.ltb 1 (length l).
Proof.
  destruct (N.ltb_spec 1 (N.of_nat (length l))); destruct (Nat.ltb_spec 1 (length l)); try reflexivity; lia.
Qed.

(* every bucket: the extracted steps give exactly the model's bucket, under the same key *)
Theorem interp_fl_optimize_is_model m :
  map (fun kb => match interp_bucket m (snd kb) with Some b => Some (fst kb, b) | None => None end) m
  = map Some (fl_optimize m).
Proof.
  unfold fl_optimize. rewrite map_map. apply map_ext. intro kb.
  unfold interp_bucket, ListGen.optimize_steps, ListGen.optimize_threshold, ListGen.optimize_sorts_by.
  cbn [bucket_steps bucket_step String.eqb Ascii.eqb Bool.eqb bs_owned bs_shared bs_cur].
  rewrite ltb_1_length. reflexivity.
Qed.
