(* Struct_Storage_Proofs.v — tie between the redirect side of src/resources/resource_storage.rs as
   the translator extracts it on every run (Generated.Storage13Gen: the gates of
   get_redirect_resource in source order and the pieces of the data URL; Generated.AddResGen: the
   statements of add_resource in source order) and C13_Model.
   [interp_get_redirect_is_model]: the gates, run in order over the looked-up resource, ARE
   get_redirect_resource — a resource that requires any permission is never served as a redirect,
   whatever its kind.  [interp_add13_is_model]: the statements of add_resource, run over the two
   maps with a rejection returning the store as it is at that point, ARE C13_Model.add_resource. *)
From Coq Require Import String ZArith.
From Adb Require Import Base Generated C13_Model.
Import Storage13Gen.
Local Open Scope string_scope.
Local Open Scope list_scope.

Definition gate_passes (r : resource) (g : rgate) : bool :=
  match g with
  | G_permission_is_default => N.eqb (r_permission r) 0
  | G_kind_supports_redirect => supports_redirect (r_kind r)
  end.
Definition interp_data_url (m : mime_type) (content : str) : str :=
  bs url_prefix ++ bs (mime_to_string m) ++ bs url_infix ++ content ++ bs url_suffix.
Definition interp_get_redirect (st : storage) (ident : str) : option str :=
  match get_internal_resource st ident with
  | None => None
  | Some r =>
      if forallb (gate_passes r) redirect_gates then
        match r_kind r with
        | Kind_Mime m => Some (interp_data_url m (r_content r))
        | Kind_Template => None
        end
      else None
  end.

Theorem interp_get_redirect_is_model st ident :
  interp_get_redirect st ident = get_redirect_resource st ident.
Proof.
  unfold interp_get_redirect, get_redirect_resource, redirect_gates.
  destruct (get_internal_resource st ident) as [r|]; [|reflexivity].
  cbn [forallb gate_passes]. rewrite andb_true_r.
  destruct (N.eqb (r_permission r) 0); [|reflexivity]. cbn [negb andb].
  destruct (supports_redirect (r_kind r)); reflexivity.
Qed.

(* both gates are there: a resource with a permission requirement is never a redirect *)
Corollary permissioned_resource_is_never_served st ident r :
  get_internal_resource st ident = Some r -> N.eqb (r_permission r) 0 = false ->
  interp_get_redirect st ident = None.
Proof.
  intros H P. rewrite interp_get_redirect_is_model. unfold get_redirect_resource. now rewrite H, P.
Qed.

(* ---- add_resource over C13's store ---- *)
Import AddResGen.
Definition mime_checks_ok (r : resource) : bool :=
  match r_kind r with
  | Kind_Mime _ => negb (r_has_deps r && negb (supports_dependencies (r_kind r))) && r_content_ok r
  | Kind_Template => true
  end.
(* None = stuck; Some (store, rejected?) *)
Fixpoint run_add13 (steps : list astep) (st : storage) (r : resource) : option (storage * bool) :=
  match steps with
  | [] => None
  | s :: rest =>
      match s with
      | A_mime_checks => if mime_checks_ok r then run_add13 rest st r else Some (st, true)
      | A_reject_if_any_identifier_taken =>
          if existsb (fun ident => has_key ident (st_resources st) || has_key ident (st_aliases st))
                     (r_name r :: r_aliases r)
          then Some (st, true) else run_add13 rest st r
      | A_insert_aliases =>
          run_add13 rest (mk_store (st_resources st) (map (fun a => (a, r_name r)) (r_aliases r) ++ st_aliases st)) r
      | A_insert_resource =>
          run_add13 rest (mk_store ((r_name r, r) :: st_resources st) (st_aliases st)) r
      | A_ok => Some (st, false)
      end
  end.
Definition interp_add13 := run_add13 ar_steps.

Theorem interp_add13_is_model st r :
  exists rejected, interp_add13 st r = Some (add_resource st r, rejected).
Proof.
  unfold interp_add13, ar_steps, add_resource. cbn [run_add13]. fold (mime_checks_ok r).
  destruct (mime_checks_ok r); cbn [negb]; [|eexists; reflexivity].
  destruct (existsb _ (r_name r :: r_aliases r)); eexists; reflexivity.
Qed.
