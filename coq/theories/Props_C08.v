(* Props_C08.v — pinned statements for property C08 (a deserialized engine behaves identically
   to the engine that was serialized).  Only statements, `exact`, and Print Assumptions.

   The statement is at the level of engine state: after serialize -> load -> use_tags(T), every
   container the query functions read (the eight rule lists bucket by bucket in stored order, the
   enabled tags, the five generic cosmetic containers, the six per-host bins read through `get`)
   is the one of the original engine under use_tags(T).  The query functions themselves are the
   subject of C01/C13-C17 and are functions of these containers (and of `resources`, which loading
   does not touch).  The msgpack codec is outside this statement: the encoder is modelled and tied
   byte for byte (C09), decoding own output is exercised by the differential. *)
From Adb Require Import Base BaseProofs Generated Wire_Model Wire_Proofs C09_Model C09_Proofs C08_Model C08_Proofs.
From Coq Require Import Permutation.

(* wire_roundtrip_state.  Hypotheses: no removeparam rules (F8), scriptlet permissions default
   (F9), a modifier value only on redirect/csp rules (rules_ok: holds for every state Blocker::new
   builds; checked on dumped states by the harness), distinct keys in the per-host bins.
   `l` is the engine the bytes are loaded into (its enabled tags and resources survive). *)
Theorem C08_wire_roundtrip_state : forall as_css build_list l e tags,
  no_removeparam (e_blocker e) -> scriptlet_perms_default (e_cosmetic e) ->
  rules_ok (e_blocker e) -> hostdb_wf (c_specific (e_cosmetic e)) ->
  let w := to_wire as_css (e_blocker e) (e_cosmetic e) in
  let e' := engine_use_tags build_list tags (install build_list l w) in
  blocker_equiv (e_blocker e') (e_blocker (engine_use_tags build_list tags e)) /\
  cosmetic_equiv (e_cosmetic e') (e_cosmetic e) /\ e_resources e' = e_resources l.
Proof. exact wire_roundtrip_state. Qed.
Print Assumptions C08_wire_roundtrip_state.

(* equivalent states answer every read the same *)
Theorem C08_blocker_equiv_reads : forall a b, blocker_equiv a b ->
  NoDup (map fst (b_csp a)) -> NoDup (map fst (b_exceptions a)) -> NoDup (map fst (b_importants a)) ->
  NoDup (map fst (b_redirects a)) -> NoDup (map fst (b_removeparam a)) -> NoDup (map fst (b_filters_tagged a)) ->
  NoDup (map fst (b_filters a)) -> NoDup (map fst (b_generic_hide a)) ->
  forall k, getn k (b_csp a) = getn k (b_csp b) /\ getn k (b_exceptions a) = getn k (b_exceptions b) /\
            getn k (b_importants a) = getn k (b_importants b) /\ getn k (b_redirects a) = getn k (b_redirects b) /\
            getn k (b_removeparam a) = getn k (b_removeparam b) /\
            getn k (b_filters_tagged a) = getn k (b_filters_tagged b) /\
            getn k (b_filters a) = getn k (b_filters b) /\ getn k (b_generic_hide a) = getn k (b_generic_hide b).
Proof. exact blocker_equiv_reads. Qed.
Print Assumptions C08_blocker_equiv_reads.

Theorem C08_cosmetic_equiv_reads : forall a b, cosmetic_equiv a b ->
  NoDup (map fst (c_complex_class a)) -> NoDup (map fst (c_complex_id a)) ->
  (forall x, In x (c_simple_class a) <-> In x (c_simple_class b)) /\
  (forall x, In x (c_simple_id a) <-> In x (c_simple_id b)) /\
  (forall x, In x (c_misc a) <-> In x (c_misc b)) /\
  (forall k, gets k (c_complex_class a) = gets k (c_complex_class b)) /\
  (forall k, gets k (c_complex_id a) = gets k (c_complex_id b)) /\
  hostdb_equiv (c_specific a) (c_specific b).
Proof. exact cosmetic_equiv_reads. Qed.
Print Assumptions C08_cosmetic_equiv_reads.

(* field level: a rule survives the wire exactly when its modifier belongs to a redirect/csp rule;
   otherwise the modifier is what is lost (the removeparam parameter name) *)
Theorem C08_rule_roundtrip : forall r, mo_ok r -> from_wrule (to_wrule r) = r.
Proof. exact rule_roundtrip. Qed.
Print Assumptions C08_rule_roundtrip.

Theorem C08_rule_roundtrip_lossy : forall r, ~ mo_ok r -> r_modifier (from_wrule (to_wrule r)) = None.
Proof. exact rule_roundtrip_lossy. Qed.
Print Assumptions C08_rule_roundtrip_lossy.

(* the exact losses without the two hypotheses: removeparam list empty, every permission 0,
   every other per-host bin unchanged *)
Theorem C08_roundtrip_losses : forall as_css b c, hostdb_wf (c_specific c) ->
  b_removeparam (from_wire_blocker (to_wire as_css b c)) = [] /\
  forall k, getn k (h_inject (from_wire_hostdb (to_wire as_css b c))) =
            map (fun sm => (fst sm, 0)) (getn k (h_inject (c_specific c))).
Proof. exact roundtrip_losses. Qed.
Print Assumptions C08_roundtrip_losses.

Theorem C08_hostdb_roundtrip_exact : forall as_css b c k, hostdb_wf (c_specific c) ->
  let h := c_specific c in
  let h' := from_wire_hostdb (to_wire as_css b c) in
  getn k (h_hide h') = getn k (h_hide h) /\ getn k (h_unhide h') = getn k (h_unhide h) /\
  getn k (h_inject h') = map (fun sm => (fst sm, 0)) (getn k (h_inject h)) /\
  getn k (h_uninject h') = getn k (h_uninject h) /\
  getn k (h_proc h') = getn k (h_proc h) /\ getn k (h_proc_exc h') = getn k (h_proc_exc h).
Proof. exact hostdb_roundtrip_exact. Qed.
Print Assumptions C08_hostdb_roundtrip_exact.

(* F8 (known finding): with a removeparam rule the statement fails — the rule is not serialized *)
Theorem C08_wire_removeparam_refuted : exists b c,
  rules_ok b /\ hostdb_wf (c_specific c) /\ scriptlet_perms_default c /\
  b_removeparam b <> [] /\ b_removeparam (from_wire_blocker (to_wire ex_css b c)) = [].
Proof. exact wire_removeparam_refuted. Qed.
Print Assumptions C08_wire_removeparam_refuted.

(* F9 (known finding): scriptlet permission bits are 0 after reload *)
Theorem C08_wire_permission_refuted : exists b c k,
  no_removeparam b /\ rules_ok b /\ hostdb_wf (c_specific c) /\
  getn k (h_inject (c_specific (from_wire_cosmetic (to_wire ex_css b c)))) <> getn k (h_inject (c_specific c)).
Proof. exact wire_permission_refuted. Qed.
Print Assumptions C08_wire_permission_refuted.

(* translator tie: the two losses are the ones in the source (no removeparam field on the wire,
   `removeparam: NetworkFilterList::default()`, `(s, Default::default())`) *)
Theorem C08_losses_as_in_source :
  REMOVEPARAM_ON_WIRE = false /\ REMOVEPARAM_RESTORED_EMPTY = true /\ SCRIPT_PERMISSION_RESTORED_DEFAULT = true.
Proof. exact losses_as_in_source. Qed.
Print Assumptions C08_losses_as_in_source.

(* One query kind end to end on the model: hidden_class_id_selectors (modelled from
   cosmetic_filter_cache.rs and tied to Engine::hidden_class_id_selectors by the correspondence
   run) returns on the reloaded engine exactly the list it returned on the original; F8/F9 do not
   affect this query. *)
Theorem C08_class_id_query_equiv : forall a b classes ids exc, cosmetic_equiv a b ->
  NoDup (map fst (c_complex_class a)) -> NoDup (map fst (c_complex_id a)) ->
  hidden_class_id_selectors a classes ids exc = hidden_class_id_selectors b classes ids exc.
Proof. exact class_id_query_equiv. Qed.
Print Assumptions C08_class_id_query_equiv.

Theorem C08_class_id_query_roundtrip : forall as_css b c classes ids exc,
  hostdb_wf (c_specific c) -> NoDup (map fst (c_complex_class c)) -> NoDup (map fst (c_complex_id c)) ->
  hidden_class_id_selectors (from_wire_cosmetic (to_wire as_css b c)) classes ids exc =
  hidden_class_id_selectors c classes ids exc.
Proof. exact class_id_query_roundtrip. Qed.
Print Assumptions C08_class_id_query_roundtrip.
