(* Props_C08.v — pinned statements for property C08 (a deserialized engine behaves identically
   to the engine that was serialized).  Only statements, `exact`, and Print Assumptions.

   The statement is at the level of engine state: after serialize -> load -> use_tags(T), every
   container the query functions read (the eight rule lists bucket by bucket in stored order, the
   enabled tags, the five generic cosmetic containers, the six per-host bins read through `get`)
   is the one of the original engine under use_tags(T).  The query functions themselves are the
   subject of C01/C13-C17 and are functions of these containers (and of `resources`, which loading
   does not touch).  The msgpack codec is outside this statement: the encoder is modelled and tied
   byte for byte (C09), decoding own output is exercised by the differential. *)
From Adb Require Import Base BaseProofs Generated Wire_Model Wire_Proofs C09_Model C09_Proofs C08_Model C08_Proofs.
From Coq Require Import Permutation.

(* wire_roundtrip_state.  Hypotheses: no removeparam rules (F8), scriptlet permissions default
   (F9), a modifier value only on redirect/csp rules (rules_ok: holds for every state Blocker::new
   builds; checked on dumped states by the harness), distinct keys in the per-host bins.
   `l` is the engine the bytes are loaded into (its enabled tags and resources survive). *)
Theorem C08_wire_roundtrip_state : forall as_css build_list l e tags,
  no_removeparam (e_blocker e) -> scriptlet_perms_default (e_cosmetic e) ->
  rules_ok (e_blocker e) -> hostdb_wf (c_specific (e_cosmetic e)) ->
  let w := to_wire as_css (e_blocker e) (e_cosmetic e) in
  let e' := engine_use_tags build_list tags (install build_list l w) in
  blocker_equiv (e_blocker e') (e_blocker (engine_use_tags build_list tags e)) /\
  cosmetic_equiv (e_cosmetic e') (e_cosmetic e) /\ e_resources e' = e_resources l.
Proof. exact wire_roundtrip_state. Qed.
Print Assumptions C08_wire_roundtrip_state.

(* equivalent states answer every read the same *)
Theorem C08_blocker_equiv_reads : forall a b, blocker_equiv a b ->
  NoDup (map fst (b_csp a)) -> NoDup (map fst (b_exceptions a)) -> NoDup (map fst (b_importants a)) ->
  NoDup (map fst (b_redirects a)) -> NoDup (map fst (b_removeparam a)) -> NoDup (map fst (b_filters_tagged a)) ->
  NoDup (map fst (b_filters a)) -> NoDup (map fst (b_generic_hide a)) ->
  forall k, getn k (b_csp a) = getn k (b_csp b) /\ getn k (b_exceptions a) = getn k (b_exceptions b) /\
            getn k (b_importants a) = getn k (b_importants b) /\ getn k (b_redirects a) = getn k (b_redirects b) /\
            getn k (b_removeparam a) = getn k (b_removeparam b) /\
            getn k (b_filters_tagged a) = getn k (b_filters_tagged b) /\
            getn k (b_filters a) = getn k (b_filters b) /\ getn k (b_generic_hide a) = getn k (b_generic_hide b).
Proof. exact blocker_equiv_reads. Qed.
Print Assumptions C08_blocker_equiv_reads.

Theorem C08_cosmetic_equiv_reads : forall a b, cosmetic_equiv a b ->
  NoDup (map fst (c_complex_class a)) -> NoDup (map fst (c_complex_id a)) ->
  (forall x, In x (c_simple_class a) <-> In x (c_simple_class b)) /\
  (forall x, In x (c_simple_id a) <-> In x (c_simple_id b)) /\
  (forall x, In x (c_misc a) <-> In x (c_misc b)) /\
  (forall k, gets k (c_complex_class a) = gets k (c_complex_class b)) /\
  (forall k, gets k (c_complex_id a) = gets k (c_complex_id b)) /\
  hostdb_equiv (c_specific a) (c_specific b).
Proof. exact cosmetic_equiv_reads. Qed.
Print Assumptions C08_cosmetic_equiv_reads.

(* field level: a rule survives the wire exactly when its modifier belongs to a redirect/csp rule;
   otherwise the modifier is what is lost (the removeparam parameter name) *)
Theorem C08_rule_roundtrip : forall r, mo_ok r -> from_wrule (to_wrule r) = r.
Proof. exact rule_roundtrip. Qed.
Print Assumptions C08_rule_roundtrip.

Theorem C08_rule_roundtrip_lossy : forall r, ~ mo_ok r -> r_modifier (from_wrule (to_wrule r)) = None.
Proof. exact rule_roundtrip_lossy. Qed.
Print Assumptions C08_rule_roundtrip_lossy.

(* the exact losses without the two hypotheses: removeparam list empty, every permission 0,
   every other per-host bin unchanged *)
Theorem C08_roundtrip_losses : forall as_css b c, hostdb_wf (c_specific c) ->
  b_removeparam (from_wire_blocker (to_wire as_css b c)) = [] /\
  forall k, getn k (h_inject (from_wire_hostdb (to_wire as_css b c))) =
            map (fun sm => (fst sm, 0)) (getn k (h_inject (c_specific c))).
Proof. exact roundtrip_losses. Qed.
Print Assumptions C08_roundtrip_losses.

Theorem C08_hostdb_roundtrip_exact : forall as_css b c k, hostdb_wf (c_specific c) ->
  let h := c_specific c in
  let h' := from_wire_hostdb (to_wire as_css b c) in
  getn k (h_hide h') = getn k (h_hide h) /\ getn k (h_unhide h') = getn k (h_unhide h) /\
  getn k (h_inject h') = map (fun sm => (fst sm, 0)) (getn k (h_inject h)) /\
  getn k (h_uninject h') = getn k (h_uninject h) /\
  getn k (h_proc h') = getn k (h_proc h) /\ getn k (h_proc_exc h') = getn k (h_proc_exc h).
Proof. exact hostdb_roundtrip_exact. Qed.
Print Assumptions C08_hostdb_roundtrip_exact.

(* F8 (known finding): with a removeparam rule the statement fails — the rule is not serialized *)
Theorem C08_wire_removeparam_refuted : exists b c,
  rules_ok b /\ hostdb_wf (c_specific c) /\ scriptlet_perms_default c /\
  b_removeparam b <> [] /\ b_removeparam (from_wire_blocker (to_wire ex_css b c)) = [].
Proof. exact wire_removeparam_refuted. Qed.
Print Assumptions C08_wire_removeparam_refuted.

(* F9 (known finding): scriptlet permission bits are 0 after reload *)
Theorem C08_wire_permission_refuted : exists b c k,
  no_removeparam b /\ rules_ok b /\ hostdb_wf (c_specific c) /\
  getn k (h_inject (c_specific (from_wire_cosmetic (to_wire ex_css b c)))) <> getn k (h_inject (c_specific c)).
Proof. exact wire_permission_refuted. Qed.
Print Assumptions C08_wire_permission_refuted.

(* translator tie: the two losses are the ones in the source (no removeparam field on the wire,
   `removeparam: NetworkFilterList::default()`, `(s, Default::default())`) *)
Theorem C08_losses_as_in_source :
  REMOVEPARAM_ON_WIRE = false /\ REMOVEPARAM_RESTORED_EMPTY = true /\ SCRIPT_PERMISSION_RESTORED_DEFAULT = true.
Proof. exact losses_as_in_source. Qed.
Print Assumptions C08_losses_as_in_source.

(* One query kind end to end on the model: hidden_class_id_selectors (modelled from
   cosmetic_filter_cache.rs and tied to Engine::hidden_class_id_selectors by the correspondence
   run) returns on the reloaded engine exactly the list it returned on the original; F8/F9 do not
   affect this query. *)
Theorem C08_class_id_query_equiv : forall a b classes ids exc, cosmetic_equiv a b ->
  NoDup (map fst (c_complex_class a)) -> NoDup (map fst (c_complex_id a)) ->
  hidden_class_id_selectors a classes ids exc = hidden_class_id_selectors b classes ids exc.
Proof. exact class_id_query_equiv. Qed.
Print Assumptions C08_class_id_query_equiv.

Theorem C08_class_id_query_roundtrip : forall as_css b c classes ids exc,
  hostdb_wf (c_specific c) -> NoDup (map fst (c_complex_class c)) -> NoDup (map fst (c_complex_id c)) ->
  hidden_class_id_selectors (from_wire_cosmetic (to_wire as_css b c)) classes ids exc =
  hidden_class_id_selectors c classes ids exc.
Proof. exact class_id_query_roundtrip. Qed.
Print Assumptions C08_class_id_query_roundtrip.

(* ------------------------------------------------------------------ QUERY level (C08_Query_Model /
   C08_Query_Proofs): the network query (the whole BlockerResult of Engine_Model.engine_check, for
   the ordinary and the subset query), the CSP query and the generichide query give the same answer
   on the reloaded engine as on the original, for every per-rule matcher, probe list, URL, resource
   store and tag set installed after loading; the one exception is the rewritten URL, which is
   None after a reload whenever the original held removeparam rules (known finding F8, stated as
   part of the theorem and witnessed by C08_network_query_rewritten_refuted).  net_blocker
   translates the wire-side state into the query-side state (Net_Model); the queries are shown to
   read buckets only. *)
From Adb Require Import C08_Query_Model C08_Query_Proofs.
From Adb Require Net_Model Engine_Model C13_Model C14_Model C15_Model.

(* ---- the query functions read buckets (and the enabled tags) only ---- *)
Theorem C08_check_all_agree : forall matches pr m1 m2 tags, maps_agree m1 m2 ->
  Net_Model.check_all matches m1 pr tags = Net_Model.check_all matches m2 pr tags.
Proof. exact check_all_agree. Qed.
Print Assumptions C08_check_all_agree.

(* the `match m with [] => []` case of check_all is not special: a map of empty buckets answers
   like the empty map *)
Theorem C08_check_all_empty_buckets : forall matches pr m tags, (forall k, Net_Model.bucket m k = []) ->
  Net_Model.check_all matches m pr tags = Net_Model.check_all matches [] pr tags.
Proof. exact check_all_empty_buckets. Qed.
Print Assumptions C08_check_all_empty_buckets.

Theorem C08_blocker_check_p_agree : forall matches pr mr fc a b, net_agree a b ->
  Net_Model.blocker_check_p matches pr mr fc a = Net_Model.blocker_check_p matches pr mr fc b.
Proof. exact blocker_check_p_agree. Qed.
Print Assumptions C08_blocker_check_p_agree.

Theorem C08_engine_check_agree : forall matches pr supported url st mr fc a b, net_agree_full a b ->
  Engine_Model.engine_check matches pr supported url st mr fc a =
  Engine_Model.engine_check matches pr supported url st mr fc b.
Proof. exact engine_check_agree. Qed.
Print Assumptions C08_engine_check_agree.

Theorem C08_engine_check_agree_but_rewritten : forall matches pr supported url st mr fc a b, net_agree a b ->
  same_but_rewritten (Engine_Model.engine_check matches pr supported url st mr fc a)
                     (Engine_Model.engine_check matches pr supported url st mr fc b).
Proof. exact engine_check_agree_but_rewritten. Qed.
Print Assumptions C08_engine_check_agree_but_rewritten.

Theorem C08_engine_csp_agree : forall matches pr rtype a b, net_agree a b ->
  Engine_Model.engine_csp matches pr rtype a = Engine_Model.engine_csp matches pr rtype b.
Proof. exact engine_csp_agree. Qed.
Print Assumptions C08_engine_csp_agree.

Theorem C08_generic_hide_agree : forall matches pr a b, net_agree a b ->
  Net_Model.generic_hide_hit matches pr a = Net_Model.generic_hide_hit matches pr b.
Proof. exact generic_hide_agree. Qed.
Print Assumptions C08_generic_hide_agree.

(* an empty removeparam list never rewrites *)
Theorem C08_engine_check_no_rewrite : forall matches pr supported url st mr fc a,
  Net_Model.b_removeparam a = [] ->
  Engine_Model.r_rewritten (Engine_Model.engine_check matches pr supported url st mr fc a) = None.
Proof. exact engine_check_no_rewrite. Qed.
Print Assumptions C08_engine_check_no_rewrite.

(* ---- the translation: wire-side reads = query-side buckets ---- *)
Theorem C08_bucket_net_map : forall m k, Net_Model.bucket (net_map m) k = map net_rule (getn k m).
Proof. exact bucket_net_map. Qed.
Print Assumptions C08_bucket_net_map.

(* blocker_equiv (the conclusion of C08_wire_roundtrip_state) + distinct keys (the premises of
   C08_blocker_equiv_reads) => the translated blockers agree bucket-wise, all eight lists + tags *)
Theorem C08_blocker_equiv_net_agree : forall a b, blocker_equiv a b ->
  NoDup (map fst (b_csp a)) -> NoDup (map fst (b_exceptions a)) -> NoDup (map fst (b_importants a)) ->
  NoDup (map fst (b_redirects a)) -> NoDup (map fst (b_removeparam a)) -> NoDup (map fst (b_filters_tagged a)) ->
  NoDup (map fst (b_filters a)) -> NoDup (map fst (b_generic_hide a)) ->
  net_agree_full (net_blocker a) (net_blocker b).
Proof. exact blocker_equiv_net_agree. Qed.
Print Assumptions C08_blocker_equiv_net_agree.

(* hence equivalent states answer the three queries alike (query-level twin of
   C08_class_id_query_equiv) *)
Theorem C08_network_query_equiv : forall a b, blocker_equiv a b ->
  NoDup (map fst (b_csp a)) -> NoDup (map fst (b_exceptions a)) -> NoDup (map fst (b_importants a)) ->
  NoDup (map fst (b_redirects a)) -> NoDup (map fst (b_removeparam a)) -> NoDup (map fst (b_filters_tagged a)) ->
  NoDup (map fst (b_filters a)) -> NoDup (map fst (b_generic_hide a)) ->
  forall matches pr supported url rtype st mr fc,
    Engine_Model.engine_check matches pr supported url st mr fc (net_blocker a) =
    Engine_Model.engine_check matches pr supported url st mr fc (net_blocker b) /\
    Engine_Model.engine_csp matches pr rtype (net_blocker a) =
    Engine_Model.engine_csp matches pr rtype (net_blocker b) /\
    Net_Model.generic_hide_hit matches pr (net_blocker a) = Net_Model.generic_hide_hit matches pr (net_blocker b).
Proof. exact network_query_equiv. Qed.
Print Assumptions C08_network_query_equiv.

(* the two models select the enabled tagged rules alike *)
Theorem C08_tagged_active_net : forall tags l,
  map net_rule (filter (tag_enabled tags) l) = Net_Model.tagged_active tags (map net_rule l).
Proof. exact tagged_active_net. Qed.
Print Assumptions C08_tagged_active_net.

(* ---- the matcher: nothing a matcher may read is lost by net_rule ---- *)
Theorem C08_wire_matcher_transport : forall wm r, ignores_raw wm -> unions_canonical r ->
  net_matcher wm (net_rule r) = wm r.
Proof. exact wire_matcher_transport. Qed.
Print Assumptions C08_wire_matcher_transport.

Theorem C08_net_rule_fields : forall r r', net_rule r = net_rule r' ->
  r_id r = r_id r' /\ r_mask r = r_mask r' /\ r_filter r = r_filter r' /\ r_hostname r = r_hostname r' /\
  r_opt_domains r = r_opt_domains r' /\ r_opt_not_domains r = r_opt_not_domains r' /\
  r_modifier r = r_modifier r' /\ r_tag r = r_tag r'.
Proof. exact net_rule_fields. Qed.
Print Assumptions C08_net_rule_fields.

Theorem C08_net_rule_lift : forall f, net_rule (lift_rule f) = f.
Proof. exact net_rule_lift. Qed.
Print Assumptions C08_net_rule_lift.

(* ---- the round trip, state level restated without the removeparam / cosmetic hypotheses ---- *)
Theorem C08_roundtrip_reads_same : forall as_css build_list l e tags,
  rules_ok (e_blocker e) -> keys_distinct (e_blocker e) ->
  let w := to_wire as_css (e_blocker e) (e_cosmetic e) in
  let e' := engine_use_tags build_list tags (install build_list l w) in
  reads_same (e_blocker e') (e_blocker (engine_use_tags build_list tags e)) /\
  b_removeparam (e_blocker e') = [].
Proof. exact roundtrip_reads_same. Qed.
Print Assumptions C08_roundtrip_reads_same.

(* ---- the round trip at query level ---- *)
(* network_query_roundtrip: matched / important / exception / filter / redirect equal; the reloaded
   engine reports no rewritten URL (F8); the whole result equal under no_removeparam *)
Theorem C08_network_query_roundtrip : forall as_css build_list l e tags,
  rules_ok (e_blocker e) -> keys_distinct (e_blocker e) ->
  let w := to_wire as_css (e_blocker e) (e_cosmetic e) in
  let e' := engine_use_tags build_list tags (install build_list l w) in
  let e0 := engine_use_tags build_list tags e in
  forall matches pr supported url st mr fc,
  let r' := Engine_Model.engine_check matches pr supported url st mr fc (net_blocker (e_blocker e')) in
  let r := Engine_Model.engine_check matches pr supported url st mr fc (net_blocker (e_blocker e0)) in
  (Engine_Model.r_matched r' = Engine_Model.r_matched r /\
   Engine_Model.r_important r' = Engine_Model.r_important r /\
   Engine_Model.r_exception r' = Engine_Model.r_exception r /\
   Engine_Model.r_filter r' = Engine_Model.r_filter r /\
   Engine_Model.r_redirect r' = Engine_Model.r_redirect r) /\
  Engine_Model.r_rewritten r' = None /\
  (no_removeparam (e_blocker e) -> r' = r).
Proof. exact network_query_roundtrip. Qed.
Print Assumptions C08_network_query_roundtrip.

Theorem C08_verdict_roundtrip : forall as_css build_list l e tags,
  rules_ok (e_blocker e) -> keys_distinct (e_blocker e) ->
  let w := to_wire as_css (e_blocker e) (e_cosmetic e) in
  let e' := engine_use_tags build_list tags (install build_list l w) in
  let e0 := engine_use_tags build_list tags e in
  forall matches pr mr fc,
  Net_Model.blocker_check_p matches pr mr fc (net_blocker (e_blocker e')) =
  Net_Model.blocker_check_p matches pr mr fc (net_blocker (e_blocker e0)).
Proof. exact verdict_roundtrip. Qed.
Print Assumptions C08_verdict_roundtrip.

(* csp_query_roundtrip: equality of the directive lists (implies C15_Model.same_policy) *)
Theorem C08_csp_query_roundtrip : forall as_css build_list l e tags,
  rules_ok (e_blocker e) -> keys_distinct (e_blocker e) ->
  let w := to_wire as_css (e_blocker e) (e_cosmetic e) in
  let e' := engine_use_tags build_list tags (install build_list l w) in
  let e0 := engine_use_tags build_list tags e in
  forall matches pr rtype,
  Engine_Model.engine_csp matches pr rtype (net_blocker (e_blocker e')) =
  Engine_Model.engine_csp matches pr rtype (net_blocker (e_blocker e0)).
Proof. exact csp_query_roundtrip. Qed.
Print Assumptions C08_csp_query_roundtrip.

Theorem C08_generic_hide_roundtrip : forall as_css build_list l e tags,
  rules_ok (e_blocker e) -> keys_distinct (e_blocker e) ->
  let w := to_wire as_css (e_blocker e) (e_cosmetic e) in
  let e' := engine_use_tags build_list tags (install build_list l w) in
  let e0 := engine_use_tags build_list tags e in
  forall matches pr,
  Net_Model.generic_hide_hit matches pr (net_blocker (e_blocker e')) =
  Net_Model.generic_hide_hit matches pr (net_blocker (e_blocker e0)).
Proof. exact generic_hide_roundtrip. Qed.
Print Assumptions C08_generic_hide_roundtrip.

(* keys_distinct follows from C09's blocker_wf *)
Theorem C08_keys_distinct_of_wf : forall b, blocker_wf b -> keys_distinct b.
Proof. exact keys_distinct_of_wf. Qed.
Print Assumptions C08_keys_distinct_of_wf.

(* F8 at query level (known finding): with a removeparam rule the original engine rewrites the
   URL, the reloaded engine does not; all other premises hold *)
Theorem C08_network_query_rewritten_refuted : exists e l tags matches pr url st mr fc,
  rules_ok (e_blocker e) /\ keys_distinct (e_blocker e) /\ ~ no_removeparam (e_blocker e) /\
  let bl := fun (_ : list rule) (_ : bool) => @nil (N * list rule) in
  let e' := engine_use_tags bl tags (install bl l (to_wire ex_css (e_blocker e) (e_cosmetic e))) in
  Engine_Model.r_rewritten (Engine_Model.engine_check matches pr true url st mr fc
     (net_blocker (e_blocker (engine_use_tags bl tags e)))) = Some (bs "https://x.com/a?b=2") /\
  Engine_Model.r_rewritten (Engine_Model.engine_check matches pr true url st mr fc
     (net_blocker (e_blocker e'))) = None.
Proof. exact network_query_rewritten_refuted. Qed.
Print Assumptions C08_network_query_rewritten_refuted.

(* the premises are satisfiable on an engine with rules in five lists and a tagged rule, and the
   answers compared are not trivial *)
Theorem C08_query_roundtrip_example :
  rules_ok (e_blocker exq_engine) /\ keys_distinct (e_blocker exq_engine) /\ no_removeparam (e_blocker exq_engine) /\
  let b' := net_blocker (e_blocker (exq_reloaded [bs "t1"])) in
  let b := net_blocker (e_blocker (engine_use_tags exq_build [bs "t1"] exq_engine)) in
  let r' := Engine_Model.engine_check exq_matches [9; 7; 5; 0] true exq_url exq_store false false b' in
  let r := Engine_Model.engine_check exq_matches [9; 7; 5; 0] true exq_url exq_store false false b in
  r' = r /\
  Engine_Model.r_filter r = true /\ Engine_Model.r_exception r = true /\ Engine_Model.r_matched r = false /\
  Engine_Model.r_redirect r <> None /\
  Net_Model.ids_of (Net_Model.check_all exq_matches (Net_Model.b_tagged b') [9] [bs "t1"]) = [8] /\
  Engine_Model.engine_csp exq_matches [9; 7; 5; 0] RT_Document b' = Some [bs "img-src *"] /\
  Engine_Model.engine_csp exq_matches [9; 7; 5; 0] RT_Document b = Some [bs "img-src *"] /\
  Net_Model.generic_hide_hit exq_matches [9; 7; 5; 0] b' = true.
Proof. exact query_roundtrip_example. Qed.
Print Assumptions C08_query_roundtrip_example.

(* ------------------------------------------------------------------ the round trip at the level of
   the WHOLE engine answer (Engine_Model.engine_check / engine_csp / generichide), relative to the
   receiver's resources and enabled tags (neither is serialized); rewritten_url aside (F8) *)
From Adb Require Import Base Generated Wire_Model Wire_Proofs C08_Model C08_Query_Model C08_Query_Proofs C08_Engine_Model C08_Engine_Proofs.
From Adb Require Net_Model Engine_Model C13_Model C10_Model.

Theorem C08_engine_roundtrip : forall as_css build_list l e,
  rules_ok (e_blocker (fe_state e)) -> keys_distinct (e_blocker (fe_state e)) ->
  stores_agree (fe_store l) (fe_store e) -> forall tags,
  let g' := fe_use_tags build_list tags (fe_install build_list l (fe_wire as_css e)) in
  let g0 := fe_use_tags build_list tags e in
  same_answers_but_rewritten g' g0 /\
  (forall matches pr supported url mr fc,
     Engine_Model.r_rewritten (fe_check matches pr supported url mr fc g') = None) /\
  (no_removeparam (e_blocker (fe_state e)) -> same_answers g' g0).
Proof. exact engine_roundtrip. Qed.
Print Assumptions C08_engine_roundtrip.

Theorem C08_engine_roundtrip_receiver_store : forall as_css build_list l e,
  rules_ok (e_blocker (fe_state e)) -> keys_distinct (e_blocker (fe_state e)) -> forall tags,
  let g' := fe_use_tags build_list tags (fe_install build_list l (fe_wire as_css e)) in
  let g0 := fe_use_tags build_list tags {| fe_state := fe_state e; fe_store := fe_store l |} in
  same_answers_but_rewritten g' g0 /\
  (forall matches pr supported url mr fc,
     Engine_Model.r_rewritten (fe_check matches pr supported url mr fc g') = None) /\
  (no_removeparam (e_blocker (fe_state e)) -> same_answers g' g0).
Proof. exact engine_roundtrip_receiver_store. Qed.
Print Assumptions C08_engine_roundtrip_receiver_store.

Theorem C08_engine_roundtrip_kept_tags : forall as_css build_list l e,
  rules_ok (e_blocker (fe_state e)) -> keys_distinct (e_blocker (fe_state e)) ->
  stores_agree (fe_store l) (fe_store e) ->
  let T := b_tags_enabled (e_blocker (fe_state l)) in
  let g' := fe_install build_list l (fe_wire as_css e) in
  let g0 := fe_use_tags build_list T e in
  same_answers_but_rewritten g' g0 /\
  (forall matches pr supported url mr fc,
     Engine_Model.r_rewritten (fe_check matches pr supported url mr fc g') = None) /\
  (no_removeparam (e_blocker (fe_state e)) -> same_answers g' g0).
Proof. exact engine_roundtrip_kept_tags. Qed.
Print Assumptions C08_engine_roundtrip_kept_tags.

Theorem C08_engine_roundtrip_same : forall as_css build_list l e,
  rules_ok (e_blocker (fe_state e)) -> keys_distinct (e_blocker (fe_state e)) ->
  stores_agree (fe_store l) (fe_store e) ->
  tags_installed build_list (e_blocker (fe_state e)) ->
  b_tags_enabled (e_blocker (fe_state l)) = b_tags_enabled (e_blocker (fe_state e)) ->
  let g' := fe_install build_list l (fe_wire as_css e) in
  same_answers_but_rewritten g' e /\
  (forall matches pr supported url mr fc,
     Engine_Model.r_rewritten (fe_check matches pr supported url mr fc g') = None) /\
  (no_removeparam (e_blocker (fe_state e)) -> same_answers g' e).
Proof. exact engine_roundtrip_same. Qed.
Print Assumptions C08_engine_roundtrip_same.

Theorem C08_engine_self_roundtrip : forall as_css build_list e,
  rules_ok (e_blocker (fe_state e)) -> keys_distinct (e_blocker (fe_state e)) ->
  tags_installed build_list (e_blocker (fe_state e)) ->
  let g' := fe_install build_list e (fe_wire as_css e) in
  same_answers_but_rewritten g' e /\ (no_removeparam (e_blocker (fe_state e)) -> same_answers g' e).
Proof. exact engine_self_roundtrip. Qed.
Print Assumptions C08_engine_self_roundtrip.

Theorem C08_engine_roundtrip_fresh : forall as_css build_list e rs opt tags,
  rules_ok (e_blocker (fe_state e)) -> keys_distinct (e_blocker (fe_state e)) ->
  fe_store e = C13_Model.from_resources rs ->
  let l := fe_use_tags build_list tags (fe_use_resources rs (fe_new opt)) in
  let g' := fe_install build_list l (fe_wire as_css e) in
  let g0 := fe_use_tags build_list tags e in
  same_answers_but_rewritten g' g0 /\ (no_removeparam (e_blocker (fe_state e)) -> same_answers g' g0).
Proof. exact engine_roundtrip_fresh. Qed.
Print Assumptions C08_engine_roundtrip_fresh.

Theorem C08_engine_deserialize_own : forall as_css build_list decode l e,
  decode (encode (wire_tree (fe_wire as_css e))) = Some (fe_wire as_css e) ->
  fe_deserialize build_list decode l (fe_serialize as_css e) = Ok (fe_install build_list l (fe_wire as_css e), None).
Proof. exact engine_deserialize_own. Qed.
Print Assumptions C08_engine_deserialize_own.

Theorem C08_engine_bytes_roundtrip : forall as_css build_list decode l e,
  decode (encode (wire_tree (fe_wire as_css e))) = Some (fe_wire as_css e) ->
  rules_ok (e_blocker (fe_state e)) -> keys_distinct (e_blocker (fe_state e)) ->
  stores_agree (fe_store l) (fe_store e) ->
  tags_installed build_list (e_blocker (fe_state e)) ->
  b_tags_enabled (e_blocker (fe_state l)) = b_tags_enabled (e_blocker (fe_state e)) ->
  exists g', fe_deserialize build_list decode l (fe_serialize as_css e) = Ok (g', None) /\
             same_answers_but_rewritten g' e /\
             (no_removeparam (e_blocker (fe_state e)) -> same_answers g' e).
Proof. exact engine_bytes_roundtrip. Qed.
Print Assumptions C08_engine_bytes_roundtrip.

Theorem C08_engine_check_store : forall matches pr supported url s s' mr fc b, stores_agree s s' ->
  Engine_Model.engine_check matches pr supported url s mr fc b =
  Engine_Model.engine_check matches pr supported url s' mr fc b.
Proof. exact engine_check_store. Qed.
Print Assumptions C08_engine_check_store.

Theorem C08_check_all_wire : forall wm m pr tags, ignores_raw wm -> bins_unions_ok m ->
  Net_Model.check_all (net_matcher wm) (net_map m) pr tags = map net_rule (w_check_all wm m pr tags).
Proof. exact check_all_wire. Qed.
Print Assumptions C08_check_all_wire.

Theorem C08_roundtrip_unions_ok : forall as_css build_list l e tags,
  rules_ok (e_blocker e) -> keys_distinct (e_blocker e) ->
  let b' := e_blocker (engine_use_tags build_list tags (install build_list l (to_wire as_css (e_blocker e) (e_cosmetic e)))) in
  let b := e_blocker (engine_use_tags build_list tags e) in
  (bins_unions_ok (b_csp b) -> bins_unions_ok (b_csp b')) /\
  (bins_unions_ok (b_exceptions b) -> bins_unions_ok (b_exceptions b')) /\
  (bins_unions_ok (b_importants b) -> bins_unions_ok (b_importants b')) /\
  (bins_unions_ok (b_redirects b) -> bins_unions_ok (b_redirects b')) /\
  (bins_unions_ok (b_filters_tagged b) -> bins_unions_ok (b_filters_tagged b')) /\
  (bins_unions_ok (b_filters b) -> bins_unions_ok (b_filters b')) /\
  (bins_unions_ok (b_generic_hide b) -> bins_unions_ok (b_generic_hide b')) /\
  bins_unions_ok (b_removeparam b').
Proof. exact roundtrip_unions_ok. Qed.
Print Assumptions C08_roundtrip_unions_ok.

Theorem C08_engine_roundtrip_store_refuted : exists as_css build_list l e matches pr url,
  rules_ok (e_blocker (fe_state e)) /\ keys_distinct (e_blocker (fe_state e)) /\
  tags_installed build_list (e_blocker (fe_state e)) /\ no_removeparam (e_blocker (fe_state e)) /\
  b_tags_enabled (e_blocker (fe_state l)) = b_tags_enabled (e_blocker (fe_state e)) /\
  ~ stores_agree (fe_store l) (fe_store e) /\
  Engine_Model.r_redirect (fe_check matches pr true url false false e) = Some exe_data_url /\
  Engine_Model.r_redirect (fe_check matches pr true url false false
                             (fe_install build_list l (fe_wire as_css e))) = None.
Proof. exact engine_roundtrip_store_refuted. Qed.
Print Assumptions C08_engine_roundtrip_store_refuted.

Theorem C08_engine_roundtrip_tags_refuted : exists as_css build_list l e matches pr url,
  rules_ok (e_blocker (fe_state e)) /\ keys_distinct (e_blocker (fe_state e)) /\
  tags_installed build_list (e_blocker (fe_state e)) /\ no_removeparam (e_blocker (fe_state e)) /\
  stores_agree (fe_store l) (fe_store e) /\
  b_tags_enabled (e_blocker (fe_state l)) <> b_tags_enabled (e_blocker (fe_state e)) /\
  Engine_Model.r_matched (fe_check matches pr true url false false e) = true /\
  Engine_Model.r_matched (fe_check matches pr true url false false
                            (fe_install build_list l (fe_wire as_css e))) = false.
Proof. exact engine_roundtrip_tags_refuted. Qed.
Print Assumptions C08_engine_roundtrip_tags_refuted.

Theorem C08_engine_roundtrip_example :
  let e := exe_engine false in
  let g' := exe_reloaded false [bs "t1"] [exe_res] in
  rules_ok (e_blocker (fe_state e)) /\ keys_distinct (e_blocker (fe_state e)) /\
  tags_installed exe_build (e_blocker (fe_state e)) /\ no_removeparam (e_blocker (fe_state e)) /\
  stores_agree (fe_store (exe_receiver [bs "t1"] [exe_res])) (fe_store e) /\
  b_tags_enabled (e_blocker (fe_state (exe_receiver [bs "t1"] [exe_res]))) = b_tags_enabled (e_blocker (fe_state e)) /\
  fe_check exe_all exe_probes true exe_url false false g' = fe_check exe_all exe_probes true exe_url false false e /\
  fe_check exe_all exe_probes true exe_url false false e =
    Engine_Model.Build_result true false false true (Some exe_data_url) None /\
  fe_csp exe_all exe_probes RT_Document g' = Some [bs "img-src *"] /\
  fe_csp exe_all exe_probes RT_Document e = Some [bs "img-src *"].
Proof. exact engine_roundtrip_example. Qed.
Print Assumptions C08_engine_roundtrip_example.

Theorem C08_engine_roundtrip_example_f8 :
  let e := exe_engine true in
  let g' := exe_reloaded true [bs "t1"] [exe_res] in
  rules_ok (e_blocker (fe_state e)) /\ keys_distinct (e_blocker (fe_state e)) /\
  tags_installed exe_build (e_blocker (fe_state e)) /\
  fe_check exe_all exe_probes true exe_url false false e =
    Engine_Model.Build_result true false false true (Some exe_data_url) (Some (bs "https://ads.net/a?b=2")) /\
  fe_check exe_all exe_probes true exe_url false false g' =
    Engine_Model.Build_result true false false true (Some exe_data_url) None /\
  fe_csp exe_all exe_probes RT_Document g' = fe_csp exe_all exe_probes RT_Document e /\
  fe_generic_hide exe_all exe_probes g' = fe_generic_hide exe_all exe_probes e.
Proof. exact engine_roundtrip_example_f8. Qed.
Print Assumptions C08_engine_roundtrip_example_f8.

(* ------------------------------------------------------------------ the decoder contract of the
   byte-level round trip DISCHARGED by the msgpack decoder model: the only premise left is that the
   wire value fits the format's integer widths (wire_fits), shown necessary *)
From Adb Require Import Base Generated Wire_Model C10_Model Msgpack_Model Msgpack_Proofs.
From Adb Require Import C08_Model C08_Query_Model C08_Engine_Model C08_Proofs C08_Query_Proofs Msgpack_C08_Proofs.

Theorem C08_from_tree_wire_tree :
  forall w : wire, forallb wrule_u32 (wire_rules w) = true -> from_tree (wire_tree w) = Some w.
Proof. exact from_tree_wire_tree. Qed.
Print Assumptions C08_from_tree_wire_tree.

Theorem C08_decode_wire_own :
  forall w : wire, wire_fits w = true -> decode_wire (encode (wire_tree w)) = Some w.
Proof. exact decode_wire_own. Qed.
Print Assumptions C08_decode_wire_own.

Theorem C08_engine_deserialize_own_msgpack :
  forall (as_css : str -> option (str * str)) (build_list : list rule -> bool -> bucket_map)
    (l e : full_engine),
  wire_fits (fe_wire as_css e) = true ->
  fe_deserialize build_list decode_wire l (fe_serialize as_css e) =
  Ok (fe_install build_list l (fe_wire as_css e), None).
Proof. exact engine_deserialize_own_msgpack. Qed.
Print Assumptions C08_engine_deserialize_own_msgpack.

Theorem C08_engine_bytes_roundtrip_msgpack :
  forall (as_css : str -> option (str * str)) (build_list : list rule -> bool -> bucket_map)
    (l e : full_engine),
  wire_fits (fe_wire as_css e) = true ->
  rules_ok (e_blocker (fe_state e)) ->
  keys_distinct (e_blocker (fe_state e)) ->
  stores_agree (fe_store l) (fe_store e) ->
  tags_installed build_list (e_blocker (fe_state e)) ->
  b_tags_enabled (e_blocker (fe_state l)) = b_tags_enabled (e_blocker (fe_state e)) ->
  exists g' : full_engine,
    fe_deserialize build_list decode_wire l (fe_serialize as_css e) = Ok (g', None) /\
    same_answers_but_rewritten g' e /\ (no_removeparam (e_blocker (fe_state e)) -> same_answers g' e).
Proof. exact engine_bytes_roundtrip_msgpack. Qed.
Print Assumptions C08_engine_bytes_roundtrip_msgpack.

Theorem C08_from_tree_u32_needed_refuted :
  exists w : wire, mp_wf (wire_tree w) = true /\ from_tree (wire_tree w) = None.
Proof. exact from_tree_u32_needed. Qed.
Print Assumptions C08_from_tree_u32_needed_refuted.


(* `Engine::deserialize` re-read from the source (Generated.LoadGen): an accepted buffer gives
   Wire_Model.install — the receiver's enabled tags re-applied with use_tags to the blocker of the
   buffer — which is the function the round-trip theorems of this file speak about *)
From Adb Require Struct_Load_Proofs.
Theorem C08_src_accepted_load_is_install :
  forall (build_list : list Wire_Model.rule -> bool -> Wire_Model.bucket_map) (e : Wire_Model.engine) (w : Wire_Model.wire),
  Struct_Load_Proofs.interp_load build_list e (Some w) = Some (Wire_Model.install build_list e w, true).
Proof. exact Struct_Load_Proofs.accepted_load_is_install. Qed.
Print Assumptions C08_src_accepted_load_is_install.
