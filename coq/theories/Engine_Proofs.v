(* Engine_Proofs.v — the whole engine answer equals the rule-by-rule answer: composition of the
   index theorems (Net_Proofs) with the redirect choice (C13), the removeparam rewrite (C14) and
   the CSP merge (C15).  The three consumers of check_all only depend on the SET of delivered
   rules, which is what makes the composition go through (the index delivers the matching rules in
   probe order, possibly more than once). *)
From Coq Require Import Permutation ZArith.
From Adb Require Import Base BaseProofs Generated Hashing Net_Model Net_Proofs Engine_Model.
From Adb Require C13_Model C13_Proofs C14_Model C14_Proofs C15_Model C15_Proofs.

(* ---------------------------------------------------------------- set-only consumers *)
Lemma mem_str_ext (n1 n2 : list str) :
  (forall k, In k n1 <-> In k n2) -> forall k, mem_str k n1 = mem_str k n2.
Proof.
  intros H k. destruct (mem_str k n1) eqn:E1, (mem_str k n2) eqn:E2; auto.
  - apply mem_str_In in E1. apply H in E1. apply mem_str_In in E1. congruence.
  - apply mem_str_In in E2. apply H in E2. apply mem_str_In in E2. congruence.
Qed.

Lemma kept_ext n1 n2 : (forall k, In k n1 <-> In k n2) -> forall p, C14_Model.kept n1 p = C14_Model.kept n2 p.
Proof.
  intros H p. unfold C14_Model.kept, C14_Model.removed.
  destruct (C14_Model.split_once C14_Model.EQS p) as [[k v]|]; [|reflexivity].
  rewrite (mem_str_ext n1 n2 H k). reflexivity.
Qed.

Lemma forallb_ext_all {A} (f g : A -> bool) l : (forall x, f x = g x) -> forallb f l = forallb g l.
Proof. intros H. induction l as [|x r IH]; cbn; [reflexivity|]. rewrite H, IH. reflexivity. Qed.
Lemma filter_ext_all {A} (f g : A -> bool) l : (forall x, f x = g x) -> filter f l = filter g l.
Proof. intros H. induction l as [|x r IH]; cbn; [reflexivity|]. rewrite H, IH. reflexivity. Qed.

(* the rewrite only depends on which parameter names the matching rules carry *)
Theorem apply_removeparam_set_only n1 n2 url :
  (forall k, In k n1 <-> In k n2) -> C14_Model.apply_removeparam n1 url = C14_Model.apply_removeparam n2 url.
Proof.
  intros H. unfold C14_Model.apply_removeparam.
  destruct (find_byte C14_Model.QMARK _) as [i|]; [|reflexivity].
  rewrite (forallb_ext_all _ _ _ (kept_ext n1 n2 H)).
  rewrite (filter_ext_all _ _ _ (kept_ext n1 n2 H)). reflexivity.
Qed.

Lemma names_of_In l n : In n (names_of l) <-> exists f, In f l /\ rmod f = Some n.
Proof.
  unfold names_of. rewrite in_flat_map. split.
  - intros [f [Hf Hn]]. exists f. split; auto. destruct (rmod f) as [m|]; [|destruct Hn].
    destruct Hn as [->|[]]. reflexivity.
  - intros [f [Hf Hm]]. exists f. split; auto. rewrite Hm. left; reflexivity.
Qed.
Lemma names_of_ext l1 l2 : (forall f, In f l1 <-> In f l2) -> forall n, In n (names_of l1) <-> In n (names_of l2).
Proof.
  intros H n. rewrite !names_of_In. split; intros [f [Hf Hm]]; exists f; split; auto; apply H; auto.
Qed.

Lemma map_In_ext {A B} (g : A -> B) l1 l2 :
  (forall f, In f l1 <-> In f l2) -> forall r, In r (map g l1) <-> In r (map g l2).
Proof.
  intros H r. rewrite !in_map_iff. split; intros [f [E Hf]]; exists f; split; auto; apply H; auto.
Qed.

(* the redirect candidates only depend on the set of matching redirect rules *)
Lemma candidate_ext m1 m2 : (forall r, In r m1 <-> In r m2) ->
  forall name p, C13_Model.candidate m1 name p <-> C13_Model.candidate m2 name p.
Proof.
  intros H name p. unfold C13_Model.candidate, C13_Model.offered, C13_Model.excepted. split.
  - intros [[s [Hs Es]] Hne]. split.
    + exists s. split; auto. apply H; auto.
    + intros [s' [Hs' Es']]. apply Hne. exists s'. split; auto. apply H; auto.
  - intros [[s [Hs Es]] Hne]. split.
    + exists s. split; auto. apply H; auto.
    + intros [s' [Hs' Es']]. apply Hne. exists s'. split; auto. apply H; auto.
Qed.

(* ================================================================ the composed theorem *)
Section Compose.
Variable h : str -> N.
Variable matches : rule -> bool.
Variable pr : list N.
Hypothesis pr_zero : In 0 pr.
Variable url : str.
Variable rtype : request_type.
Variable st : C13_Model.storage.

Variable L : list rule.
Variable T : list str.
Hypothesis Hinj : id_inj L.
Hypothesis Htg : TG h matches pr L.

Let B := tags_with_set h (blocker_new h L) T.

(* unsupported scheme: nothing at all *)
Theorem engine_unsupported mr fc b : engine_check matches pr false url st mr fc b = default_result.
Proof. reflexivity. Qed.

(* matched / important / exception / filter *)
Theorem engine_bits mr fc :
  let r := engine_check matches pr true url st mr fc B in
  {| v_matched := r_matched r; v_important := r_important r; v_exception := r_exception r; v_filter := r_filter r |}
  = spec_verdict_p matches mr fc L T.
Proof.
  cbv zeta. unfold engine_check. cbn [negb r_matched r_important r_exception r_filter].
  rewrite <- (engine_eq_spec_p h matches pr pr_zero mr fc L T Hinj Htg). unfold B.
  destruct (blocker_check_p matches pr mr fc _); reflexivity.
Qed.

(* rewritten URL: the C14 rewrite over the parameter names of the removeparam rules that match,
   suppressed by an important match *)
Theorem engine_rewritten mr fc :
  r_rewritten (engine_check matches pr true url st mr fc B)
  = C14_Model.rewritten_url (v_important (spec_verdict_p matches mr fc L T)) (spec_param_names matches L) url.
Proof.
  unfold engine_check. cbn [negb r_rewritten]. unfold B.
  rewrite (engine_eq_spec_p h matches pr pr_zero mr fc L T Hinj Htg).
  unfold C14_Model.rewritten_url. destruct (v_important _); [reflexivity|].
  apply apply_removeparam_set_only. unfold spec_param_names. apply names_of_ext.
  intros f. apply (removeparam_hits_exact h matches pr pr_zero L T f Hinj Htg).
Qed.

(* redirect: the data URL of a best non-excepted offer among the matching redirect rules *)
Theorem engine_redirect_some mr fc u :
  r_redirect (engine_check matches pr true url st mr fc B) = Some u ->
  exists name p, C13_Model.candidate (spec_redirects matches L) name p
    /\ (forall n' p', C13_Model.candidate (spec_redirects matches L) n' p' -> (p' <= p)%Z)
    /\ C13_Model.get_redirect_resource st name = Some u.
Proof.
  unfold engine_check. cbn [negb r_redirect]. unfold B. unfold C13_Model.redirect_of.
  destruct (C13_Model.pick_redirect _) as [name|] eqn:E; [|discriminate].
  intros Hu. destruct (C13_Proofs.pick_redirect_some _ _ E) as [p [Hc Hmax]].
  assert (X : forall r, In r (map rr_of (redirect_hits matches pr (tags_with_set h (blocker_new h L) T))) <-> In r (spec_redirects matches L)).
  { unfold spec_redirects. apply map_In_ext. intros f.
    apply (redirect_hits_exact h matches pr pr_zero L T f Hinj Htg). }
  exists name, p. split; [|split]; auto.
  - apply (candidate_ext _ _ X). exact Hc.
  - intros n' p' Hc'. apply (Hmax n' p'). apply (candidate_ext _ _ X). exact Hc'.
Qed.

Theorem engine_redirect_none mr fc :
  r_redirect (engine_check matches pr true url st mr fc B) = None ->
  (forall name p, ~ C13_Model.candidate (spec_redirects matches L) name p)
  \/ exists name p, C13_Model.candidate (spec_redirects matches L) name p
       /\ (forall n' p', C13_Model.candidate (spec_redirects matches L) n' p' -> (p' <= p)%Z)
       /\ C13_Model.get_redirect_resource st name = None.
Proof.
  unfold engine_check. cbn [negb r_redirect]. unfold B. unfold C13_Model.redirect_of.
  assert (X : forall r, In r (map rr_of (redirect_hits matches pr (tags_with_set h (blocker_new h L) T))) <-> In r (spec_redirects matches L)).
  { unfold spec_redirects. apply map_In_ext. intros f.
    apply (redirect_hits_exact h matches pr pr_zero L T f Hinj Htg). }
  destruct (C13_Model.pick_redirect _) as [name|] eqn:E.
  - intros Hn. right. destruct (C13_Proofs.pick_redirect_some _ _ E) as [p [Hc Hmax]].
    exists name, p. split; [|split]; auto.
    + apply (candidate_ext _ _ X). exact Hc.
    + intros n' p' Hc'. apply (Hmax n' p'). apply (candidate_ext _ _ X). exact Hc'.
  - intros _. left. intros name p Hc. apply (proj1 (C13_Proofs.pick_redirect_none _) E name p).
    apply (candidate_ext _ _ X). exact Hc.
Qed.

(* since the tie among equal priorities is resolved by name (/repo 8ebf406) the redirect is a
   function of the SET of matching redirect rules: the engine's answer is literally the C13 choice
   over the rule-by-rule hits *)
Theorem engine_redirect_eq mr fc :
  r_redirect (engine_check matches pr true url st mr fc B) = C13_Model.redirect_of st (spec_redirects matches L).
Proof.
  unfold engine_check. cbn [negb r_redirect]. unfold B, C13_Model.redirect_of.
  rewrite (C13_Proofs.pick_redirect_set_only _ (spec_redirects matches L)); [reflexivity|].
  unfold spec_redirects. apply map_In_ext. intros f.
  apply (redirect_hits_exact h matches pr pr_zero L T f Hinj Htg).
Qed.

(* the redirect does not look at the blocking side or the flags *)
Theorem engine_redirect_independent mr fc mr' fc' :
  r_redirect (engine_check matches pr true url st mr fc B) = r_redirect (engine_check matches pr true url st mr' fc' B).
Proof. reflexivity. Qed.

(* CSP: the same policy (same directive set) as the C15 merge over the matching active csp rules *)
Theorem engine_csp_policy :
  C15_Model.same_policy (engine_csp matches pr rtype B) (C15_Model.get_csp_for rtype (spec_csp_rules matches L T)).
Proof.
  unfold engine_csp, C15_Model.get_csp_for, B. apply C15_Proofs.csp_set_only.
  unfold spec_csp_rules. apply map_In_ext. intros f.
  apply (csp_hits_exact h matches pr pr_zero L T f Hinj Htg).
Qed.
End Compose.
