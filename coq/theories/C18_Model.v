(* C18_Model.v — L1 model of scriptlet injection (src/resources/mod.rs,
   src/resources/resource_storage.rs, the script part of
   CosmeticFilterCache::hostname_cosmetic_resources in src/cosmetic_filter_cache.rs) and the L0
   vocabulary of property C18.  Definitions only.

   Tables and expressions come from Generated.v (translator fragments c18_*.py):
   c18_ESCAPED, c18_ESC_PREFIX, c18_ESC_HEX_TRIGGER, c18_is_injectable_by, c18_perm_is_default,
   c18_perm_bitor, c18_mime, c18_rtype, c18_supports_*, c18_is_textual, c18_mime_str.

   Third-party behaviour enters as data, never as an axiom: the base64/UTF-8 decoding of a
   resource body is the field [r_decoded], the result of the `regex` crate on
   `^function\s+([^\(\)\{\}\s]+)\s*\(` is the field [r_fname]; the theorems hold for every value
   of these fields. *)
From Adb Require Import Base Generated.
Open Scope N_scope.

Definition null {A} (l : list A) : bool := match l with [] => true | _ => false end.

(* ------------------------------------------------------------------------------------------ *)
(** * 1. PermissionMask *)

Definition is_injectable_by (self_ filter_mask : N) : bool := c18_is_injectable_by self_ filter_mask.

(* L0: every permission bit the resource requires was granted to the list *)
Definition bit_subset (r f : N) : Prop := forall i, N.testbit r i = true -> N.testbit f i = true.

(* ------------------------------------------------------------------------------------------ *)
(** * 2. stringify_arg::<QUOTED> *)

Definition DQUOTE : N := 34.
Definition BSLASH : N := 92.

(* ESCAPED[ch as usize] *)
Definition esc_of (ch : N) : N := nth (N.to_nat ch) c18_ESCAPED 0.

Definition hex_digit (d : N) : N := if d <? 10 then 48 + d else 87 + d.
(* format!("{:04x}", ch) for ch : u8 *)
Definition fmt_04x (ch : N) : str := [48; 48; hex_digit (ch / 16); hex_digit (ch mod 16)].

(* &s[a..b] on bytes *)
Definition slice (s : str) (a b : nat) : str := take (b - a) (drop a s).

(* the `for (index, ch) in string.bytes().enumerate().skip(start)` loop of write_string_complex;
   [rest] = the bytes from [index] on; state = (output, start) *)
Fixpoint wsc_loop (s rest : str) (index start : nat) (out : str) : str * nat :=
  match rest with
  | [] => (out, start)
  | ch :: rest' =>
      let escape := esc_of ch in
      let '(out1, start1) :=
        if 0 <? escape
        then (out ++ slice s start index ++ [c18_ESC_PREFIX; escape], S index)
        else (out, start) in
      let out2 := if escape =? c18_ESC_HEX_TRIGGER then out1 ++ fmt_04x ch else out1 in
      wsc_loop s rest' (S index) start1 out2
  end.

Definition write_string_complex (out s : str) (start : nat) : str :=
  let out0 := out ++ take start s in
  let '(out1, start1) := wsc_loop s (drop start s) start start out0 in
  out1 ++ drop start1 s.

(* index of the first byte with ESCAPED > 0 *)
Fixpoint first_escaped (s : str) (index : nat) : option nat :=
  match s with
  | [] => None
  | ch :: r => if 0 <? esc_of ch then Some index else first_escaped r (S index)
  end.

Definition stringify_arg (quoted : bool) (arg : str) : str :=
  let out := if quoted then [DQUOTE] else [] in
  let out := match first_escaped arg 0 with
             | Some index => write_string_complex out arg index
             | None => out ++ arg
             end in
  if quoted then out ++ [DQUOTE] else out.

(* ------------------------------------------------------------------------------------------ *)
(** * 3. L0: recogniser of ECMAScript double-quoted string literals

   Accepted: DQ chars DQ (DQ = the double quote, byte 34) where a char is a raw byte other than DQ,
   the backslash and the control bytes
   below 0x20 (bytes >= 0x80 are UTF-8 source text and stand for themselves; U+2028/2029 are legal
   inside string literals since ES2019), or one of the escapes \DQ \\ \b \t \n \f \r \uXXXX.
   Anything else (other escapes, raw control characters, a missing closing quote, a \u escape of a
   surrogate) is refused.  Result: the value of the literal as UTF-8 bytes, and the text that
   follows the closing quote. *)

Definition hexval_js (c : N) : option N :=
  if N.leb 48 c && N.leb c 57 then Some (c - 48)
  else if N.leb 97 c && N.leb c 102 then Some (c - 87)
  else if N.leb 65 c && N.leb c 70 then Some (c - 55)
  else None.

Definition hex4 (a b c d : N) : option N :=
  match hexval_js a, hexval_js b, hexval_js c, hexval_js d with
  | Some a, Some b, Some c, Some d => Some (4096 * a + 256 * b + 16 * c + d)
  | _, _, _, _ => None
  end.

(* UTF-8 of the code unit of a \uXXXX escape *)
Definition utf8_of_unit (v : N) : option str :=
  if v <? 128 then Some [v]
  else if v <? 2048 then Some [192 + v / 64; 128 + v mod 64]
  else if N.leb 55296 v && N.leb v 57343 then None
  else Some [224 + v / 4096; 128 + (v / 64) mod 64; 128 + v mod 64].

Definition simple_escape (e : N) : option N :=
  if e =? 34 then Some 34        (* \DQ *)
  else if e =? 92 then Some 92   (* \\ *)
  else if e =? 98 then Some 8    (* \b *)
  else if e =? 116 then Some 9   (* \t *)
  else if e =? 110 then Some 10  (* \n *)
  else if e =? 102 then Some 12  (* \f *)
  else if e =? 114 then Some 13  (* \r *)
  else None.

Definition push (v : str) (o : option (str * str)) : option (str * str) :=
  match o with Some (d, r) => Some (v ++ d, r) | None => None end.

(* after the opening quote *)
Fixpoint js_body (s : str) : option (str * str) :=
  match s with
  | [] => None
  | c :: r =>
      if c =? 34 then Some ([], r)
      else if c =? 92 then
        match r with
        | [] => None
        | e :: r1 =>
            match simple_escape e with
            | Some v => push [v] (js_body r1)
            | None =>
                if e =? 117 then
                  match r1 with
                  | h1 :: h2 :: h3 :: h4 :: r2 =>
                      match hex4 h1 h2 h3 h4 with
                      | Some v => match utf8_of_unit v with
                                  | Some u => push u (js_body r2)
                                  | None => None
                                  end
                      | None => None
                      end
                  | _ => None
                  end
                else None
            end
        end
      else if c <? 32 then None
      else push [c] (js_body r)
  end.

Definition js_string_literal_parse (s : str) : option (str * str) :=
  match s with
  | c :: r => if c =? 34 then js_body r else None
  | [] => None
  end.

(* ------------------------------------------------------------------------------------------ *)
(** * 4. parse_scriptlet_args and helpers *)

(* char::is_whitespace (Unicode White_Space) on UTF-8 bytes *)
Definition ws1 (c : N) : bool := (N.leb 9 c && N.leb c 13) || (c =? 32).
Definition ws2 (c d : N) : bool := (c =? 194) && ((d =? 133) || (d =? 160)).
Definition ws3 (c d e : N) : bool :=
  ((c =? 225) && (d =? 154) && (e =? 128)) ||
  ((c =? 226) && (d =? 128) &&
     ((N.leb 128 e && N.leb e 138) || (e =? 168) || (e =? 169) || (e =? 175))) ||
  ((c =? 226) && (d =? 129) && (e =? 159)) ||
  ((c =? 227) && (d =? 128) && (e =? 128)).

(* str::trim_start *)
Fixpoint ltrim (s : str) : str :=
  match s with
  | [] => []
  | c :: r =>
      if ws1 c then ltrim r
      else match r with
           | d :: r2 =>
               if ws2 c d then ltrim r2
               else match r2 with
                    | e :: r3 => if ws3 c d e then ltrim r3 else s
                    | [] => s
                    end
           | [] => s
           end
  end.

(* str::trim_end *)
Fixpoint rtrim (s : str) : str :=
  match s with
  | [] => []
  | c :: r => if null (ltrim s) then [] else c :: rtrim r
  end.

(* `if let Some(i) = args.find(|c| !c.is_whitespace()) { args = &args[i..]; }` *)
Definition skip_ws (s : str) : str := let t := ltrim s in if null t then s else t.

(* number of '\\' at the end of the reversed prefix *)
Fixpoint count_bs (rev_prefix : str) : nat :=
  match rev_prefix with
  | c :: r => if c =? 92 then S (count_bs r) else O
  | [] => O
  end.

Fixpoint inus_loop (fuel : nat) (s : str) (sep : N) (new_arg_end : nat) (needs : bool)
  : option nat * bool :=
  let finish (n : nat) := if Nat.leb (length s) n then None else Some n in
  match fuel with
  | O => (None, needs)
  | S f =>
      if Nat.ltb new_arg_end (length s) then
        let rest := drop new_arg_end s in
        match find_byte sep rest with
        | Some i =>
            let trailing := count_bs (rev (take i rest)) in
            if Nat.even trailing then (finish (new_arg_end + i)%nat, needs)
            else inus_loop f s sep (new_arg_end + i + 1)%nat true
        | None => (None, needs)
        end
      else (finish new_arg_end, needs)
  end.

Definition index_next_unescaped_separator (s : str) (sep : N) : option nat * bool :=
  inus_loop (S (length s)) s sep O false.

Fixpoint normalize_arg_loop (arg : str) (sep : N) (escaped : bool) : str :=
  match arg with
  | [] => []
  | c :: r =>
      if c =? 92 then
        if escaped then 92 :: 92 :: normalize_arg_loop r sep false
        else normalize_arg_loop r sep true
      else
        (if escaped && negb (c =? sep) then [92] else []) ++ c :: normalize_arg_loop r sep false
  end.
Definition normalize_arg (arg : str) (sep : N) : str := normalize_arg_loop arg sep false.

Definition COMMA : N := 44.
Definition is_quote (c : N) : bool := (c =? 34) || (c =? 39) || (c =? 96).

Fixpoint psa_loop (fuel : nat) (args : str) (acc : list str) : option (list str) :=
  match fuel with
  | O => None
  | S f =>
      let args := skip_ws args in
      match args with
      | [] => Some acc
      | qc :: rest =>
          if is_quote qc then
            let '(i, needs) := index_next_unescaped_separator rest qc in
            match i with
            | None => None
            | Some i =>
                let arg := take i rest in
                let arg := if needs then normalize_arg arg COMMA else arg in
                match skip_ws (drop (S i) rest) with
                | c :: r1 => if c =? COMMA then psa_loop f r1 (acc ++ [arg]) else None
                | [] => psa_loop f [] (acc ++ [arg])
                end
            end
          else
            let '(i, needs) := index_next_unescaped_separator args COMMA in
            let arg := rtrim (take (match i with Some i => i | None => length args end) args) in
            let arg := if needs then normalize_arg arg COMMA else arg in
            psa_loop f (drop (match i with Some i => S i | None => length args end) args)
                     (acc ++ [arg])
      end
  end.

Definition parse_scriptlet_args (args : str) : option (list str) :=
  if null (ltrim args) then Some [] else psa_loop (S (length args)) args [].

Definition DOT_JS : str := [46; 106; 115].
Definition with_js_extension (name : str) : str :=
  if suffixb DOT_JS name then name else name ++ DOT_JS.

(* args.len() == 1 && args[0].starts_with('{') && args[0].ends_with('}') *)
Definition object_syntax (args : list str) : bool :=
  match args with
  | [a] => prefixb [123] a && suffixb [125] a
  | _ => false
  end.

(* ------------------------------------------------------------------------------------------ *)
(** * 5. ResourceStorage *)

(* BASE64_STANDARD.decode(content) followed by String::from_utf8 *)
Inductive decoded := BadBase64 | NotUtf8 | Text (t : str).

Record resource := mkRes {
  r_name : str;
  r_aliases : list str;
  r_kind : c18_rtype;
  r_content : str;              (* the base64 text as stored *)
  r_decoded : decoded;          (* what decoding it gives (base64 crate, UTF-8 check) *)
  r_fname : option str;         (* extract_function_name of the decoded text (regex crate) *)
  r_deps : list str;
  r_perm : N
}.

Record store := mkStore {
  st_res : list resource;        (* HashMap<String, Resource>, keyed by r_name *)
  st_alias : list (str * str)    (* HashMap<String, String>: alias -> canonical name *)
}.
Definition empty_store : store := mkStore [] [].

Fixpoint find_res (name : str) (l : list resource) : option resource :=
  match l with
  | [] => None
  | r :: l' => if str_eqb (r_name r) name then Some r else find_res name l'
  end.
Fixpoint find_alias (name : str) (l : list (str * str)) : option str :=
  match l with
  | [] => None
  | (a, c) :: l' => if str_eqb a name then Some c else find_alias name l'
  end.

Inductive add_err := InvalidBase64Content | InvalidUtf8Content | NameAlreadyAdded
                   | ContentTypeDoesNotSupportDependencies.

Definition contains_ident (st : store) (ident : str) : bool :=
  match find_res ident (st_res st) with
  | Some _ => true
  | None => match find_alias ident (st_alias st) with Some _ => true | None => false end
  end.

Definition add_resource (st : store) (r : resource) : store * option add_err :=
  let mime_err :=
    match r_kind r with
    | RK_Mime ct =>
        if negb (null (r_deps r)) && negb (c18_supports_dependencies ct)
        then Some ContentTypeDoesNotSupportDependencies
        else match r_decoded r with
             | BadBase64 => Some InvalidBase64Content
             | NotUtf8 => if c18_is_textual ct then Some InvalidUtf8Content else None
             | Text _ => None
             end
    | RK_Template => None
    end in
  match mime_err with
  | Some e => (st, Some e)
  | None =>
      if existsb (contains_ident st) (r_name r :: r_aliases r) then (st, Some NameAlreadyAdded)
      else (mkStore (st_res st ++ [r])
                    (st_alias st ++ map (fun a => (a, r_name r)) (r_aliases r)), None)
  end.

(* ResourceStorage::from_resources: errors are silently consumed *)
Definition from_resources (l : list resource) : store :=
  fold_left (fun st r => fst (add_resource st r)) l empty_store.

Definition get_internal_resource (st : store) (ident : str) : option resource :=
  match find_res ident (st_res st) with
  | Some r => Some r
  | None => match find_alias ident (st_alias st) with
            | Some canonical => find_res canonical (st_res st)
            | None => None
            end
  end.

Inductive serr := NoMatchingScriptlet | MissingScriptletName | ScriptletArgObjectSyntaxUnsupported
                | CorruptScriptletContent | ContentTypeNotInjectable | InsufficientPermissions
                | OutOfFuel.   (* OutOfFuel: artefact of the model, never returned (deps_terminate) *)

Inductive sres (A : Type) := SOk (a : A) | SErr (e : serr).
Arguments SOk {A} a.
Arguments SErr {A} e.

Definition get_permissioned_resource (st : store) (name : str) (filter_permission : N)
  : sres resource :=
  match get_internal_resource st name with
  | None => SErr NoMatchingScriptlet
  | Some r => if is_injectable_by (r_perm r) filter_permission then SOk r
              else SErr InsufficientPermissions
  end.

Definition has_name (name : str) (deps : list resource) : bool :=
  existsb (fun d => str_eqb (r_name d) name) deps.

(* `for dep in resource.dependencies.iter() { self.recursive_dependencies(dep, prev, perm)?; }`
   — prev_deps is `&mut`, so whatever was pushed before an error stays pushed *)
Fixpoint fold_deps (step : str -> list resource -> list resource * option serr)
         (deps : list str) (prev : list resource) : list resource * option serr :=
  match deps with
  | [] => (prev, None)
  | d :: ds => let '(p, e) := step d prev in
               match e with None => fold_deps step ds p | Some _ => (p, e) end
  end.

Fixpoint recursive_dependencies (fuel : nat) (st : store) (new_dep : str)
         (prev : list resource) (filter_permission : N) : list resource * option serr :=
  match fuel with
  | O => (prev, Some OutOfFuel)
  | S f =>
      match get_permissioned_resource st new_dep filter_permission with
      | SErr e => (prev, Some e)
      | SOk r =>
          if has_name (r_name r) prev then (prev, None)
          else fold_deps (fun d p => recursive_dependencies f st d p filter_permission)
                         (r_deps r) (prev ++ [r])
      end
  end.

(* enough for every store (theorem deps_terminate) *)
Definition dep_fuel (st : store) : nat := S (length (st_res st)).

(* TEMPLATE_ARGUMENT_RE[i].replace(&template, arg.replace('$', '$$')): the first `{{i+1}}` is
   replaced by the argument text itself *)
Definition template_pattern (i : nat) : str := [123; 123; 49 + N.of_nat i; 125; 125].
Definition replace_first (pat rep s : str) : str :=
  match find_sub pat s with
  | Some k => take k s ++ rep ++ drop (k + length pat) s
  | None => s
  end.
Fixpoint patch_from (i : nat) (template : str) (args : list str) : str :=
  match args with
  | [] => template
  | a :: r => patch_from (S i) (replace_first (template_pattern i) a template) r
  end.
Definition patch_template_scriptlet (template : str) (args : list str) : str :=
  patch_from O template (take 9 args).

Definition COMMA_SP : str := [44; 32].
Definition LPAR : N := 40.
Definition RPAR : N := 41.

(* the text of a function-style invocation *)
Definition invocation (fname : str) (args : list str) : str :=
  fname ++ [LPAR] ++ join_with COMMA_SP (map (stringify_arg true) args) ++ [RPAR].

Definition get_scriptlet_resource (st : store) (scriptlet_args : str) (filter_permission : N)
           (required_deps : list resource) : list resource * sres str :=
  match parse_scriptlet_args scriptlet_args with
  | None => (required_deps, SErr MissingScriptletName)
  | Some [] => (required_deps, SErr MissingScriptletName)
  | Some (name :: args) =>
      let scriptlet_name := with_js_extension name in
      if object_syntax args then (required_deps, SErr ScriptletArgObjectSyntaxUnsupported) else
      match get_permissioned_resource st scriptlet_name filter_permission with
      | SErr e => (required_deps, SErr e)
      | SOk r =>
          if negb (c18_supports_scriptlet_injection (r_kind r))
          then (required_deps, SErr ContentTypeNotInjectable) else
          let '(deps1, e) :=
            fold_deps (fun d p => recursive_dependencies (dep_fuel st) st d p filter_permission)
                      (r_deps r) required_deps in
          match e with
          | Some err => (deps1, SErr err)
          | None =>
              match r_decoded r with
              | Text template =>
                  match r_fname r with
                  | Some fname =>
                      ((if has_name (r_name r) deps1 then deps1 else deps1 ++ [r]),
                       SOk (invocation fname args))
                  | None =>
                      (deps1, SOk (patch_template_scriptlet template
                                     (map (stringify_arg false) args)))
                  end
              | _ => (deps1, SErr CorruptScriptletContent)
              end
          end
      end
  end.

Definition TRY_OPEN : str := bs "try {" ++ [10].
Definition TRY_CLOSE : str := [10] ++ bs "} catch ( e ) { }" ++ [10].

(* the for_each of get_scriptlet_resources: (deps, invokations) *)
Fixpoint gsr_fold (st : store) (injections : list (str * N)) (deps : list resource)
         (invokations : str) : list resource * str :=
  match injections with
  | [] => (deps, invokations)
  | (s, mask) :: rest =>
      let '(deps1, r) := get_scriptlet_resource st s mask deps in
      gsr_fold st rest deps1
               (match r with
                | SOk inv => invokations ++ TRY_OPEN ++ inv ++ TRY_CLOSE
                | SErr _ => invokations
                end)
  end.

Definition dep_text (d : resource) : str :=
  match r_decoded d with Text t => t ++ [10] | _ => [] end.

Definition get_scriptlet_resources (st : store) (injections : list (str * N)) : str :=
  let '(deps, invokations) := gsr_fold st injections [] [] in
  flat_map dep_text deps ++ invokations.

(* ------------------------------------------------------------------------------------------ *)
(** * 6. get_redirect_resource *)

Definition get_redirect_resource (st : store) (ident : str) : option str :=
  match get_internal_resource st ident with
  | None => None
  | Some r =>
      if negb (c18_perm_is_default (r_perm r)) then None
      else if negb (c18_supports_redirect (r_kind r)) then None
      else match r_kind r with
           | RK_Mime mime =>
               Some (bs c18_data_url_prefix ++ bs (c18_mime_str mime) ++ bs c18_data_url_infix
                     ++ r_content r)
           | RK_Template => None
           end
  end.

(* ------------------------------------------------------------------------------------------ *)
(** * 7. per-host merge of injections and exceptions (hostname_cosmetic_resources)

   [injs]: the (argument text, permission of the rule's list) entries of the `inject_script`
   buckets of every hash of the host, in traversal order; [excs]: the entries of the
   `uninject_script` buckets.  The HashMap<&str, PermissionMask> is an association list in
   insertion order; its iteration order is an arbitrary permutation (see [host_script_ok]). *)

Fixpoint map_upsert (k : str) (m : N) (l : list (str * N)) : list (str * N) :=
  match l with
  | [] => [(k, m)]
  | (k', m') :: r => if str_eqb k' k then (k', c18_perm_bitor m' m) :: r
                     else (k', m') :: map_upsert k m r
  end.
Definition map_remove (k : str) (l : list (str * N)) : list (str * N) :=
  filter (fun e => negb (str_eqb (fst e) k)) l.

Definition merge_injections (injs : list (str * N)) : list (str * N) :=
  fold_left (fun acc e => map_upsert (fst e) (snd e) acc) injs [].

Fixpoint apply_uninject (excs : list str) (except_all : bool) (m : list (str * N))
  : list (str * N) :=
  match excs with
  | [] => m
  | s :: r =>
      let '(except_all1, m1) := if null s then (true, []) else (except_all, m) in
      if except_all1 then apply_uninject r except_all1 m1
      else apply_uninject r except_all1 (map_remove s m1)
  end.

Definition host_injections (injs : list (str * N)) (excs : list str) : list (str * N) :=
  apply_uninject excs false (merge_injections injs).

Fixpoint insert_everywhere {A} (x : A) (l : list A) : list (list A) :=
  match l with
  | [] => [[x]]
  | y :: r => (x :: l) :: map (cons y) (insert_everywhere x r)
  end.
Fixpoint permutations {A} (l : list A) : list (list A) :=
  match l with
  | [] => [[]]
  | x :: r => flat_map (insert_everywhere x) (permutations r)
  end.

(* the injected_script of a host is the script of the merged injections in some iteration order *)
Definition host_script_ok (st : store) (injs : list (str * N)) (excs : list str) (impl : str)
  : bool :=
  existsb (fun p => str_eqb (get_scriptlet_resources st p) impl)
          (permutations (host_injections injs excs)).

(* L0 vocabulary for the merge *)
Definition requested (injs : list (str * N)) (x : str) : Prop := In x (map fst injs).
Definition blanket (excs : list str) : Prop := In [] excs.
(* the union of the masks of all rules with argument text x *)
Definition union_mask (injs : list (str * N)) (x : str) : N :=
  fold_left (fun acc e => if str_eqb (fst e) x then c18_perm_bitor acc (snd e) else acc) injs 0.

(* known finding F18: the same argument text requested by lists with different permissions *)
Definition mixed_masks (injs : list (str * N)) : bool :=
  existsb (fun e => existsb (fun e' => str_eqb (fst e) (fst e') && negb (snd e =? snd e')) injs)
          injs.

(* ------------------------------------------------------------------------------------------ *)
(** * comparison helpers for the correspondence cases *)

Definition ostr_eqb := opt_eqb str_eqb.
Definition strs_eqb := list_eqb str_eqb.
Definition ostrs_eqb := opt_eqb strs_eqb.
Definition inus_eqb (a b : option nat * bool) : bool :=
  opt_eqb Nat.eqb (fst a) (fst b) && Bool.eqb (snd a) (snd b).
Definition serr_code (e : serr) : N :=
  match e with
  | NoMatchingScriptlet => 1 | MissingScriptletName => 2
  | ScriptletArgObjectSyntaxUnsupported => 3 | CorruptScriptletContent => 4
  | ContentTypeNotInjectable => 5 | InsufficientPermissions => 6 | OutOfFuel => 7
  end.
