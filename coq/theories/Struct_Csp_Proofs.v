(* Struct_Csp_Proofs.v — tie between Blocker::get_csp_directives as the translator extracts it on
   every run (Generated.CspGen: the request types that pass the gate, the loop over the hits as a
   decision list, the set expression of the answer, the separator) and the hand-written C15_Model
   (csp_loop / get_csp / get_csp_for / get_csp_string).
   [interp_loop] runs the extracted decision list over the model's csp rules with the two sets of
   the model; [interp_loop_is_model] shows that it IS csp_loop, [interp_get_csp_is_model] that the
   whole function IS get_csp_for, for every request type and hit list.  A gate that lets another
   type through, an exception that enables instead of disabling, a directive-less exception that no
   longer cancels the policy, or another separator changes the generated data and breaks a proof.
   (Every rule of the csp list is a csp rule — Struct_Proofs: the category chain — so the atom
   `is_csp` is true of every hit.) *)
From Coq Require Import String.
From Adb Require Import Base Generated C15_Model.
Import CspGen.
Local Open Scope string_scope.
Local Open Scope list_scope.

Definition lit_val (f : csp_rule) (l : clit) : bool :=
  match l with
  | L_exception => csp_exception f
  | L_csp => true
  | L_directive => match csp_directive f with Some _ => true | None => false end
  end.
Definition lits_hold (f : csp_rule) (ls : list (clit * bool)) : bool :=
  forallb (fun lp => Bool.eqb (lit_val f (fst lp)) (snd lp)) ls.
(* the action the decision list selects for a hit: first entry whose literals all hold *)
Fixpoint action_of (f : csp_rule) (es : list (list (clit * bool) * string)) : string :=
  match es with
  | [] => "nothing"
  | (ls, a) :: r => if lits_hold f ls then a else action_of f r
  end.

(* one hit; None = `return None` (the whole function answers None); an unknown action name or an
   insertion without a directive makes the interpretation fail visibly (Some None is never built) *)
Inductive step_result := Continue (dis en : list str) | ReturnNone | Stuck.
Definition step (f : csp_rule) (dis en : list str) : step_result :=
  let a := action_of f loop_entries in
  if String.eqb a "nothing" then Continue dis en
  else if String.eqb a "return_none" then ReturnNone
  else if String.eqb a "disable" then
    match csp_directive f with Some d => Continue (set_insert d dis) en | None => Stuck end
  else if String.eqb a "enable" then
    match csp_directive f with Some d => Continue dis (set_insert d en) | None => Stuck end
  else Stuck.
Fixpoint interp_loop (fs : list csp_rule) (dis en : list str) : option (option (list str * list str)) :=
  match fs with
  | [] => Some (Some (dis, en))
  | f :: r => match step f dis en with
              | Continue d e => interp_loop r d e
              | ReturnNone => Some None
              | Stuck => None
              end
  end.

Theorem interp_loop_is_model fs : forall dis en, interp_loop fs dis en = Some (csp_loop fs dis en).
Proof.
  induction fs as [|f r IH]; intros dis en; [reflexivity|].
  cbn [interp_loop csp_loop]. unfold step, loop_entries.
  destruct f as [ex [d|]]; destruct ex;
    cbn [action_of lits_hold forallb lit_val fst snd csp_exception csp_directive Bool.eqb andb
         String.eqb Ascii.eqb]; try apply IH; reflexivity.
Qed.

Definition rt_in (t : request_type) (l : list request_type) : bool :=
  existsb (fun x => match x, t with
                    | RT_Document, RT_Document | RT_Subdocument, RT_Subdocument | RT_Beacon, RT_Beacon
                    | RT_Csp, RT_Csp | RT_Dtd, RT_Dtd | RT_Fetch, RT_Fetch | RT_Font, RT_Font
                    | RT_Image, RT_Image | RT_Media, RT_Media | RT_Object, RT_Object | RT_Other, RT_Other
                    | RT_Ping, RT_Ping | RT_Script, RT_Script | RT_Stylesheet, RT_Stylesheet
                    | RT_Websocket, RT_Websocket | RT_Xlst, RT_Xlst
                    | RT_Xmlhttprequest, RT_Xmlhttprequest => true
                    | _, _ => false end) l.

Definition interp_get_csp (t : request_type) (matching : list csp_rule) : option (option (list str)) :=
  if negb (rt_in t gate_types) then Some None else
  match matching with
  | [] => if no_hit_no_policy then Some None else None
  | _ =>
      match interp_loop matching [] [] with
      | None => None
      | Some None => Some None
      | Some (Some (dis, en)) =>
          if negb (String.eqb answer_set "enabled-disabled") then None else
          match set_difference en dis with
          | [] => if empty_answer_is_none then Some None else None
          | ds => Some (Some ds)
          end
      end
  end.

Lemma gate_is_doc_or_subdoc t : rt_in t gate_types = doc_or_subdoc t.
Proof. destruct t; reflexivity. Qed.

Theorem interp_get_csp_is_model t matching : interp_get_csp t matching = Some (get_csp_for t matching).
Proof.
  unfold interp_get_csp, get_csp_for, get_csp, no_hit_no_policy, empty_answer_is_none, answer_set.
  rewrite gate_is_doc_or_subdoc. destruct (doc_or_subdoc t); cbn [negb]; [|reflexivity].
  destruct matching as [|f r]; [reflexivity|].
  rewrite interp_loop_is_model. destruct (csp_loop (f :: r) [] []) as [[dis en]|]; [|reflexivity].
  cbn [String.eqb Ascii.eqb Bool.eqb negb].
  destruct (set_difference en dis); reflexivity.
Qed.

(* the merged text joins the directives with the extracted separator: C15_Model's COMMA *)
Theorem separator_is_model : separator = COMMA.
Proof. reflexivity. Qed.
