(* Tok_HostRegex_Proofs.v — the token guarantee for hostname-anchored rules whose pattern is
   regex-type (`||example.com/ads/*/banner^`, `||host.com^*/track`), proved from the concrete
   tokenizer, anchored_hostname_end / get_url_after_anchor and the token semantics of the filter
   text, and the ONE list-level statement: for every list whose rules are in the computable class
   [tg_class] (plain | regex-type | hostname-anchored with no / plain / regex-type pattern, with any
   options), TG holds for the concrete probes of the request and the index answers as the
   rule-by-rule evaluation does. *)
From Adb Require Import Base BaseProofs Generated Hashing Net_Model Net_Proofs Tok_Proofs Tok_Host_Proofs
  Tok_Regex_Proofs Tok_Ext_Model Tok_Ext_Proofs Tok_HostRegex_Model.
From Adb Require C02_Model C02_Proofs C03_Model C03_Proofs.
From Coq Require Import Lia ZifyBool ZifyNat ZifyN.

(* ================================================================ (1) tokens of a pinned regex-type pattern *)
(* [regex_tokens_covered] for a pattern that has to match at a given place of the URL (the text
   after the anchored hostname): the first token of the pattern is kept (skip_first off), which is
   sound because the text starts with a non-token byte (or is empty) *)
Theorem regex_tokens_covered_at ra s pre suf t :
  rmatch ra (rtoks s) suf ->
  all_ascii (pre ++ suf) = true -> ~ In STAR (pre ++ suf) ->
  head_blocked suf ->
  In t (tku false (negb ra) s 0 None None) ->
  In t (tku false false (pre ++ suf) 0 None None).
Proof.
  intros Hm Hasc Hns Hb Hin. apply tokenize_complete.
  destruct (tokenize_filter_sound _ _ s t Hin) as (a & b & -> & Hu & Hv & Hsf & Hsl & Hall & Hlen).
  assert (Hne : t <> []) by (destruct t; [cbn in Hlen; lia|discriminate]).
  destruct (m_token_embed ra a t b suf Hm Hall Hne Hu Hv) as (x1 & x2 & -> & Hx1 & Hx2).
  { intros E. specialize (Hsl E). destruct ra; [reflexivity|discriminate]. }
  exists (pre ++ x1), x2. split; [rewrite <- !app_assoc; reflexivity|].
  split; [|split; [|split; [intros _; reflexivity|split; [intros _; reflexivity|split; [exact Hall|exact Hlen]]]]].
  - destruct Hx1 as [[Ea ->]|(w & c & -> & Hc)].
    + exfalso. cbn [app] in Hb. destruct t as [|c t']; [congruence|]. cbn in Hb, Hall.
      rewrite Hb in Hall. discriminate.
    + right. exists (pre ++ w), c. split; [rewrite <- app_assoc; reflexivity|].
      apply (dl_delim (pre ++ (w ++ [c]) ++ t ++ x2) c Hasc Hns); [|exact Hc].
      apply in_or_app. right. apply in_or_app. left. apply in_or_app. right. left. reflexivity.
  - destruct Hx2 as [->|(c & x2' & -> & Hc)]; [left; reflexivity|].
    right. exists c, x2'. split; [reflexivity|].
    apply (dl_delim (pre ++ x1 ++ t ++ c :: x2') c Hasc Hns); [|exact Hc].
    apply in_or_app. right. apply in_or_app. right. apply in_or_app. right. left. reflexivity.
Qed.

(* the premise on the text is needed: `|ads^` style pinning in the middle of a token run would
   keep a token the URL does not have *)
Lemma regex_tokens_at_unblocked_refuted :
  exists ra s pre suf t,
    rmatch ra (rtoks s) suf /\ all_ascii (pre ++ suf) = true /\ ~ In STAR (pre ++ suf) /\
    ~ head_blocked suf /\
    In t (tku false (negb ra) s 0 None None) /\ ~ In t (tku false false (pre ++ suf) 0 None None).
Proof.
  exists false, (bs "ads^"), (bs "https://x.com/b"), (bs "ads/z"), (bs "ads").
  split; [apply C02_Proofs.mb_spec; vm_compute; reflexivity|].
  split; [vm_compute; reflexivity|]. split; [|split; [|split]].
  - intros H. vm_compute in H. repeat (destruct H as [H|H]; [discriminate H|]). exact H.
  - intros H. vm_compute in H. discriminate.
  - vm_compute. left. reflexivity.
  - intros H. vm_compute in H. repeat (destruct H as [H|H]; [discriminate H|]). exact H.
Qed.

(* ================================================================ (2) ||host + regex-type pattern *)
Lemma drop_0 {A} (l : list A) : drop 0 l = l.
Proof. reflexivity. Qed.

Lemma hostregex_empty_host la ra w s url host :
  hostregex_match la ra w [] s url host = rsearch la ra (rtoks s) url.
Proof.
  unfold hostregex_match. rewrite C02_Proofs.ahe_empty. cbv zeta.
  unfold C02_Model.get_url_after_anchor. cbn [Nat.eqb]. rewrite Nat.sub_diag. reflexivity.
Qed.

(* where the regex is run: right after the anchored occurrence of the rule's hostname *)
Lemma hostregex_match_at la ra w hn s url host upre upost :
  hn <> [] -> url = upre ++ host ++ upost ->
  (C02_Model.host_search_start url <= length upre)%nat ->
  find_sub host (drop (C02_Model.host_search_start url) url)
  = Some (length upre - C02_Model.host_search_start url)%nat ->
  hostregex_match la ra w hn s url host = true ->
  exists k, C02_Model.anchored_hostname_end hn host w la = Some k /\ (0 < k <= length host)%nat /\
            rsearch la ra (rtoks s) (drop (length upre + k) url) = true.
Proof.
  intros Hnn Hurl Hle Hfind Hm. unfold hostregex_match in Hm.
  destruct (C02_Model.anchored_hostname_end hn host w la) as [k|] eqn:Ek; [|discriminate].
  pose proof (C02_Proofs.ahe_bounds hn host w la k Hnn Ek) as Hk.
  exists k. split; [reflexivity|]. split; [exact Hk|].
  rewrite (C02_Proofs.get_url_after_anchor_spec url host (length upre) k Hle Hfind Hk) in Hm.
  cbv zeta in Hm. rewrite C02_Proofs.drop_length in Hm.
  assert (Hlen : (length upre + k <= length url)%nat).
  { rewrite Hurl, !app_length. lia. }
  replace (length url - (length url - (length upre + k)))%nat with (length upre + k)%nat in Hm by lia.
  exact Hm.
Qed.

Lemma m_somewhere_whole e p s n : C02_Model.m_somewhere e p (drop n s) -> C02_Model.m_somewhere e p s.
Proof.
  intros H. apply (C02_Proofs.m_somewhere_drop_mono e p s 0 n); [lia|exact H].
Qed.

(* every token the rule keeps from its regex-type pattern is a token of the URL *)
Theorem hostregex_pattern_tokens_covered la ra w hn s url host t :
  hostregex_match la ra w hn s url host = true -> host_at url host ->
  all_ascii url = true -> ~ In STAR url ->
  In t (tku (negb la) (negb ra) s 0 None None) -> In t (tku false false url 0 None None).
Proof.
  intros Hm (upre & upost & Hurl & Hupre & Hupost & Hle & Hfind) Hasc Hns Hin.
  destruct hn as [|x hn'].
  { rewrite hostregex_empty_host in Hm. exact (regex_tokens_covered la ra s url t Hm Hasc Hns Hin). }
  assert (Hnn : x :: hn' <> []) by discriminate. set (hn := x :: hn') in *.
  destruct (hostregex_match_at la ra w hn s url host upre upost Hnn Hurl Hle Hfind Hm)
    as (k & Ek & Hk & Hs).
  destruct la; cbn [negb] in *.
  - (* ||host/pattern : the occurrence ends the hostname, the pattern starts where the host ends *)
    destruct (C02_Proofs.ahe_some hn host w true k Hnn Ek) as (o & Hko & Hat & _).
    pose proof (C02_Proofs.anchor_at_end_post hn host w o Hat) as He.
    assert (Hd : drop (length upre + k) url = upost).
    { rewrite Hurl. rewrite C02_Proofs.drop_in_host by lia.
      rewrite C02_Proofs.drop_all' by lia. reflexivity. }
    rewrite Hd in Hs. unfold C02_Model.search in Hs. apply C02_Proofs.mb_spec in Hs.
    assert (Hurl' : url = (upre ++ host) ++ upost) by (rewrite <- app_assoc; exact Hurl).
    rewrite Hurl'. rewrite Hurl' in Hasc, Hns.
    apply (regex_tokens_covered_at ra s (upre ++ host) upost t Hs Hasc Hns); [|exact Hin].
    apply starts_delim_blocked. exact Hupost.
  - (* ||host*pattern : the pattern matches somewhere after the occurrence, hence somewhere *)
    apply (regex_tokens_covered false ra s url t); auto.
    unfold C02_Model.search in *. apply C02_Proofs.mb_somewhere_spec.
    apply C02_Proofs.mb_somewhere_spec in Hs. exact (m_somewhere_whole _ _ _ _ Hs).
Qed.

(* ---------------------------------------------------------------- the matcher is C02's *)
Section WithRegexCrate.
Variable re_ok : str -> bool.
Variable re_match : str -> str -> bool.

(* check_pattern on a hostname-anchored regex-type rule with one pattern is hostregex_match, the
   regex crate entering through its contract for this rule's regex text *)
Theorem check_pattern_hostregex sh (s hn : str) r :
  C02_Model.s_hn sh = true -> C02_Model.s_rx sh = true -> C02_Model.s_cr sh = false -> s <> [] ->
  C02_Model.re_std re_ok re_match
    (C02_Model.translate s (C02_Model.s_la sh) (C02_Model.s_ra sh))
    (C02_Model.s_la sh) (C02_Model.s_ra sh) (rtoks s) ->
  C02_Model.no_nl (C02_Model.get_url r (C02_Model.s_mc sh)) = true ->
  C02_Model.check_pattern_sh re_ok re_match sh [s] (Some hn) r
  = hostregex_match (C02_Model.s_la sh) (C02_Model.s_ra sh) (C02_Model.s_wild sh) hn s
      (C02_Model.get_url r (C02_Model.s_mc sh)) (C02_Model.r_host r).
Proof.
  intros Hh Hr Hc Hne Hre Hnl. unfold C02_Model.check_pattern_sh, hostregex_match. rewrite Hh, Hr.
  unfold C02_Model.check_pattern_hostname_anchor_regex_filter, C02_Model.at_hostname_end.
  cbn [C02_Model.nullb negb]. rewrite andb_true_r. cbv zeta.
  destruct (C02_Model.anchored_hostname_end hn (C02_Model.r_host r) (C02_Model.s_wild sh) (C02_Model.s_la sh)) as [k|];
    [|reflexivity].
  unfold C02_Model.check_pattern_regex_filter_at.
  apply (C02_Proofs.regex_tail re_ok re_match sh s _ Hne Hr Hc Hre).
  apply C02_Proofs.no_nl_drop. exact Hnl.
Qed.

(* whatever the pattern part is, a hostname-anchored rule only accepts a request whose hostname
   its own hostname is anchored in *)
Theorem check_pattern_anchored sh fs (hn : str) r :
  C02_Model.s_hn sh = true ->
  C02_Model.check_pattern_sh re_ok re_match sh fs (Some hn) r = true ->
  exists e k, C02_Model.anchored_hostname_end hn (C02_Model.r_host r) (C02_Model.s_wild sh) e = Some k.
Proof.
  intros Hh. unfold C02_Model.check_pattern_sh. rewrite Hh.
  unfold C02_Model.check_pattern_hostname_anchor_regex_filter,
    C02_Model.check_pattern_hostname_left_right_anchor_filter,
    C02_Model.check_pattern_hostname_right_anchor_filter,
    C02_Model.check_pattern_hostname_left_anchor_filter,
    C02_Model.check_pattern_hostname_anchor_filter. cbv zeta.
  destruct (C02_Model.s_rx sh); [|destruct (C02_Model.s_ra sh && C02_Model.s_la sh);
    [|destruct (C02_Model.s_ra sh); [|destruct (C02_Model.s_la sh)]]];
    match goal with
    | |- match C02_Model.anchored_hostname_end ?a ?b ?c ?e with _ => _ end = true -> _ =>
        destruct (C02_Model.anchored_hostname_end a b c e) as [k|] eqn:E; [intros _; exists e, k; exact E|discriminate]
    end.
Qed.

Lemma check_pattern_no_hostname sh fs r :
  C02_Model.s_hn sh = true -> C02_Model.check_pattern_sh re_ok re_match sh fs None r = false.
Proof.
  intros Hh. unfold C02_Model.check_pattern_sh. rewrite Hh.
  destruct (C02_Model.s_rx sh); [reflexivity|]. destruct (C02_Model.s_ra sh && C02_Model.s_la sh); [reflexivity|].
  destruct (C02_Model.s_ra sh); [reflexivity|]. destruct (C02_Model.s_la sh); reflexivity.
Qed.

(* check_pattern on an unanchored regex-type rule (Tok_Regex_Proofs states this for [regex_rule]s;
   here for any mask) *)
Lemma check_pattern_regex sh (s : str) hostname r :
  C02_Model.s_hn sh = false -> C02_Model.s_rx sh = true -> C02_Model.s_cr sh = false -> s <> [] ->
  C02_Model.re_std re_ok re_match
    (C02_Model.translate s (C02_Model.s_la sh) (C02_Model.s_ra sh))
    (C02_Model.s_la sh) (C02_Model.s_ra sh) (rtoks s) ->
  C02_Model.no_nl (C02_Model.get_url r (C02_Model.s_mc sh)) = true ->
  C02_Model.check_pattern_sh re_ok re_match sh [s] hostname r
  = rsearch (C02_Model.s_la sh) (C02_Model.s_ra sh) (rtoks s) (C02_Model.get_url r (C02_Model.s_mc sh)).
Proof.
  intros Hh Hr Hc Hne Hre Hnl. unfold C02_Model.check_pattern_sh. rewrite Hh, Hr. cbn [orb].
  unfold C02_Model.check_pattern_regex_filter, C02_Model.check_pattern_regex_filter_at.
  rewrite drop_0. apply (C02_Proofs.regex_tail re_ok re_match sh s _ Hne Hr Hc Hre Hnl).
Qed.

(* ================================================================ (3) one rule of the class *)
Lemma nullb_map {A B} (g : A -> B) l : nullb (map g l) = nullb l.
Proof. destruct l; reflexivity. Qed.
Lemma nullb_app {A} (a b : list A) : nullb (a ++ b) = nullb a && nullb b.
Proof. destruct a; reflexivity. Qed.

Lemma base_nil_spec h f : nullb (base_tokens h f) = base_nil f.
Proof.
  unfold base_tokens, base_nil, tok_pat, tok_host. rewrite !nullb_app.
  rewrite andb_assoc. f_equal; [f_equal|].
  - destruct (pat_of f); [apply nullb_map|reflexivity].
  - destruct (flag f M_IS_HOSTNAME_REGEX); [reflexivity|]. destruct (rhost f); [apply nullb_map|reflexivity].
Qed.

Lemma cutoff_b_spec sf sl s : cutoff_b sf sl s = true -> within_cutoff sf sl s.
Proof. unfold cutoff_b, within_cutoff. intros H. apply Nat.leb_le. exact H. Qed.

Lemma empty_tku sf sl t : ~ In t (tku sf sl [] 0 None None).
Proof. intros H. exact H. Qed.

(* the pattern tokens: every kept token of the rule's pattern is a token of the URL, whichever of
   the eight pattern paths of check_pattern accepted the request *)
Lemma class_pattern_tokens f s r t :
  let url := lower_str (C02_Model.r_url r) in
  tg_class f = true -> rfilter f = FSimple s ->
  pattern_ok re_ok re_match f r = true ->
  (is_regex f = true ->
   C02_Model.re_std re_ok re_match
     (C02_Model.translate s (is_left_anchor f) (is_right_anchor f))
     (is_left_anchor f) (is_right_anchor f) (rtoks s)) ->
  C02_Model.no_nl (C02_Model.r_url r) = true ->
  all_ascii url = true -> ~ In STAR url -> host_at url (C02_Model.r_host r) ->
  In t (tku (negb (is_left_anchor f)) (negb (is_right_anchor f)) s 0 None None) ->
  In t (tku false false url 0 None None).
Proof.
  intros url Hcl Hf Hpo Hre Hnl Hasc Hns Hat Hin.
  destruct s as [|c0 s0]; [exfalso; exact (empty_tku _ _ t Hin)|].
  assert (Hsne : c0 :: s0 <> []) by discriminate. set (s := c0 :: s0) in *.
  unfold tg_class in Hcl.
  apply andb_true_iff in Hcl as [Hcl _]. apply andb_true_iff in Hcl as [Hcl _].
  apply andb_true_iff in Hcl as [Hcl _]. apply andb_true_iff in Hcl as [Hcr Hmc].
  apply negb_true_iff in Hcr. apply negb_true_iff in Hmc.
  unfold pattern_ok, C02_Model.check_pattern, filters_of in Hpo. rewrite Hf in Hpo.
  set (sh := C02_Model.shape_of_mask (rmask f)) in *.
  assert (Ela : C02_Model.s_la sh = is_left_anchor f) by reflexivity.
  assert (Era : C02_Model.s_ra sh = is_right_anchor f) by reflexivity.
  assert (Erx : C02_Model.s_rx sh = is_regex f) by reflexivity.
  assert (Ecr : C02_Model.s_cr sh = false) by exact Hcr.
  assert (Emc : C02_Model.s_mc sh = false) by exact Hmc.
  assert (Eurl : C02_Model.get_url r (C02_Model.s_mc sh) = url) by (unfold C02_Model.get_url; rewrite Emc; reflexivity).
  assert (Hnl' : C02_Model.no_nl (C02_Model.get_url r (C02_Model.s_mc sh)) = true).
  { rewrite Eurl. apply C02_Proofs.no_nl_lower. exact Hnl. }
  destruct (C02_Model.s_hn sh) eqn:Ehn.
  - (* hostname-anchored *)
    destruct (rhost f) as [hn|]; [|rewrite check_pattern_no_hostname in Hpo by exact Ehn; discriminate].
    destruct (is_regex f) eqn:Erxf.
    + rewrite (check_pattern_hostregex sh s hn r Ehn Erx Ecr Hsne) in Hpo;
        [|rewrite Ela, Era; apply Hre; reflexivity|exact Hnl'].
      rewrite Eurl, Ela, Era in Hpo.
      exact (hostregex_pattern_tokens_covered _ _ _ hn s url _ t Hpo Hat Hasc Hns Hin).
    + rewrite (check_pattern_hostpat re_ok re_match sh s hn r Ehn Erx) in Hpo.
      rewrite Eurl, Ela, Era in Hpo.
      destruct hn as [|x hn'].
      * (* an empty hostname anchors nothing: the plain tests on the whole URL *)
        unfold hostpat_match in Hpo. rewrite C02_Proofs.ahe_empty in Hpo. cbv zeta in Hpo.
        unfold C02_Model.get_url_after_anchor in Hpo. cbn [Nat.eqb] in Hpo.
        assert (Hpm : plain_match (is_left_anchor f) (is_right_anchor f) s url = true).
        { unfold plain_match. destruct (is_left_anchor f), (is_right_anchor f); cbn [andb] in *; exact Hpo. }
        destruct (plain_match_occurrence _ _ s url Hpm) as (pre & post & Hurl & Hpre & Hpost).
        rewrite Hurl.
        apply (occurrence_tokens_covered (negb (is_left_anchor f)) (negb (is_right_anchor f)) s pre post t); auto.
        -- intros E. apply Hpre. destruct (is_left_anchor f); [reflexivity|discriminate].
        -- intros E. apply Hpost. destruct (is_right_anchor f); [reflexivity|discriminate].
      * apply (hostpat_pattern_tokens_covered _ _ _ (x :: hn') s url _ t ltac:(discriminate) Hpo Hat Hin).
  - (* not hostname-anchored *)
    destruct (is_regex f) eqn:Erxf.
    + rewrite (check_pattern_regex sh s (rhost f) r Ehn Erx Ecr Hsne) in Hpo;
        [|rewrite Ela, Era; apply Hre; reflexivity|exact Hnl'].
      rewrite Eurl, Ela, Era in Hpo.
      exact (regex_tokens_covered _ _ s url t Hpo Hasc Hns Hin).
    + rewrite (check_pattern_plain re_ok re_match sh s (rhost f) r Ehn Erx Ecr) in Hpo.
      rewrite Eurl, Ela, Era in Hpo.
      destruct (plain_match_occurrence _ _ s url Hpo) as (pre & post & Hurl & Hpre & Hpost).
      rewrite Hurl.
      apply (occurrence_tokens_covered (negb (is_left_anchor f)) (negb (is_right_anchor f)) s pre post t); auto.
      * intros E. apply Hpre. destruct (is_left_anchor f); [reflexivity|discriminate].
      * intros E. apply Hpost. destruct (is_right_anchor f); [reflexivity|discriminate].
Qed.

(* the hostname tokens *)
Lemma class_host_tokens f hn r t :
  let url := lower_str (C02_Model.r_url r) in
  tg_class f = true -> rhost f = Some hn -> flag f M_IS_HOSTNAME_REGEX = false ->
  pattern_ok re_ok re_match f r = true ->
  host_at url (C02_Model.r_host r) ->
  In t (tku false false hn 0 None None) -> In t (tku false false url 0 None None).
Proof.
  intros url Hcl Hh Hw Hpo Hat Hin.
  destruct hn as [|x hn']; [exfalso; exact (empty_tku _ _ t Hin)|].
  unfold tg_class in Hcl. apply andb_true_iff in Hcl as [_ Hcl]. rewrite Hh in Hcl.
  apply andb_true_iff in Hcl as [Hha _].
  unfold pattern_ok, C02_Model.check_pattern in Hpo. rewrite Hh in Hpo.
  destruct (check_pattern_anchored (C02_Model.shape_of_mask (rmask f)) _ _ _ Hha Hpo) as (e & k & Hk).
  change (C02_Model.s_wild (C02_Model.shape_of_mask (rmask f))) with (flag f M_IS_HOSTNAME_REGEX) in Hk.
  rewrite Hw in Hk.
  apply (anchored_host_tokens_covered (x :: hn') _ e k url t ltac:(discriminate) Hk (host_at_in_url _ _ Hat) Hin).
Qed.

(* THE PER-RULE THEOREM: a rule of the class accepted by the modelled NetworkFilter::matches
   (check_options && check_pattern) has a token group among the probes of the request.
   Premises on the request: source present for rules stored by their domain option (F2), http or
   https for scheme-restricted rules (F3), the scheme flags describe the URL, the hostname is where
   C12 puts it, ASCII URL (F4) without '*' (F23) and without line feed (the regex contract only
   speaks about such haystacks), fewer than 128 URL tokens. *)
Theorem token_guarantee_all h f rq r odu ondu :
  let url := lower_str (C02_Model.r_url r) in
  tg_class f = true ->
  options_ok f odu ondu rq = true ->
  pattern_ok re_ok re_match f r = true ->
  (forall s, rfilter f = FSimple s -> is_regex f = true ->
     C02_Model.re_std re_ok re_match
       (C02_Model.translate s (is_left_anchor f) (is_right_anchor f))
       (is_left_anchor f) (is_right_anchor f) (rtoks s)) ->
  (needs_source f = true -> C03_Model.rq_src rq <> None) ->
  (scheme_restricted f = true -> C03_Model.rq_http rq || C03_Model.rq_https rq = true) ->
  scheme_tie rq url ->
  host_at url (C02_Model.r_host r) ->
  C02_Model.no_nl (C02_Model.r_url r) = true -> all_ascii url = true -> ~ In STAR url ->
  within_cutoff false false url ->
  covered h (probes h (C03_Model.rq_src rq) url) f.
Proof.
  intros url Hcl Hopt Hpo Hre Hsrc Hweb Htie Hat Hnl Hasc Hns Hu.
  unfold options_ok in Hopt.
  destruct (check_options_parts _ _ _ _ _ _ Hopt) as [Hs Hi].
  pose proof Hcl as Hcl0. unfold tg_class in Hcl0.
  apply andb_true_iff in Hcl0 as [Hcl0 Hhostc]. apply andb_true_iff in Hcl0 as [Hcl0 Hfilt].
  apply andb_true_iff in Hcl0 as [Hcl0 Hnp]. apply andb_true_iff in Hcl0 as [Hcr _].
  apply negb_true_iff in Hcr.
  apply covered_parts.
  - unfold no_param_fallback. rewrite base_nil_spec. exact Hnp.
  - (* single-domain token *)
    unfold tok_dom. unfold needs_source in Hsrc.
    destruct (rdomains f) as [[|d [|d' ds]]|] eqn:Ed; try (intros x Hx; destruct Hx; fail).
    destruct (rnotdomains f) as [nd|] eqn:En; [intros x Hx; destruct Hx|].
    specialize (Hsrc eq_refl).
    destruct (C03_Model.rq_src rq) as [hs|]; [|congruence].
    intros x [<-|[]]. apply (domain_token_probed h d odu hs url Hi).
  - (* pattern tokens *)
    unfold tok_pat, pat_of. destruct (rfilter f) as [|s|l] eqn:Ef; try (intros x Hx; destruct Hx; fail).
    rewrite Hcr. intros x Hx. apply in_map_iff in Hx as (t & <- & Ht).
    apply url_token_probed; [exact Hu|].
    apply (class_pattern_tokens f s r t Hcl Ef Hpo (Hre s eq_refl) Hnl Hasc Hns Hat).
    apply filter_tokens_tku; [apply cutoff_b_spec; exact Hfilt|exact Ht].
  - (* hostname tokens *)
    unfold tok_host. destruct (flag f M_IS_HOSTNAME_REGEX) eqn:Ew; [intros x Hx; destruct Hx|].
    destruct (rhost f) as [hn|] eqn:Eh; [|intros x Hx; destruct Hx].
    apply andb_true_iff in Hhostc as [_ Hhc].
    intros x Hx. apply in_map_iff in Hx as (t & <- & Ht).
    apply url_token_probed; [exact Hu|].
    apply (class_host_tokens f hn r t Hcl Eh Ew Hpo Hat).
    apply filter_tokens_tku; [apply cutoff_b_spec; exact Hhc|exact Ht].
  - apply scheme_tokens_probed; auto.
  - (* per-domain dispatch *)
    intros ds Ed En. unfold needs_source in Hsrc. rewrite Ed, En in Hsrc. specialize (Hsrc eq_refl).
    rewrite Ed in Hi.
    destruct (C03_Model.rq_src rq) as [hs|]; [|congruence].
    destruct (included_pass_hit ds odu hs Hi) as (x & Hx & Hd).
    exists x. split; [exact Hd|]. unfold probes. apply in_or_app. left. exact Hx.
Qed.

(* ================================================================ (4) lists *)
(* the request: no line feed, ASCII, no '*', below the token cut-off, with a source, over http or
   https with flags that describe the URL, and with its hostname where C12 puts it *)
Definition std_request (rq : C03_Model.request) (r : C02_Model.request) : Prop :=
  let url := lower_str (C02_Model.r_url r) in
  C02_Model.no_nl (C02_Model.r_url r) = true /\ all_ascii url = true /\ ~ In STAR url /\
  within_cutoff false false url /\ web_request rq url /\ host_at url (C02_Model.r_host r).

(* [matches] answers as (or more strictly than) the modelled NetworkFilter::matches *)
Definition model_hits (matches : rule -> bool) (rq : C03_Model.request) (r : C02_Model.request)
           (L : list rule) : Prop :=
  forall f, In f L -> matches f = true ->
    (exists odu ondu, options_ok f odu ondu rq = true) /\ pattern_ok re_ok re_match f r = true.

(* the regex crate's contract for the regex text of every regex-type rule of the list *)
Definition regex_contract (L : list rule) : Prop :=
  forall f s, In f L -> rfilter f = FSimple s -> is_regex f = true ->
    C02_Model.re_std re_ok re_match
      (C02_Model.translate s (is_left_anchor f) (is_right_anchor f))
      (is_left_anchor f) (is_right_anchor f) (rtoks s).

(* only the rules that match need to be in the class *)
Theorem TG_all_hits h matches rq r L :
  std_request rq r -> model_hits matches rq r L -> regex_contract L ->
  (forall f, In f L -> matches f = true -> tg_class f = true) ->
  TG h matches (probes h (C03_Model.rq_src rq) (lower_str (C02_Model.r_url r))) L.
Proof.
  intros (Hnl & Hasc & Hns & Hu & (Hsrc & Hweb & Htie) & Hat) Hmh Hrc Hcl f Hf Hm.
  destruct (Hmh f Hf Hm) as ((odu & ondu & Hopt) & Hpo).
  apply (token_guarantee_all h f rq r odu ondu); auto;
    intros s Ef Erx; exact (Hrc f s Hf Ef Erx).
Qed.

(* THE LIST-LEVEL THEOREM *)
Theorem TG_all_list h matches rq r L :
  std_request rq r -> model_hits matches rq r L -> regex_contract L ->
  (forall f, In f L -> tg_class f = true) ->
  TG h matches (probes h (C03_Model.rq_src rq) (lower_str (C02_Model.r_url r))) L.
Proof.
  intros Hr Hmh Hrc Hcl. apply (TG_all_hits h matches rq r L Hr Hmh Hrc).
  intros f Hf _. exact (Hcl f Hf).
Qed.

(* index answer = rule-by-rule answer, both flag combinations, no token-guarantee premise *)
Theorem engine_eq_spec_p_all h matches rq r mr fc L T :
  id_inj L -> std_request rq r -> model_hits matches rq r L -> regex_contract L ->
  (forall f, In f L -> tg_class f = true) ->
  blocker_check_p matches (probes h (C03_Model.rq_src rq) (lower_str (C02_Model.r_url r))) mr fc
    (tags_with_set h (blocker_new h L) T)
  = spec_verdict_p matches mr fc L T.
Proof.
  intros Hi Hr Hmh Hrc Hcl. apply engine_eq_spec_p; auto; [apply probes_zero_ext|].
  apply TG_all_list; auto.
Qed.

Theorem engine_eq_spec_all h matches rq r L T :
  id_inj L -> std_request rq r -> model_hits matches rq r L -> regex_contract L ->
  (forall f, In f L -> tg_class f = true) ->
  blocker_check matches (probes h (C03_Model.rq_src rq) (lower_str (C02_Model.r_url r)))
    (tags_with_set h (blocker_new h L) T)
  = spec_verdict matches L T.
Proof.
  intros Hi Hr Hmh Hrc Hcl. apply engine_eq_spec; auto; [apply probes_zero_ext|].
  apply TG_all_list; auto.
Qed.
End WithRegexCrate.

(* ================================================================ (5) the class contains the earlier ones *)
Lemma within_cutoff_b sf sl s : within_cutoff sf sl s -> cutoff_b sf sl s = true.
Proof. unfold cutoff_b, within_cutoff. intros H. apply Nat.leb_le. exact H. Qed.

Lemma nonnil_nullb {A} (l : list A) : l <> [] -> nullb l = false.
Proof. destruct l; [congruence|reflexivity]. Qed.

(* plain rules (Tok_Proofs) *)
Lemma plain_rule_in_class f s :
  plain_rule f s -> flag f M_MATCH_CASE = false ->
  within_cutoff (negb (is_left_anchor f)) (negb (is_right_anchor f)) s -> tg_class f = true.
Proof.
  intros (Hf & Hh & Hd & Hnd & Hcr & _ & _ & Hne) Hmc Hs.
  unfold tg_class, base_nil, pat_of, tok_dom. rewrite Hf, Hh, Hd, Hcr, Hmc.
  rewrite (nonnil_nullb _ Hne), (within_cutoff_b _ _ _ Hs). reflexivity.
Qed.
(* regex-type rules (Tok_Regex_Proofs) *)
Lemma regex_rule_in_class f s :
  regex_rule f s -> flag f M_MATCH_CASE = false ->
  within_cutoff (negb (is_left_anchor f)) (negb (is_right_anchor f)) s -> tg_class f = true.
Proof.
  intros (Hf & Hh & Hd & Hnd & _ & Hcr & _ & _ & _ & Hne) Hmc Hs.
  unfold tg_class, base_nil, pat_of, tok_dom. rewrite Hf, Hh, Hd, Hcr, Hmc.
  rewrite (nonnil_nullb _ Hne), (within_cutoff_b _ _ _ Hs). reflexivity.
Qed.
(* ||host, ||host^ (Tok_Host_Proofs) *)
Lemma host_rule_in_class f hn :
  host_rule f hn -> flag f M_IS_HOSTNAME_ANCHOR = true -> is_complete_regex f = false ->
  flag f M_MATCH_CASE = false -> within_cutoff false false hn -> tg_class f = true.
Proof.
  intros (Hf & Hh & Hd & Hnd & Hhr & Hrp & _ & _ & Hne) Hha Hcr Hmc Hs.
  unfold tg_class. rewrite Hf, Hh, Hcr, Hmc, Hrp, Hha, (within_cutoff_b _ _ _ Hs).
  rewrite andb_false_r. reflexivity.
Qed.

(* the class condition "a hostname only with IS_HOSTNAME_ANCHOR" is needed: without the flag the
   matcher ignores the hostname while get_tokens indexes the rule under it (the parser never
   builds such a rule; a deserialized one would be lost) *)
Lemma host_without_anchor_refuted :
  exists f rq r,
    rhost f <> None /\ flag f M_IS_HOSTNAME_ANCHOR = false /\
    options_ok f None None rq = true /\ pattern_ok (fun _ => true) (fun _ _ => false) f r = true /\
    ~ covered seahash (probes seahash (C03_Model.rq_src rq) (lower_str (C02_Model.r_url r))) f.
Proof.
  exists (mkr 1 M_DEFAULT_OPTIONS FEmpty (Some (bs "example.com")) None None None None),
    (C03_Model.from_detailed_parameters seahash (bs "script") (bs "https") (bs "www.site.org") true),
    {| C02_Model.r_url := bs "https://x.org/a"; C02_Model.r_host := bs "x.org" |}.
  split; [discriminate|]. split; [vm_compute; reflexivity|]. split; [vm_compute; reflexivity|].
  split; [vm_compute; reflexivity|].
  intros (g & Hg & Hi). vm_compute in Hg. destruct Hg as [<-|[]].
  specialize (Hi _ (or_introl eq_refl)). vm_compute in Hi.
  repeat (destruct Hi as [Hi|Hi]; [discriminate Hi|]). exact Hi.
Qed.

(* ================================================================ (6) non-vacuity *)
(* ||example.com/ads/*/banner^ as NetworkFilter::parse (C02_Model.parse_line) reads it: hostname
   example.com, pattern /ads/*/banner^ pinned after the host (left anchor), IS_REGEX *)
Definition hr_rule : rule :=
  mkr 51 (N.lor M_DEFAULT_OPTIONS (N.lor M_IS_HOSTNAME_ANCHOR (N.lor M_IS_LEFT_ANCHOR M_IS_REGEX)))
      (FSimple (bs "/ads/*/banner^")) (Some (bs "example.com")) None None None None.
Definition hr_url : str := bs "https://sub.example.com/ads/728x90/banner?x=1".
Definition hr_host : str := bs "sub.example.com".
Definition hr_r : C02_Model.request := {| C02_Model.r_url := hr_url; C02_Model.r_host := hr_host |}.
Definition hr_rq : C03_Model.request :=
  C03_Model.from_detailed_parameters seahash (bs "script") (bs "https") (bs "www.site.org") true.

Example hr_rule_is_parsed :
  let pf := C02_Model.parse_line (bs "||example.com/ads/*/banner^") in
  C02_Model.pf_hostname pf = rhost hr_rule /\ C02_Model.pf_filter pf = Some (bs "/ads/*/banner^") /\
  C02_Model.pf_shape pf = C02_Model.shape_of_mask (rmask hr_rule).
Proof. cbv zeta. repeat split; vm_compute; reflexivity. Qed.

Example host_at_hr : host_at hr_url hr_host.
Proof.
  exists (bs "https://"), (bs "/ads/728x90/banner?x=1"). split; [vm_compute; reflexivity|]. split; [|split; [|split]].
  - right. exists (bs "https:/"), 47. split; [vm_compute; reflexivity|apply slash_delim].
  - right. exists 47, (bs "ads/728x90/banner?x=1"). split; [vm_compute; reflexivity|apply slash_delim].
  - vm_compute. lia.
  - vm_compute. reflexivity.
Qed.

Lemma no_star_hr : ~ In STAR hr_url.
Proof. intros H. vm_compute in H. repeat (destruct H as [H|H]; [discriminate H|]). exact H. Qed.

(* the matcher accepts, both kept pattern tokens (`ads` after the anchored host, `banner` before
   '^') are tokens of the URL, and so is every token the lemma speaks about *)
Example hostregex_example :
  hostregex_match true false false (bs "example.com") (bs "/ads/*/banner^") hr_url hr_host = true /\
  tokenize_filter (bs "/ads/*/banner^") false true = [bs "ads"; bs "banner"] /\
  tokenize hr_url = [bs "https"; bs "sub"; bs "example"; bs "com"; bs "ads"; bs "728x90"; bs "banner"] /\
  (forall t, In t (tku false true (bs "/ads/*/banner^") 0 None None) -> In t (tku false false hr_url 0 None None)) /\
  (* a floating pattern behind a wildcard host, ||example.com*/728x90^ *)
  hostregex_match false false true (bs "example.com") (bs "/728x90^") hr_url hr_host = true /\
  (* pinned patterns do not float: ||example.com/728x90^ *)
  hostregex_match true false false (bs "example.com") (bs "/728x90^") hr_url hr_host = false.
Proof.
  repeat split; try (vm_compute; reflexivity).
  intros t. apply (hostregex_pattern_tokens_covered true false false (bs "example.com") (bs "/ads/*/banner^") hr_url hr_host).
  - vm_compute. reflexivity.
  - apply host_at_hr.
  - vm_compute. reflexivity.
  - apply no_star_hr.
Qed.

(* a regex "crate" for the examples: a table from regex texts to the token semantics they stand for *)
Definition ex_regex_table : list (str * (bool * bool * str)) :=
  map (fun x => match x with (la, ra, s) => (C02_Model.translate s la ra, (la, ra, s)) end)
    [ (true, false, bs "/ads/*/banner^"); (true, false, bs "^*/track"); (false, false, bs "/ads/*/banner^");
      (true, false, bs "^*banner"); (false, false, bs "/728x90^") ].
Fixpoint ex_lookup (t : list (str * (bool * bool * str))) (txt : str) : option (bool * bool * str) :=
  match t with [] => None | (k, v) :: r => if str_eqb k txt then Some v else ex_lookup r txt end.
Definition ex_re_ok (txt : str) : bool := true.
Definition ex_re_match (txt s : str) : bool :=
  match ex_lookup ex_regex_table txt with
  | Some (la, ra, p) => rsearch la ra (rtoks p) s
  | None => false
  end.

(* the per-rule theorem on ||example.com/ads/*/banner^ restricted to https and to one initiator *)
Definition hr_rule_full : rule :=
  mkr 52 (N.lor (N.ldiff M_DEFAULT_OPTIONS M_FROM_HTTP) (N.lor M_IS_HOSTNAME_ANCHOR (N.lor M_IS_LEFT_ANCHOR M_IS_REGEX)))
      (FSimple (bs "/ads/*/banner^")) (Some (bs "example.com")) (Some [seahash (bs "site.org")]) None None None.

Lemma hr_std_request : std_request hr_rq hr_r.
Proof.
  unfold std_request. cbv zeta.
  assert (E : lower_str (C02_Model.r_url hr_r) = hr_url) by (vm_compute; reflexivity). rewrite E.
  split; [vm_compute; reflexivity|]. split; [vm_compute; reflexivity|]. split; [apply no_star_hr|].
  split; [vm_compute; lia|]. split; [|apply host_at_hr].
  split; [vm_compute; discriminate|]. split; [vm_compute; reflexivity|].
  split; [intros H; vm_compute in H; discriminate|intros _; vm_compute; reflexivity].
Qed.

Example hostregex_tg_example :
  let f := hr_rule_full in
  tg_class f = true /\
  options_ok f (Some (seahash (bs "site.org"))) None hr_rq = true /\
  pattern_ok ex_re_ok ex_re_match f hr_r = true /\
  needs_source f = true /\ scheme_restricted f = true /\
  length (List.concat (get_tokens seahash f)) = 6%nat /\
  covered seahash (probes seahash (C03_Model.rq_src hr_rq) hr_url) f.
Proof.
  cbv zeta.
  assert (Hcl : tg_class hr_rule_full = true) by (vm_compute; reflexivity).
  assert (Hopt : options_ok hr_rule_full (Some (seahash (bs "site.org"))) None hr_rq = true) by (vm_compute; reflexivity).
  assert (Hpo : pattern_ok ex_re_ok ex_re_match hr_rule_full hr_r = true) by (vm_compute; reflexivity).
  split; [exact Hcl|]. split; [exact Hopt|]. split; [exact Hpo|].
  split; [vm_compute; reflexivity|]. split; [vm_compute; reflexivity|]. split; [vm_compute; reflexivity|].
  destruct hr_std_request as (Hnl & Hasc & Hns & Hu & (Hsrc & Hweb & Htie) & Hat).
  change hr_url with (lower_str (C02_Model.r_url hr_r)).
  apply (token_guarantee_all ex_re_ok ex_re_match seahash hr_rule_full hr_rq hr_r
           (Some (seahash (bs "site.org"))) None); auto.
  intros s Ef _. vm_compute in Ef. inversion Ef; subst s.
  split; [reflexivity|]. intros x _. vm_compute. reflexivity.
Qed.

(* list level: hostname-anchored regex-type rules (pinned, floating behind a wildcard host, with a
   leading '^'), an unanchored regex-type rule with a single-domain token, a plain rule, a bare
   ||host^ rule and an exception; the matcher is the modelled NetworkFilter::matches *)
Definition hr_hn_regex (extra : N) : N :=
  N.lor M_DEFAULT_OPTIONS (N.lor M_IS_HOSTNAME_ANCHOR (N.lor M_IS_REGEX extra)).
Definition hr_list : list rule :=
  [ hr_rule;                                                                    (* ||example.com/ads/*/banner^ *)
    mkr 61 (hr_hn_regex M_IS_LEFT_ANCHOR) (FSimple (bs "^*/track")) (Some (bs "example.com")) None None None None;
                                                                                (* ||example.com^*/track *)
    mkr 62 (N.lor M_DEFAULT_OPTIONS M_IS_REGEX) (FSimple (bs "/ads/*/banner^")) None
        (Some [seahash (bs "site.org")]) None None None;                        (* /ads/*/banner^$domain=site.org *)
    mkr 63 (hr_hn_regex M_IS_HOSTNAME_REGEX) (FSimple (bs "/728x90^")) (Some (bs "example.com")) None None None None;
                                                                                (* ||example.com*/728x90^ *)
    mkr 64 M_DEFAULT_OPTIONS (FSimple (bs "/banner/x3")) None None None None None;   (* /banner/x3 *)
    mkr 65 (N.lor M_DEFAULT_OPTIONS (N.lor M_IS_HOSTNAME_ANCHOR M_IS_RIGHT_ANCHOR)) FEmpty
        (Some (bs "example.net")) None None None None;                          (* ||example.net^ *)
    mkr 66 (N.lor (hr_hn_regex M_IS_LEFT_ANCHOR) M_IS_EXCEPTION) (FSimple (bs "^*banner"))
        (Some (bs "sub.example.com")) None None None None ].                    (* @@||sub.example.com^*banner *)
Definition hr_matches (f : rule) : bool :=
  options_ok f None None hr_rq && pattern_ok ex_re_ok ex_re_match f hr_r.

Example all_list_example :
  id_inj hr_list /\ std_request hr_rq hr_r /\
  model_hits ex_re_ok ex_re_match hr_matches hr_rq hr_r hr_list /\
  regex_contract ex_re_ok ex_re_match hr_list /\
  (forall f, In f hr_list -> tg_class f = true) /\
  map hr_matches hr_list = [true; false; true; true; false; false; true] /\
  (forall mr fc,
     blocker_check_p hr_matches (probes seahash (C03_Model.rq_src hr_rq) hr_url) mr fc
       (tags_with_set seahash (blocker_new seahash hr_list) [])
     = {| v_matched := false; v_important := false; v_exception := true; v_filter := negb mr |}).
Proof.
  assert (Hinj : id_inj hr_list).
  { intros f g Hf Hg E. unfold hr_list in Hf, Hg.
    repeat (destruct Hf as [Hf|Hf]; [subst f|]); try destruct Hf;
    repeat (destruct Hg as [Hg|Hg]; [subst g|]); try destruct Hg;
    try reflexivity; vm_compute in E; discriminate E. }
  assert (Hmh : model_hits ex_re_ok ex_re_match hr_matches hr_rq hr_r hr_list).
  { intros f _ Hm. unfold hr_matches in Hm. apply andb_true_iff in Hm as [Ho Hp].
    split; [exists None, None; exact Ho|exact Hp]. }
  assert (Hrc : regex_contract ex_re_ok ex_re_match hr_list).
  { intros f s Hf Ef Erx. unfold hr_list in Hf.
    repeat (destruct Hf as [Hf|Hf]; [subst f|]); try destruct Hf;
      first [ vm_compute in Erx; discriminate Erx
            | vm_compute in Ef; inversion Ef; subst s;
              (split; [reflexivity|intros x _; vm_compute; reflexivity]) ]. }
  assert (Hcl : forall f, In f hr_list -> tg_class f = true).
  { intros f Hf. unfold hr_list in Hf.
    repeat (destruct Hf as [Hf|Hf]; [subst f|]); try destruct Hf; vm_compute; reflexivity. }
  split; [exact Hinj|]. split; [exact hr_std_request|]. split; [exact Hmh|]. split; [exact Hrc|].
  split; [exact Hcl|]. split; [vm_compute; reflexivity|].
  intros mr fc.
  change hr_url with (lower_str (C02_Model.r_url hr_r)).
  rewrite (engine_eq_spec_p_all ex_re_ok ex_re_match seahash hr_matches hr_rq hr_r mr fc hr_list []
             Hinj hr_std_request Hmh Hrc Hcl).
  destruct mr, fc; vm_compute; reflexivity.
Qed.

(* why [no_nl] stays a premise: the regex crate's contract [re_std] only speaks about haystacks
   without a line feed ('.' does not match one), so a crate model that is standard there and
   arbitrary elsewhere accepts a URL with a line feed that lacks the rule's tokens.  (The real crate
   is stricter, not looser, on such haystacks; Request::new strips line feeds from the URL.) *)
Definition nl_re_match (txt s : str) : bool := if C02_Model.no_nl s then ex_re_match txt s else true.
Lemma regex_contract_no_nl_refuted :
  exists f rq r,
    tg_class f = true /\ options_ok f None None rq = true /\
    (forall s, rfilter f = FSimple s -> is_regex f = true ->
       C02_Model.re_std ex_re_ok nl_re_match
         (C02_Model.translate s (is_left_anchor f) (is_right_anchor f))
         (is_left_anchor f) (is_right_anchor f) (rtoks s)) /\
    C02_Model.no_nl (C02_Model.r_url r) = false /\
    pattern_ok ex_re_ok nl_re_match f r = true /\
    ~ covered seahash (probes seahash (C03_Model.rq_src rq) (lower_str (C02_Model.r_url r))) f.
Proof.
  exists (mkr 71 (N.lor M_DEFAULT_OPTIONS M_IS_REGEX) (FSimple (bs "/ads/*/banner^")) None None None None None),
    hr_rq, {| C02_Model.r_url := bs "https://x.org/a" ++ [10]; C02_Model.r_host := bs "x.org" |}.
  split; [vm_compute; reflexivity|]. split; [vm_compute; reflexivity|]. split; [|split; [|split]].
  - intros s Ef _. vm_compute in Ef. inversion Ef; subst s. split; [reflexivity|].
    intros x Hx. unfold nl_re_match. rewrite Hx. vm_compute. reflexivity.
  - vm_compute. reflexivity.
  - vm_compute. reflexivity.
  - intros (g & Hg & Hi). vm_compute in Hg. destruct Hg as [<-|[]].
    specialize (Hi _ (or_introl eq_refl)). vm_compute in Hi.
    repeat (destruct Hi as [Hi|Hi]; [discriminate Hi|]). exact Hi.
Qed.
