(* C05_Model.v — L1 model of src/optimizer.rs (SimplePatternGroup) and of
   NetworkFilterList::optimize / Blocker::optimize.  Definitions only. *)
From Adb Require Import Base Generated Hashing Net_Model.

(* select: which rules may be fused *)
Definition opt_select (f : rule) : bool :=
  match rdomains f, rnotdomains f with
  | None, None => negb (flag f M_IS_HOSTNAME_ANCHOR) && negb (is_redirect f) && negb (is_csp f)
  | _, _ => false
  end.

(* group_by_criteria: "{mask:b}:{is_complete_regex}:{tag}" — equal strings iff equal mask and tag *)
Definition same_key (f g : rule) : bool :=
  N.eqb (rmask f) (rmask g) && opt_eqb str_eqb (rtag f) (rtag g).

(* groups in first-seen order, members in arrival order (the HashMap's own order is irrelevant
   after the final sort by id) *)
Fixpoint group_insert (f : rule) (gs : list (list rule)) : list (list rule) :=
  match gs with
  | [] => [[f]]
  | g :: r =>
      match g with
      | [] => g :: group_insert f r
      | x :: _ => if same_key x f then (g ++ [f]) :: r else g :: group_insert f r
      end
  end.
Definition groups_of (fs : list rule) : list (list rule) :=
  fold_left (fun gs f => group_insert f gs) fs [].

Definition patterns_of (f : rule) : list str :=
  match rfilter f with FEmpty => [] | FSimple s => [s] | FAnyOf l => l end.
Definition is_fempty (f : rule) : bool := match rfilter f with FEmpty => true | _ => false end.

Definition set_bit (m bit : N) (v : bool) : N :=
  if v then N.lor m bit else N.ldiff m bit.

Definition fusion (g : list rule) : option rule :=
  match g with
  | [] => None            (* filters[0] would panic; never called on an empty group *)
  | base :: _ =>
      let filt :=
        if existsb is_fempty g then FEmpty
        else match flat_map patterns_of g with
             | [] => FEmpty
             | [s] => FSimple s
             | l => FAnyOf l
             end in
      let m := set_bit (rmask base) M_IS_REGEX (existsb is_regex g) in
      let m := set_bit m M_IS_COMPLETE_REGEX (existsb is_complete_regex g) in
      Some {| rid := rid base; rmask := m; rfilter := filt; rhost := rhost base;
              rdomains := rdomains base; rnotdomains := rnotdomains base;
              rmod := rmod base; rtag := rtag base |}
  end.

(* stable insertion sort by id *)
Fixpoint insert_by_id (f : rule) (l : list rule) : list rule :=
  match l with
  | [] => [f]
  | g :: r => if N.leb (rid f) (rid g) then f :: l else g :: insert_by_id f r
  end.
Definition sort_by_id (l : list rule) : list rule := fold_right insert_by_id [] l.

Definition optimize (fs : list rule) : list rule :=
  let pos := filter opt_select fs in
  let neg := filter (fun f => negb (opt_select f)) fs in
  let gs := groups_of pos in
  let fused := flat_map (fun g => match g with
                                  | _ :: _ :: _ => match fusion g with Some f => [f] | None => [] end
                                  | _ => []
                                  end) gs in
  let single := flat_map (fun g => match g with [x] => [x] | _ => [] end) gs in
  sort_by_id (fused ++ neg ++ single).

(* NetworkFilterList::optimize: only rules held by a single bucket (Arc::try_unwrap succeeds) are
   handed to the optimizer; the others are appended unchanged, and the bucket is sorted by id again
   (since /repo e89168f: before, the shared rules stayed at the end, and the order in which
   equal-priority redirect rules were found depended on optimisation) *)
Definition occurrences (m : fmap) (i : N) : nat :=
  length (filter (fun kb => existsb (fun f => N.eqb (rid f) i) (snd kb)) m).
Definition fl_optimize (m : fmap) : fmap :=
  map (fun kb =>
         let uniq := filter (fun f => Nat.eqb (occurrences m (rid f)) 1) (snd kb) in
         let shared := filter (fun f => negb (Nat.eqb (occurrences m (rid f)) 1)) (snd kb) in
         (fst kb, sort_by_id ((if Nat.ltb 1 (length uniq) then optimize uniq else uniq) ++ shared))) m.

(* Blocker::optimize: every list but removeparam *)
Definition blocker_optimize (b : blocker) : blocker :=
  {| b_csp := fl_optimize (b_csp b); b_exceptions := fl_optimize (b_exceptions b);
     b_importants := fl_optimize (b_importants b); b_redirects := fl_optimize (b_redirects b);
     b_removeparam := b_removeparam b; b_tagged := fl_optimize (b_tagged b);
     b_filters := fl_optimize (b_filters b); b_generic_hide := fl_optimize (b_generic_hide b);
     b_tags := b_tags b; b_tagged_all := b_tagged_all b |}.

(* ---- matcher shape used by the theorems: options depend on the mask (selected rules have no
   domain options), the pattern part is "any of the rule's patterns" ---- *)
Section Matcher.
Variable om : N -> bool.            (* check_options of a domain-less rule against the request *)
Variable pm : N -> str -> bool.     (* one pattern under a mask against the request *)
(* an iterator of zero patterns matches everything (filters.len() == 0 => true; MatchAll) *)
Definition anyof (m : N) (p : fpart) : bool :=
  match p with
  | FEmpty => true
  | FSimple s => pm m s
  | FAnyOf [] => true
  | FAnyOf l => existsb (pm m) l
  end.
Definition rmatch (f : rule) : bool := om (rmask f) && anyof (rmask f) (rfilter f).
End Matcher.

(* rules as the parser and the optimizer produce them: AnyOf never holds zero patterns *)
Definition wfp (f : rule) : bool :=
  match rfilter f with FAnyOf [] => false | _ => true end.

(* case-file helper: dumped bucket as (id, mask, patterns) triples *)
Definition bucket_view (b : list rule) : list (N * N * list str) :=
  map (fun f => (rid f, rmask f, patterns_of f)) b.
Definition view_eqb (a b : list (N * N * list str)) : bool :=
  list_eqb (fun x y => N.eqb (fst (fst x)) (fst (fst y)) && N.eqb (snd (fst x)) (snd (fst y))
                       && list_eqb str_eqb (snd x) (snd y)) a b.

(* a whole dumped list against a model list: same keys, same (id, mask, patterns) per bucket *)
Definition fmap_views_eqb (m : fmap) (views : list (N * list (N * N * list str))) : bool :=
  forallb (fun kv => view_eqb (bucket_view (bucket m (fst kv))) (snd kv)) views
  && Nat.eqb (length views) (length m).
(* Blocker::optimize on a dumped blocker (eight lists) against the eight dumped lists afterwards *)
Definition blocker_views_eqb (b : blocker) (vs : list (list (N * list (N * N * list str)))) : bool :=
  match vs with
  | [v1; v2; v3; v4; v5; v6; v7; v8] =>
      fmap_views_eqb (b_csp b) v1 && fmap_views_eqb (b_exceptions b) v2
      && fmap_views_eqb (b_importants b) v3 && fmap_views_eqb (b_redirects b) v4
      && fmap_views_eqb (b_removeparam b) v5 && fmap_views_eqb (b_tagged b) v6
      && fmap_views_eqb (b_filters b) v7 && fmap_views_eqb (b_generic_hide b) v8
  | _ => false
  end.
Definition mkb (l : list fmap) : blocker :=
  match l with
  | [m1; m2; m3; m4; m5; m6; m7; m8] =>
      {| b_csp := m1; b_exceptions := m2; b_importants := m3; b_redirects := m4; b_removeparam := m5;
         b_tagged := m6; b_filters := m7; b_generic_hide := m8; b_tags := []; b_tagged_all := [] |}
  | _ => {| b_csp := []; b_exceptions := []; b_importants := []; b_redirects := []; b_removeparam := [];
            b_tagged := []; b_filters := []; b_generic_hide := []; b_tags := []; b_tagged_all := [] |}
  end.
