(* C06_Model.v — history: incremental Blocker::add_filter vs batch construction, and the
   address-keyed regex cache of RegexManager.  Definitions only. *)
From Adb Require Import Base Generated Hashing Net_Model.

Section WithHash.
Variable h : str -> N.

(* NetworkFilterList::filter_exists *)
Definition list_exists (m : fmap) (f : rule) : bool :=
  let toks := List.concat (get_tokens h f) in
  let toks := match toks with [] => [0] | _ => toks end in
  existsb (fun k => existsb (fun g => N.eqb (rid g) (rid f)) (bucket m k)) toks.

(* Blocker::filter_exists (category order of Blocker::new) *)
Definition filter_exists (b : blocker) (f : rule) : bool :=
  if is_csp f then list_exists (b_csp b) f
  else if is_removeparam f then list_exists (b_removeparam b) f
  else if is_generic_hide f then list_exists (b_generic_hide b) f
  else if is_exception f then list_exists (b_exceptions b) f
  else if is_important f && (negb (is_redirect f) || also_block_redirect f) then list_exists (b_importants b) f
  else if is_redirect f then list_exists (b_redirects b) f
  else match rtag f with
       | Some _ => existsb (fun g => N.eqb (rid g) (rid f)) (b_tagged_all b)
       | None => list_exists (b_filters b) f
       end.

Inductive add_result := AddOk | AddBadFilter | AddExists.

Definition set_redirects (b : blocker) (m : fmap) : blocker :=
  {| b_csp := b_csp b; b_exceptions := b_exceptions b; b_importants := b_importants b;
     b_redirects := m; b_removeparam := b_removeparam b; b_tagged := b_tagged b;
     b_filters := b_filters b; b_generic_hide := b_generic_hide b; b_tags := b_tags b;
     b_tagged_all := b_tagged_all b |}.

(* Blocker::add_filter *)
Definition blocker_add (b : blocker) (f : rule) : blocker * add_result :=
  if is_badfilter f then (b, AddBadFilter)
  else if filter_exists b f then (b, AddExists)
  else
    let b := if is_redirect f then set_redirects b (fl_add h (b_redirects b) f) else b in
    let upd :=
      match category_of f with
      | CCsp => {| b_csp := fl_add h (b_csp b) f; b_exceptions := b_exceptions b; b_importants := b_importants b;
                   b_redirects := b_redirects b; b_removeparam := b_removeparam b; b_tagged := b_tagged b;
                   b_filters := b_filters b; b_generic_hide := b_generic_hide b; b_tags := b_tags b;
                   b_tagged_all := b_tagged_all b |}
      | CRemoveparam => {| b_csp := b_csp b; b_exceptions := b_exceptions b; b_importants := b_importants b;
                   b_redirects := b_redirects b; b_removeparam := fl_add h (b_removeparam b) f; b_tagged := b_tagged b;
                   b_filters := b_filters b; b_generic_hide := b_generic_hide b; b_tags := b_tags b;
                   b_tagged_all := b_tagged_all b |}
      | CGenericHide => {| b_csp := b_csp b; b_exceptions := b_exceptions b; b_importants := b_importants b;
                   b_redirects := b_redirects b; b_removeparam := b_removeparam b; b_tagged := b_tagged b;
                   b_filters := b_filters b; b_generic_hide := fl_add h (b_generic_hide b) f; b_tags := b_tags b;
                   b_tagged_all := b_tagged_all b |}
      | CException => {| b_csp := b_csp b; b_exceptions := fl_add h (b_exceptions b) f; b_importants := b_importants b;
                   b_redirects := b_redirects b; b_removeparam := b_removeparam b; b_tagged := b_tagged b;
                   b_filters := b_filters b; b_generic_hide := b_generic_hide b; b_tags := b_tags b;
                   b_tagged_all := b_tagged_all b |}
      | CImportant => {| b_csp := b_csp b; b_exceptions := b_exceptions b; b_importants := fl_add h (b_importants b) f;
                   b_redirects := b_redirects b; b_removeparam := b_removeparam b; b_tagged := b_tagged b;
                   b_filters := b_filters b; b_generic_hide := b_generic_hide b; b_tags := b_tags b;
                   b_tagged_all := b_tagged_all b |}
      | CTagged => tags_with_set h
                   {| b_csp := b_csp b; b_exceptions := b_exceptions b; b_importants := b_importants b;
                      b_redirects := b_redirects b; b_removeparam := b_removeparam b; b_tagged := b_tagged b;
                      b_filters := b_filters b; b_generic_hide := b_generic_hide b; b_tags := b_tags b;
                      b_tagged_all := b_tagged_all b ++ [f] |} (b_tags b)
      | CNormal => {| b_csp := b_csp b; b_exceptions := b_exceptions b; b_importants := b_importants b;
                   b_redirects := b_redirects b; b_removeparam := b_removeparam b; b_tagged := b_tagged b;
                   b_filters := fl_add h (b_filters b) f; b_generic_hide := b_generic_hide b; b_tags := b_tags b;
                   b_tagged_all := b_tagged_all b |}
      | CNone => b
      end in
    (upd, AddOk).

(* the rules a sequence of add_filter calls actually accepted, in arrival order *)
Fixpoint add_all (b : blocker) (fs : list rule) : blocker * list rule :=
  match fs with
  | [] => (b, [])
  | f :: r => let '(b1, res) := blocker_add b f in
              let '(b2, acc) := add_all b1 r in
              (b2, match res with AddOk => f :: acc | _ => acc end)
  end.
End WithHash.

(* ------------------------------------------------------------------ regex cache *)
(* Addresses and patterns are abstract numbers: [heap a] = the pattern of the rule currently
   living at address a; [cache a] = the pattern the cached regex at key a was compiled from. *)
Definition amap := list (N * N).
Fixpoint aget (m : amap) (a : N) : option N :=
  match m with [] => None | (k, v) :: r => if N.eqb k a then Some v else aget r a end.
Fixpoint adel (m : amap) (a : N) : amap :=
  match m with [] => [] | (k, v) :: r => if N.eqb k a then adel r a else (k, v) :: adel r a end.
Definition aset (m : amap) (a v : N) : amap := (a, v) :: adel m a.

Record rstate := { heap : amap; cache : amap }.

Inductive rop :=
| RAlloc (a p : N)          (* a rule with pattern p is allocated at a (allocator contract: a is free) *)
| RMatch (a : N)            (* NetworkFilter::matches on the rule at a: lazy compile, then use *)
| RDiscard (a : N)          (* discard_regex / time-based cleanup of one entry *)
| RRebuild (dead : list N) (fresh : list (N * N))
                            (* tags_with_set / optimize: rules at [dead] are freed, [fresh] allocated,
                               then RegexManager::clear() *)
| RRebuildNoClear (dead : list N) (fresh : list (N * N)).
                            (* the same without clear(): the code before the fix (refutation only) *)

Definition free_all (m : amap) (dead : list N) : amap := fold_left adel dead m.
Definition alloc_all (m : amap) (fresh : list (N * N)) : amap :=
  fold_left (fun m ap => aset m (fst ap) (snd ap)) fresh m.

(* result of a match op: the pattern whose regex answered *)
Definition rstep (s : rstate) (o : rop) : rstate * option N :=
  match o with
  | RAlloc a p => ({| heap := aset (heap s) a p; cache := cache s |}, None)
  | RMatch a =>
      match aget (heap s) a with
      | None => (s, None)
      | Some p =>
          match aget (cache s) a with
          | Some q => (s, Some q)
          | None => ({| heap := heap s; cache := aset (cache s) a p |}, Some p)
          end
      end
  | RDiscard a => ({| heap := heap s; cache := adel (cache s) a |}, None)
  | RRebuild dead fresh =>
      ({| heap := alloc_all (free_all (heap s) dead) fresh; cache := [] |}, None)
  | RRebuildNoClear dead fresh =>
      ({| heap := alloc_all (free_all (heap s) dead) fresh; cache := cache s |}, None)
  end.

(* the allocator never hands out a live address *)
Definition op_ok (s : rstate) (o : rop) : Prop :=
  match o with
  | RAlloc a _ => aget (heap s) a = None
  | RRebuildNoClear _ _ => False
  | _ => True
  end.

Definition CacheInv (s : rstate) : Prop :=
  forall a q, aget (cache s) a = Some q -> aget (heap s) a = Some q.

Fixpoint run_rops (s : rstate) (ops : list rop) : rstate * list (option N) :=
  match ops with
  | [] => (s, [])
  | o :: r => let '(s1, out) := rstep s o in
              let '(s2, outs) := run_rops s1 r in (s2, out :: outs)
  end.
Fixpoint ops_ok (s : rstate) (ops : list rop) : Prop :=
  match ops with
  | [] => True
  | o :: r => op_ok s o /\ ops_ok (fst (rstep s o)) r
  end.

(* CacheInv evaluated on a dumped implementation state: heap = (address, regex text) of every
   stored regex rule, cache = (key, regex text) of every compiled entry *)
Definition dump_inv_b (heap_d cache_d : list (N * str)) : bool :=
  forallb (fun kc => match find (fun ah => N.eqb (fst ah) (fst kc)) heap_d with
                     | Some ah => str_eqb (snd ah) (snd kc)
                     | None => false     (* an entry for a dead address would be reused by the next rule allocated there *)
                     end) cache_d.
