(* Tok_Host_Proofs.v — the token guarantee for hostname-anchored rules without pattern
   (`||host`, `||host^`): every token of the rule's hostname is a whole token of the URL of any
   request whose hostname the rule is anchored to.  Builds on the label-boundary decomposition of
   anchored_hostname_end proved for C02. *)
From Adb Require Import Base BaseProofs Generated Hashing Net_Model Net_Proofs Tok_Proofs.
From Adb Require C02_Model C02_Proofs.
From Coq Require Import ZifyBool ZifyNat ZifyN.

Notation DOT := C02_Model.DOT.
Lemma dot_delim : delim DOT.
Proof. split; [vm_compute; reflexivity|discriminate]. Qed.

Definition ends_delim (u : str) : Prop := u = [] \/ exists u' d, u = u' ++ [d] /\ delim d.
Definition starts_delim (v : str) : Prop := v = [] \/ exists d v', v = d :: v' /\ delim d.

Lemma last_is_dot_split pre : C02_Model.last_is DOT pre = true -> exists p', pre = p' ++ [DOT].
Proof.
  unfold C02_Model.last_is. destruct pre as [|x r]; [discriminate|]. intros H. apply N.eqb_eq in H.
  destruct (@exists_last _ (x :: r)) as (p' & d & Ep); [discriminate|].
  exists p'. rewrite Ep in H. rewrite last_last in H. subst d. exact Ep.
Qed.
Lemma head_is_dot_split post : C02_Model.head_is DOT post = true -> exists p', post = DOT :: p'.
Proof.
  unfold C02_Model.head_is. destruct post as [|x r]; [discriminate|]. intros H. apply N.eqb_eq in H. subst. eauto.
Qed.

Lemma allowed_not_dot t : forallb allowed t = true -> C02_Model.head_is DOT t = false /\ C02_Model.last_is DOT t = false.
Proof.
  intros H. split.
  - destruct t as [|x r]; [reflexivity|]. cbn in *. apply andb_true_iff in H as [H _].
    destruct (N.eqb_spec x DOT); [subst; vm_compute in H; discriminate|reflexivity].
  - unfold C02_Model.last_is. destruct t as [|x r]; [reflexivity|].
    destruct (@exists_last _ (x :: r)) as (p' & d & Ep); [discriminate|]. rewrite Ep in *. rewrite last_last.
    rewrite forallb_app in H. apply andb_true_iff in H as [_ H]. cbn in H. rewrite andb_true_r in H.
    destruct (N.eqb_spec d DOT); [subst; vm_compute in H; discriminate|reflexivity].
Qed.

(* the heart: a token of the filter hostname [hn], anchored in [host] at label boundaries, with
   [host] sitting in the URL between delimiters, is a token of the URL *)
Theorem hostname_tokens_covered hn host e o upre upost t :
  C02_Model.anchor_at hn host false e o ->
  ends_delim upre -> starts_delim upost ->
  In t (tku false false hn 0 None None) ->
  In t (tku false false (upre ++ host ++ upost) 0 None None).
Proof.
  intros (pre & post & Hhost & _ & Hl & Hr) Hupre Hupost Hin.
  apply tokenize_complete.
  destruct (tokenize_filter_sound false false hn t Hin) as (u & v & Hhn & Hu & Hv & _ & _ & Hall & Hlen).
  destruct (allowed_not_dot t Hall) as [Hnh Hnl].
  exists (upre ++ pre ++ u), (v ++ post ++ upost). split.
  { rewrite Hhost, Hhn. rewrite <- !app_assoc. reflexivity. }
  repeat split; auto.
  - (* left boundary *)
    destruct Hu as [->|(u' & d & -> & Hd)].
    + rewrite app_nil_r.
      destruct Hl as [->|[Hl|Hl]].
      * rewrite app_nil_r. destruct Hupre as [->|(u' & d & -> & Hd)]; [left; reflexivity|right; eauto].
      * exfalso. rewrite Hhn in Hl. cbn [app] in Hl.
        destruct t as [|x r]; [cbn in Hlen; lia|]. unfold C02_Model.head_is in Hl, Hnh. cbn [app] in Hl.
        rewrite Hl in Hnh. discriminate.
      * destruct (last_is_dot_split pre Hl) as [p' ->]. right. exists (upre ++ p'), DOT.
        rewrite <- app_assoc. split; [reflexivity|apply dot_delim].
    + right. exists (upre ++ pre ++ u'), d. rewrite <- !app_assoc. auto.
  - (* right boundary *)
    destruct Hv as [->|(d & v' & -> & Hd)].
    + cbn [app].
      destruct Hr as [->|(_ & [Hw|[Hr|Hr]])].
      * cbn [app]. destruct Hupost as [->|(d & v' & -> & Hd)]; [left; reflexivity|right; eauto].
      * discriminate.
      * exfalso. rewrite Hhn, app_nil_r in Hr.
        destruct (@exists_last _ t) as (t' & d0 & Et); [destruct t; [cbn in Hlen; lia|discriminate]|].
        rewrite Et in Hr, Hnl. rewrite app_assoc in Hr.
        unfold C02_Model.last_is in Hr, Hnl.
        destruct ((u ++ t') ++ [d0]) eqn:E1; [destruct (u ++ t'); discriminate|]. rewrite <- E1 in Hr. rewrite last_last in Hr.
        destruct (t' ++ [d0]) eqn:E2; [destruct t'; discriminate|]. rewrite <- E2 in Hnl. rewrite last_last in Hnl.
        congruence.
      * destruct (head_is_dot_split post Hr) as [p' ->]. right. exists DOT, (p' ++ upost).
        split; [reflexivity|apply dot_delim].
    + right. exists d, (v' ++ post ++ upost). auto.
Qed.

(* ---------------------------------------------------------------- hostname rules *)
Definition host_rule (f : rule) (hn : str) : Prop :=
  rfilter f = FEmpty /\ rhost f = Some hn /\ rdomains f = None /\ rnotdomains f = None /\
  flag f M_IS_HOSTNAME_REGEX = false /\ is_removeparam f = false /\
  flag f M_FROM_HTTP = true /\ flag f M_FROM_HTTPS = true /\ tokenize hn <> [].

(* the request: its hostname occupies [host_start, host_end) of the lower-cased URL, between
   delimiters ("//" or '@' before; '/', ':', '?', '#' or the end after) — C12's host_is_slice *)
Definition host_in_url (url host : str) : Prop :=
  exists upre upost, url = upre ++ host ++ upost /\ ends_delim upre /\ starts_delim upost.

Theorem token_guarantee_host h f hn src url host e k :
  host_rule f hn -> hn <> [] ->
  C02_Model.anchored_hostname_end hn host false e = Some k ->
  host_in_url url host ->
  within_cutoff false false url -> within_cutoff false false hn ->
  covered h (probes h src url) f.
Proof.
  intros (Hf & Hh & Hd & Hnd & Hhr & Hrp & Hhttp & Hhttps & Hne) Hnn Hanch (upre & upost & Hurl & Hpre & Hpost) Hu Hs.
  destruct (C02_Proofs.ahe_some hn host false e k Hnn Hanch) as (o & _ & Hat & _).
  unfold covered. exists (map h (tokenize hn)). split.
  - unfold get_tokens. rewrite Hf, Hh, Hd, Hhr. cbn [app].
    set (T := map h (tokenize hn)).
    assert (HT : nullb T = false).
    { destruct T eqn:E; [|reflexivity]. apply map_eq_nil in E. contradiction. }
    rewrite HT. cbn [andb]. unfold flag in Hhttp, Hhttps. unfold flag. rewrite Hhttp, Hhttps. cbn [andb negb].
    rewrite app_nil_r. rewrite HT. left. reflexivity.
  - intros x Hx. apply in_map_iff in Hx as (t & <- & Ht).
    unfold probes. apply in_or_app. right. unfold request_tokens. apply in_or_app. left. apply in_map.
    unfold tokenize, tokenize_filter in *.
    rewrite (tk_eq_tku false false url 0 None None 0) by (cbn; exact Hu).
    rewrite (tk_eq_tku false false hn 0 None None 0) in Ht by (cbn; exact Hs).
    rewrite Hurl. apply (hostname_tokens_covered hn host e o upre upost t Hat Hpre Hpost Ht).
Qed.

Example host_tg_example :
  let f := mkr 21 (N.lor M_DEFAULT_OPTIONS (N.lor M_IS_HOSTNAME_ANCHOR M_IS_RIGHT_ANCHOR)) FEmpty (Some (bs "ads.example.com")) None None None None in
  host_rule f (bs "ads.example.com") /\
  C02_Model.anchored_hostname_end (bs "ads.example.com") (bs "sub.ads.example.com") false true = Some 19%nat /\
  host_in_url (bs "https://sub.ads.example.com/x") (bs "sub.ads.example.com").
Proof.
  cbn zeta. split; [|split].
  - repeat split; try (vm_compute; reflexivity). vm_compute. discriminate.
  - vm_compute. reflexivity.
  - exists (bs "https://"), (bs "/x"). split; [vm_compute; reflexivity|]. split.
    + right. exists (bs "https:/"), 47. split; [vm_compute; reflexivity|]. split; [vm_compute; reflexivity|discriminate].
    + right. exists 47, (bs "x"). split; [vm_compute; reflexivity|]. split; [vm_compute; reflexivity|discriminate].
Qed.
