(* Tok_Complete_Proofs.v — the token guarantee for complete-regex rules (`/re/`, with or without
   `$match-case`) and the list-level statements over the widened class [tg_class2] =
   [tg_class] (Tok_HostRegex_Model) or [complete_class] (Tok_Complete_Model).

   For a `/re/` rule NetworkFilter::get_tokens contributes no pattern token, and the parser gives
   it no hostname or the empty one, so the option check alone decides coverage: NO premise on the
   pattern side (no regex contract, no ASCII / no-'*' / no-line-feed premise, no hostname
   placement) and not even the 127-token cut-off of the URL is needed — the scheme token is the
   first token of the URL.
   Also here: what the pattern parser (C02_Model.parse_line) and the option parser
   (C03_Model.build_rule) build for such lines; the same for the whole-line parser with masks
   (C11_Model.network_parse) is in Tok_Complete_Parse_Proofs.v. *)
From Adb Require Import Base BaseProofs Generated Hashing Net_Model Net_Proofs Tok_Proofs Tok_Host_Proofs
  Tok_Regex_Proofs Tok_Ext_Model Tok_Ext_Proofs Tok_HostRegex_Model Tok_HostRegex_Proofs Tok_Complete_Model.
From Adb Require C02_Model C02_Proofs C02_Parse_Proofs C03_Model C03_Proofs.
From Coq Require Import Lia ZifyBool ZifyNat ZifyN.

(* ================================================================ (1) the scheme token without cut-off *)
(* `http` / `https` is the first token the tokenizer pushes: it is there whatever the length of
   the rest of the URL *)
Lemma http_first_token rest : In (bs "http") (tokenize (bs "http:" ++ rest)).
Proof.
  change (In (bs "http") (bs "http" :: tk false false rest 5 None (Some 58) 1)).
  left. reflexivity.
Qed.
Lemma https_first_token rest : In (bs "https") (tokenize (bs "https:" ++ rest)).
Proof.
  change (In (bs "https") (bs "https" :: tk false false rest 6 None (Some 58) 1)).
  left. reflexivity.
Qed.

Lemma tokenize_probed h src url t : In t (tokenize url) -> In (h t) (probes h src url).
Proof.
  intros Ht. unfold probes. apply in_or_app. right. unfold request_tokens. apply in_or_app. left.
  apply in_map. exact Ht.
Qed.

(* [Tok_Ext_Proofs.scheme_tokens_probed] without its cut-off premise *)
Lemma scheme_tokens_probed_nocut h f r url :
  C03_Model.scheme_ok (rmask f) r = true ->
  (scheme_restricted f = true -> C03_Model.rq_http r || C03_Model.rq_https r = true) ->
  scheme_tie r url ->
  incl (tok_scheme h f) (probes h (C03_Model.rq_src r) url).
Proof.
  intros Hok Hweb [Thttp Thttps]. unfold tok_scheme. unfold scheme_restricted in Hweb.
  unfold C03_Model.scheme_ok, C03_Model.for_http, C03_Model.for_https, C03_Model.has_flag in Hok.
  unfold flag, has in *.
  apply andb_true_iff in Hok as [Hs Hp].
  destruct (N.eqb (N.land (rmask f) M_FROM_HTTP) M_FROM_HTTP) eqn:E1,
           (N.eqb (N.land (rmask f) M_FROM_HTTPS) M_FROM_HTTPS) eqn:E2; cbn [andb negb orb] in *.
  - intros x Hx. destruct Hx.
  - specialize (Hweb eq_refl).
    destruct (C03_Model.rq_https r); [discriminate|]. rewrite orb_false_r in Hweb.
    intros x [<-|[]]. apply tokenize_probed.
    destruct (proj1 (C02_Proofs.prefixb_spec _ _) (Thttp Hweb)) as [rest ->]. apply http_first_token.
  - specialize (Hweb eq_refl).
    destruct (C03_Model.rq_http r); [discriminate|]. cbn [orb] in Hweb.
    intros x [<-|[]]. apply tokenize_probed.
    destruct (proj1 (C02_Proofs.prefixb_spec _ _) (Thttps Hweb)) as [rest ->]. apply https_first_token.
  - intros x Hx. destruct Hx.
Qed.

(* ================================================================ (2) one complete-regex rule *)
Lemma complete_class_parts f :
  complete_class f = true ->
  is_complete_regex f = true /\ negb (base_nil f && is_removeparam f) = true /\
  (forall l, rfilter f <> FAnyOf l) /\ host_tokenless f = true.
Proof.
  unfold complete_class. intros H.
  apply andb_true_iff in H as [H Hh]. apply andb_true_iff in H as [H Hf].
  apply andb_true_iff in H as [Hcr Hnp].
  split; [exact Hcr|]. split; [exact Hnp|]. split; [|exact Hh].
  intros l E. rewrite E in Hf. discriminate.
Qed.

Lemma complete_no_pattern_token h f : is_complete_regex f = true -> tok_pat h f = [].
Proof.
  intros Hcr. unfold tok_pat, pat_of. rewrite Hcr. destruct (rfilter f); reflexivity.
Qed.

Lemma tokenless_no_host_token h f : host_tokenless f = true -> tok_host h f = [].
Proof.
  unfold host_tokenless, tok_host. intros H.
  destruct (flag f M_IS_HOSTNAME_REGEX); [reflexivity|]. cbn [orb] in H.
  destruct (rhost f) as [hn|]; [|reflexivity].
  destruct (tokenize hn); [reflexivity|discriminate].
Qed.

(* the two classes do not overlap *)
Lemma classes_disjoint f : tg_class f = true -> complete_class f = false.
Proof.
  unfold tg_class, complete_class. intros H.
  apply andb_true_iff in H as [H _]. apply andb_true_iff in H as [H _].
  apply andb_true_iff in H as [H _]. apply andb_true_iff in H as [H _].
  apply negb_true_iff in H. rewrite H. reflexivity.
Qed.

(* THE PER-RULE THEOREM for the new disjunct: a complete-regex rule of the class whose options
   accept the request has a token group among the probes of the request.
   Premises on the request, all on the option side: a source for rules stored by their domain
   option (F2), http or https for scheme-restricted rules (F3), scheme flags that describe the
   URL.  Nothing about the pattern, the regex crate, the alphabet of the URL, the hostname or the
   token cut-off; [url] is any text at all when the rule is not scheme-restricted. *)
Theorem token_guarantee_complete h f rq odu ondu url :
  complete_class f = true ->
  options_ok f odu ondu rq = true ->
  (needs_source f = true -> C03_Model.rq_src rq <> None) ->
  (scheme_restricted f = true -> C03_Model.rq_http rq || C03_Model.rq_https rq = true) ->
  scheme_tie rq url ->
  covered h (probes h (C03_Model.rq_src rq) url) f.
Proof.
  intros Hcl Hopt Hsrc Hweb Htie.
  destruct (complete_class_parts f Hcl) as (Hcr & Hnp & _ & Hh).
  unfold options_ok in Hopt.
  destruct (check_options_parts _ _ _ _ _ _ Hopt) as [Hs Hi].
  apply covered_parts.
  - unfold no_param_fallback. rewrite base_nil_spec. exact Hnp.
  - (* single-domain token *)
    unfold tok_dom. unfold needs_source in Hsrc.
    destruct (rdomains f) as [[|d [|d' ds]]|] eqn:Ed; try (intros x Hx; destruct Hx; fail).
    destruct (rnotdomains f) as [nd|] eqn:En; [intros x Hx; destruct Hx|].
    specialize (Hsrc eq_refl).
    destruct (C03_Model.rq_src rq) as [hs|]; [|congruence].
    intros x [<-|[]]. apply (domain_token_probed h d odu hs url Hi).
  - rewrite (complete_no_pattern_token h f Hcr). intros x Hx. destruct Hx.
  - rewrite (tokenless_no_host_token h f Hh). intros x Hx. destruct Hx.
  - apply scheme_tokens_probed_nocut; auto.
  - (* per-domain dispatch *)
    intros ds Ed En. unfold needs_source in Hsrc. rewrite Ed, En in Hsrc. specialize (Hsrc eq_refl).
    rewrite Ed in Hi.
    destruct (C03_Model.rq_src rq) as [hs|]; [|congruence].
    destruct (included_pass_hit ds odu hs Hi) as (x & Hx & Hd).
    exists x. split; [exact Hd|]. unfold probes. apply in_or_app. left. exact Hx.
Qed.

(* the hostname condition of the class is needed: a `/re/` rule with a tokenized hostname (the
   parser never builds one; a deserialized rule could be one) is indexed under the hostname's
   tokens, which the option check says nothing about *)
Lemma complete_with_host_refuted :
  exists f rq url,
    is_complete_regex f = true /\ host_tokenless f = false /\
    options_ok f None None rq = true /\ needs_source f = false /\ scheme_restricted f = false /\
    scheme_tie rq url /\
    ~ covered seahash (probes seahash (C03_Model.rq_src rq) url) f.
Proof.
  exists (mkr 1 (N.lor M_DEFAULT_OPTIONS M_IS_COMPLETE_REGEX) (FSimple (bs "/ad[0-9]+/"))
              (Some (bs "example.com")) None None None None),
    (C03_Model.from_detailed_parameters seahash (bs "script") (bs "https") (bs "www.site.org") true),
    (bs "https://x.org/ad1").
  split; [vm_compute; reflexivity|]. split; [vm_compute; reflexivity|]. split; [vm_compute; reflexivity|].
  split; [vm_compute; reflexivity|]. split; [vm_compute; reflexivity|]. split.
  - split; [intros H; vm_compute in H; discriminate|intros _; vm_compute; reflexivity].
  - intros (g & Hg & Hi). vm_compute in Hg. destruct Hg as [<-|[]].
    specialize (Hi _ (or_introl eq_refl)). vm_compute in Hi.
    repeat (destruct Hi as [Hi|Hi]; [discriminate Hi|]). exact Hi.
Qed.

(* ================================================================ (3) lists over the widened class *)
Section WithRegexCrate.
Variable re_ok : str -> bool.
Variable re_match : str -> str -> bool.

(* [matches] answers as (or more strictly than) the modelled NetworkFilter::matches; the pattern
   side is only read for the rules of the old class — for a `/re/` rule only the option check is *)
Definition model_hits2 (matches : rule -> bool) (rq : C03_Model.request) (r : C02_Model.request)
           (L : list rule) : Prop :=
  forall f, In f L -> matches f = true ->
    (exists odu ondu, options_ok f odu ondu rq = true) /\
    (tg_class f = true -> pattern_ok re_ok re_match f r = true).

(* the regex crate's contract for the regex text of every regex-type rule of the old class (the
   text of a `/re/` rule is the user's own regex: nothing is asked about it) *)
Definition regex_contract2 (L : list rule) : Prop :=
  forall f s, In f L -> tg_class f = true -> rfilter f = FSimple s -> is_regex f = true ->
    C02_Model.re_std re_ok re_match
      (C02_Model.translate s (is_left_anchor f) (is_right_anchor f))
      (is_left_anchor f) (is_right_anchor f) (rtoks s).

Lemma model_hits2_old matches rq r L :
  model_hits2 matches rq r L -> model_hits re_ok re_match matches rq r (filter tg_class L).
Proof.
  intros H f Hf Hm. apply filter_In in Hf as [Hf Hc].
  destruct (H f Hf Hm) as [Ho Hp]. split; [exact Ho|exact (Hp Hc)].
Qed.
Lemma regex_contract2_old L : regex_contract2 L -> regex_contract re_ok re_match (filter tg_class L).
Proof.
  intros H f s Hf Ef Erx. apply filter_In in Hf as [Hf Hc]. exact (H f s Hf Hc Ef Erx).
Qed.

(* the weaker hypotheses follow from the ones of Tok_HostRegex_Proofs *)
Lemma model_hits_hits2 matches rq r L :
  model_hits re_ok re_match matches rq r L -> model_hits2 matches rq r L.
Proof. intros H f Hf Hm. destruct (H f Hf Hm) as [Ho Hp]. split; [exact Ho|intros _; exact Hp]. Qed.
Lemma regex_contract_contract2 L : regex_contract re_ok re_match L -> regex_contract2 L.
Proof. intros H f s Hf _ Ef Erx. exact (H f s Hf Ef Erx). Qed.

(* only the rules that match need to be in the class; the old class goes through
   [TG_all_hits] on the sub-list of its rules, the new disjunct through
   [token_guarantee_complete] *)
Theorem TG_all2_hits h matches rq r L :
  std_request rq r -> model_hits2 matches rq r L -> regex_contract2 L ->
  (forall f, In f L -> matches f = true -> tg_class2 f = true) ->
  TG h matches (probes h (C03_Model.rq_src rq) (lower_str (C02_Model.r_url r))) L.
Proof.
  intros Hr Hmh Hrc Hcl f Hf Hm.
  destruct (tg_class f) eqn:Ec.
  - assert (Hold : TG h matches (probes h (C03_Model.rq_src rq) (lower_str (C02_Model.r_url r)))
                      (filter tg_class L)).
    { apply (TG_all_hits re_ok re_match h matches rq r (filter tg_class L) Hr
               (model_hits2_old _ _ _ _ Hmh) (regex_contract2_old _ Hrc)).
      intros g Hg _. apply filter_In in Hg as [_ Hg]. exact Hg. }
    apply Hold; [apply filter_In; split; [exact Hf|exact Ec]|exact Hm].
  - pose proof (Hcl f Hf Hm) as Hc2. unfold tg_class2 in Hc2. rewrite Ec in Hc2. cbn [orb] in Hc2.
    destruct Hr as (_ & _ & _ & _ & (Hsrc & Hweb & Htie) & _).
    destruct (Hmh f Hf Hm) as ((odu & ondu & Hopt) & _).
    apply (token_guarantee_complete h f rq odu ondu); auto.
Qed.

(* THE LIST-LEVEL THEOREM over the widened class *)
Theorem TG_all2_list h matches rq r L :
  std_request rq r -> model_hits2 matches rq r L -> regex_contract2 L ->
  (forall f, In f L -> tg_class2 f = true) ->
  TG h matches (probes h (C03_Model.rq_src rq) (lower_str (C02_Model.r_url r))) L.
Proof.
  intros Hr Hmh Hrc Hcl. apply (TG_all2_hits h matches rq r L Hr Hmh Hrc).
  intros f Hf _. exact (Hcl f Hf).
Qed.

(* index answer = rule-by-rule answer, both flag combinations, no token-guarantee premise *)
Theorem engine_eq_spec_p_all2 h matches rq r mr fc L T :
  id_inj L -> std_request rq r -> model_hits2 matches rq r L -> regex_contract2 L ->
  (forall f, In f L -> tg_class2 f = true) ->
  blocker_check_p matches (probes h (C03_Model.rq_src rq) (lower_str (C02_Model.r_url r))) mr fc
    (tags_with_set h (blocker_new h L) T)
  = spec_verdict_p matches mr fc L T.
Proof.
  intros Hi Hr Hmh Hrc Hcl. apply engine_eq_spec_p; auto; [apply probes_zero_ext|].
  apply TG_all2_list; auto.
Qed.

Theorem engine_eq_spec_all2 h matches rq r L T :
  id_inj L -> std_request rq r -> model_hits2 matches rq r L -> regex_contract2 L ->
  (forall f, In f L -> tg_class2 f = true) ->
  blocker_check matches (probes h (C03_Model.rq_src rq) (lower_str (C02_Model.r_url r)))
    (tags_with_set h (blocker_new h L) T)
  = spec_verdict matches L T.
Proof.
  intros Hi Hr Hmh Hrc Hcl. apply engine_eq_spec; auto; [apply probes_zero_ext|].
  apply TG_all2_list; auto.
Qed.
End WithRegexCrate.

(* ================================================================ (4) what the parsers build *)
(* (a) the pattern parser (C02_Model.parse_pattern = the pattern part of NetworkFilter::parse on an
   option-free line): IS_COMPLETE_REGEX is decided by the first and last byte of the pattern, so a
   complete-regex pattern starts with the separator '/', and the `||` split — which the parser
   does for every pattern — leaves the EMPTY hostname.  Hence: no hostname without `||`, the
   empty hostname with it; never a hostname with a token. *)
Lemma host_stage_complete lk rp pattern :
  C02_Model.head_is C02_Model.SLASH pattern = true ->
  fst (fst (fst (fst (fst (C02_Parse_Proofs.host_stage lk rp pattern)))))
  = match lk with C02_Model.KDouble => Some (take 0 pattern) | _ => None end.
Proof.
  intros Hh. destruct pattern as [|x t]; [discriminate|]. cbn [C02_Model.head_is] in Hh.
  apply N.eqb_eq in Hh. subst x.
  unfold C02_Parse_Proofs.host_stage. destruct lk; try reflexivity.
  cbv zeta.
  destruct (C02_Model.check_is_regex (C02_Model.SLASH :: t)).
  - change (C02_Model.find_first_sep (C02_Model.SLASH :: t)) with (Some O).
    cbv iota beta.
    destruct (Nat.eqb (length (C02_Model.SLASH :: t) - 0) 1
              && C02_Model.head_is C02_Model.CARET (drop 0 (C02_Model.SLASH :: t))); reflexivity.
  - change (find_byte C02_Model.SLASH (C02_Model.SLASH :: t)) with (Some O). reflexivity.
Qed.

Theorem parse_pattern_complete lk rp pattern :
  let pf := C02_Model.parse_pattern lk rp pattern in
  C02_Model.s_mc (C02_Model.pf_shape pf) = false /\
  (C02_Model.s_cr (C02_Model.pf_shape pf) = true ->
   C02_Model.pf_hostname pf = match lk with C02_Model.KDouble => Some [] | _ => None end).
Proof.
  cbv zeta. rewrite C02_Parse_Proofs.parse_pattern_staged.
  pose proof (host_stage_complete lk rp pattern) as Hs.
  destruct (C02_Parse_Proofs.host_stage lk rp pattern) as [[[[[hostname fis1] la1] ra1] rx1] wild].
  cbn [fst] in Hs. cbv zeta.
  destruct (C02_Parse_Proofs.lead_stage fis1 (C02_Parse_Proofs.trail_stage fis1 pattern) la1 pattern) as [fis2 la2].
  destruct (C02_Parse_Proofs.proto_stage fis2 (C02_Parse_Proofs.trail_stage fis1 pattern) la2 pattern)
    as [[[[fis3 la3] http] https] ws].
  unfold C02_Parse_Proofs.finish. cbv zeta.
  cbn [C02_Model.pf_shape C02_Model.pf_hostname C02_Model.s_cr C02_Model.s_mc].
  split; [reflexivity|]. intros Hcr.
  apply andb_true_iff in Hcr as [Hcr _]. apply andb_true_iff in Hcr as [Hh _].
  rewrite (Hs Hh). destruct lk; reflexivity.
Qed.

(* the same on a whole option-free line, in the words of the class *)
Theorem parse_line_complete_shape line :
  let pf := C02_Model.parse_line line in
  C02_Model.s_mc (C02_Model.pf_shape pf) = false /\
  complete_shape_ok (C02_Model.s_cr (C02_Model.pf_shape pf)) (C02_Model.pf_hostname pf) = true.
Proof.
  cbv zeta. unfold C02_Model.parse_line.
  destruct (C02_Model.split_line line) as [[[exc lk] rp] pattern].
  destruct (parse_pattern_complete lk rp pattern) as [Hmc Hh]. split; [exact Hmc|].
  unfold complete_shape_ok.
  destruct (C02_Model.s_cr (C02_Model.pf_shape (C02_Model.parse_pattern lk rp pattern))); [|reflexivity].
  rewrite (Hh eq_refl). destruct lk; reflexivity.
Qed.

(* a rule record whose hostname / IS_COMPLETE_REGEX come from a parsed line satisfies the hostname
   condition of [complete_class] *)
Lemma complete_shape_tokenless f :
  complete_shape_ok (is_complete_regex f) (rhost f) = true -> is_complete_regex f = true ->
  host_tokenless f = true.
Proof.
  unfold complete_shape_ok, host_tokenless. intros H Hcr. rewrite Hcr in H. cbn [negb orb] in H.
  destruct (rhost f) as [[|c hn]|]; [|discriminate|]; apply orb_true_r.
Qed.

(* `||/re/` does get the (empty) hostname and IS_HOSTNAME_ANCHOR: "a /re/ rule never has a
   hostname" would be false, "never a hostname with a token" is what holds *)
Example double_pipe_complete_regex_parsed :
  let pf := C02_Model.parse_line (bs "||/ad[0-9]+/") in
  C02_Model.pf_hostname pf = Some [] /\ C02_Model.pf_filter pf = Some (bs "/ad[0-9]+/") /\
  C02_Model.s_cr (C02_Model.pf_shape pf) = true /\ C02_Model.s_hn (C02_Model.pf_shape pf) = true /\
  C02_Model.s_la (C02_Model.pf_shape pf) = true.
Proof. cbv zeta. repeat split; vm_compute; reflexivity. Qed.

(* (b) the option parser (C03_Model.build_rule = the option side of NetworkFilter::parse, which
   receives the pattern's shape): a rule it accepts carries MATCH_CASE only if the pattern is a
   complete regex (NetworkFilterError::MatchCaseWithoutFullRegex otherwise) *)
Lemma testbit_set_flag m v on k :
  N.testbit v k = false -> N.testbit (C03_Model.set_flag m v on) k = N.testbit m k.
Proof.
  intros Hv. unfold C03_Model.set_flag. destruct on.
  - rewrite N.lor_spec, Hv. apply orb_false_r.
  - rewrite N.ldiff_spec, Hv. apply andb_true_r.
Qed.

Lemma disjoint_bit14 m : C03_Model.disjoint m M_MATCH_CASE = true -> N.testbit m 14 = false.
Proof.
  unfold C03_Model.disjoint. intros H. apply N.eqb_eq in H.
  assert (G : N.testbit (N.land m M_MATCH_CASE) 14 = false) by (rewrite H; reflexivity).
  rewrite N.land_spec in G. change (N.testbit M_MATCH_CASE 14) with true in G.
  rewrite andb_true_r in G. exact G.
Qed.

Theorem finish_rule_match_case sh st p :
  C03_Model.finish_rule sh st = C03_Model.POk p ->
  C03_Model.has_flag (C03_Model.p_mask p) M_MATCH_CASE = true ->
  C03_Model.sh_complete_regex sh = true.
Proof.
  unfold C03_Model.finish_rule. cbv zeta.
  set (m1 := C03_Model.implicit_types (C03_Model.st_mask st) (C03_Model.st_pos st) (C03_Model.st_neg st)).
  destruct (C03_Model.sh_complete_regex sh); [reflexivity|]. cbn [negb andb].
  destruct (C03_Model.disjoint m1 M_MATCH_CASE) eqn:Ed; [|discriminate]. cbn [negb].
  pose proof (disjoint_bit14 m1 Ed) as Hb.
  set (m2 := C03_Model.apply_scheme m1 (C03_Model.sh_scheme sh)).
  assert (Hb2 : N.testbit m2 14 = false).
  { unfold m2, C03_Model.apply_scheme.
    destruct (C03_Model.sh_scheme sh); rewrite ?testbit_set_flag by reflexivity; exact Hb. }
  destruct (C03_Model.has_flag m2 M_GENERIC_HIDE && negb (C03_Model.sh_exception sh)); [discriminate|].
  destruct (C03_Model.has_flag m2 M_IS_REMOVEPARAM && C03_Model.sh_exception sh); [discriminate|].
  intros E. inversion E; subst p. clear E. cbn [C03_Model.p_mask].
  change M_MATCH_CASE with (2 ^ 14). rewrite C03_Proofs.has_flag_bit, N.ldiff_spec.
  unfold C03_Model.implicit_all_types.
  match goal with |- context [if ?c then _ else _] => destruct c end.
  - rewrite N.lor_spec, Hb2. change (N.testbit M_FROM_ALL_TYPES 14) with false. discriminate.
  - rewrite Hb2. discriminate.
Qed.

Theorem build_rule_match_case h sh opts p :
  C03_Model.build_rule h sh opts = C03_Model.POk p ->
  C03_Model.has_flag (C03_Model.p_mask p) M_MATCH_CASE = true ->
  C03_Model.sh_complete_regex sh = true.
Proof. unfold C03_Model.build_rule. apply finish_rule_match_case. Qed.

(* ================================================================ (5) non-vacuity *)
(* /ad[0-9]+\.js/$match-case,domain=site.org as NetworkFilter::parse reads it: the whole text
   between the slashes kept as written (match-case: not lower-cased), IS_COMPLETE_REGEX and
   MATCH_CASE on, IS_REGEX off (no '*' or '^'), no hostname, one initiator domain *)
Definition cx_rule : rule :=
  mkr 83 (N.lor M_DEFAULT_OPTIONS (N.lor M_IS_COMPLETE_REGEX M_MATCH_CASE))
      (FSimple (bs "/ad[0-9]+\.js/")) None (Some [seahash (bs "site.org")]) None None None.
Definition cx_url : str := bs "https://sub.example.com/ads/ad42.js?CB=1".
Definition cx_url_lower : str := bs "https://sub.example.com/ads/ad42.js?cb=1".
Definition cx_host : str := bs "sub.example.com".
Definition cx_r : C02_Model.request := {| C02_Model.r_url := cx_url; C02_Model.r_host := cx_host |}.
Definition cx_rq : C03_Model.request :=
  C03_Model.from_detailed_parameters seahash (bs "script") (bs "https") (bs "www.site.org") true.

(* the pattern fields are the ones the pattern parser gives for the option-free line (whose shape
   differs from the rule's in MATCH_CASE only, which the option parser adds) *)
Example cx_rule_is_parsed :
  let pf := C02_Model.parse_line (bs "/ad[0-9]+\.js/") in
  C02_Model.pf_hostname pf = rhost cx_rule /\ C02_Model.pf_filter pf = Some (bs "/ad[0-9]+\.js/") /\
  C02_Model.shape_of_mask (rmask cx_rule)
  = {| C02_Model.s_hn := false; C02_Model.s_rx := false; C02_Model.s_cr := true; C02_Model.s_la := false;
       C02_Model.s_ra := false; C02_Model.s_wild := false; C02_Model.s_mc := true |} /\
  C02_Model.pf_shape pf
  = {| C02_Model.s_hn := false; C02_Model.s_rx := false; C02_Model.s_cr := true; C02_Model.s_la := false;
       C02_Model.s_ra := false; C02_Model.s_wild := false; C02_Model.s_mc := false |}.
Proof. cbv zeta. repeat split; vm_compute; reflexivity. Qed.

(* a regex "crate" for the example: the one true regex by hand, the regex-type pattern by the token
   semantics it stands for *)
Definition cx_table : list (str * (bool * bool * str)) :=
  [ (C02_Model.translate (bs "/ads/*.js^") true false, (true, false, bs "/ads/*.js^")) ].
Definition cx_re_ok (txt : str) : bool := true.
Definition cx_re_match (txt s : str) : bool :=
  if str_eqb txt (bs "ad[0-9]+\.js") then ad_digits_js s
  else match ex_lookup cx_table txt with
       | Some (la, ra, p) => rsearch la ra (rtoks p) s
       | None => false
       end.

Lemma cx_std_request : std_request cx_rq cx_r.
Proof.
  unfold std_request. cbv zeta.
  assert (E : lower_str (C02_Model.r_url cx_r) = cx_url_lower) by (vm_compute; reflexivity). rewrite E.
  split; [vm_compute; reflexivity|]. split; [vm_compute; reflexivity|]. split.
  { intros H. vm_compute in H. repeat (destruct H as [H|H]; [discriminate H|]). exact H. }
  split; [vm_compute; lia|]. split.
  - split; [vm_compute; discriminate|]. split; [vm_compute; reflexivity|].
    split; [intros H; vm_compute in H; discriminate|intros _; vm_compute; reflexivity].
  - exists (bs "https://"), (bs "/ads/ad42.js?cb=1"). split; [vm_compute; reflexivity|]. split; [|split; [|split]].
    + right. exists (bs "https:/"), 47. split; [vm_compute; reflexivity|apply slash_delim].
    + right. exists 47, (bs "ads/ad42.js?cb=1"). split; [vm_compute; reflexivity|apply slash_delim].
    + vm_compute. lia.
    + vm_compute. reflexivity.
Qed.

(* the per-rule theorem on the /re/ rule: it is in the new disjunct (not in the old class), its
   options accept the request from www.site.org, the modelled matcher accepts the URL as written
   and — MATCH_CASE — rejects the same rule spelled `/AD[0-9]+\.js/`; its only token is the hash
   of its domain, which the request probes *)
Example complete_tg_example :
  let f := cx_rule in
  complete_class f = true /\ tg_class f = false /\ tg_class2 f = true /\
  options_ok f (Some (seahash (bs "site.org"))) None cx_rq = true /\
  needs_source f = true /\ C03_Model.rq_src cx_rq <> None /\ scheme_restricted f = false /\
  scheme_tie cx_rq cx_url_lower /\
  pattern_ok cx_re_ok cx_re_match f cx_r = true /\
  pattern_ok cx_re_ok cx_re_match
    (mkr 84 (rmask f) (FSimple (bs "/AD[0-9]+\.js/")) None (rdomains f) None None None) cx_r = false /\
  get_tokens seahash f = [[seahash (bs "site.org")]] /\
  covered seahash (probes seahash (C03_Model.rq_src cx_rq) cx_url_lower) f.
Proof.
  cbv zeta.
  assert (Hcl : complete_class cx_rule = true) by (vm_compute; reflexivity).
  assert (Hopt : options_ok cx_rule (Some (seahash (bs "site.org"))) None cx_rq = true) by (vm_compute; reflexivity).
  assert (Hsrc : C03_Model.rq_src cx_rq <> None) by (vm_compute; discriminate).
  assert (Htie : scheme_tie cx_rq cx_url_lower).
  { split; [intros H; vm_compute in H; discriminate|intros _; vm_compute; reflexivity]. }
  split; [exact Hcl|]. split; [vm_compute; reflexivity|]. split; [vm_compute; reflexivity|].
  split; [exact Hopt|]. split; [vm_compute; reflexivity|]. split; [exact Hsrc|].
  split; [vm_compute; reflexivity|]. split; [exact Htie|].
  split; [vm_compute; reflexivity|]. split; [vm_compute; reflexivity|]. split; [vm_compute; reflexivity|].
  apply (token_guarantee_complete seahash cx_rule cx_rq (Some (seahash (bs "site.org"))) None cx_url_lower); auto.
  all: try (intros H; vm_compute in H; discriminate H).
Qed.

(* list level: a plain rule, a hostname-anchored regex-type rule and the /re/ rule; the matcher is
   the modelled NetworkFilter::matches; all three match, the first two are in the old class, the
   third in the new disjunct, and the index answers as the rule-by-rule evaluation does *)
Definition cx_list : list rule :=
  [ mkr 81 M_DEFAULT_OPTIONS (FSimple (bs "/ads/ad")) None None None None None;            (* /ads/ad *)
    mkr 82 (N.lor M_DEFAULT_OPTIONS (N.lor M_IS_HOSTNAME_ANCHOR (N.lor M_IS_LEFT_ANCHOR M_IS_REGEX)))
        (FSimple (bs "/ads/*.js^")) (Some (bs "example.com")) None None None None;           (* ||example.com/ads/*.js^ *)
    cx_rule ].                                                     (* /ad[0-9]+\.js/$match-case,domain=site.org *)
Definition cx_matches (f : rule) : bool :=
  options_ok f None None cx_rq && pattern_ok cx_re_ok cx_re_match f cx_r.

Example all2_list_example :
  id_inj cx_list /\ std_request cx_rq cx_r /\
  model_hits2 cx_re_ok cx_re_match cx_matches cx_rq cx_r cx_list /\
  regex_contract2 cx_re_ok cx_re_match cx_list /\
  (forall f, In f cx_list -> tg_class2 f = true) /\
  map tg_class cx_list = [true; true; false] /\ map complete_class cx_list = [false; false; true] /\
  map cx_matches cx_list = [true; true; true] /\
  TG seahash cx_matches (probes seahash (C03_Model.rq_src cx_rq) cx_url_lower) cx_list /\
  (forall mr fc,
     blocker_check_p cx_matches (probes seahash (C03_Model.rq_src cx_rq) cx_url_lower) mr fc
       (tags_with_set seahash (blocker_new seahash cx_list) [])
     = {| v_matched := true; v_important := false; v_exception := false; v_filter := negb mr |}).
Proof.
  assert (Hinj : id_inj cx_list).
  { intros f g Hf Hg E. unfold cx_list in Hf, Hg.
    repeat (destruct Hf as [Hf|Hf]; [subst f|]); try destruct Hf;
    repeat (destruct Hg as [Hg|Hg]; [subst g|]); try destruct Hg;
    try reflexivity; vm_compute in E; discriminate E. }
  assert (Hmh : model_hits2 cx_re_ok cx_re_match cx_matches cx_rq cx_r cx_list).
  { intros f _ Hm. unfold cx_matches in Hm. apply andb_true_iff in Hm as [Ho Hp].
    split; [exists None, None; exact Ho|intros _; exact Hp]. }
  assert (Hrc : regex_contract2 cx_re_ok cx_re_match cx_list).
  { intros f s Hf Hc Ef Erx. unfold cx_list in Hf.
    repeat (destruct Hf as [Hf|Hf]; [subst f|]); try destruct Hf;
      first [ vm_compute in Erx; discriminate Erx
            | vm_compute in Hc; discriminate Hc
            | vm_compute in Ef; inversion Ef; subst s;
              (split; [reflexivity|intros x _; vm_compute; reflexivity]) ]. }
  assert (Hcl : forall f, In f cx_list -> tg_class2 f = true).
  { intros f Hf. unfold cx_list in Hf.
    repeat (destruct Hf as [Hf|Hf]; [subst f|]); try destruct Hf; vm_compute; reflexivity. }
  split; [exact Hinj|]. split; [exact cx_std_request|]. split; [exact Hmh|]. split; [exact Hrc|].
  split; [exact Hcl|]. split; [vm_compute; reflexivity|]. split; [vm_compute; reflexivity|].
  split; [vm_compute; reflexivity|].
  change cx_url_lower with (lower_str (C02_Model.r_url cx_r)). split.
  - exact (TG_all2_list cx_re_ok cx_re_match seahash cx_matches cx_rq cx_r cx_list
             cx_std_request Hmh Hrc Hcl).
  - intros mr fc.
    rewrite (engine_eq_spec_p_all2 cx_re_ok cx_re_match seahash cx_matches cx_rq cx_r mr fc cx_list []
               Hinj cx_std_request Hmh Hrc Hcl).
    destruct mr, fc; vm_compute; reflexivity.
Qed.
