(* Struct_Load_Proofs.v — tie between Engine::deserialize as the translator extracts it on every run
   (Generated.LoadGen: its statements in source order) and Wire_Model.install / C10_Model.deserialize.
   [run_load] executes the statements over the model's engine; the decode outcome is a parameter
   (None = the buffer is rejected).  A statement that needs the tags, the decoded value or the
   built parts before they exist is stuck (None).
   [rejected_load_changes_nothing]: a rejected buffer returns the engine exactly as it was;
   [accepted_load_is_install]: an accepted one gives Wire_Model.install — the blocker of the buffer
   re-filtered by use_tags under the CALLER's enabled tags, the cosmetic cache of the buffer, the
   caller's resources. *)
From Coq Require Import String.
From Adb Require Import Base Generated Wire_Model.
Import LoadGen.
Local Open Scope list_scope.

Section Load.
  Variable build_list : list rule -> bool -> bucket_map.

  Record lstate := mkL { l_engine : engine; l_tags : option (list str); l_wire : option wire;
                         l_built : option (blocker * cosmetic) }.

  (* Some (engine after the call, accepted?) *)
  Fixpoint run_load (ss : list estep) (outcome : option wire) (s : lstate) : option (engine * bool) :=
    match ss with
    | [] => None
    | st :: rest =>
        match st with
        | S_read_tags =>
            run_load rest outcome (mkL (l_engine s) (Some (b_tags_enabled (e_blocker (l_engine s)))) (l_wire s) (l_built s))
        | S_decode_fallible =>
            match outcome with
            | None => Some (l_engine s, false)                       (* the `?`: early return *)
            | Some w => run_load rest outcome (mkL (l_engine s) (l_tags s) (Some w) (l_built s))
            end
        | S_build =>
            match l_wire s with
            | Some w => run_load rest outcome (mkL (l_engine s) (l_tags s) (l_wire s)
                                                   (Some (from_wire_blocker w, from_wire_cosmetic w)))
            | None => None
            end
        | S_assign_blocker =>
            match l_built s with
            | Some (b, _) =>
                run_load rest outcome
                  (mkL {| e_blocker := b; e_cosmetic := e_cosmetic (l_engine s); e_resources := e_resources (l_engine s) |}
                       (l_tags s) (l_wire s) (l_built s))
            | None => None
            end
        | S_use_tags_current =>
            match l_tags s with
            | Some ts =>
                run_load rest outcome
                  (mkL {| e_blocker := use_tags build_list ts (e_blocker (l_engine s));
                          e_cosmetic := e_cosmetic (l_engine s); e_resources := e_resources (l_engine s) |}
                       (l_tags s) (l_wire s) (l_built s))
            | None => None
            end
        | S_assign_cosmetic =>
            match l_built s with
            | Some (_, c) =>
                run_load rest outcome
                  (mkL {| e_blocker := e_blocker (l_engine s); e_cosmetic := c; e_resources := e_resources (l_engine s) |}
                       (l_tags s) (l_wire s) (l_built s))
            | None => None
            end
        | S_ok => Some (l_engine s, true)
        end
    end.
  Definition interp_load (e : engine) (outcome : option wire) : option (engine * bool) :=
    run_load steps outcome (mkL e None None None).

  Theorem rejected_load_changes_nothing e : interp_load e None = Some (e, false).
  Proof. reflexivity. Qed.

  Theorem accepted_load_is_install e w : interp_load e (Some w) = Some (install build_list e w, true).
  Proof. reflexivity. Qed.
End Load.

Theorem tags_are_read_as_a_copy : tags_enabled_is_a_copy = true.
Proof. reflexivity. Qed.

(* the enabled set after an accepted load is the caller's *)
Theorem load_keeps_callers_tags (build_list : list rule -> bool -> bucket_map) e w e' :
  interp_load build_list e (Some w) = Some (e', true) ->
  b_tags_enabled (e_blocker e') = b_tags_enabled (e_blocker e).
Proof. rewrite accepted_load_is_install. intros H. injection H as <-. reflexivity. Qed.
