(* Tok_Ext_Proofs.v — the token guarantee, proved from the concrete tokenizer and matchers, for
   rules whose token group is any combination of
     - the tokens of a plain pattern (with or without a hostname anchor: `/path`, `||host/path`,
       `||host/path|`),
     - the tokens of the anchored hostname,
     - the single domain of a `$domain=d` option,
     - the scheme token of a rule restricted to http or to https.
   The request side is probes = source-hostname hashes ++ tokens of the lower-cased URL ++ [0]. *)
From Adb Require Import Base BaseProofs Generated Hashing Net_Model Net_Proofs Tok_Proofs Tok_Host_Proofs
  Tok_Ext_Model.
From Adb Require C02_Model C02_Proofs C03_Model C03_Proofs.
From Coq Require Import ZifyBool ZifyNat ZifyN.

(* ================================================================ get_tokens in parts *)
Lemma get_tokens_parts h f :
  get_tokens h f =
  let toks := base_tokens h f in
  let toks := if nullb toks && is_removeparam f then
                match rmod f with
                | Some p => if valid_param p then map h (tokenize (lower_str p)) else []
                | None => []
                end
              else toks in
  match nullb toks, rdomains f, rnotdomains f with
  | true, Some ds, None => map (fun d => [d]) ds
  | _, _, _ => [toks ++ tok_scheme h f]
  end.
Proof.
  unfold get_tokens, base_tokens, tok_dom, tok_pat, tok_host, tok_scheme, pat_of.
  destruct (rfilter f); try reflexivity. destruct (is_complete_regex f); reflexivity.
Qed.

(* a group is covered as soon as each of its parts is probed; the per-domain dispatch of a rule
   without any other token needs one of its domains among the probes *)
Lemma covered_parts h pr f :
  no_param_fallback h f = true ->
  incl (tok_dom f) pr -> incl (tok_pat h f) pr -> incl (tok_host h f) pr -> incl (tok_scheme h f) pr ->
  (forall ds, rdomains f = Some ds -> rnotdomains f = None -> exists d, In d ds /\ In d pr) ->
  covered h pr f.
Proof.
  intros Hnp Hd Hp Hh Hs Hdisp. unfold covered. rewrite get_tokens_parts. cbv zeta.
  unfold no_param_fallback in Hnp. apply negb_true_iff in Hnp. rewrite Hnp.
  assert (Hgrp : incl (base_tokens h f ++ tok_scheme h f) pr).
  { unfold base_tokens. repeat apply incl_app; assumption. }
  destruct (nullb (base_tokens h f)) eqn:En.
  - destruct (rdomains f) as [ds|] eqn:Ed.
    + destruct (rnotdomains f) as [nd|] eqn:End_.
      * eexists. split; [left; reflexivity|exact Hgrp].
      * destruct (Hdisp ds eq_refl eq_refl) as (d & Hin & Hpr).
        exists [d]. split; [apply in_map_iff; exists d; auto|].
        intros x [<-|[]]. exact Hpr.
    + eexists. split; [left; reflexivity|exact Hgrp].
  - eexists. split; [left; reflexivity|exact Hgrp].
Qed.

(* URL tokens are probed *)
Lemma url_token_probed h src url t :
  within_cutoff false false url -> In t (tku false false url 0 None None) -> In (h t) (probes h src url).
Proof.
  intros Hu Ht. unfold probes. apply in_or_app. right. unfold request_tokens. apply in_or_app. left.
  apply in_map. unfold tokenize, tokenize_filter.
  rewrite (tk_eq_tku false false url 0 None None 0) by (cbn; exact Hu). exact Ht.
Qed.
Lemma filter_tokens_tku sf sl s t :
  within_cutoff sf sl s -> In t (tokenize_filter s sf sl) -> In t (tku sf sl s 0 None None).
Proof.
  intros Hs Ht. unfold tokenize_filter in Ht.
  rewrite (tk_eq_tku sf sl s 0 None None 0) in Ht by (cbn; exact Hs). exact Ht.
Qed.

(* ================================================================ (1) ||host + plain pattern *)
(* the first byte of the text is not a token byte (or there is no text): no token starts at 0 *)
Definition head_blocked (s : str) : Prop :=
  match s with [] => True | d :: _ => allowed d = false end.

Lemma starts_delim_blocked v : starts_delim v -> head_blocked v.
Proof. intros [->|(d & v' & -> & Hd & _)]; [exact I|exact Hd]. Qed.
Lemma head_blocked_prefix s r : head_blocked (s ++ r) -> head_blocked s.
Proof. destruct s; [intros _; exact I|intros H; exact H]. Qed.

(* occurrence_tokens_covered with a weaker left condition: a kept first token (skip_first off)
   is fine when the occurrence starts the URL *or* the pattern starts with a non-token byte *)
Theorem occurrence_tokens_covered_gen sf sl s pre post t :
  (sf = false -> pre = [] \/ head_blocked s) -> (sl = false -> post = []) ->
  In t (tku sf sl s 0 None None) -> In t (tku false false (pre ++ s ++ post) 0 None None).
Proof.
  intros Hpre Hpost Hin. apply tokenize_complete.
  destruct (tokenize_filter_sound sf sl s t Hin) as (u & v & Hs & Hu & Hv & Hsf & Hsl & Hall & Hlen).
  exists (pre ++ u), (v ++ post). split; [rewrite Hs, <- !app_assoc; reflexivity|]. repeat split; auto.
  - destruct Hu as [->|(u' & d & -> & Hd)].
    + rewrite app_nil_r. destruct (Hpre (Hsf eq_refl)) as [->|Hb]; [left; reflexivity|].
      exfalso. rewrite Hs in Hb. cbn [app] in Hb.
      destruct t as [|c t']; [cbn in Hlen; lia|]. cbn in Hb, Hall. rewrite Hb in Hall. discriminate.
    + right. exists (pre ++ u'), d. rewrite <- app_assoc. auto.
  - destruct Hv as [->|(d & v' & -> & Hd)].
    + cbn [app]. left. apply Hpost. apply Hsl. reflexivity.
    + right. exists d, (v' ++ post). auto.
Qed.

(* the request hostname is where C12 puts it (between delimiters), and it is the first occurrence
   of itself from where get_url_after_anchor starts looking (after "://" and the credentials) *)
Definition host_at (url host : str) : Prop :=
  exists upre upost, url = upre ++ host ++ upost /\ ends_delim upre /\ starts_delim upost /\
    (C02_Model.host_search_start url <= length upre)%nat /\
    find_sub host (drop (C02_Model.host_search_start url) url)
    = Some (length upre - C02_Model.host_search_start url)%nat.

Lemma host_at_in_url url host : host_at url host -> host_in_url url host.
Proof. intros (upre & upost & E & Hp & Hq & _). exists upre, upost. auto. Qed.

Lemma hostpat_match_anchored la ra w hn s url host :
  hostpat_match la ra w hn s url host = true ->
  exists k, C02_Model.anchored_hostname_end hn host w la = Some k.
Proof.
  unfold hostpat_match. destruct (C02_Model.anchored_hostname_end hn host w la) as [k|]; [eauto|discriminate].
Qed.

(* every token the rule keeps from its pattern is a token of the URL *)
Theorem hostpat_pattern_tokens_covered la ra w hn s url host t :
  hn <> [] -> hostpat_match la ra w hn s url host = true -> host_at url host ->
  In t (tku (negb la) (negb ra) s 0 None None) -> In t (tku false false url 0 None None).
Proof.
  intros Hnn Hm (upre & upost & Hurl & Hupre & Hupost & Hle & Hfind) Hin.
  unfold hostpat_match in Hm.
  destruct (C02_Model.anchored_hostname_end hn host w la) as [k|] eqn:Ek; [|discriminate].
  pose proof (C02_Proofs.ahe_bounds hn host w la k Hnn Ek) as Hk.
  destruct (C02_Proofs.ahe_some hn host w la k Hnn Ek) as (o & Hko & Hat & _).
  rewrite (C02_Proofs.get_url_after_anchor_spec url host (length upre) k Hle Hfind Hk) in Hm.
  cbv zeta in Hm.
  set (n := (length upre + k)%nat) in *.
  assert (Hsplit : url = take n url ++ drop n url) by (symmetry; apply take_drop).
  (* with a left anchor the occurrence ends the hostname: the text after the anchor is [upost] *)
  assert (Hend : la = true -> drop n url = upost).
  { intros ->. pose proof (C02_Proofs.anchor_at_end_post hn host w o Hat) as He.
    unfold n. rewrite Hurl. rewrite C02_Proofs.drop_in_host by lia.
    rewrite C02_Proofs.drop_all' by lia. reflexivity. }
  destruct la, ra; cbn [andb negb] in *.
  - (* ||host/path|  : the rest of the URL is the pattern *)
    apply str_eqb_eq in Hm. rewrite (Hend eq_refl) in Hm. subst s.
    rewrite Hurl. rewrite app_assoc. rewrite <- (app_nil_r upost) at 1.
    apply (occurrence_tokens_covered_gen false false upost (upre ++ host) [] t); auto.
    intros _. right. apply starts_delim_blocked. exact Hupost.
  - (* ||host/path   : the pattern starts the rest of the URL *)
    apply C02_Proofs.prefixb_spec in Hm as [rest Hrest]. rewrite (Hend eq_refl) in Hrest.
    rewrite Hurl, Hrest. rewrite app_assoc.
    apply (occurrence_tokens_covered_gen false true s (upre ++ host) rest t); auto; [|discriminate].
    intros _. right. apply (head_blocked_prefix s rest). rewrite <- Hrest.
    apply starts_delim_blocked. exact Hupost.
  - (* ||host*path|  : the pattern ends the URL *)
    apply C02_Proofs.suffixb_spec in Hm as [pre Hpre]. rewrite Hpre. rewrite <- (app_nil_r s) at 1.
    apply (occurrence_tokens_covered true false s pre [] t); auto. discriminate.
  - (* ||host*path   : the pattern occurs after the anchor *)
    unfold containsb in Hm. destruct (find_sub s (drop n url)) as [i|] eqn:F; [|discriminate].
    destruct (Tok_Proofs.find_sub_split s (drop n url) i F) as (a & b & Hab).
    rewrite Hsplit, Hab. rewrite app_assoc.
    replace ((take n url ++ a) ++ s ++ b) with ((take n url ++ a) ++ s ++ b) by reflexivity.
    apply (occurrence_tokens_covered true true s (take n url ++ a) b t); auto; discriminate.
Qed.

(* the hostname tokens of any rule anchored (without host wildcard) in the request hostname *)
Theorem anchored_host_tokens_covered hn host e k url t :
  hn <> [] -> C02_Model.anchored_hostname_end hn host false e = Some k -> host_in_url url host ->
  In t (tku false false hn 0 None None) -> In t (tku false false url 0 None None).
Proof.
  intros Hnn Hanch (upre & upost & Hurl & Hpre & Hpost) Ht.
  destruct (C02_Proofs.ahe_some hn host false e k Hnn Hanch) as (o & _ & Hat & _).
  rewrite Hurl. apply (hostname_tokens_covered hn host e o upre upost t Hat Hpre Hpost Ht).
Qed.

(* ================================================================ (2) the single-domain token *)
Lemma forallb_false_witness {A} (p : A -> bool) l : forallb p l = false -> exists x, In x l /\ p x = false.
Proof.
  induction l as [|a l IH]; [discriminate|]. cbn [forallb]. intros H.
  destruct (p a) eqn:Ea.
  - destruct (IH H) as (x & Hx & Hp). exists x. split; [right; exact Hx|exact Hp].
  - exists a. split; [left; reflexivity|exact Ea].
Qed.

(* what passing the included-domains test of check_options means when a source is present:
   one of the source hashes is one of the rule's domains *)
Lemma included_pass_hit ds odu hs :
  C03_Model.included_rejects (Some ds) odu (Some hs) = false -> exists x, In x hs /\ In x ds.
Proof.
  cbn [C03_Model.included_rejects]. intros H. apply orb_false_iff in H as [_ H].
  destruct (forallb_false_witness _ _ H) as (x & Hx & Hb). apply negb_false_iff in Hb.
  exists x. split; [exact Hx|]. apply C03_Proofs.bin_lookup_sound. exact Hb.
Qed.

(* contract of the option check, hypothesis-free: with a source present, a rule whose only
   domain is [d] is accepted only by requests that probe [d] *)
Theorem domain_token_probed h d odu hs url :
  C03_Model.included_rejects (Some [d]) odu (Some hs) = false -> In d (probes h (Some hs) url).
Proof.
  intros H. destruct (included_pass_hit [d] odu hs H) as (y & Hy & Hd).
  destruct Hd as [Hd|[]]. subst y. unfold probes. apply in_or_app. left. exact Hy.
Qed.

Lemma check_options_parts m od odu ond ondu r :
  C03_Model.check_options m od odu ond ondu r = true ->
  C03_Model.scheme_ok m r = true /\ C03_Model.included_rejects od odu (C03_Model.rq_src r) = false.
Proof.
  rewrite C03_Proofs.check_options_conj. intros H.
  apply andb_true_iff in H as [H _]. apply andb_true_iff in H as [H Hi].
  apply andb_true_iff in H as [H _]. apply andb_true_iff in H as [_ Hs].
  split; [exact Hs|]. apply negb_true_iff. exact Hi.
Qed.

Theorem check_options_domain_probed h m d odu ond ondu r url :
  C03_Model.check_options m (Some [d]) odu ond ondu r = true -> C03_Model.rq_src r <> None ->
  In d (probes h (C03_Model.rq_src r) url).
Proof.
  intros H Hsrc. destruct (check_options_parts _ _ _ _ _ _ H) as [_ Hi].
  destruct (C03_Model.rq_src r) as [hs|]; [|congruence].
  apply (domain_token_probed h d odu hs url Hi).
Qed.

(* F2: without a source the option check passes and the domain is not probed *)
Lemma domain_token_no_source_refuted :
  exists (h : str -> N) m d r url,
    C03_Model.check_options m (Some [d]) None None None r = true /\ C03_Model.rq_src r = None /\
    ~ In d (probes h (C03_Model.rq_src r) url).
Proof.
  exists (fun _ => 7), M_DEFAULT_OPTIONS, 5,
    (C03_Model.mkReq RT_Script false true true true None), (bs "https://x.com/adz").
  split; [vm_compute; reflexivity|]. split; [reflexivity|].
  vm_compute. intros H. repeat (destruct H as [H|H]; [discriminate|]). exact H.
Qed.

(* ================================================================ (3) the scheme token *)
Lemma scheme_token (sc rest : str) :
  forallb allowed sc = true -> (1 < length sc)%nat ->
  In sc (tku false false (sc ++ C02_Model.COLON :: rest) 0 None None).
Proof.
  intros Hall Hlen. apply tokenize_complete. exists [], (C02_Model.COLON :: rest).
  split; [reflexivity|]. repeat split; auto.
  right. exists C02_Model.COLON, rest. split; [reflexivity|]. split; [vm_compute; reflexivity|discriminate].
Qed.

Theorem scheme_token_http url :
  prefixb (bs "http:") url = true -> In (bs "http") (tku false false url 0 None None).
Proof.
  intros H. apply C02_Proofs.prefixb_spec in H as [rest ->].
  apply (scheme_token (bs "http") rest); [vm_compute; reflexivity|cbn; lia].
Qed.
Theorem scheme_token_https url :
  prefixb (bs "https:") url = true -> In (bs "https") (tku false false url 0 None None).
Proof.
  intros H. apply C02_Proofs.prefixb_spec in H as [rest ->].
  apply (scheme_token (bs "https") rest); [vm_compute; reflexivity|cbn; lia].
Qed.

(* the request's scheme flags describe its lower-cased URL (C12: the scheme is the text before the
   first ':') *)
Definition scheme_tie (r : C03_Model.request) (url : str) : Prop :=
  (C03_Model.rq_http r = true -> prefixb (bs "http:") url = true) /\
  (C03_Model.rq_https r = true -> prefixb (bs "https:") url = true).

Theorem scheme_token_probed h f r url :
  C03_Model.scheme_ok (rmask f) r = true ->
  C03_Model.rq_http r || C03_Model.rq_https r = true -> scheme_tie r url ->
  within_cutoff false false url ->
  incl (tok_scheme h f) (probes h (C03_Model.rq_src r) url).
Proof.
  intros Hok Hweb [Thttp Thttps] Hu. unfold tok_scheme.
  unfold C03_Model.scheme_ok, C03_Model.for_http, C03_Model.for_https, C03_Model.has_flag in Hok.
  unfold flag, has.
  apply andb_true_iff in Hok as [Hs Hp].
  destruct (N.eqb (N.land (rmask f) M_FROM_HTTP) M_FROM_HTTP) eqn:E1,
           (N.eqb (N.land (rmask f) M_FROM_HTTPS) M_FROM_HTTPS) eqn:E2; cbn [andb negb].
  - intros x Hx. destruct Hx.
  - (* http only: the request is not https, hence http *)
    destruct (C03_Model.rq_https r); [discriminate|]. rewrite orb_false_r in Hweb.
    intros x [<-|[]]. apply url_token_probed; [exact Hu|]. apply scheme_token_http. apply Thttp. exact Hweb.
  - destruct (C03_Model.rq_http r); [discriminate|]. cbn [orb] in Hweb.
    intros x [<-|[]]. apply url_token_probed; [exact Hu|]. apply scheme_token_https. apply Thttps. exact Hweb.
  - intros x Hx. destruct Hx.
Qed.

(* F3: a websocket request passes the scheme test of an http-only rule and has no `http` token *)
Lemma scheme_token_ws_refuted :
  exists m r url, C03_Model.for_http m = true /\ C03_Model.for_https m = false /\
    C03_Model.scheme_ok m r = true /\ C03_Model.rq_http r || C03_Model.rq_https r = false /\
    ~ In (bs "http") (tokenize url).
Proof.
  exists (N.ldiff M_DEFAULT_OPTIONS M_FROM_HTTPS),
    (C03_Model.mkReq RT_Websocket false false true false None), (bs "ws://x.com/adz").
  repeat split; try (vm_compute; reflexivity).
  vm_compute. intros H. repeat (destruct H as [H|H]; [discriminate|]). exact H.
Qed.

(* ================================================================ (4) the extended class *)
(* what the pattern / hostname part of the rule's matcher accepted, by shape of the rule:
   no tokenized pattern and no hostname; a plain pattern (Tok_Proofs); a hostname alone
   (Tok_Host_Proofs; nothing to show under IS_HOSTNAME_REGEX, whose hostname is not tokenized);
   a hostname followed by a plain pattern.  The matchers are the non-regex paths of check_pattern
   (see check_pattern_plain / check_pattern_hostpat / check_pattern_host_only below). *)
Definition pat_hit (f : rule) (url host : str) : Prop :=
  match pat_of f, rhost f with
  | None, None => True
  | Some s, None =>
      plain_match (is_left_anchor f) (is_right_anchor f) s url = true /\
      within_cutoff (negb (is_left_anchor f)) (negb (is_right_anchor f)) s
  | None, Some hn =>
      flag f M_IS_HOSTNAME_REGEX = true \/
      (hn <> [] /\ (exists e k, C02_Model.anchored_hostname_end hn host false e = Some k) /\
       host_in_url url host /\ within_cutoff false false hn)
  | Some s, Some hn =>
      hn <> [] /\
      hostpat_match (is_left_anchor f) (is_right_anchor f) (flag f M_IS_HOSTNAME_REGEX) hn s url host = true /\
      host_at url host /\
      within_cutoff (negb (is_left_anchor f)) (negb (is_right_anchor f)) s /\
      within_cutoff false false hn
  end.

Lemma pat_tokens_probed h f src url host :
  pat_hit f url host -> within_cutoff false false url -> incl (tok_pat h f) (probes h src url).
Proof.
  intros Hp Hu. unfold tok_pat. unfold pat_hit in Hp.
  destruct (pat_of f) as [s|]; [|intros x Hx; destruct Hx].
  intros x Hx. apply in_map_iff in Hx as (t & <- & Ht). apply url_token_probed; [exact Hu|].
  destruct (rhost f) as [hn|].
  - destruct Hp as (Hnn & Hm & Hat & Hs & _).
    apply (hostpat_pattern_tokens_covered _ _ _ hn s url host t Hnn Hm Hat).
    apply filter_tokens_tku; assumption.
  - destruct Hp as (Hm & Hs).
    destruct (plain_match_occurrence _ _ s url Hm) as (pre & post & Hurl & Hpre & Hpost).
    rewrite Hurl.
    apply (occurrence_tokens_covered (negb (is_left_anchor f)) (negb (is_right_anchor f)) s pre post t).
    + intros E. apply Hpre. destruct (is_left_anchor f); [reflexivity|discriminate].
    + intros E. apply Hpost. destruct (is_right_anchor f); [reflexivity|discriminate].
    + apply filter_tokens_tku; assumption.
Qed.

Lemma host_tokens_probed h f src url host :
  pat_hit f url host -> within_cutoff false false url -> incl (tok_host h f) (probes h src url).
Proof.
  intros Hp Hu. unfold tok_host. unfold pat_hit in Hp.
  destruct (flag f M_IS_HOSTNAME_REGEX) eqn:Ew; [intros x Hx; destruct Hx|].
  destruct (rhost f) as [hn|]; [|intros x Hx; destruct Hx].
  intros x Hx. apply in_map_iff in Hx as (t & <- & Ht). apply url_token_probed; [exact Hu|].
  destruct (pat_of f) as [s|].
  - destruct Hp as (Hnn & Hm & Hat & _ & Hhn).
    destruct (hostpat_match_anchored _ _ _ _ _ _ _ Hm) as [k Hk].
    apply (anchored_host_tokens_covered hn host (is_left_anchor f) k url t Hnn Hk (host_at_in_url _ _ Hat)).
    apply filter_tokens_tku; assumption.
  - destruct Hp as [Hp|(Hnn & (e & k & Hk) & Hin & Hhn)]; [discriminate|].
    apply (anchored_host_tokens_covered hn host e k url t Hnn Hk Hin).
    apply filter_tokens_tku; assumption.
Qed.

Lemma scheme_tokens_probed h f r url :
  C03_Model.scheme_ok (rmask f) r = true ->
  (scheme_restricted f = true -> C03_Model.rq_http r || C03_Model.rq_https r = true) ->
  scheme_tie r url -> within_cutoff false false url ->
  incl (tok_scheme h f) (probes h (C03_Model.rq_src r) url).
Proof.
  intros Hok Hweb Htie Hu.
  destruct (scheme_restricted f) eqn:Er.
  - apply scheme_token_probed; auto.
  - unfold tok_scheme. unfold scheme_restricted in Er. apply orb_false_iff in Er as [E1 E2].
    rewrite E1, E2. intros x Hx. destruct Hx.
Qed.

(* the combined theorem: a rule accepted by the option check and by the non-regex pattern /
   hostname matchers has a token group among the probes of the request.
   Excluded, each by an explicit premise: requests without source against rules stored by their
   domain option (finding F2), ws/wss requests against rules restricted to http or https (F3),
   URLs or patterns beyond the 127-token cut-off, and the $removeparam name fallback. *)
Theorem token_guarantee_ext h f r odu ondu url host :
  no_param_fallback h f = true ->
  C03_Model.check_options (rmask f) (rdomains f) odu (rnotdomains f) ondu r = true ->
  (needs_source f = true -> C03_Model.rq_src r <> None) ->
  (scheme_restricted f = true -> C03_Model.rq_http r || C03_Model.rq_https r = true) ->
  scheme_tie r url ->
  pat_hit f url host ->
  within_cutoff false false url ->
  covered h (probes h (C03_Model.rq_src r) url) f.
Proof.
  intros Hnp Hopt Hsrc Hweb Htie Hp Hu.
  destruct (check_options_parts _ _ _ _ _ _ Hopt) as [Hs Hi].
  apply covered_parts; auto.
  - (* single-domain token *)
    unfold tok_dom. unfold needs_source in Hsrc.
    destruct (rdomains f) as [[|d [|d' ds]]|] eqn:Ed; try (intros x Hx; destruct Hx; fail).
    destruct (rnotdomains f) as [nd|] eqn:En; [intros x Hx; destruct Hx|].
    specialize (Hsrc eq_refl).
    destruct (C03_Model.rq_src r) as [hs|]; [|congruence].
    intros x [<-|[]]. apply (domain_token_probed h d odu hs url Hi).
  - eapply pat_tokens_probed; eassumption.
  - eapply host_tokens_probed; eassumption.
  - apply scheme_tokens_probed; auto.
  - (* per-domain dispatch *)
    intros ds Ed En. unfold needs_source in Hsrc. rewrite Ed, En in Hsrc. specialize (Hsrc eq_refl).
    rewrite Ed in Hi.
    destruct (C03_Model.rq_src r) as [hs|]; [|congruence].
    destruct (included_pass_hit ds odu hs Hi) as (x & Hx & Hd).
    exists x. split; [exact Hd|]. unfold probes. apply in_or_app. left. exact Hx.
Qed.

(* ---------------------------------------------------------------- TG discharged for lists *)
(* a request with a source, over http or https, whose flags describe its URL *)
Definition web_request (r : C03_Model.request) (url : str) : Prop :=
  C03_Model.rq_src r <> None /\ C03_Model.rq_http r || C03_Model.rq_https r = true /\ scheme_tie r url.

(* every rule of the list that matches is in the extended class and was accepted by the modelled
   option check and pattern matchers *)
Definition ext_hits (h : str -> N) (matches : rule -> bool) (r : C03_Model.request) (url host : str)
           (L : list rule) : Prop :=
  forall f, In f L -> matches f = true ->
    no_param_fallback h f = true /\
    (exists odu ondu, C03_Model.check_options (rmask f) (rdomains f) odu (rnotdomains f) ondu r = true) /\
    pat_hit f url host.

Theorem TG_ext_list h matches r url host L :
  within_cutoff false false url -> web_request r url -> ext_hits h matches r url host L ->
  TG h matches (probes h (C03_Model.rq_src r) url) L.
Proof.
  intros Hu (Hsrc & Hweb & Htie) Hx f Hf Hm.
  destruct (Hx f Hf Hm) as (Hnp & (odu & ondu & Hopt) & Hp).
  apply (token_guarantee_ext h f r odu ondu url host); auto.
Qed.

Lemma probes_zero_ext h src url : In 0 (probes h src url).
Proof. unfold probes, request_tokens. apply in_or_app. right. apply in_or_app. right. left. reflexivity. Qed.

(* the engine theorem with the token guarantee proved instead of assumed *)
Theorem engine_eq_spec_ext h matches r url host L T :
  id_inj L -> within_cutoff false false url -> web_request r url -> ext_hits h matches r url host L ->
  blocker_check matches (probes h (C03_Model.rq_src r) url) (tags_with_set h (blocker_new h L) T)
  = spec_verdict matches L T.
Proof.
  intros Hi Hu Hw Hx. apply engine_eq_spec; auto; [apply probes_zero_ext|].
  apply (TG_ext_list h matches r url host L); auto.
Qed.

Theorem engine_eq_spec_p_ext h matches r url host mr fc L T :
  id_inj L -> within_cutoff false false url -> web_request r url -> ext_hits h matches r url host L ->
  blocker_check_p matches (probes h (C03_Model.rq_src r) url) mr fc (tags_with_set h (blocker_new h L) T)
  = spec_verdict_p matches mr fc L T.
Proof.
  intros Hi Hu Hw Hx. apply engine_eq_spec_p; auto; [apply probes_zero_ext|].
  apply (TG_ext_list h matches r url host L); auto.
Qed.

(* ================================================================ the matchers are C02's *)
(* check_pattern (C02_Model) on a non-regex rule with one pattern is plain_match / hostpat_match;
   on a hostname-anchored rule without pattern it is anchored_hostname_end *)
Lemma existsb_one {A} (p : A -> bool) x : existsb p [x] = p x.
Proof. cbn. apply orb_false_r. Qed.

Theorem check_pattern_plain re_ok re_match sh s hostname r :
  C02_Model.s_hn sh = false -> C02_Model.s_rx sh = false -> C02_Model.s_cr sh = false ->
  C02_Model.check_pattern_sh re_ok re_match sh [s] hostname r
  = plain_match (C02_Model.s_la sh) (C02_Model.s_ra sh) s (C02_Model.get_url r (C02_Model.s_mc sh)).
Proof.
  intros Hh Hr Hc. unfold C02_Model.check_pattern_sh, plain_match. rewrite Hh, Hr, Hc. cbn [orb].
  unfold C02_Model.check_pattern_left_right_anchor_filter, C02_Model.check_pattern_left_anchor_filter,
    C02_Model.check_pattern_right_anchor_filter, C02_Model.check_pattern_plain_filter_filter.
  cbn [C02_Model.nullb]. rewrite !existsb_one.
  destruct (C02_Model.s_la sh), (C02_Model.s_ra sh); reflexivity.
Qed.

Theorem check_pattern_hostpat re_ok re_match sh s hn r :
  C02_Model.s_hn sh = true -> C02_Model.s_rx sh = false ->
  C02_Model.check_pattern_sh re_ok re_match sh [s] (Some hn) r
  = hostpat_match (C02_Model.s_la sh) (C02_Model.s_ra sh) (C02_Model.s_wild sh) hn s
      (C02_Model.get_url r (C02_Model.s_mc sh)) (C02_Model.r_host r).
Proof.
  intros Hh Hr. unfold C02_Model.check_pattern_sh, hostpat_match. rewrite Hh, Hr.
  unfold C02_Model.check_pattern_hostname_left_right_anchor_filter,
    C02_Model.check_pattern_hostname_right_anchor_filter,
    C02_Model.check_pattern_hostname_left_anchor_filter,
    C02_Model.check_pattern_hostname_anchor_filter,
    C02_Model.check_pattern_right_anchor_filter, C02_Model.at_hostname_end.
  cbn [C02_Model.nullb negb orb]. rewrite !existsb_one.
  destruct (C02_Model.s_la sh), (C02_Model.s_ra sh); cbn [andb orb];
    destruct (C02_Model.anchored_hostname_end hn (C02_Model.r_host r) (C02_Model.s_wild sh) _);
    rewrite ?existsb_one; reflexivity.
Qed.

Theorem check_pattern_host_only re_ok re_match sh hn r :
  C02_Model.s_hn sh = true -> C02_Model.s_rx sh = false ->
  C02_Model.check_pattern_sh re_ok re_match sh [] (Some hn) r = true ->
  exists e k, C02_Model.anchored_hostname_end hn (C02_Model.r_host r) (C02_Model.s_wild sh) e = Some k.
Proof.
  intros Hh Hr. unfold C02_Model.check_pattern_sh. rewrite Hh, Hr.
  unfold C02_Model.check_pattern_hostname_left_right_anchor_filter,
    C02_Model.check_pattern_hostname_right_anchor_filter,
    C02_Model.check_pattern_hostname_left_anchor_filter,
    C02_Model.check_pattern_hostname_anchor_filter.
  destruct (C02_Model.s_ra sh && C02_Model.s_la sh); [|destruct (C02_Model.s_ra sh); [|destruct (C02_Model.s_la sh)]];
    match goal with
    | |- match C02_Model.anchored_hostname_end ?a ?b ?c ?e with _ => _ end = true -> _ =>
        destruct (C02_Model.anchored_hostname_end a b c e) as [k|] eqn:E; [intros _; exists e, k; exact E|discriminate]
    end.
Qed.

(* ================================================================ non-vacuity *)
Lemma slash_delim : delim 47.
Proof. split; [vm_compute; reflexivity|discriminate]. Qed.

(* https://sub.example.com/ads/banner.js : the hostname sits after "https://", before "/" *)
Example host_at_example :
  host_at (bs "https://sub.example.com/ads/banner.js") (bs "sub.example.com").
Proof.
  exists (bs "https://"), (bs "/ads/banner.js"). split; [vm_compute; reflexivity|]. split; [|split; [|split]].
  - right. exists (bs "https:/"), 47. split; [vm_compute; reflexivity|apply slash_delim].
  - right. exists 47, (bs "ads/banner.js"). split; [vm_compute; reflexivity|apply slash_delim].
  - vm_compute. lia.
  - vm_compute. reflexivity.
Qed.

(* (1) ||example.com/ads/banner.js|  and  ||example.com/ads/  against that URL: the matcher
   accepts, and the kept pattern tokens (all three / only the delimited `ads`) are URL tokens *)
Example hostpat_example :
  let url := bs "https://sub.example.com/ads/banner.js" in
  let host := bs "sub.example.com" in
  hostpat_match true true false (bs "example.com") (bs "/ads/banner.js") url host = true /\
  tokenize_filter (bs "/ads/banner.js") false false = [bs "ads"; bs "banner"; bs "js"] /\
  hostpat_match true false false (bs "example.com") (bs "/ads/ban") url host = true /\
  tokenize_filter (bs "/ads/ban") false true = [bs "ads"] /\
  (forall t, In t (tku false false (bs "/ads/banner.js") 0 None None) -> In t (tku false false url 0 None None)).
Proof.
  cbv zeta. repeat split; try (vm_compute; reflexivity).
  intros t. apply (hostpat_pattern_tokens_covered true true false (bs "example.com") (bs "/ads/banner.js")
                     (bs "https://sub.example.com/ads/banner.js") (bs "sub.example.com")); try discriminate.
  - vm_compute. reflexivity.
  - apply host_at_example.
Qed.

(* (2) $domain=site.org against a request from www.site.org (real hash function) *)
Example domain_token_example :
  let d := seahash (bs "site.org") in
  let r := C03_Model.from_detailed_parameters seahash (bs "script") (bs "https") (bs "www.site.org") true in
  C03_Model.check_options M_DEFAULT_OPTIONS (Some [d]) (Some d) None None r = true /\
  C03_Model.rq_src r = Some [seahash (bs "www.site.org"); d; seahash (bs "org")] /\
  In d (probes seahash (C03_Model.rq_src r) (bs "https://x.com/adz")).
Proof.
  cbv zeta. split; [vm_compute; reflexivity|]. split; [vm_compute; reflexivity|].
  apply (check_options_domain_probed seahash M_DEFAULT_OPTIONS _ (Some (seahash (bs "site.org"))) None None).
  - vm_compute. reflexivity.
  - vm_compute. discriminate.
Qed.

(* (3) an http request has the token `http`, an https request the token `https` *)
Example scheme_token_example :
  In (bs "http") (tokenize (bs "http://x.com/adz")) /\ In (bs "https") (tokenize (bs "https://x.com/adz")) /\
  ~ In (bs "http") (tokenize (bs "https://x.com/adz")).
Proof.
  split; [vm_compute; auto|]. split; [vm_compute; auto|].
  vm_compute. intros H. repeat (destruct H as [H|H]; [discriminate|]). exact H.
Qed.

(* (4) a rule with all four parts: ||example.com/ads/banner.js| restricted to http and to the
   initiator site.org, against http://sub.example.com/ads/banner.js requested from www.site.org *)
Definition ext_example_rule : rule :=
  mkr 31 (N.lor (N.ldiff M_DEFAULT_OPTIONS M_FROM_HTTPS)
                (N.lor M_IS_HOSTNAME_ANCHOR (N.lor M_IS_LEFT_ANCHOR M_IS_RIGHT_ANCHOR)))
      (FSimple (bs "/ads/banner.js")) (Some (bs "example.com"))
      (Some [seahash (bs "site.org")]) None None None.
Definition ext_example_url : str := bs "http://sub.example.com/ads/banner.js".
Definition ext_example_req : C03_Model.request :=
  C03_Model.from_detailed_parameters seahash (bs "script") (bs "http") (bs "www.site.org") true.

Example host_at_example_http : host_at ext_example_url (bs "sub.example.com").
Proof.
  exists (bs "http://"), (bs "/ads/banner.js"). split; [vm_compute; reflexivity|]. split; [|split; [|split]].
  - right. exists (bs "http:/"), 47. split; [vm_compute; reflexivity|apply slash_delim].
  - right. exists 47, (bs "ads/banner.js"). split; [vm_compute; reflexivity|apply slash_delim].
  - vm_compute. lia.
  - vm_compute. reflexivity.
Qed.

Example ext_tg_example :
  let f := ext_example_rule in
  let r := ext_example_req in
  let url := ext_example_url in
  let host := bs "sub.example.com" in
  no_param_fallback seahash f = true /\
  C03_Model.check_options (rmask f) (rdomains f) (Some (seahash (bs "site.org"))) (rnotdomains f) None r = true /\
  needs_source f = true /\ C03_Model.rq_src r <> None /\
  scheme_restricted f = true /\ C03_Model.rq_http r || C03_Model.rq_https r = true /\
  scheme_tie r url /\ pat_hit f url host /\ within_cutoff false false url /\
  length (List.concat (get_tokens seahash f)) = 7%nat /\
  covered seahash (probes seahash (C03_Model.rq_src r) url) f.
Proof.
  cbv zeta.
  assert (Hnp : no_param_fallback seahash ext_example_rule = true) by (vm_compute; reflexivity).
  assert (Hopt : C03_Model.check_options (rmask ext_example_rule) (rdomains ext_example_rule)
                   (Some (seahash (bs "site.org"))) (rnotdomains ext_example_rule) None ext_example_req = true)
    by (vm_compute; reflexivity).
  assert (Hsrc : C03_Model.rq_src ext_example_req <> None) by (vm_compute; discriminate).
  assert (Hweb : C03_Model.rq_http ext_example_req || C03_Model.rq_https ext_example_req = true)
    by (vm_compute; reflexivity).
  assert (Htie : scheme_tie ext_example_req ext_example_url).
  { split; [intros _; vm_compute; reflexivity|]. intros H. vm_compute in H. discriminate. }
  assert (Hu : within_cutoff false false ext_example_url) by (vm_compute; lia).
  assert (Hp : pat_hit ext_example_rule ext_example_url (bs "sub.example.com")).
  { change (bs "example.com" <> [] /\
            hostpat_match true true false (bs "example.com") (bs "/ads/banner.js") ext_example_url (bs "sub.example.com") = true /\
            host_at ext_example_url (bs "sub.example.com") /\
            within_cutoff false false (bs "/ads/banner.js") /\ within_cutoff false false (bs "example.com")).
    split; [discriminate|]. split; [vm_compute; reflexivity|]. split; [apply host_at_example_http|].
    split; vm_compute; lia. }
  split; [exact Hnp|]. split; [exact Hopt|]. split; [vm_compute; reflexivity|]. split; [exact Hsrc|].
  split; [vm_compute; reflexivity|]. split; [exact Hweb|]. split; [exact Htie|]. split; [exact Hp|].
  split; [exact Hu|]. split; [vm_compute; reflexivity|].
  apply (token_guarantee_ext seahash ext_example_rule ext_example_req (Some (seahash (bs "site.org"))) None
           ext_example_url (bs "sub.example.com")); auto.
Qed.

(* why scheme_tie is a premise: Request::preparsed on a URL without ':' sets is_https (empty
   schema), the https-only rule `|https://` passes the scheme test, and the URL has no `https`
   token (confirmed on the crate: rule-by-rule matches, the engine does not; not reachable through
   Request::new, whose URL parser requires a scheme) *)
Lemma scheme_tie_needed_refuted :
  exists m r url, C03_Model.for_https m = true /\ C03_Model.for_http m = false /\
    C03_Model.scheme_ok m r = true /\ C03_Model.rq_https r = true /\ ~ scheme_tie r url /\
    ~ In (bs "https") (tokenize url).
Proof.
  exists (N.ldiff M_DEFAULT_OPTIONS M_FROM_HTTP),
    (C03_Model.from_detailed_parameters seahash (bs "script") [] (bs "site.org") true), (bs "x.com/adz").
  split; [vm_compute; reflexivity|]. split; [vm_compute; reflexivity|]. split; [vm_compute; reflexivity|].
  split; [vm_compute; reflexivity|]. split.
  - intros [_ H]. assert (E : prefixb (bs "https:") (bs "x.com/adz") = true) by (apply H; vm_compute; reflexivity).
    vm_compute in E. discriminate.
  - vm_compute. intros H. repeat (destruct H as [H|H]; [discriminate|]). exact H.
Qed.

(* list level: the four-part rule among decoys that share its tokens; only it matches *)
Definition ext_example_list : list rule :=
  [ mkr 41 M_DEFAULT_OPTIONS (FSimple (bs "ads/x1")) None None None None None;
    ext_example_rule;
    mkr 43 M_DEFAULT_OPTIONS (FSimple (bs "banner/x3")) None None None None None;
    mkr 44 (N.lor M_DEFAULT_OPTIONS M_IS_HOSTNAME_ANCHOR) FEmpty (Some (bs "example.net")) None None None None ].
Definition ext_example_matches (f : rule) : bool := N.eqb (rid f) 31.

Example ext_list_example :
  let r := ext_example_req in
  let url := ext_example_url in
  id_inj ext_example_list /\ within_cutoff false false url /\ web_request r url /\
  ext_hits seahash ext_example_matches r url (bs "sub.example.com") ext_example_list /\
  v_matched (blocker_check ext_example_matches (probes seahash (C03_Model.rq_src r) url)
               (tags_with_set seahash (blocker_new seahash ext_example_list) [])) = true.
Proof.
  cbv zeta.
  destruct ext_tg_example as (Hnp & Hopt & _ & Hsrc & _ & Hweb & Htie & Hp & Hu & _).
  assert (Hinj : id_inj ext_example_list).
  { intros f g Hf Hg E. unfold ext_example_list in Hf, Hg.
    repeat (destruct Hf as [Hf|Hf]; [subst f|]); try destruct Hf;
    repeat (destruct Hg as [Hg|Hg]; [subst g|]); try destruct Hg;
    try reflexivity; vm_compute in E; discriminate E. }
  assert (Hx : ext_hits seahash ext_example_matches ext_example_req ext_example_url (bs "sub.example.com") ext_example_list).
  { intros f Hf Hm. unfold ext_example_list in Hf.
    repeat (destruct Hf as [Hf|Hf]; [subst f|]); try destruct Hf; try (vm_compute in Hm; discriminate Hm).
    split; [exact Hnp|]. split; [|exact Hp]. eexists. eexists. exact Hopt. }
  assert (Hw : web_request ext_example_req ext_example_url) by (split; [exact Hsrc|split; [exact Hweb|exact Htie]]).
  split; [exact Hinj|]. split; [exact Hu|]. split; [exact Hw|]. split; [exact Hx|].
  assert (E := engine_eq_spec_ext seahash ext_example_matches ext_example_req ext_example_url
                 (bs "sub.example.com") ext_example_list [] Hinj Hu Hw Hx).
  apply (f_equal v_matched) in E. etransitivity; [exact E|]. vm_compute. reflexivity.
Qed.
