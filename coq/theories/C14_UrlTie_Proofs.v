(* C14_UrlTie_Proofs.v — the tie between request.original_url and the tokenized request.url,
   derived for Request::new from the C12 model of the URL scanner.

   Blocker::apply_removeparam cuts request.original_url (the caller's string, byte for byte);
   the index is probed with the tokens of request.url lower-cased, and for Request::new
   request.url is the scanner's serialisation.  C14_Relevant_Proofs assumes [url_tie u ul].
   Here it is proved for every request the C12 model of Request::new builds, without any side
   condition on the URL and without the oracle contracts:
     * the scanner (src/url_parser/parser.rs) trims C0-controls/space at both ends, rewrites
       scheme, slashes, userinfo and host, and then pushes `remaining.chars.as_str()`: what
       follows the host is copied byte for byte (tab / LF / CR and non-ASCII included; nothing is
       percent-encoded there);
     * the rewritten prefix of the input (leading blanks, scheme, ':', slashes, userinfo, host)
       contains no '?': each of its loops stops at '?' or fails on it.  So the first '?' of the
       original lies in the copied part;
     * decode_utf8 / encode_all round-trip, so "copied" holds on bytes.
   (1) UTF-8 round trip; (2) shape of a successful scan; (3) url_tie, scheme_tie and the probes of
   a Request::new request; (4) token_guarantee_param / TG_rp_mixed_list / engine_*_mixed restated
   for such requests; (5) non-vacuity and the witnesses that the hypotheses kept are needed. *)
From Coq Require Import Lia ZArith ZifyBool ZifyNat ZifyN.
From Adb Require Import Base BaseProofs Generated.
From Adb Require C12_Model C12_Proofs.

#[local] Ltac Zify.zify_post_hook ::= Z.div_mod_to_equations.

(* ================================================================ (1),(2): the scanner *)
Module Scan.
Import C12_Model C12_Proofs.

(* ---------------------------------------------------------------- (1) UTF-8 round trip *)
Lemma in_range_spec lo hi b : in_range lo hi b = true -> lo <= b <= hi.
Proof. unfold in_range. lia. Qed.

Lemma enc2 b0 b1 : 194 <= b0 <= 223 -> 128 <= b1 <= 191 ->
  encode_cp ((b0 - 192) * 64 + (b1 - 128)) = [b0; b1].
Proof.
  intros H0 H1. unfold encode_cp.
  destruct (N.ltb ((b0 - 192) * 64 + (b1 - 128)) 128) eqn:E1; [lia|].
  destruct (N.ltb ((b0 - 192) * 64 + (b1 - 128)) 2048) eqn:E2; [|lia].
  f_equal; [|f_equal]; lia.
Qed.

Lemma enc3 b0 b1 b2 : 224 <= b0 <= 239 -> (if N.eqb b0 224 then 160 else 128) <= b1 <= 191 ->
  128 <= b2 <= 191 ->
  encode_cp ((b0 - 224) * 4096 + (b1 - 128) * 64 + (b2 - 128)) = [b0; b1; b2].
Proof.
  intros H0 H1 H2. unfold encode_cp.
  assert (L : 2048 <= (b0 - 224) * 4096 + (b1 - 128) * 64 + (b2 - 128) < 65536)
    by (destruct (N.eqb b0 224) eqn:E; lia).
  destruct (N.ltb _ 128) eqn:E1; [lia|]. destruct (N.ltb _ 2048) eqn:E2; [lia|].
  destruct (N.ltb _ 65536) eqn:E3; [|lia].
  assert (B1 : 128 <= b1 <= 191) by (destruct (N.eqb b0 224); lia). clear H1 L E1 E2 E3.
  f_equal; [|f_equal; [|f_equal]]; lia.
Qed.

Lemma enc4 b0 b1 b2 b3 : 240 <= b0 <= 244 ->
  (if N.eqb b0 240 then 144 else 128) <= b1 <= (if N.eqb b0 244 then 143 else 191) ->
  128 <= b2 <= 191 -> 128 <= b3 <= 191 ->
  encode_cp ((b0 - 240) * 262144 + (b1 - 128) * 4096 + (b2 - 128) * 64 + (b3 - 128)) = [b0; b1; b2; b3].
Proof.
  intros H0 H1 H2 H3. unfold encode_cp.
  assert (L : 65536 <= (b0 - 240) * 262144 + (b1 - 128) * 4096 + (b2 - 128) * 64 + (b3 - 128))
    by (destruct (N.eqb b0 240) eqn:E; lia).
  destruct (N.ltb _ 128) eqn:E1; [lia|]. destruct (N.ltb _ 2048) eqn:E2; [lia|].
  destruct (N.ltb _ 65536) eqn:E3; [lia|].
  assert (B1 : 128 <= b1 <= 191) by (destruct (N.eqb b0 240); destruct (N.eqb b0 244); lia). clear H1 L E1 E2 E3.
  f_equal; [|f_equal; [|f_equal; [|f_equal]]]; lia.
Qed.

(* a Rust &str is the UTF-8 encoding of its chars() *)
Lemma decode_encode_n n : forall s l, (length s <= n)%nat -> decode_utf8 s = Some l -> encode_all l = s.
Proof.
  induction n as [|n IH]; intros s l Hn H.
  - destruct s; [|cbn in Hn; lia]. cbn in H. inversion H. reflexivity.
  - destruct s as [|b0 r]; [cbn in H; inversion H; reflexivity|].
    cbn [length] in Hn. cbn [decode_utf8] in H.
    destruct (N.ltb b0 128) eqn:E0.
    { destruct (decode_utf8 r) as [l'|] eqn:Er; [|discriminate]. cbn in H. inversion H; subst.
      cbn [encode_all flat_map]. fold (encode_all l'). rewrite (IH r l') by (auto; lia).
      unfold encode_cp. rewrite E0. reflexivity. }
    destruct (in_range 194 223 b0) eqn:E2.
    { destruct r as [|b1 r1]; [discriminate|]. destruct (is_cont b1) eqn:C1; [|discriminate].
      destruct (decode_utf8 r1) as [l'|] eqn:Er; [|discriminate]. cbn in H. inversion H; subst.
      cbn [encode_all flat_map]. fold (encode_all l'). cbn [length] in Hn. rewrite (IH r1 l') by (auto; lia).
      apply in_range_spec in E2. apply in_range_spec in C1. rewrite enc2 by lia. reflexivity. }
    destruct (in_range 224 239 b0) eqn:E3.
    { destruct r as [|b1 [|b2 r2]]; try discriminate.
      destruct (in_range (if N.eqb b0 224 then 160 else 128) (if N.eqb b0 237 then 159 else 191) b1 && is_cont b2) eqn:C;
        [|discriminate].
      apply andb_true_iff in C as [C1 C2].
      destruct (decode_utf8 r2) as [l'|] eqn:Er; [|discriminate]. cbn in H. inversion H; subst.
      cbn [encode_all flat_map]. fold (encode_all l'). cbn [length] in Hn. rewrite (IH r2 l') by (auto; lia).
      apply in_range_spec in E3. apply in_range_spec in C1. apply in_range_spec in C2.
      rewrite enc3; [reflexivity|lia| |lia]. destruct (N.eqb b0 237); lia. }
    destruct (in_range 240 244 b0) eqn:E4; [|discriminate].
    destruct r as [|b1 [|b2 [|b3 r3]]]; try discriminate.
    destruct (in_range (if N.eqb b0 240 then 144 else 128) (if N.eqb b0 244 then 143 else 191) b1
              && is_cont b2 && is_cont b3) eqn:C; [|discriminate].
    apply andb_true_iff in C as [C C3]. apply andb_true_iff in C as [C1 C2].
    destruct (decode_utf8 r3) as [l'|] eqn:Er; [|discriminate]. cbn in H. inversion H; subst.
    cbn [encode_all flat_map]. fold (encode_all l'). cbn [length] in Hn. rewrite (IH r3 l') by (auto; lia).
    apply in_range_spec in E4. apply in_range_spec in C1. apply in_range_spec in C2. apply in_range_spec in C3.
    rewrite enc4; [reflexivity|lia|lia|lia|lia].
Qed.

Theorem decode_encode s l : decode_utf8 s = Some l -> encode_all l = s.
Proof. apply (decode_encode_n (length s)). lia. Qed.

(* an ASCII byte of the encoding is a character of the text *)
Lemma encode_all_low_in b l : b < 128 -> In b (encode_all l) -> In b l.
Proof.
  intros Hb. induction l as [|c l IH]; [intros []|]. cbn [encode_all flat_map]. fold (encode_all l).
  intros H. apply in_app_or in H as [H|H]; [|right; apply IH; exact H].
  destruct (N.ltb c 128) eqn:E.
  - unfold encode_cp in H. rewrite E in H. destruct H as [<-|[]]. left. reflexivity.
  - exfalso. apply (encode_cp_high c b) in H; lia.
Qed.

Lemma encode_all_blank l : forallb c0_control_or_space l = true -> encode_all l = l.
Proof.
  induction l as [|c l IH]; [reflexivity|]. cbn [forallb]. intros H. apply andb_true_iff in H as [Hc Hl].
  cbn [encode_all flat_map]. fold (encode_all l). rewrite (IH Hl).
  unfold c0_control_or_space, url_trim_max in Hc. unfold encode_cp.
  destruct (N.ltb c 128) eqn:E; [reflexivity|lia].
Qed.

(* ---------------------------------------------------------------- (2) shape of a scan *)
Lemma drop_while_split {A} (f : A -> bool) l :
  exists a, l = a ++ drop_while f l /\ forallb f a = true.
Proof.
  induction l as [|x l IH]; [exists []; split; reflexivity|]. cbn [drop_while].
  destruct (f x) eqn:E.
  - destruct IH as (a & Hl & Ha). exists (x :: a). cbn [app forallb]. rewrite E, Ha.
    split; [f_equal; exact Hl|reflexivity].
  - exists []. split; reflexivity.
Qed.

Lemma forallb_rev {A} (f : A -> bool) l : forallb f l = true -> forallb f (rev l) = true.
Proof.
  rewrite !forallb_forall. intros H x Hx. apply H. apply in_rev. exact Hx.
Qed.

(* Input::new: blanks (<= 0x20) are cut off at both ends, nothing else *)
Lemma trim_input_split l :
  exists lead trail, l = lead ++ trim_input l ++ trail /\
    forallb c0_control_or_space lead = true /\ forallb c0_control_or_space trail = true.
Proof.
  unfold trim_input.
  destruct (drop_while_split c0_control_or_space l) as (lead & Hl & Hlead).
  set (m := drop_while c0_control_or_space l) in *.
  destruct (drop_while_split c0_control_or_space (rev m)) as (t & Hm & Ht).
  exists lead, (rev t). split; [|split; [exact Hlead|apply forallb_rev; exact Ht]].
  rewrite Hl at 1. f_equal. rewrite <- (rev_involutive m) at 1. rewrite Hm at 1.
  rewrite rev_app_distr. reflexivity.
Qed.

Lemma blank_no_qmark l : forallb c0_control_or_space l = true -> ~ In QMARK l.
Proof.
  rewrite forallb_forall. intros H Hq. specialize (H _ Hq).
  unfold c0_control_or_space, url_trim_max, QMARK in H. lia.
Qed.

(* the scheme loop reads `s0 ':'`, no '?' in s0, and pushes as many bytes as it read *)
Lemma scheme_loop_shape l : forall s r, scheme_loop l = Some (s, r) ->
  exists s0, l = s0 ++ COLON :: r /\ ~ In QMARK s0.
Proof.
  induction l as [|c l IH]; intros s r H; cbn [scheme_loop] in H; [discriminate|].
  destruct (N.eqb c COLON) eqn:E0.
  { apply N.eqb_eq in E0. inversion H; subst. exists []. split; [reflexivity|intros []]. }
  assert (G : forall s', scheme_loop l = Some (s', r) -> (is_lower c || is_digit c || N.eqb c PLUS || N.eqb c MINUS || N.eqb c DOT) || is_upper c = true ->
              exists s0, c :: l = s0 ++ COLON :: r /\ ~ In QMARK s0).
  { intros s' Hs Hc. destruct (IH _ _ Hs) as (s0 & -> & Hn). exists (c :: s0). split; [reflexivity|].
    intros [Hq|Hq]; [|exact (Hn Hq)]. subst c.
    unfold is_lower, is_digit, is_upper, PLUS, MINUS, DOT, QMARK in Hc. lia. }
  destruct (is_lower c || is_digit c || N.eqb c PLUS || N.eqb c MINUS || N.eqb c DOT) eqn:E1.
  { destruct (scheme_loop l) as [[s' r']|] eqn:E; [|discriminate]. inversion H; subst.
    apply (G s' eq_refl). reflexivity. }
  destruct (is_upper c) eqn:E2; [|discriminate].
  destruct (scheme_loop l) as [[s' r']|] eqn:E; [|discriminate]. inversion H; subst.
  apply (G s' eq_refl). reflexivity.
Qed.

Lemma slashes_no_qmark l : forallb is_slash l = true -> ~ In QMARK l.
Proof.
  rewrite forallb_forall. intros H Hq. specialize (H _ Hq). unfold is_slash, SLASH, BSLASH, QMARK in H. lia.
Qed.

(* the authority branch: the input is `pre ++ rest`, no '?' in pre (userinfo and host), and the
   serialisation ends with the bytes of rest *)
Lemma after_double_slash_shape idna ser0 a sp se0 ser se hs he :
  after_double_slash idna ser0 a sp se0 = POk (ser, se, hs, he) ->
  exists pre rest P, a = pre ++ rest /\ ~ In QMARK pre /\ ser = ser0 ++ P ++ encode_all rest /\ se = se0.
Proof.
  unfold after_double_slash. intros H.
  destruct (parse_userinfo (ser0 ++ [SLASH; SLASH]) a sp) as [[s1 rem1]|] eqn:E1; [|discriminate].
  apply parse_userinfo_detail in E1 as (ui & pre & -> & _ & Ha & Hauth & Hat).
  destruct (parse_host idna _ rem1 sp) as [[[s2 he2] rem2]|] eqn:E2; [|discriminate].
  apply parse_host_detail in E2 as (hc & h & Hl & -> & _ & _ & Hf & _ & _); [|exact Hat].
  inversion H; subst; clear H.
  exists (pre ++ hc), rem2, ([SLASH; SLASH] ++ ui ++ h). rewrite <- !app_assoc.
  split; [reflexivity|]. split; [|split; reflexivity].
  intros Hq. apply in_app_or in Hq as [Hq|Hq].
  - assert (Hin : In QMARK (authority_chars sp (pre ++ hc ++ rem2))) by (rewrite Hauth; apply in_or_app; left; exact Hq).
    apply authority_chars_no_break in Hin. unfold auth_break in Hin. rewrite N.eqb_refl in Hin.
    rewrite orb_true_r in Hin. discriminate.
  - pose proof (existsb_false_In _ _ _ Hf Hq) as Hn. unfold host_forbidden in Hn. rewrite N.eqb_refl in Hn.
    rewrite orb_true_r in Hn. discriminate.
Qed.

Lemma parse_scheme_nonempty l scheme rem : parse_scheme l = Some (scheme, rem) -> scheme <> [].
Proof.
  unfold parse_scheme. destruct l as [|c l]; [discriminate|].
  destruct (is_alpha c) eqn:Ea; [|discriminate]. cbn [scheme_loop].
  assert (Hc : N.eqb c COLON = false) by (unfold is_alpha, is_upper, is_lower, COLON in *; lia).
  rewrite Hc.
  destruct (is_lower c || is_digit c || N.eqb c PLUS || N.eqb c MINUS || N.eqb c DOT).
  - destruct (scheme_loop l) as [[s' r']|]; [|discriminate]. intros E; inversion E. discriminate.
  - destruct (is_upper c); [|discriminate].
    destruct (scheme_loop l) as [[s' r']|]; [|discriminate]. intros E; inversion E. discriminate.
Qed.

(* a scan that finds a host: the trimmed input is `pre ++ rest` with no '?' in pre, the
   serialisation is the lower-case scheme, ':', something, and the bytes of rest *)
Theorem scan_chars_shape idna input ser se hs he :
  scan_chars idna input = POk (ser, se, hs, he) -> (hs < he)%nat ->
  exists pre rest scheme P,
    trim_input input = pre ++ rest /\ ~ In QMARK pre /\
    ser = scheme ++ COLON :: P ++ encode_all rest /\ se = length scheme /\ scheme <> [].
Proof.
  unfold scan_chars. intros H Hlt.
  destruct (parse_scheme (trim_input input)) as [[scheme rem]|] eqn:E; [|discriminate].
  assert (Hne : scheme <> []) by (eapply parse_scheme_nonempty; eauto).
  assert (Hs : exists s0, trim_input input = s0 ++ COLON :: rem /\ ~ In QMARK s0).
  { unfold parse_scheme in E. destruct (trim_input input) as [|c l]; [discriminate|].
    destruct (is_alpha c); [|discriminate]. eapply scheme_loop_shape; eauto. }
  destruct Hs as (s0 & Ht & Hn0).
  assert (G : forall sp sl a, rem = sl ++ a -> ~ In QMARK sl ->
              after_double_slash idna (scheme ++ [COLON]) a sp (length scheme) = POk (ser, se, hs, he) ->
              exists pre rest scheme P,
                trim_input input = pre ++ rest /\ ~ In QMARK pre /\
                ser = scheme ++ COLON :: P ++ encode_all rest /\ se = length scheme /\ scheme <> []).
  { intros sp sl a Hr Hsl Had.
    apply after_double_slash_shape in Had as (pre & rest & P & -> & Hp & -> & ->).
    exists (s0 ++ COLON :: sl ++ pre), rest, scheme, P.
    split; [rewrite Ht, Hr; rewrite <- !app_assoc; cbn [app]; rewrite <- !app_assoc; reflexivity|].
    split; [|split; [rewrite <- app_assoc; reflexivity|split; [reflexivity|exact Hne]]].
    intros Hq. apply in_app_or in Hq as [Hq|[Hq|Hq]]; [exact (Hn0 Hq)|discriminate Hq|].
    apply in_app_or in Hq as [Hq|Hq]; [exact (Hsl Hq)|exact (Hp Hq)]. }
  unfold parse_with_scheme in H.
  destruct (scheme_type_from scheme); [discriminate| |].
  - destruct (drop_while_split is_slash rem) as (sl & Hr & Hsl).
    apply (G true sl _ Hr (slashes_no_qmark _ Hsl) H).
  - unfold parse_non_special in H. destruct (split_double_slash rem) as [rest|] eqn:Ed.
    + unfold split_double_slash in Ed. destruct rem as [|c1 [|c2 r2]]; try discriminate.
      destruct (N.eqb c1 SLASH && N.eqb c2 SLASH) eqn:Es; inversion Ed; subst.
      apply (G false [c1; c2] rest eq_refl); [|exact H].
      unfold SLASH, QMARK in *. intros [Hq|[Hq|[]]]; lia.
    + inversion H; subst. lia.
Qed.

(* on bytes: the url is `A ++ B ++ C`, the '?'-free part A was rewritten into `scheme ':' P`,
   B was copied, C (blanks) was dropped *)
Theorem scan_shape idna u ser se hs he :
  scan idna u = Ok (POk (ser, se, hs, he)) -> (hs < he)%nat ->
  exists A B C scheme P,
    u = A ++ B ++ C /\ ~ In QMARK A /\ forallb (fun c => N.leb c 32) C = true /\
    ser = scheme ++ COLON :: P ++ B /\ se = length scheme /\ scheme <> [].
Proof.
  unfold scan. destruct (decode_utf8 u) as [cps|] eqn:Ed; [|discriminate].
  intros H Hlt. inversion H as [H']. clear H.
  apply scan_chars_shape in H' as (pre & rest & scheme & P & Ht & Hq & -> & -> & Hne); [|exact Hlt].
  destruct (trim_input_split cps) as (lead & trail & Hc & Hlead & Htrail).
  exists (encode_all (lead ++ pre)), (encode_all rest), trail, scheme, P.
  split; [|split; [|split; [exact Htrail|split; [reflexivity|split; [reflexivity|exact Hne]]]]].
  - rewrite <- (decode_encode _ _ Ed). rewrite Hc at 1. rewrite Ht.
    rewrite !encode_all_app. rewrite (encode_all_blank trail Htrail). rewrite <- !app_assoc. reflexivity.
  - intros Hin. apply encode_all_low_in in Hin; [|reflexivity].
    apply in_app_or in Hin as [Hin|Hin]; [exact (blank_no_qmark _ Hlead Hin)|exact (Hq Hin)].
Qed.

(* url_parser::parse_url *)
Lemma parse_url_scan idna psl u pu :
  parse_url idna psl u = Ok (Some pu) ->
  exists se hs he, scan idna u = Ok (POk (ru_url pu, se, hs, he)) /\ (hs < he)%nat /\ ru_schema_end pu = se.
Proof.
  unfold parse_url. destruct (scan idna u) as [p|w]; [|discriminate]. cbn [rbind].
  destruct p as [[[[ser se] hs] he]|e]; [|discriminate].
  destruct (Nat.ltb hs he) eqn:L; [|discriminate]. apply Nat.ltb_lt in L.
  destruct (slice ser hs he) as [x|w]; [|discriminate]. cbn [rbind].
  intros H; inversion H; subst; clear H. cbn. exists se, hs, he. auto.
Qed.

(* Request::new: the fields the engine reads, in terms of parse_url *)
Lemma request_new_inv idna psl hash tokenize u s t q :
  Request_new idna psl hash tokenize u s t = Ok (Some q) ->
  exists pu schema,
    parse_url idna psl u = Ok (Some pu) /\ ru_schema pu = Ok schema /\
    url q = ru_url pu /\ original_url q = u /\ url_lower_cased q = lower_str (ru_url pu) /\
    request_tokens q = tokenize (lower_str (ru_url pu)) ++ [0] /\
    is_http q = fst (fst (fst (scheme_flags schema t))) /\
    is_https q = snd (fst (fst (scheme_flags schema t))) /\
    is_supported q = snd (fst (scheme_flags schema t)).
Proof.
  unfold Request_new. destruct (parse_url idna psl u) as [[pu|]|w]; cbn [rbind]; try discriminate.
  assert (G : forall schema hn sh tp,
            ru_schema pu = Ok schema ->
            rbind (from_detailed_parameters hash tokenize t (ru_url pu) schema hn sh tp u)
                  (fun r => Ok (Some r)) = Ok (Some q) ->
            exists pu0 schema0,
              Ok (Some pu) = Ok (Some pu0) /\ ru_schema pu0 = Ok schema0 /\
              url q = ru_url pu0 /\ original_url q = u /\ url_lower_cased q = lower_str (ru_url pu0) /\
              request_tokens q = tokenize (lower_str (ru_url pu0)) ++ [0] /\
              is_http q = fst (fst (fst (scheme_flags schema0 t))) /\
              is_https q = snd (fst (fst (scheme_flags schema0 t))) /\
              is_supported q = snd (fst (scheme_flags schema0 t))).
  { intros schema hn sh tp Hsc H.
    destruct (from_detailed_parameters hash tokenize t (ru_url pu) schema hn sh tp u) as [r|w] eqn:Ef; [|discriminate].
    cbn [rbind] in H. inversion H; subst r; clear H.
    apply fdp_fields in Ef as (i & _ & ->). exists pu, schema. cbn. repeat split; auto. }
  destruct (parse_url idna psl s) as [[ps|]|w]; cbn [rbind]; try discriminate.
  - destruct (ru_domain_str ps) as [sd|w]; cbn [rbind]; [|discriminate].
    destruct (ru_domain_str pu) as [ud|w]; cbn [rbind]; [|discriminate].
    destruct (ru_schema pu) as [schema|w] eqn:Esc; cbn [rbind]; [|discriminate].
    destruct (ru_hostname pu) as [hn|w]; cbn [rbind]; [|discriminate].
    destruct (ru_hostname ps) as [sh|w]; cbn [rbind]; [|discriminate].
    apply G. reflexivity.
  - destruct (ru_schema pu) as [schema|w] eqn:Esc; cbn [rbind]; [|discriminate].
    destruct (ru_hostname pu) as [hn|w]; cbn [rbind]; [|discriminate].
    apply G. reflexivity.
Qed.

(* everything the C14 side needs to know about a request built by Request::new *)
Theorem request_new_shape idna psl hash tokenize u s t q :
  Request_new idna psl hash tokenize u s t = Ok (Some q) ->
  exists A B C scheme P,
    u = A ++ B ++ C /\ ~ In QMARK A /\ forallb (fun c => N.leb c 32) C = true /\
    url q = scheme ++ COLON :: P ++ B /\
    original_url q = u /\ url_lower_cased q = lower_str (url q) /\
    request_tokens q = tokenize (url_lower_cased q) ++ [0] /\
    (is_http q = true -> scheme = S_HTTP) /\ (is_https q = true -> scheme = S_HTTPS) /\
    (is_http q || is_https q = true -> is_supported q = true).
Proof.
  intros H. apply request_new_inv in H as (pu & schema & Hp & Hsc & Hu & Ho & Hl & Ht & Hh & Hs & Hsup).
  apply parse_url_scan in Hp as (se & hs & he & Hscan & Hlt & Hse).
  apply scan_shape in Hscan as (A & B & C & scheme & P & HA & Hq & HC & Hser & Hlen & Hne); [|exact Hlt].
  exists A, B, C, scheme, P. rewrite Hu, Hl, Ht.
  repeat (split; [assumption || reflexivity|]).
  assert (Hschema : schema = scheme).
  { unfold ru_schema in Hsc. apply slice_ok_eq in Hsc as [-> _]. rewrite Hse, Hlen, Hser.
    cbn [drop skipn]. rewrite Nat.sub_0_r. apply take_app_length. }
  subst schema. destruct (scheme_flags_spec scheme t) as (F1 & F2 & _).
  split; [|split].
  - intros E. apply F1. rewrite <- Hh. exact E.
  - intros E. rewrite Hs in E. apply F2 in E as [E|E]; [exact E|].
    exfalso. exact (Hne E).
  - rewrite Hh, Hs, Hsup. unfold scheme_flags. destruct scheme as [|c0 s0]; [reflexivity|].
    cbn [fst snd]. intros E. rewrite E. reflexivity.
Qed.

End Scan.

(* ================================================================ (3) the ties of Request::new *)
From Coq Require Import Permutation.
From Adb Require Import Hashing Net_Model Net_Proofs Engine_Model Engine_Proofs
  Tok_Proofs Tok_Ext_Model Tok_Ext_Proofs C14_Relevant_Model C14_Relevant_Proofs C14_UrlTie_Model.
From Adb Require C02_Proofs C03_Model C13_Model C14_Model.

(* the shape of (2) is a tie: [A] has no '?', [B] is copied, [C] is blank *)
Lemma url_tie_shape A B C W :
  ~ In C14_Model.QMARK A -> forallb (fun c => N.leb c 32) C = true ->
  url_tie (A ++ B ++ C) (lower_str (W ++ B)).
Proof.
  intros Hq HC. exists (length A), (length B), (lower_str W), [].
  rewrite drop_app_length, take_app_length, drop_app_length.
  split; [unfold lower_str; rewrite map_app, app_nil_r; reflexivity|]. split; [|exact HC].
  intros i Hi. rewrite find_byte_app_notin in Hi by exact Hq.
  destruct (find_byte C14_Model.QMARK (B ++ C)) as [j|]; [|discriminate]. inversion Hi. lia.
Qed.

Section New.
Variable idna : str -> option str.
Variable psl : str -> nat * nat.
Variable hash : str -> N.
Variable tok : str -> list N.
Variables u s t : str.
Variable q : C12_Model.request.
Hypothesis Hnew : C12_Model.Request_new idna psl hash tok u s t = Ok (Some q).

Theorem original_url_new : C12_Model.original_url q = u.
Proof using Hnew.
  destruct (Scan.request_new_shape _ _ _ _ _ _ _ _ Hnew) as (A & B & C & sc & P & _ & _ & _ & _ & Ho & _). exact Ho.
Qed.

(* the tie assumed in C14_Relevant_Proofs, for every request Request::new builds *)
Theorem url_tie_new : url_tie u (C12_Model.url_lower_cased q).
Proof using Hnew.
  destruct (Scan.request_new_shape _ _ _ _ _ _ _ _ Hnew) as (A & B & C & sc & P & Hu & Hq & HC & Hurl & _ & Hl & _).
  rewrite Hl, Hurl, Hu.
  change (sc ++ C12_Model.COLON :: P ++ B) with (sc ++ [C12_Model.COLON] ++ P ++ B).
  rewrite !app_assoc. rewrite <- (app_assoc A). apply url_tie_shape; assumption.
Qed.

(* the flags describe the lower-cased URL *)
Theorem scheme_tie_new : scheme_tie (req_of q) (C12_Model.url_lower_cased q).
Proof using Hnew.
  destruct (Scan.request_new_shape _ _ _ _ _ _ _ _ Hnew) as (A & B & C & sc & P & _ & _ & _ & Hurl & _ & Hl & _ & Hh & Hs & _).
  rewrite Hl, Hurl. unfold scheme_tie, req_of. cbn [C03_Model.rq_http C03_Model.rq_https].
  split; intros E; [apply Hh in E|apply Hs in E]; subst sc; apply C02_Proofs.prefixb_spec;
    exists (lower_str (P ++ B)); unfold lower_str; rewrite map_app; reflexivity.
Qed.

Theorem supported_new :
  C12_Model.is_http q || C12_Model.is_https q = true -> C12_Model.is_supported q = true.
Proof using Hnew.
  destruct (Scan.request_new_shape _ _ _ _ _ _ _ _ Hnew) as (A & B & C & sc & P & _ & _ & _ & _ & _ & _ & _ & _ & _ & Hsup).
  exact Hsup.
Qed.

Theorem web_request_new :
  C12_Model.source_hostname_hashes q <> None ->
  C12_Model.is_http q || C12_Model.is_https q = true ->
  web_request (req_of q) (C12_Model.url_lower_cased q).
Proof using Hnew.
  intros Hsrc Hweb. split; [exact Hsrc|]. split; [exact Hweb|exact scheme_tie_new].
Qed.

(* ================================================================ (4) the C14 theorems restated *)
Local Notation ul := (C12_Model.url_lower_cased q).
Local Notation src := (C12_Model.source_hostname_hashes q).

(* token_guarantee_param: url_tie and scheme_tie discharged *)
Theorem token_guarantee_param_new h f odu ondu :
  no_param_fallback h f = false ->
  relevant_rule u f = true ->
  C03_Model.check_options (rmask f) (rdomains f) odu (rnotdomains f) ondu (req_of q) = true ->
  (needs_source f = true -> nullb (param_tokens h f) = true -> src <> None) ->
  (scheme_restricted f = true -> C12_Model.is_http q || C12_Model.is_https q = true) ->
  within_cutoff false false ul ->
  covered h (probes h src ul) f.
Proof using Hnew.
  intros Hnp Hrel Hopt Hsrc Hweb Hu.
  apply (token_guarantee_param h f (req_of q) odu ondu u ul); auto.
  - exact url_tie_new.
  - exact scheme_tie_new.
Qed.

Theorem TG_rp_new h matches host L :
  within_cutoff false false ul -> src <> None ->
  C12_Model.is_http q || C12_Model.is_https q = true ->
  mixed_hits h matches (req_of q) ul host L ->
  TG_rp h matches (probes h src ul) u L.
Proof using Hnew.
  intros Hu Hsrc Hweb Hx.
  apply (TG_rp_mixed_list h matches (req_of q) u ul host L); auto.
  - apply web_request_new; assumption.
  - exact url_tie_new.
Qed.

(* the engine on the request: supported flag, original URL and probes are the request's own *)
Theorem engine_bits_new h matches host st mr fc L T :
  id_inj L -> within_cutoff false false ul -> src <> None ->
  C12_Model.is_http q || C12_Model.is_https q = true ->
  mixed_hits h matches (req_of q) ul host L ->
  let e := engine_check matches (probes h src ul) (C12_Model.is_supported q) (C12_Model.original_url q) st mr fc
             (tags_with_set h (blocker_new h L) T) in
  {| v_matched := r_matched e; v_important := r_important e; v_exception := r_exception e; v_filter := r_filter e |}
  = spec_verdict_p matches mr fc L T.
Proof using Hnew.
  intros Hi Hu Hsrc Hweb Hx. rewrite (supported_new Hweb), original_url_new.
  apply (engine_bits_mixed h matches (req_of q) u ul host); auto.
  - apply web_request_new; assumption.
  - exact url_tie_new.
Qed.

Theorem engine_rewritten_new h matches host st mr fc L T :
  id_inj L -> within_cutoff false false ul -> src <> None ->
  C12_Model.is_http q || C12_Model.is_https q = true ->
  mixed_hits h matches (req_of q) ul host L ->
  r_rewritten (engine_check matches (probes h src ul) (C12_Model.is_supported q) (C12_Model.original_url q) st mr fc
                 (tags_with_set h (blocker_new h L) T))
  = C14_Model.rewritten_url (v_important (spec_verdict_p matches mr fc L T)) (spec_param_names matches L) u.
Proof using Hnew.
  intros Hi Hu Hsrc Hweb Hx. rewrite (supported_new Hweb), original_url_new.
  apply (engine_rewritten_mixed h matches (req_of q) u ul host); auto.
  - apply web_request_new; assumption.
  - exact url_tie_new.
Qed.
End New.

(* with the concrete tokenizer the probes above are Request::get_tokens_for_match *)
Theorem tokens_for_match_new idna psl h u s t q :
  request_new idna psl h u s t = Ok (Some q) ->
  tokens_for_match q = probes h (C12_Model.source_hostname_hashes q) (C12_Model.url_lower_cased q).
Proof.
  unfold request_new. intros Hnew.
  destruct (Scan.request_new_shape _ _ _ _ _ _ _ _ Hnew) as (A & B & C & sc & P & _ & _ & _ & _ & _ & _ & Ht & _).
  unfold tokens_for_match, probes, Net_Model.request_tokens. rewrite Ht. reflexivity.
Qed.

(* every removable key of the original URL stands, lower-cased, between '?' / '&' and '=' in the
   tokenized URL: what the tie is used for *)
Theorem relevant_key_in_new idna psl hash tok u s t q n :
  C12_Model.Request_new idna psl hash tok u s t = Ok (Some q) ->
  relevant u n = true -> key_in (C12_Model.url_lower_cased q) n.
Proof.
  intros Hnew Hr. apply (tie_key u); [apply relevant_has_key; exact Hr|].
  apply (url_tie_new idna psl hash tok u s t q Hnew).
Qed.

(* ================================================================ (5) non-vacuity, witnesses *)
Lemma ut_q_new : request_new ut_idna ut_psl seahash ut_url ut_source ut_type = Ok (Some ut_q).
Proof. vm_compute. reflexivity. Qed.
Lemma ut_q_hard_new : request_new ut_idna ut_psl seahash ut_url_hard ut_source ut_type = Ok (Some ut_q_hard).
Proof. vm_compute. reflexivity. Qed.
Lemma ut_q_blank_new : request_new ut_idna ut_psl seahash ut_url_blank ut_source ut_type = Ok (Some ut_q_blank).
Proof. vm_compute. reflexivity. Qed.

(* HTTPS://A.com/p?x=1&utm_source=z#f with $removeparam=utm_source: the request is built, its URL
   is not the original, the rule is relevant, passes the option check, and
   token_guarantee_param_new puts its token group among the tokens the request is probed with *)
Example ut_token_guarantee_example :
  C12_Model.url ut_q = bs "https://A.com/p?x=1&utm_source=z#f" /\ C12_Model.url ut_q <> ut_url /\
  C12_Model.original_url ut_q = ut_url /\
  relevant_rule ut_url rp_rule_utm = true /\
  C03_Model.check_options (rmask rp_rule_utm) (rdomains rp_rule_utm) None (rnotdomains rp_rule_utm) None (req_of ut_q) = true /\
  within_cutoff false false (C12_Model.url_lower_cased ut_q) /\
  covered seahash (tokens_for_match ut_q) rp_rule_utm.
Proof.
  assert (Hrel : relevant_rule ut_url rp_rule_utm = true) by (vm_compute; reflexivity).
  assert (Hopt : C03_Model.check_options (rmask rp_rule_utm) (rdomains rp_rule_utm) None (rnotdomains rp_rule_utm) None (req_of ut_q) = true)
    by (vm_compute; reflexivity).
  assert (Hu : within_cutoff false false (C12_Model.url_lower_cased ut_q)) by (vm_compute; lia).
  split; [vm_compute; reflexivity|]. split; [intros H; vm_compute in H; discriminate H|].
  split; [vm_compute; reflexivity|]. split; [exact Hrel|]. split; [exact Hopt|]. split; [exact Hu|].
  rewrite (tokens_for_match_new _ _ _ _ _ _ _ ut_q_new).
  apply (token_guarantee_param_new _ _ _ _ _ _ _ _ ut_q_new seahash rp_rule_utm None None);
    [vm_compute; reflexivity|exact Hrel|exact Hopt|intros H; vm_compute in H; discriminate H
    |intros H; vm_compute in H; discriminate H|exact Hu].
Qed.

(* the harder URL, against the list of C14_Relevant_Proofs.rp_list_example: the lower-cased
   request URL is not the lower-cased original (url_tie_lower does not apply), every premise of
   engine_rewritten_new holds, and the engine rewrites the ORIGINAL bytes (blanks, backslash and
   TAB included) *)
Example ut_engine_example :
  let q := ut_q_hard in
  let pr := probes seahash (C12_Model.source_hostname_hashes q) (C12_Model.url_lower_cased q) in
  C12_Model.url q = bs "https://u:p@A.com/p?x=1&utm_source=z#f" /\
  C12_Model.url_lower_cased q <> lower_str ut_url_hard /\
  url_tie ut_url_hard (C12_Model.url_lower_cased q) /\
  tokens_for_match q = pr /\
  id_inj rp_example_list /\ within_cutoff false false (C12_Model.url_lower_cased q) /\
  C12_Model.source_hostname_hashes q <> None /\ C12_Model.is_http q || C12_Model.is_https q = true /\
  mixed_hits seahash rp_example_matches (req_of q) (C12_Model.url_lower_cased q) (bs "a.com") rp_example_list /\
  TG_rp seahash rp_example_matches pr ut_url_hard rp_example_list /\
  r_rewritten (engine_check rp_example_matches pr (C12_Model.is_supported q) (C12_Model.original_url q)
                 C13_Model.empty_store false false (tags_with_set seahash (blocker_new seahash rp_example_list) []))
  = Some (bs "  HTTPS:/\u:p@A" ++ [9] ++ bs ".com/p?x=1#f " ++ [10]).
Proof.
  cbv zeta. pose proof ut_q_hard_new as Hnew. unfold request_new in Hnew.
  assert (Hinj : id_inj rp_example_list).
  { apply nodup_ids_inj. apply nodupN_b_sound. vm_compute. reflexivity. }
  assert (Hu : within_cutoff false false (C12_Model.url_lower_cased ut_q_hard)) by (vm_compute; lia).
  assert (Hsrc : C12_Model.source_hostname_hashes ut_q_hard <> None) by (vm_compute; discriminate).
  assert (Hweb : C12_Model.is_http ut_q_hard || C12_Model.is_https ut_q_hard = true) by (vm_compute; reflexivity).
  assert (Hx : mixed_hits seahash rp_example_matches (req_of ut_q_hard) (C12_Model.url_lower_cased ut_q_hard)
                 (bs "a.com") rp_example_list).
  { intros f Hf Hm. unfold rp_example_list in Hf.
    repeat (destruct Hf as [Hf|Hf]; [subst f|]); try destruct Hf; try (vm_compute in Hm; discriminate Hm).
    - split; [exists None, None; vm_compute; reflexivity|]. intros H. vm_compute in H. discriminate.
    - split; [exists None, None; vm_compute; reflexivity|]. intros H. vm_compute in H. discriminate.
    - split; [exists None, None; vm_compute; reflexivity|]. intros _.
      change (plain_match false false (bs "a.com/p") (C12_Model.url_lower_cased ut_q_hard) = true /\
              within_cutoff true true (bs "a.com/p")).
      split; [vm_compute; reflexivity|vm_compute; lia]. }
  split; [vm_compute; reflexivity|]. split; [intros H; vm_compute in H; discriminate H|].
  split; [exact (url_tie_new _ _ _ _ _ _ _ _ Hnew)|].
  split; [exact (tokens_for_match_new _ _ _ _ _ _ _ ut_q_hard_new)|].
  split; [exact Hinj|]. split; [exact Hu|]. split; [exact Hsrc|]. split; [exact Hweb|]. split; [exact Hx|].
  split; [exact (TG_rp_new _ _ _ _ _ _ _ _ Hnew seahash rp_example_matches (bs "a.com") rp_example_list Hu Hsrc Hweb Hx)|].
  rewrite (engine_rewritten_new _ _ _ _ _ _ _ _ Hnew seahash rp_example_matches (bs "a.com") C13_Model.empty_store
             false false rp_example_list [] Hinj Hu Hsrc Hweb Hx).
  vm_compute. reflexivity.
Qed.

(* Observation on the Rust code (not a counterexample to the guarantee): the rewrite reads bytes
   that the normaliser drops.  For `https://a.com/p?ref= ` the value of `ref` is the trailing
   blank: apply_removeparam on original_url removes the parameter, while the same call on the
   request's own (normalised) URL `https://a.com/p?ref=` removes nothing.  The lookup is not
   affected: `ref` is a key of both. *)
Lemma trailing_blank_is_a_value :
  C12_Model.url ut_q_blank = bs "https://a.com/p?ref=" /\
  C14_Model.apply_removeparam [bs "ref"] (C12_Model.original_url ut_q_blank) = Some (bs "https://a.com/p") /\
  C14_Model.apply_removeparam [bs "ref"] (C12_Model.url ut_q_blank) = None /\
  relevant (C12_Model.original_url ut_q_blank) (bs "ref") = true /\
  relevant (C12_Model.url ut_q_blank) (bs "ref") = false.
Proof. repeat split; vm_compute; reflexivity. Qed.

(* the cases one might fear: a TAB inside a key, a non-ASCII key, blank and quote.  The scanner
   does not touch them (after the host nothing is removed or percent-encoded), so the keys of the
   original and of the tokenized URL are the same strings; `re<TAB>f` is not the key `ref` on
   either side, and the genuine `ref` is removed *)
Lemma tab_in_key_is_copied :
  request_new ut_idna ut_psl seahash ut_url_tab ut_source ut_type = Ok (Some ut_q_tab) /\
  C12_Model.url ut_q_tab = ut_url_tab /\
  query_params ut_url_tab = [bs "re" ++ [9] ++ bs "f=1"; [195; 169] ++ bs "=2"; bs "a ""b=3"; bs "ref=4"] /\
  C14_Model.apply_removeparam [bs "ref"] ut_url_tab
  = Some (bs "https://a.com/p?re" ++ [9] ++ bs "f=1&" ++ [195; 169] ++ bs "=2&a ""b=3").
Proof. repeat split; vm_compute; reflexivity. Qed.

(* the ties in one statement *)
Theorem request_new_ties idna psl hash tok u s t q :
  C12_Model.Request_new idna psl hash tok u s t = Ok (Some q) ->
  C12_Model.original_url q = u /\ url_tie u (C12_Model.url_lower_cased q) /\
  scheme_tie (req_of q) (C12_Model.url_lower_cased q) /\
  (C12_Model.is_http q || C12_Model.is_https q = true -> C12_Model.is_supported q = true).
Proof.
  intros H.
  exact (conj (original_url_new _ _ _ _ _ _ _ _ H) (conj (url_tie_new _ _ _ _ _ _ _ _ H)
        (conj (scheme_tie_new _ _ _ _ _ _ _ _ H) (supported_new _ _ _ _ _ _ _ _ H)))).
Qed.
