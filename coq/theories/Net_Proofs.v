(* Net_Proofs.v — the index theorem: whatever token the histogram heuristics pick, every rule is
   stored under one of its own tokens per group, buckets only hold rules of the list, and therefore
   check / check_all return exactly the matching, tag-active rules whose tokens the request covers. *)
From Adb Require Import Base BaseProofs Generated Hashing Net_Model.
From Coq Require Import ZifyBool ZifyNat ZifyN.

Section Index.
Variable h : str -> N.

Notation get_tokens := (get_tokens h).
Notation fl_new := (fl_new h).
Notation fl_add := (fl_add h).

(* ---------------------------------------------------------------- buckets *)
Lemma bucket_nil k : bucket [] k = [].
Proof. reflexivity. Qed.

Lemma ins_sorted_has f b : exists g, In g (ins_sorted f b) /\ rid g = rid f.
Proof.
  induction b as [|g r IH]; cbn.
  - exists f; auto.
  - destruct (N.ltb (rid f) (rid g)) eqn:E1.
    + exists f; cbn; auto.
    + destruct (N.eqb (rid f) (rid g)) eqn:E2.
      * apply N.eqb_eq in E2. exists g; cbn; auto.
      * destruct IH as [x [Hx Hi]]. exists x; cbn; auto.
Qed.
Lemma ins_sorted_keeps f b x : In x b -> In x (ins_sorted f b).
Proof.
  induction b as [|g r IH]; cbn; [tauto|]. intros [->|Hx].
  - destruct (N.ltb _ _); [cbn; auto|]. destruct (N.eqb _ _); cbn; auto.
  - destruct (N.ltb _ _); [cbn; auto|]. destruct (N.eqb _ _); cbn; auto.
Qed.
Lemma ins_sorted_from f b x : In x (ins_sorted f b) -> x = f \/ In x b.
Proof.
  induction b as [|g r IH]; cbn; [intuition auto|].
  destruct (N.ltb _ _); [cbn; intuition auto|].
  destruct (N.eqb _ _); [cbn; intuition auto|]. cbn. intros [->|H]; [auto|]. apply IH in H; tauto.
Qed.

Definition in_bucket (m : fmap) (k i : N) : Prop := exists x, In x (bucket m k) /\ rid x = i.

Lemma bucket_insert_same m k f : exists g, In g (bucket (insert_dup m k f) k) /\ rid g = rid f.
Proof.
  unfold bucket. induction m as [|[k' b] r IH]; cbn.
  - rewrite N.eqb_refl. exists f; cbn; auto.
  - destruct (N.eqb k k') eqn:E; cbn; rewrite E.
    + apply ins_sorted_has.
    + exact IH.
Qed.
Lemma bucket_insert_keeps m k f k0 x : In x (bucket m k0) -> In x (bucket (insert_dup m k f) k0).
Proof.
  unfold bucket. induction m as [|[k' b] r IH]; cbn; [tauto|].
  destruct (N.eqb k k') eqn:E; cbn.
  - destruct (N.eqb k0 k') eqn:E0; auto. apply ins_sorted_keeps.
  - destruct (N.eqb k0 k') eqn:E0; auto.
Qed.
Lemma bucket_insert_from m k f k0 x : In x (bucket (insert_dup m k f) k0) -> x = f \/ In x (bucket m k0).
Proof.
  unfold bucket. induction m as [|[k' b] r IH]; cbn.
  - destruct (N.eqb k0 k); cbn; intuition auto.
  - destruct (N.eqb k k') eqn:E; cbn.
    + destruct (N.eqb k0 k') eqn:E0; auto. apply ins_sorted_from.
    + destruct (N.eqb k0 k') eqn:E0; auto.
Qed.

(* ---------------------------------------------------------------- best token *)
Lemma best_loop_in cnt g : forall best minc,
  best_loop cnt g best minc = best \/ In (best_loop cnt g best minc) g.
Proof.
  induction g as [|t r IH]; intros best minc; cbn; [auto|].
  destruct (cnt t) as [c|].
  - destruct (N.ltb c minc).
    + destruct (IH t c) as [H|H]; [right; left; auto|right; right; auto].
    + destruct (IH best minc) as [H|H]; auto.
  - destruct (IH t 0) as [H|H]; [right; left; auto|right; right; auto].
Qed.

(* counts never exceed the starting minimum: the first token of a group always wins at least once *)
Lemma best_token_in cnt total g :
  (forall t c, In t g -> cnt t = Some c -> c <= total) -> g <> [] -> In (best_token cnt total g) g.
Proof.
  unfold best_token. destruct g as [|t r]; [congruence|]. intros Hb _. cbn.
  destruct (cnt t) as [c|] eqn:E.
  - assert (c <= total) by (apply (Hb t); cbn; auto).
    destruct (N.ltb_spec c (total + 1)); [|lia].
    destruct (best_loop_in cnt r t c) as [H1|H1]; [left; auto|right; auto].
  - destruct (best_loop_in cnt r t 0) as [H1|H1]; [left; auto|right; auto].
Qed.
Lemma best_token_nil cnt total : best_token cnt total [] = 0.
Proof. reflexivity. Qed.

(* a bucket key is safe when it is 0 (always probed) or one of the group's own tokens *)
Definition key_ok (g : list N) (k : N) : Prop := k = 0 \/ In k g.

Lemma best_token_key cnt total g : key_ok g (best_token cnt total g).
Proof. unfold best_token, key_ok. destruct (best_loop_in cnt g 0 (total + 1)); auto. Qed.

(* ---------------------------------------------------------------- placing a rule *)
(* [pick] abstracts both heuristics (histogram in new, bucket sizes in add_filter) *)
Definition pick_ok (pick : fmap -> list N -> N) : Prop :=
  forall m g, key_ok g (pick m g).

Definition place_with (pick : fmap -> list N -> N) (m : fmap) (f : rule) : fmap :=
  fold_left (fun m g => insert_dup m (pick m g) f) (get_tokens f) m.

Definition placed (m : fmap) (f : rule) : Prop :=
  forall g, In g (get_tokens f) -> exists k, key_ok g k /\ in_bucket m k (rid f).
Definition members_from (m : fmap) (L : list rule) : Prop :=
  forall k x, In x (bucket m k) -> In x L.

Lemma in_bucket_mono m k f k0 i : in_bucket m k0 i -> in_bucket (insert_dup m k f) k0 i.
Proof. intros [x [Hx Hi]]. exists x; split; auto. apply bucket_insert_keeps; auto. Qed.

Lemma place_groups pick (Hp : pick_ok pick) gs : forall m f,
  (forall g, In g gs -> exists k, key_ok g k /\
      in_bucket (fold_left (fun m g => insert_dup m (pick m g) f) gs m) k (rid f))
  /\ (forall k0 i, in_bucket m k0 i ->
      in_bucket (fold_left (fun m g => insert_dup m (pick m g) f) gs m) k0 i).
Proof.
  induction gs as [|g gs IH]; intros m f; cbn; split; try tauto; try (intros; assumption).
  - intros g' [<-|Hg'].
    + exists (pick m g). split; [apply Hp|].
      apply (proj2 (IH _ f)). destruct (bucket_insert_same m (pick m g) f) as [x [Hx Hi]].
      exists x; auto.
    + apply (proj1 (IH _ f)); auto.
  - intros k0 i H. apply (proj2 (IH _ f)). apply in_bucket_mono; auto.
Qed.

Lemma place_members pick m f L :
  members_from m L -> members_from (place_with pick m f) (L ++ [f]).
Proof.
  unfold place_with. generalize (get_tokens f) as gs. intros gs.
  assert (G : forall gs m0, members_from m0 (L ++ [f]) ->
     members_from (fold_left (fun m g => insert_dup m (pick m g) f) gs m0) (L ++ [f])).
  { clear. induction gs as [|g' gs' IHg]; intros m0 H0; cbn; auto. apply IHg.
    intros k1 x1 H1. apply bucket_insert_from in H1 as [->|H1];
      [apply in_or_app; right; cbn; auto|eauto]. }
  intros Hm. apply G. intros k x Hx. apply in_or_app; left; eauto.
Qed.

Definition WellIndexed (m : fmap) (L : list rule) : Prop :=
  (forall f, In f L -> placed m f) /\ members_from m L.

Lemma place_well_indexed pick (Hp : pick_ok pick) m L f :
  WellIndexed m L -> WellIndexed (place_with pick m f) (L ++ [f]).
Proof.
  intros [Hpl Hm]. split.
  - intros f' Hf' g Hg. apply in_app_or in Hf' as [Hf'|[<-|[]]].
    + destruct (Hpl f' Hf' g Hg) as [k [Hk Hb]]. exists k; split; auto.
      apply (proj2 (place_groups pick Hp (get_tokens f) m f)); auto.
    + apply (proj1 (place_groups pick Hp (get_tokens f) m f)); auto.
  - apply place_members; auto.
Qed.

Lemma fold_place_well_indexed pick (Hp : pick_ok pick) L : forall m L0,
  WellIndexed m L0 -> WellIndexed (fold_left (place_with pick) L m) (L0 ++ L).
Proof.
  induction L as [|f L IH]; intros m L0 H; cbn.
  - rewrite app_nil_r; auto.
  - specialize (IH (place_with pick m f) (L0 ++ [f])).
    rewrite <- app_assoc in IH; cbn in IH. apply IH. apply place_well_indexed; auto.
Qed.

Lemma well_indexed_nil : WellIndexed [] [].
Proof. split; [intros f []|intros k x []]. Qed.

(* ---------------------------------------------------------------- the two concrete heuristics *)
Theorem new_well_indexed L : WellIndexed (fl_new L) L.
Proof.
  unfold Net_Model.fl_new. destruct (histogram h L) as [total cnt].
  pose proof (fold_place_well_indexed (fun _ g => best_token cnt total g)
                (fun m g => best_token_key cnt total g) L [] [] well_indexed_nil) as H.
  cbn [app] in H. exact H.
Qed.

Theorem add_well_indexed m L f : WellIndexed m L -> WellIndexed (fl_add m f) (L ++ [f]).
Proof.
  intros H. unfold Net_Model.fl_add.
  apply (place_well_indexed
           (fun m' g => best_token (fun t => match lookup m' t with
                                             | Some b => Some (N.of_nat (length b))
                                             | None => None end) (map_len m) g)
           (fun m' g => best_token_key _ _ g) m L f H).
Qed.

End Index.

(* ================================================================ lookup side *)
Section Lookup.
Variable h : str -> N.
Variable matches : rule -> bool.
Variable pr : list N.
Hypothesis pr_zero : In 0 pr.

Notation get_tokens := (get_tokens h).
Notation fl_new := (fl_new h).

(* the request's probes cover at least one whole bucket-candidate group of the rule *)
Definition covered (f : rule) : Prop := exists g, In g (get_tokens f) /\ incl g pr.
(* equal ids mean equal rules (ids are 64-bit hashes of the rule line; duplicates are identical) *)
Definition id_inj (L : list rule) : Prop :=
  forall f g, In f L -> In g L -> rid f = rid g -> f = g.
Definition TG (L : list rule) : Prop := forall f, In f L -> matches f = true -> covered f.

Lemma check_all_flat m tags :
  check_all matches m pr tags = flat_map (fun k => filter (hit matches tags) (bucket m k)) pr.
Proof.
  unfold check_all. destruct m; [|reflexivity].
  generalize pr as p. induction p as [|k r IH]; cbn; [reflexivity|exact IH].
Qed.

Theorem check_all_sound m L tags f :
  WellIndexed h m L -> In f (check_all matches m pr tags) -> In f L /\ hit matches tags f = true.
Proof.
  intros [_ Hm]. rewrite check_all_flat. intros H. apply in_flat_map in H as [k [_ H]].
  apply filter_In in H as [H1 H2]. split; eauto.
Qed.

Theorem check_all_complete m L tags f :
  WellIndexed h m L -> id_inj L -> In f L -> hit matches tags f = true -> covered f ->
  In f (check_all matches m pr tags).
Proof.
  intros [Hp Hm] Hinj Hf Hhit [g [Hg Hincl]]. rewrite check_all_flat.
  destruct (Hp f Hf g Hg) as [k [Hk [x [Hx Hi]]]].
  assert (x = f) by (apply Hinj; eauto). subst x.
  apply in_flat_map. exists k. split.
  - destruct Hk as [->|Hk]; [exact pr_zero|apply Hincl; exact Hk].
  - apply filter_In; auto.
Qed.

Lemma existsb_hit_iff tags L : existsb (hit matches tags) L = true <-> exists f, In f L /\ hit matches tags f = true.
Proof. apply existsb_exists. Qed.

Theorem check_some_iff m L tags :
  WellIndexed h m L -> id_inj L -> TG L ->
  (check matches m pr tags <> None <-> existsb (hit matches tags) L = true).
Proof.
  intros Hw Hinj Htg. unfold check. split.
  - destruct (check_all matches m pr tags) as [|f r] eqn:E; [congruence|]. intros _.
    apply existsb_hit_iff. exists f.
    apply (check_all_sound m L tags f Hw). rewrite E. left; reflexivity.
  - intros H. apply existsb_hit_iff in H as [f [Hf Hh]].
    assert (Hin : In f (check_all matches m pr tags)).
    { apply (check_all_complete m L tags f Hw Hinj Hf Hh). apply Htg; auto.
      unfold hit in Hh. apply andb_true_iff in Hh. tauto. }
    destruct (check_all matches m pr tags); [destruct Hin|discriminate].
Qed.

Theorem check_some_in m L tags f :
  WellIndexed h m L -> check matches m pr tags = Some f -> In f L /\ hit matches tags f = true.
Proof.
  intros Hw. unfold check. destruct (check_all matches m pr tags) as [|x r] eqn:E; [discriminate|].
  intros H; inversion H; subst. apply (check_all_sound m L tags f Hw). rewrite E; left; reflexivity.
Qed.

(* check_all returns exactly the active matching rules (as a set) *)
Theorem check_all_exact m L tags f :
  WellIndexed h m L -> id_inj L -> TG L ->
  (In f (check_all matches m pr tags) <-> In f (filter (hit matches tags) L)).
Proof.
  intros Hw Hinj Htg. rewrite filter_In. split.
  - apply check_all_sound; auto.
  - intros [Hf Hh]. apply (check_all_complete m L tags f Hw Hinj Hf Hh). apply Htg; auto.
    unfold hit in Hh. apply andb_true_iff in Hh. tauto.
Qed.

(* ---------------------------------------------------------------- sublists keep the premises *)
Lemma id_inj_incl L L' : incl L' L -> id_inj L -> id_inj L'.
Proof. intros Hi H f g Hf Hg. apply H; auto. Qed.
Lemma TG_incl L L' : incl L' L -> TG L -> TG L'.
Proof. intros Hi H f Hf. apply H; auto. Qed.
Lemma incl_filter {A} (p : A -> bool) l : incl (filter p l) l.
Proof using. intros x Hx. apply filter_In in Hx. exact (proj1 Hx). Qed.
Lemma live_incl L : incl (live L) L.
Proof using. unfold live. apply incl_filter. Qed.
Lemma of_cat_incl c L : incl (of_cat c L) L.
Proof using. unfold of_cat. intros x Hx. apply live_incl. eapply incl_filter; eauto. Qed.
Lemma of_cat_cat c L f : In f (of_cat c L) -> category_of f = c.
Proof.
  unfold of_cat. intros H. apply filter_In in H as [_ H].
  destruct (category_of f), c; cbn in H; congruence.
Qed.
Lemma tagged_active_incl T l : incl (tagged_active T l) l.
Proof using. apply incl_filter. Qed.

Lemma cat_important f : category_of f = CImportant -> is_important f = true.
Proof.
  unfold category_of. destruct (is_csp f); [discriminate|]. destruct (is_removeparam f); [discriminate|].
  destruct (is_generic_hide f); [discriminate|]. destruct (is_exception f); [discriminate|].
  destruct (is_important f); [reflexivity|]. cbn [andb].
  destruct (_ && _); [discriminate|]. destruct (_ || _); discriminate.
Qed.
Lemma cat_not_important f : category_of f = CTagged \/ category_of f = CNormal -> is_important f = false.
Proof.
  unfold category_of. destruct (is_csp f); [intros [?|?]; discriminate|].
  destruct (is_removeparam f); [intros [?|?]; discriminate|].
  destruct (is_generic_hide f); [intros [?|?]; discriminate|].
  destruct (is_exception f); [intros [?|?]; discriminate|].
  destruct (is_important f); [|reflexivity]. cbn [andb].
  destruct (is_redirect f), (also_block_redirect f); cbn; try (intros [?|?]; discriminate);
    destruct (rtag f); cbn; intros [?|?]; discriminate.
Qed.

(* ---------------------------------------------------------------- the engine theorem *)
Definition found (Ls : list rule) (tags : list str) : option rule := check matches (fl_new Ls) pr tags.

Lemma found_iff L Ls tags : incl Ls L -> id_inj L -> TG L ->
  (found Ls tags <> None <-> existsb (hit matches tags) Ls = true).
Proof.
  intros Hi Hinj Htg. apply check_some_iff.
  - apply new_well_indexed.
  - eapply id_inj_incl; eauto.
  - eapply TG_incl; eauto.
Qed.
Lemma found_none L Ls tags : incl Ls L -> id_inj L -> TG L ->
  (found Ls tags = None <-> existsb (hit matches tags) Ls = false).
Proof.
  intros Hi Hinj Htg. pose proof (found_iff L Ls tags Hi Hinj Htg) as H.
  destruct (found Ls tags); destruct (existsb (hit matches tags) Ls); split; intros; try congruence.
  - exfalso. assert (Some r <> None) by congruence. apply H in H1. discriminate.
  - exfalso. apply (proj2 H); auto.
Qed.
Lemma found_in Ls tags f : found Ls tags = Some f -> In f Ls /\ hit matches tags f = true.
Proof. apply check_some_in. apply new_well_indexed. Qed.

Lemma tagged_active_hit T l :
  existsb (hit matches T) (tagged_active T l) = existsb (act matches T) (tagged_active T l).
Proof. reflexivity. Qed.

Theorem engine_eq_spec L T :
  id_inj L -> TG L ->
  blocker_check matches pr (tags_with_set h (blocker_new h L) T) = spec_verdict matches L T.
Proof.
  intros Hinj Htg.
  unfold blocker_check, spec_verdict, tags_with_set, blocker_new. cbn [b_importants b_tagged b_filters b_exceptions b_tags b_tagged_all].
  fold (found (of_cat CImportant L) T).
  fold (found (tagged_active T (of_cat CTagged L)) T).
  fold (found (of_cat CNormal L) []).
  fold (found (of_cat CException L) T).
  change (act matches) with (hit matches).
  pose proof (of_cat_incl CImportant L) as I1.
  pose proof (of_cat_incl CNormal L) as I3.
  pose proof (of_cat_incl CException L) as I4.
  assert (I2 : incl (tagged_active T (of_cat CTagged L)) L).
  { intros x Hx. apply (of_cat_incl CTagged L). eapply tagged_active_incl; eauto. }
  destruct (found (of_cat CImportant L) T) as [fi|] eqn:Ei.
  - (* an important rule matched *)
    assert (Himp : existsb (hit matches T) (of_cat CImportant L) = true).
    { apply (found_iff L _ T I1 Hinj Htg). congruence. }
    destruct (found_in _ _ _ Ei) as [Hin _].
    rewrite (cat_important fi (of_cat_cat _ _ _ Hin)). rewrite Himp. cbn. reflexivity.
  - assert (Himp : existsb (hit matches T) (of_cat CImportant L) = false).
    { apply (found_none L _ T I1 Hinj Htg). exact Ei. }
    rewrite Himp. cbn [orb negb andb].
    destruct (found (tagged_active T (of_cat CTagged L)) T) as [ft|] eqn:Et.
    + assert (Hb : existsb (hit matches T) (tagged_active T (of_cat CTagged L)) = true).
      { apply (found_iff L _ T I2 Hinj Htg). congruence. }
      destruct (found_in _ _ _ Et) as [Hin _].
      assert (Hni : is_important ft = false).
      { apply cat_not_important. left. eapply of_cat_cat. eapply tagged_active_incl; eauto. }
      unfold orelse. rewrite Hni, Hb. cbn [orb].
      destruct (found (of_cat CException L) T) as [fe|] eqn:Ee.
      * assert (He : existsb (hit matches T) (of_cat CException L) = true).
        { apply (found_iff L _ T I4 Hinj Htg). congruence. }
        rewrite He. reflexivity.
      * assert (He : existsb (hit matches T) (of_cat CException L) = false).
        { apply (found_none L _ T I4 Hinj Htg). exact Ee. }
        rewrite He. reflexivity.
    + assert (Hb : existsb (hit matches T) (tagged_active T (of_cat CTagged L)) = false).
      { apply (found_none L _ T I2 Hinj Htg). exact Et. }
      rewrite Hb. unfold orelse. cbn [orb].
      destruct (found (of_cat CNormal L) []) as [fn|] eqn:En.
      * assert (Hn : existsb (hit matches []) (of_cat CNormal L) = true).
        { apply (found_iff L _ [] I3 Hinj Htg). congruence. }
        destruct (found_in _ _ _ En) as [Hin _].
        assert (Hni : is_important fn = false).
        { apply cat_not_important. right. eapply of_cat_cat; eauto. }
        rewrite Hni, Hn.
        destruct (found (of_cat CException L) T) as [fe|] eqn:Ee.
        -- assert (He : existsb (hit matches T) (of_cat CException L) = true).
           { apply (found_iff L _ T I4 Hinj Htg). congruence. }
           rewrite He. reflexivity.
        -- assert (He : existsb (hit matches T) (of_cat CException L) = false).
           { apply (found_none L _ T I4 Hinj Htg). exact Ee. }
           rewrite He. reflexivity.
      * assert (Hn : existsb (hit matches []) (of_cat CNormal L) = false).
        { apply (found_none L _ [] I3 Hinj Htg). exact En. }
        rewrite Hn. reflexivity.
Qed.

(* ---------------------------------------------------------------- the subset query
   (check_parameterised with matched_rule / force_check_exceptions) *)
Definition is_some {A} (o : option A) : bool := match o with Some _ => true | None => false end.
Lemma found_bool L Ls tags : incl Ls L -> id_inj L -> TG L ->
  existsb (hit matches tags) Ls = is_some (found Ls tags).
Proof.
  intros Hi Hinj Htg. destruct (found Ls tags) eqn:E; cbn.
  - apply (found_iff L Ls tags Hi Hinj Htg). congruence.
  - apply (found_none L Ls tags Hi Hinj Htg). exact E.
Qed.

Theorem engine_eq_spec_p mr fc L T :
  id_inj L -> TG L ->
  blocker_check_p matches pr mr fc (tags_with_set h (blocker_new h L) T) = spec_verdict_p matches mr fc L T.
Proof.
  intros Hinj Htg.
  unfold blocker_check_p, spec_verdict_p, tags_with_set, blocker_new.
  cbn [b_importants b_tagged b_filters b_exceptions b_tags b_tagged_all].
  fold (found (of_cat CImportant L) T).
  fold (found (tagged_active T (of_cat CTagged L)) T).
  fold (found (of_cat CNormal L) []).
  fold (found (of_cat CException L) T).
  change (act matches) with (hit matches).
  pose proof (of_cat_incl CImportant L) as I1.
  pose proof (of_cat_incl CNormal L) as I3.
  pose proof (of_cat_incl CException L) as I4.
  assert (I2 : incl (tagged_active T (of_cat CTagged L)) L).
  { intros x Hx. apply (of_cat_incl CTagged L). eapply tagged_active_incl; eauto. }
  rewrite (found_bool L _ T I1 Hinj Htg), (found_bool L _ T I2 Hinj Htg),
          (found_bool L _ [] I3 Hinj Htg), (found_bool L _ T I4 Hinj Htg).
  destruct (found (of_cat CImportant L) T) as [fi|] eqn:Ei.
  - destruct (found_in _ _ _ Ei) as [Hin _].
    rewrite (cat_important fi (of_cat_cat _ _ _ Hin)). cbn.
    destruct (found (of_cat CException L) T); reflexivity.
  - cbn [is_some orb negb andb]. destruct mr.
    + cbn. destruct (found (of_cat CException L) T); cbn; reflexivity.
    + cbn [negb andb orb]. unfold orelse.
      destruct (found (tagged_active T (of_cat CTagged L)) T) as [ft|] eqn:Et.
      * destruct (found_in _ _ _ Et) as [Hin _].
        assert (Hni : is_important ft = false).
        { apply cat_not_important. left. eapply of_cat_cat. eapply tagged_active_incl; eauto. }
        rewrite Hni. cbn. destruct (found (of_cat CException L) T); reflexivity.
      * cbn [is_some orb]. destruct (found (of_cat CNormal L) []) as [fn|] eqn:En.
        -- destruct (found_in _ _ _ En) as [Hin _].
           assert (Hni : is_important fn = false).
           { apply cat_not_important. right. eapply of_cat_cat; eauto. }
           rewrite Hni. cbn. destruct (found (of_cat CException L) T); reflexivity.
        -- cbn. destruct fc; cbn; destruct (found (of_cat CException L) T); reflexivity.
Qed.

(* the ordinary query is the subset query with both flags off *)
Lemma blocker_check_p_ff b : blocker_check_p matches pr false false b = blocker_check matches pr b.
Proof. unfold blocker_check_p, blocker_check. cbn [orb]. destruct (check matches (b_importants b) pr (b_tags b)); cbn; [reflexivity|].
  destruct (orelse _ _); cbn; rewrite ?orb_false_r; reflexivity. Qed.
Lemma spec_verdict_p_ff L T : spec_verdict_p matches false false L T = spec_verdict matches L T.
Proof.
  unfold spec_verdict_p, spec_verdict. cbn [negb andb orb].
  destruct (existsb (act matches T) (of_cat CImportant L)), (existsb (act matches T) (tagged_active T (of_cat CTagged L)) || existsb (act matches []) (of_cat CNormal L)),
    (existsb (act matches T) (of_cat CException L)); reflexivity.
Qed.

(* the lists whose every hit is used: exactly the active matching rules of that category *)
Theorem redirect_hits_exact L T f : id_inj L -> TG L ->
  (In f (redirect_hits matches pr (tags_with_set h (blocker_new h L) T))
   <-> In f (spec_redirect_hits matches L)).
Proof.
  intros Hinj Htg. unfold redirect_hits, spec_redirect_hits, tags_with_set, blocker_new. cbn [b_redirects].
  apply check_all_exact; [apply new_well_indexed| |].
  - eapply id_inj_incl; [|exact Hinj]. intros x Hx. apply live_incl. eapply incl_filter; eauto.
  - eapply TG_incl; [|exact Htg]. intros x Hx. apply live_incl. eapply incl_filter; eauto.
Qed.
Theorem removeparam_hits_exact L T f : id_inj L -> TG L ->
  (In f (removeparam_hits matches pr (tags_with_set h (blocker_new h L) T))
   <-> In f (spec_removeparam_hits matches L)).
Proof.
  intros Hinj Htg. unfold removeparam_hits, spec_removeparam_hits, tags_with_set, blocker_new. cbn [b_removeparam].
  apply check_all_exact; [apply new_well_indexed| |].
  - eapply id_inj_incl; [apply of_cat_incl|exact Hinj].
  - eapply TG_incl; [apply of_cat_incl|exact Htg].
Qed.
Theorem csp_hits_exact L T f : id_inj L -> TG L ->
  (In f (csp_hits matches pr (tags_with_set h (blocker_new h L) T))
   <-> In f (spec_csp_hits matches L T)).
Proof.
  intros Hinj Htg. unfold csp_hits, spec_csp_hits, tags_with_set, blocker_new. cbn [b_csp b_tags].
  apply check_all_exact; [apply new_well_indexed| |].
  - eapply id_inj_incl; [apply of_cat_incl|exact Hinj].
  - eapply TG_incl; [apply of_cat_incl|exact Htg].
Qed.
Theorem generic_hide_exact L T : id_inj L -> TG L ->
  generic_hide_hit matches pr (tags_with_set h (blocker_new h L) T) = spec_generic_hide matches L T.
Proof.
  intros Hinj Htg. unfold generic_hide_hit, spec_generic_hide, tags_with_set, blocker_new. cbn [b_generic_hide b_tags].
  fold (found (of_cat CGenericHide L) T). change (act matches) with (hit matches).
  pose proof (of_cat_incl CGenericHide L) as I.
  destruct (found (of_cat CGenericHide L) T) eqn:E.
  - symmetry. apply (found_iff L _ T I Hinj Htg). congruence.
  - symmetry. apply (found_none L _ T I Hinj Htg). exact E.
Qed.

End Lookup.

(* ================================================================ boolean checkers + example *)
Section Checkers.
Variable h : str -> N.
Variable matches : rule -> bool.
Variable pr : list N.

Definition covered_b (f : rule) : bool :=
  existsb (fun g => forallb (fun t => memN t pr) g) (get_tokens h f).
Definition TG_b (L : list rule) : bool := forallb (fun f => negb (matches f) || covered_b f) L.
Fixpoint nodupN_b (l : list N) : bool :=
  match l with [] => true | x :: r => negb (memN x r) && nodupN_b r end.

Lemma covered_b_sound f : covered_b f = true -> covered h pr f.
Proof.
  unfold covered_b, covered. intros H. apply existsb_exists in H as [g [Hg Hall]].
  exists g. split; auto. intros t Ht. rewrite forallb_forall in Hall. apply memN_In. auto.
Qed.
Lemma TG_b_sound L : TG_b L = true -> TG h matches pr L.
Proof.
  unfold TG_b, TG. intros H f Hf Hm. rewrite forallb_forall in H. specialize (H f Hf).
  rewrite Hm in H. cbn in H. apply covered_b_sound; auto.
Qed.
Lemma nodupN_b_sound l : nodupN_b l = true -> NoDup l.
Proof.
  induction l as [|x r IH]; cbn; [constructor|]. intros H. apply andb_true_iff in H as [H1 H2].
  constructor; auto. intros Hin. apply memN_In in Hin. rewrite Hin in H1. discriminate.
Qed.
Lemma nodup_ids_inj L : NoDup (map rid L) -> id_inj L.
Proof.
  induction L as [|x r IH]; intros Hnd f g Hf Hg E; [destruct Hf|].
  inversion Hnd as [|? ? Hx Hr]; subst.
  destruct Hf as [<-|Hf], Hg as [<-|Hg]; auto.
  - exfalso. apply Hx. rewrite E. apply in_map; auto.
  - exfalso. apply Hx. rewrite <- E. apply in_map; auto.
  - apply IH; auto.
Qed.
End Checkers.

(* A concrete list and request meeting the premises of the engine theorem (non-vacuity):
   three rules sharing the token "ads", an exception, a tagged rule; the request
   https://x.com/ads/banner.js ; matcher = membership in the ids that match. *)
Definition ex_rules : list rule :=
  [ mkr 11 M_DEFAULT_OPTIONS (FSimple (bs "/ads/banner")) None None None None None;
    mkr 12 M_DEFAULT_OPTIONS (FSimple (bs "/ads/x1")) None None None None None;
    mkr 13 (N.lor M_DEFAULT_OPTIONS M_IS_EXCEPTION) (FSimple (bs "/banner.")) None None None None None;
    mkr 14 M_DEFAULT_OPTIONS (FSimple (bs "/ads/")) None None None None (Some (bs "t1"));
    mkr 15 (N.lor M_DEFAULT_OPTIONS M_IS_IMPORTANT) (FSimple (bs "/nothing/here")) None None None None None ].
Definition ex_matches (f : rule) : bool := memN (rid f) [11; 13; 14].
Definition ex_probes : list N := probes seahash None (bs "https://x.com/ads/banner.js").

Example engine_premises_hold :
  id_inj ex_rules /\ TG seahash ex_matches ex_probes ex_rules /\ In 0 ex_probes
  /\ blocker_check ex_matches ex_probes (tags_with_set seahash (blocker_new seahash ex_rules) [bs "t1"])
     = {| v_matched := false; v_important := false; v_exception := true; v_filter := true |}.
Proof.
  split; [|split; [|split]].
  - apply nodup_ids_inj. apply nodupN_b_sound. vm_compute. reflexivity.
  - apply TG_b_sound. vm_compute. reflexivity.
  - apply memN_In. vm_compute. reflexivity.
  - vm_compute. reflexivity.
Qed.
