(* C03_Proofs.v — option semantics: the model of check_options / NetworkFilter::parse (options)
   refines the L0 statement, for every mask, option list, request and hash function. *)
From Adb Require Import Base BaseProofs Generated C03_Model.
From Coq Require Import ZifyBool ZifyNat ZifyN Sorting.Sorted.

(* ========================================================================================== *)
(* 1. check_options as a conjunction                                                          *)
(* ========================================================================================== *)
Lemma request_type_beq_eq a b : request_type_beq a b = true <-> a = b.
Proof.
  split; [apply internal_request_type_dec_bl | apply internal_request_type_dec_lb].
Qed.

Lemma cpt_is_document t :
  N.eqb (mask_of_request_type t) M_FROM_DOCUMENT = request_type_beq t RT_Document.
Proof. destruct t; reflexivity. Qed.

Lemma check_cpt_allowed_spec m t :
  check_cpt_allowed m t =
  has_flag m (mask_of_request_type t) || (request_type_beq t RT_Document && is_exception m).
Proof.
  unfold check_cpt_allowed. cbv zeta. rewrite cpt_is_document.
  destruct (request_type_beq t RT_Document) eqn:E.
  - apply request_type_beq_eq in E. subst t. reflexivity.
  - rewrite andb_false_l, orb_false_r. reflexivity.
Qed.

Lemma check_options_conj m od odu ond ondu r :
  check_options m od odu ond ondu r =
  negb (is_badfilter m) && check_cpt_allowed m (rq_type r) && scheme_ok m r && party_ok m r
  && negb (included_rejects od odu (rq_src r)) && negb (excluded_rejects ond ondu (rq_src r)).
Proof.
  unfold check_options, scheme_ok, party_ok.
  destruct (is_badfilter m); [reflexivity|].
  destruct (check_cpt_allowed m (rq_type r)); [|reflexivity].
  destruct (rq_https r), (rq_http r), (for_https m), (for_http m), (first_party m),
    (third_party m), (rq_third r); cbn [negb andb orb implb]; try reflexivity;
  destruct (included_rejects od odu (rq_src r)); cbn [negb andb orb]; try reflexivity;
  destruct (excluded_rejects ond ondu (rq_src r)); reflexivity.
Qed.

(* ========================================================================================== *)
(* 2. binary search                                                                           *)
(* ========================================================================================== *)
Lemma mid_bounds lo hi : (lo < hi)%nat -> (lo <= lo + Nat.div2 (hi - lo) < hi)%nat.
Proof.
  intros H. assert (Nat.div2 (hi - lo) < hi - lo)%nat by (apply Nat.lt_div2; lia). lia.
Qed.

Lemma bsearch_sound fuel : forall l lo hi x,
  (hi <= length l)%nat -> bsearch fuel l lo hi x = true -> In x l.
Proof.
  induction fuel as [|f IH]; intros l lo hi x Hhi H; cbn [bsearch] in H; [discriminate|].
  destruct (Nat.ltb lo hi) eqn:E; [|discriminate]. apply Nat.ltb_lt in E.
  pose proof (mid_bounds lo hi E) as Hm. cbv zeta in H.
  destruct (N.eqb (nth (lo + Nat.div2 (hi - lo)) l 0) x) eqn:Ev.
  - apply N.eqb_eq in Ev. subst x. apply nth_In. lia.
  - destruct (N.ltb (nth (lo + Nat.div2 (hi - lo)) l 0) x).
    + apply IH in H; [exact H|lia].
    + apply IH in H; [exact H|lia].
Qed.

Lemma bsearch_complete fuel : forall l lo hi x i,
  sorted_N l -> (hi <= length l)%nat -> (lo <= i < hi)%nat -> nth i l 0 = x ->
  (hi - lo < fuel)%nat -> bsearch fuel l lo hi x = true.
Proof.
  induction fuel as [|f IH]; intros l lo hi x i Hs Hhi Hi Hx Hf; [lia|].
  cbn [bsearch]. assert (E : Nat.ltb lo hi = true) by (apply Nat.ltb_lt; lia). rewrite E.
  pose proof (mid_bounds lo hi ltac:(lia)) as Hm. cbv zeta.
  set (mid := (lo + Nat.div2 (hi - lo))%nat) in *.
  destruct (N.eqb (nth mid l 0) x) eqn:Ev; [reflexivity|].
  apply N.eqb_neq in Ev.
  destruct (N.ltb (nth mid l 0) x) eqn:El.
  - apply N.ltb_lt in El.
    assert (mid < i)%nat.
    { destruct (Nat.lt_ge_cases mid i) as [G|G]; [exact G|].
      destruct (Nat.eq_dec i mid) as [->|Hne]; [congruence|].
      pose proof (Hs i mid ltac:(lia)) as Hle. rewrite Hx in Hle. lia. }
    apply (IH l (S mid) hi x i); auto; lia.
  - apply N.ltb_ge in El.
    assert (i < mid)%nat.
    { destruct (Nat.lt_ge_cases i mid) as [G|G]; [exact G|].
      destruct (Nat.eq_dec i mid) as [->|Hne]; [congruence|].
      pose proof (Hs mid i ltac:(lia)) as Hle. rewrite Hx in Hle. lia. }
    apply (IH l lo mid x i); auto; lia.
Qed.

Lemma bin_lookup_sound l x : bin_lookup l x = true -> In x l.
Proof. unfold bin_lookup. apply bsearch_sound. lia. Qed.

Lemma bin_lookup_spec l x : sorted_N l -> bin_lookup l x = memN x l.
Proof.
  intros Hs. destruct (memN x l) eqn:E.
  - apply memN_In in E. destruct (In_nth l x 0 E) as (i & Hi & Hx).
    unfold bin_lookup. apply (bsearch_complete _ l 0 (length l) x i); auto; lia.
  - destruct (bin_lookup l x) eqn:B; [|reflexivity].
    apply bin_lookup_sound in B. apply memN_In in B. congruence.
Qed.

(* ========================================================================================== *)
(* 3. the union pre-filter                                                                    *)
(* ========================================================================================== *)
Lemma sub_lor_l x a b : N.land x a = x -> N.land x (N.lor a b) = x.
Proof.
  intros H. apply N.bits_inj. intro n. rewrite N.land_spec, N.lor_spec.
  assert (Hn : N.testbit x n = N.testbit x n && N.testbit a n)
    by (rewrite <- N.land_spec, H; reflexivity).
  destruct (N.testbit x n), (N.testbit a n), (N.testbit b n); cbn in *; congruence.
Qed.
Lemma sub_lor_r x a b : N.land x b = x -> N.land x (N.lor a b) = x.
Proof. intros H. rewrite N.lor_comm. apply sub_lor_l. exact H. Qed.

Lemma fold_lor_sub l : forall a x, (N.land x a = x \/ In x l) -> N.land x (fold_left N.lor l a) = x.
Proof.
  induction l as [|y l IH]; intros a x H; cbn [fold_left].
  - destruct H as [H|[]]. exact H.
  - apply IH. destruct H as [H|[H|H]].
    + left. apply sub_lor_l. exact H.
    + left. subst y. apply sub_lor_r. apply N.land_diag.
    + right. exact H.
Qed.

(* a member of a list is a sub-mask of the OR of the list: for all lists of numbers *)
Lemma member_in_union l x : In x l -> N.land x (lor_list l) = x.
Proof. intros H. apply fold_lor_sub. right. exact H. Qed.

Lemma forallb_impl {A} (f g : A -> bool) l :
  (forall x, In x l -> f x = true -> g x = true) -> forallb f l = true -> forallb g l = true.
Proof.
  intros H Hf. apply forallb_forall. intros x Hx.
  apply H; [exact Hx|]. exact (proj1 (forallb_forall f l) Hf x Hx).
Qed.

(* the `h & union != h` shortcuts never change the answer (any lists, sorted or not) *)
Lemma included_union_neutral inc hs :
  included_rejects (Some inc) (Some (lor_list inc)) (Some hs)
  = included_rejects (Some inc) None (Some hs).
Proof.
  cbn [included_rejects]. rewrite orb_false_l.
  destruct (forallb (not_in_union (lor_list inc)) hs) eqn:E; [|reflexivity].
  cbn [orb]. symmetry.
  revert E. apply forallb_impl. intros x _ Hx.
  destruct (bin_lookup inc x) eqn:B; [|reflexivity].
  apply bin_lookup_sound in B. apply member_in_union in B.
  unfold not_in_union in Hx. rewrite B, N.eqb_refl in Hx. discriminate.
Qed.

Lemma excluded_union_neutral exc hs :
  excluded_rejects (Some exc) (Some (lor_list exc)) (Some hs)
  = excluded_rejects (Some exc) None (Some hs).
Proof.
  cbn [excluded_rejects]. induction hs as [|x hs IH]; cbn [existsb]; [reflexivity|].
  rewrite IH. f_equal.
  destruct (bin_lookup exc x) eqn:B; [|apply andb_false_r].
  apply bin_lookup_sound in B. apply member_in_union in B. rewrite B, N.eqb_refl. reflexivity.
Qed.

Lemma union_prefilter_neutral od odu ond ondu src :
  union_consistent od odu -> union_consistent ond ondu ->
  included_rejects od odu src = included_rejects od None src
  /\ excluded_rejects ond ondu src = excluded_rejects ond None src.
Proof.
  intros H1 H2. split.
  - destruct odu as [u|]; [|reflexivity]. destruct od as [inc|]; [|reflexivity].
    destruct src as [hs|]; [|reflexivity]. cbn in H1. subst u. apply included_union_neutral.
  - destruct ondu as [u|]; [|reflexivity]. destruct ond as [exc|]; [|reflexivity].
    destruct src as [hs|]; [|reflexivity]. cbn in H2. subst u. apply excluded_union_neutral.
Qed.

(* ========================================================================================== *)
(* 4. check_options = the conjunction of the property text (hash-set level)                    *)
(* ========================================================================================== *)
Lemma existsb_ext_in {A} (f g : A -> bool) l :
  (forall x, f x = g x) -> existsb f l = existsb g l.
Proof. intros H. induction l as [|x l IH]; cbn; [reflexivity|]. rewrite H, IH. reflexivity. Qed.

Lemma forallb_negb_existsb {A} (f : A -> bool) l :
  forallb (fun x => negb (f x)) l = negb (existsb f l).
Proof. induction l as [|x l IH]; cbn; [reflexivity|]. rewrite IH. destruct (f x); reflexivity. Qed.

Lemma domains_ok_spec od ond src :
  osorted od -> osorted ond ->
  negb (included_rejects od None src) && negb (excluded_rejects ond None src) = domains_ok od ond src.
Proof.
  intros H1 H2. unfold domains_ok, included_rejects, excluded_rejects, hit.
  destruct src as [hs|]; [|destruct od, ond; reflexivity].
  f_equal.
  - destruct od as [inc|]; [|reflexivity]. cbn in H1. rewrite orb_false_l.
    rewrite forallb_negb_existsb, negb_involutive.
    apply existsb_ext_in. intro x. apply bin_lookup_spec. exact H1.
  - destruct ond as [exc|]; [|reflexivity]. cbn in H2. f_equal.
    apply existsb_ext_in. intro x. apply bin_lookup_spec. exact H2.
Qed.

Theorem check_options_spec m od odu ond ondu r :
  osorted od -> osorted ond -> union_consistent od odu -> union_consistent ond ondu ->
  check_options m od odu ond ondu r =
  negb (is_badfilter m) && allowed_type m r && scheme_ok m r && party_ok m r
  && domains_ok od ond (rq_src r).
Proof.
  intros S1 S2 U1 U2. rewrite check_options_conj.
  destruct (union_prefilter_neutral od odu ond ondu (rq_src r) U1 U2) as [-> ->].
  rewrite check_cpt_allowed_spec. unfold allowed_type.
  rewrite <- (domains_ok_spec od ond (rq_src r) S1 S2).
  rewrite !andb_assoc. reflexivity.
Qed.

(* F2 is by design: without a source the domain options are not looked at *)
Lemma domains_vacuous_without_source od ond : domains_ok od ond None = true.
Proof. reflexivity. Qed.

(* ========================================================================================== *)
(* 5. sorting, dedup                                                                          *)
(* ========================================================================================== *)
Lemma insert_by_In {A} (leb : A -> A -> bool) x l y : In y (insert_by leb x l) <-> y = x \/ In y l.
Proof.
  induction l as [|z l IH]; cbn.
  - split; intros [H|H]; auto; try contradiction.
  - destruct (leb x z); cbn.
    + split; intros [H|H]; auto.
    + rewrite IH. split; intros [H|[H|H]]; auto.
Qed.
Lemma sort_by_In {A} (leb : A -> A -> bool) l y : In y (sort_by leb l) <-> In y l.
Proof.
  induction l as [|x l IH]; cbn; [tauto|]. rewrite insert_by_In, IH. split; intros [H|H]; auto.
Qed.

Lemma dedup_by_In {A} (eqb : A -> A -> bool) (Heq : forall a b, eqb a b = true -> a = b) l y :
  In y (dedup_by eqb l) <-> In y l.
Proof.
  induction l as [|x l IH]; [cbn; tauto|].
  cbn [dedup_by]. destruct l as [|z l'].
  - cbn. tauto.
  - destruct (eqb x z) eqn:E.
    + apply Heq in E. subst z. rewrite IH. cbn. tauto.
    + cbn [In]. rewrite IH. cbn. tauto.
Qed.

Lemma dom_eqb_eq a b : dom_eqb a b = true -> a = b.
Proof.
  destruct a as [a1 a2], b as [b1 b2]. unfold dom_eqb. cbn [fst snd]. intros H.
  apply andb_true_iff in H as [H1 H2]. apply Bool.eqb_prop in H1. apply str_eqb_eq in H2.
  congruence.
Qed.

Lemma insert_sorted x l :
  StronglySorted N.le l -> StronglySorted N.le (insert_by N.leb x l).
Proof.
  induction l as [|y l IH]; intros H; cbn.
  - constructor; constructor.
  - inversion H as [|? ? Hs Hf]; subst. destruct (N.leb x y) eqn:E.
    + apply N.leb_le in E. constructor; [exact H|].
      constructor; [exact E|]. eapply Forall_impl; [|exact Hf]. cbn. intros a Ha. lia.
    + apply N.leb_gt in E. constructor; [apply IH; exact Hs|].
      apply Forall_forall. intros a Ha. apply insert_by_In in Ha. destruct Ha as [->|Ha]; [lia|].
      exact (proj1 (Forall_forall _ _) Hf a Ha).
Qed.
Lemma sort_sorted l : StronglySorted N.le (sort_by N.leb l).
Proof. induction l as [|x l IH]; cbn; [constructor|]. apply insert_sorted. exact IH. Qed.

Lemma strongly_sorted_nth l : StronglySorted N.le l -> sorted_N l.
Proof.
  induction l as [|a l IH]; intros H i j Hij; cbn [length] in Hij; [lia|].
  inversion H as [|? ? Hs Hf]; subst.
  destruct j as [|j]; [lia|]. destruct i as [|i]; cbn [nth].
  - apply (proj1 (Forall_forall _ _) Hf). apply nth_In. lia.
  - apply (IH Hs). lia.
Qed.
Lemma sort_sorted_N l : sorted_N (sort_by N.leb l).
Proof. apply strongly_sorted_nth, sort_sorted. Qed.

(* ========================================================================================== *)
(* 6. the domain arrays a parsed rule carries                                                 *)
(* ========================================================================================== *)
Definition union_ok (l : option (list N)) (u : option N) : Prop :=
  match l, u with
  | Some x, Some v => v = lor_list x
  | None, None => True
  | _, _ => False
  end.
Definition dom_inv (st : pstate) : Prop :=
  osorted (st_od st) /\ osorted (st_ond st)
  /\ union_ok (st_od st) (st_odu st) /\ union_ok (st_ond st) (st_ondu st).

Lemma union_ok_consistent l u : union_ok l u -> union_consistent l u.
Proof. destruct l, u; cbn; auto. Qed.

Definition same_doms (a b : pstate) : Prop :=
  st_od a = st_od b /\ st_ond a = st_ond b /\ st_odu a = st_odu b /\ st_ondu a = st_ondu b.

Lemma apply_option_same_doms h st o :
  (forall c ds, o <> NDomains c ds) -> same_doms (apply_option h st o) st.
Proof.
  intros Hn. unfold same_doms.
  destruct o as [c|c b|c v|c v|c ds]; [| | | |exfalso; eapply Hn; reflexivity];
    destruct c; try destruct b; cbn; auto.
Qed.

Lemma apply_domains_inv h st ds : dom_inv st -> dom_inv (apply_domains h st ds).
Proof.
  intros (A & B & C & D). unfold apply_domains. cbv zeta.
  set (ds' := dedup_by dom_eqb (sort_by dom_leb ds)).
  destruct (is_nil (map (fun e => h (snd e)) (filter (fun e => fst e) ds')));
  destruct (is_nil (map (fun e => h (snd e)) (filter (fun e => negb (fst e)) ds')));
  unfold dom_inv; cbn [st_od st_ond st_odu st_ondu osorted union_ok]; repeat split; auto;
  apply sort_sorted_N.
Qed.

Lemma apply_option_inv h st o : dom_inv st -> dom_inv (apply_option h st o).
Proof.
  intros H. destruct o as [c|c b|c v|c v|c ds]; [| | | |apply apply_domains_inv; exact H];
  match goal with |- dom_inv (apply_option h st ?o) =>
    destruct (apply_option_same_doms h st o ltac:(intros; discriminate)) as (E1 & E2 & E3 & E4)
  end; unfold dom_inv; rewrite E1, E2, E3, E4; exact H.
Qed.

Lemma fold_inv h opts : forall st, dom_inv st -> dom_inv (fold_left (apply_option h) opts st).
Proof.
  induction opts as [|o opts IH]; intros st H; cbn [fold_left]; [exact H|].
  apply IH, apply_option_inv, H.
Qed.

Lemma finish_rule_doms sh st p : finish_rule sh st = POk p ->
  p_od p = st_od st /\ p_ond p = st_ond st /\ p_odu p = st_odu st /\ p_ondu p = st_ondu st.
Proof.
  unfold finish_rule. cbv zeta.
  destruct (negb (sh_complete_regex sh) && _); [discriminate|].
  destruct (has_flag _ M_GENERIC_HIDE && _); [discriminate|].
  destruct (has_flag _ M_IS_REMOVEPARAM && _); [discriminate|].
  intros H. inversion H; subst; cbn. auto.
Qed.

(* every parsed rule carries sorted arrays and unions that are the OR of the arrays *)
Theorem parsed_rule_wf h sh opts p : build_rule h sh opts = POk p ->
  osorted (p_od p) /\ osorted (p_ond p)
  /\ union_consistent (p_od p) (p_odu p) /\ union_consistent (p_ond p) (p_ondu p).
Proof.
  unfold build_rule. intros H. apply finish_rule_doms in H as (E1 & E2 & E3 & E4).
  rewrite E1, E2, E3, E4.
  destruct (fold_inv h opts (initial_state sh)) as (A & B & C & D).
  { unfold dom_inv, initial_state; cbn; auto. }
  repeat split; auto using union_ok_consistent.
Qed.

Theorem parsed_rule_check_spec h sh opts p r : build_rule h sh opts = POk p ->
  rule_check_options p r =
  negb (is_badfilter (p_mask p)) && allowed_type (p_mask p) r && scheme_ok (p_mask p) r
  && party_ok (p_mask p) r && domains_ok (p_od p) (p_ond p) (rq_src r).
Proof.
  intros H. destruct (parsed_rule_wf h sh opts p H) as (A & B & C & D).
  unfold rule_check_options. apply check_options_spec; assumption.
Qed.

(* ========================================================================================== *)
(* 7. initiator domains: hashes vs strings                                                    *)
(* ========================================================================================== *)
Lemma is_nil_ext {A B} (a : list A) (b : list B) :
  (a = [] <-> b = []) -> is_nil a = is_nil b.
Proof. destruct a, b; cbn; intros [H1 H2]; try reflexivity; [discriminate (H1 eq_refl)|discriminate (H2 eq_refl)]. Qed.

Lemma suffix_hashes_map h s : suffix_hashes h s = map h (dot_suffixes s).
Proof.
  induction s as [|c r IH]; cbn; [reflexivity|].
  destruct (N.eqb c DOT && negb (is_nil r)); cbn; rewrite IH; reflexivity.
Qed.

Lemma source_hashes_chain h src :
  source_hostname_hashes h src = if is_nil src then None else Some (map h (host_chain src)).
Proof.
  unfold source_hostname_hashes, host_chain. destruct (is_nil src); [reflexivity|].
  cbn [map]. rewrite suffix_hashes_map. reflexivity.
Qed.

Lemma dot_suffixes_In s d :
  In d (dot_suffixes s) <-> d <> [] /\ exists pre, s = pre ++ DOT :: d.
Proof.
  induction s as [|c r IH]; cbn [dot_suffixes].
  - split; [intros []|]. intros (_ & pre & H). destruct pre; discriminate.
  - assert (Hrec : (d <> [] /\ exists pre, r = pre ++ DOT :: d) ->
                   d <> [] /\ exists pre, c :: r = pre ++ DOT :: d).
    { intros (Hd & pre & ->). split; [exact Hd|]. exists (c :: pre). reflexivity. }
    assert (Hinv : forall pre, c :: r = pre ++ DOT :: d ->
                   (pre = [] /\ c = DOT /\ r = d) \/ (exists pre', pre = c :: pre' /\ r = pre' ++ DOT :: d)).
    { intros [|p0 pre] H; cbn in H; injection H as E1 E2.
      - left. auto.
      - right. exists pre. subst p0. auto. }
    destruct (N.eqb c DOT) eqn:Ec; cbn [andb].
    + destruct r as [|r0 r']; cbn [is_nil negb].
      * rewrite IH. split; [apply Hrec|]. intros (Hd & pre & H).
        destruct (Hinv pre H) as [(_ & _ & E)|(pre' & _ & E)]; [congruence|].
        destruct pre'; discriminate.
      * cbn [In]. rewrite IH. split.
        -- intros [<-|H]; [|apply Hrec; exact H]. split; [discriminate|]. exists [].
           apply N.eqb_eq in Ec. subst c. reflexivity.
        -- intros (Hd & pre & H).
           destruct (Hinv pre H) as [(_ & _ & E)|(pre' & _ & E)]; [left; exact E|].
           right. split; [exact Hd|]. exists pre'. exact E.
    + apply N.eqb_neq in Ec. rewrite IH. split; [apply Hrec|].
      intros (Hd & pre & H).
      destruct (Hinv pre H) as [(_ & E & _)|(pre' & _ & E)]; [congruence|].
      split; [exact Hd|]. exists pre'. exact E.
Qed.

(* the chain of a host is exactly the set of domains that cover it *)
Lemma host_chain_covers d host : In d (host_chain host) <-> dom_covers d host.
Proof.
  unfold host_chain, dom_covers. cbn [In]. rewrite dot_suffixes_In.
  split; intros [H|H]; auto.
Qed.

Lemma dom_coversb_spec d host : dom_coversb d host = true <-> dom_covers d host.
Proof. unfold dom_coversb. rewrite mem_str_In. apply host_chain_covers. Qed.

Definition inj_on (h : str -> N) (l : list str) : Prop :=
  forall a b, In a l -> In b l -> h a = h b -> a = b.

Lemma hit_map h ds ss : inj_on h (ds ++ ss) ->
  hit (map h ds) (map h ss) = existsb (fun d => mem_str d ss) ds.
Proof.
  intros Hinj. unfold hit.
  destruct (existsb (fun d => mem_str d ss) ds) eqn:E.
  - apply existsb_exists in E as (d & Hd & Hm). apply mem_str_In in Hm.
    apply existsb_exists. exists (h d). split; [apply in_map; exact Hm|].
    apply memN_In. apply in_map. exact Hd.
  - destruct (existsb (fun x => memN x (map h ds)) (map h ss)) eqn:F; [|reflexivity].
    apply existsb_exists in F as (x & Hx & Hm). apply memN_In in Hm.
    apply in_map_iff in Hx as (s & <- & Hs). apply in_map_iff in Hm as (d & Hhd & Hd).
    assert (d = s) by (apply Hinj; auto using in_or_app). subst s.
    assert (existsb (fun d => mem_str d ss) ds = true).
    { apply existsb_exists. exists d. split; [exact Hd|]. apply mem_str_In. exact Hs. }
    congruence.
Qed.

(* membership-equal hash lists give the same answer *)
Lemma hit_ext l l' hs : (forall x, In x l <-> In x l') -> hit l hs = hit l' hs.
Proof.
  intros H. unfold hit. apply existsb_ext_in. intro x.
  destruct (memN x l) eqn:A, (memN x l') eqn:B; try reflexivity.
  - apply memN_In, H, memN_In in A. congruence.
  - apply memN_In, H, memN_In in B. congruence.
Qed.

(* included-domain check on hashes = "the source host or one of its dot-suffixes is listed" *)
Theorem included_hit_iff h names host l :
  inj_on h (names ++ host_chain host) ->
  (forall x, In x l <-> In x (map h names)) ->
  (hit l (map h (host_chain host)) = true <-> exists d, In d names /\ dom_covers d host).
Proof.
  intros Hinj Hl. rewrite (hit_ext l (map h names) _ Hl), (hit_map h names _ Hinj).
  rewrite existsb_exists. split; intros (d & Hd & Hc); exists d; split; auto.
  - apply host_chain_covers, mem_str_In; exact Hc.
  - apply mem_str_In, host_chain_covers; exact Hc.
Qed.

(* ---- which names end up in the arrays ---- *)
Definition names_match (h : str -> N) (arr : option (list N)) (names : option (list str)) : Prop :=
  match arr, names with
  | Some l, Some ns => forall x, In x l <-> In x (map h ns)
  | None, None => True
  | _, _ => False
  end.

Lemma filter_map_In (h : str -> N) (f : bool * str -> bool) (ds ds' : list (bool * str)) :
  (forall e, In e ds' <-> In e ds) ->
  forall x, In x (map (fun e => h (snd e)) (filter f ds')) <-> In x (map h (map snd (filter f ds))).
Proof.
  intros Hd x. rewrite map_map. rewrite !in_map_iff.
  split; intros (e & He & Hin); exists e; (split; [exact He|]);
    apply filter_In in Hin as [Hin Hf]; apply filter_In; split; auto; apply Hd; exact Hin.
Qed.

Lemma dedup_sort_In ds e : In e (dedup_by dom_eqb (sort_by dom_leb ds)) <-> In e ds.
Proof. etransitivity; [apply (dedup_by_In dom_eqb dom_eqb_eq)|apply sort_by_In]. Qed.

Lemma dom_names_true ds : dom_names true ds = map snd (filter (fun e => fst e) ds).
Proof.
  unfold dom_names. f_equal. apply filter_ext. intros [[|] s]; reflexivity.
Qed.
Lemma dom_names_false ds : dom_names false ds = map snd (filter (fun e => negb (fst e)) ds).
Proof. reflexivity. Qed.

Lemma map_nil_iff {A B} (f : A -> B) l : map f l = [] <-> l = [].
Proof. destruct l; cbn; split; intros H; try reflexivity; discriminate. Qed.

Lemma In_ext_nil {A} (a b : list A) : (forall x, In x a <-> In x b) -> (a = [] <-> b = []).
Proof.
  intros H. split; intros ->.
  - destruct b as [|y b]; [reflexivity|]. exfalso. apply (proj2 (H y)). left. reflexivity.
  - destruct a as [|y a]; [reflexivity|]. exfalso. apply (proj1 (H y)). left. reflexivity.
Qed.

Lemma apply_domains_names h st ds inc exc :
  names_match h (st_od st) inc -> names_match h (st_ond st) exc ->
  names_match h (st_od (apply_domains h st ds))
              (if is_nil (dom_names true ds) then inc else Some (dom_names true ds))
  /\ names_match h (st_ond (apply_domains h st ds))
              (if is_nil (dom_names false ds) then exc else Some (dom_names false ds)).
Proof.
  intros Hi He. unfold apply_domains. cbv zeta.
  set (ds' := dedup_by dom_eqb (sort_by dom_leb ds)).
  pose proof (filter_map_In h (fun e => fst e) ds ds' (dedup_sort_In ds)) as Hinc.
  pose proof (filter_map_In h (fun e => negb (fst e)) ds ds' (dedup_sort_In ds)) as Hexc.
  rewrite <- dom_names_true in Hinc. rewrite <- dom_names_false in Hexc.
  assert (N1 : is_nil (map (fun e => h (snd e)) (filter (fun e => fst e) ds')) = is_nil (dom_names true ds)).
  { apply is_nil_ext. rewrite (In_ext_nil _ _ Hinc). apply map_nil_iff. }
  assert (N2 : is_nil (map (fun e => h (snd e)) (filter (fun e => negb (fst e)) ds')) = is_nil (dom_names false ds)).
  { apply is_nil_ext. rewrite (In_ext_nil _ _ Hexc). apply map_nil_iff. }
  rewrite N1, N2.
  destruct (is_nil (dom_names true ds)), (is_nil (dom_names false ds));
    cbn [st_od st_ond names_match]; split; auto;
    intros x; rewrite sort_by_In; auto.
Qed.

Lemma fold_names h opts : forall st inc exc,
  names_match h (st_od st) inc -> names_match h (st_ond st) exc ->
  names_match h (st_od (fold_left (apply_option h) opts st)) (sem_domains true opts inc)
  /\ names_match h (st_ond (fold_left (apply_option h) opts st)) (sem_domains false opts exc).
Proof.
  induction opts as [|o opts IH]; intros st inc exc Hi He; cbn [fold_left]; [cbn; auto|].
  destruct o as [c|c b|c v|c v|c ds].
  5: { cbn [sem_domains apply_option].
       destruct (apply_domains_names h st ds inc exc Hi He) as [A B]. apply IH; assumption. }
  all: cbn [sem_domains];
    match goal with |- context [apply_option ?hh ?ss ?o] =>
      destruct (apply_option_same_doms hh ss o ltac:(intros; discriminate)) as (E1 & E2 & _ & _)
    end; apply IH; [rewrite E1|rewrite E2]; assumption.
Qed.

Theorem parsed_rule_domain_names h sh opts p : build_rule h sh opts = POk p ->
  names_match h (p_od p) (sem_domains true opts None)
  /\ names_match h (p_ond p) (sem_domains false opts None).
Proof.
  unfold build_rule. intros H. apply finish_rule_doms in H as (E1 & E2 & _ & _).
  rewrite E1, E2. apply fold_names; cbn; exact I.
Qed.

Definition names_of (o : option (list str)) : list str := match o with Some l => l | None => [] end.

(* hash-level domains_ok of a parsed rule = string-level L0 statement, under injectivity of the
   hash on the finite set of strings involved (listed domains and the source host's chain) *)
Theorem parsed_rule_domains_l0 h sh opts p src :
  build_rule h sh opts = POk p ->
  inj_on h (names_of (sem_domains true opts None) ++ host_chain src) ->
  inj_on h (names_of (sem_domains false opts None) ++ host_chain src) ->
  domains_ok (p_od p) (p_ond p) (source_hostname_hashes h src)
  = l0_domains_ok (sem_domains true opts None) (sem_domains false opts None)
                  (if is_nil src then None else Some src).
Proof.
  intros H I1 I2. destruct (parsed_rule_domain_names h sh opts p H) as [A B].
  rewrite source_hashes_chain. destruct (is_nil src); [reflexivity|].
  unfold domains_ok, l0_domains_ok, dom_coversb. f_equal.
  - destruct (p_od p) as [l|], (sem_domains true opts None) as [ns|]; cbn in A; try contradiction; [|reflexivity].
    rewrite (hit_ext l (map h ns) _ A). apply hit_map. exact I1.
  - destruct (p_ond p) as [l|], (sem_domains false opts None) as [ns|]; cbn in B; try contradiction; [|reflexivity].
    f_equal. rewrite (hit_ext l (map h ns) _ B). apply hit_map. exact I2.
Qed.

(* exclusions win; a listed domain covers its subdomains (string level, by definition unfolding) *)
Lemma l0_domains_excluded_wins inc exc host d :
  In d exc -> dom_covers d host -> l0_domains_ok inc (Some exc) (Some host) = false.
Proof.
  intros Hd Hc. unfold l0_domains_ok.
  assert (existsb (fun d => dom_coversb d host) exc = true).
  { apply existsb_exists. exists d. split; [exact Hd|]. apply dom_coversb_spec. exact Hc. }
  rewrite H. apply andb_false_r.
Qed.

Lemma l0_domains_ok_iff inc exc host :
  l0_domains_ok inc exc (Some host) = true <->
  (match inc with Some l => exists d, In d l /\ dom_covers d host | None => True end)
  /\ (match exc with Some l => ~ exists d, In d l /\ dom_covers d host | None => True end).
Proof.
  unfold l0_domains_ok. rewrite andb_true_iff.
  assert (E : forall l, existsb (fun d => dom_coversb d host) l = true <-> exists d, In d l /\ dom_covers d host).
  { intro l. rewrite existsb_exists. split; intros (d & A & B); exists d; split; auto; apply dom_coversb_spec; exact B. }
  split; intros [A B]; split.
  - destruct inc; [apply E; exact A|exact I].
  - destruct exc; [|exact I]. rewrite negb_true_iff in B. intros C. apply E in C. congruence.
  - destruct inc; [apply E; exact A|reflexivity].
  - destruct exc; [|reflexivity]. rewrite negb_true_iff.
    destruct (existsb _ l) eqn:F; [|reflexivity]. exfalso. apply B, E. exact F.
Qed.

(* ========================================================================================== *)
(* 8. tables: generated (from the source) vs documentation (L0)                                *)
(* ========================================================================================== *)
Lemma str_eqb_sym a b : str_eqb a b = str_eqb b a.
Proof.
  destruct (str_eqb a b) eqn:E.
  - apply str_eqb_eq in E. subst. symmetry. apply str_eqb_refl.
  - destruct (str_eqb b a) eqn:F; [|reflexivity]. apply str_eqb_eq in F. subst.
    rewrite str_eqb_refl in E. discriminate.
Qed.

Lemma assoc_str_none {A} k (l : list (string * A)) :
  mem_str k (map (fun e => bs (fst e)) l) = false -> assoc_str k l = None.
Proof.
  induction l as [|[s v] l IH]; cbn; [reflexivity|]. intros H.
  apply orb_false_iff in H as [H1 H2]. rewrite str_eqb_sym, H1. apply IH. exact H2.
Qed.

Definition cpt_keys : list str :=
  map (fun e => bs (fst e)) cpt_table ++ map (fun e => bs (fst e)) l0_cpt_table.

Lemma mem_str_app x a b : mem_str x (a ++ b) = mem_str x a || mem_str x b.
Proof. induction a as [|y a IH]; cbn; [reflexivity|]. rewrite IH. apply orb_assoc. Qed.

Lemma cpt_keys_checked :
  forallb (fun k => request_type_beq (cpt_match_type k) (l0_cpt k)) cpt_keys = true.
Proof. vm_compute. reflexivity. Qed.

(* the crate's request-type names agree with the webRequest documentation table, for every string *)
Theorem cpt_table_agrees raw : cpt_match_type raw = l0_cpt raw.
Proof.
  destruct (mem_str raw cpt_keys) eqn:E.
  - apply mem_str_In in E. apply request_type_beq_eq.
    exact (proj1 (forallb_forall _ _) cpt_keys_checked raw E).
  - unfold cpt_keys in E. rewrite mem_str_app in E. apply orb_false_iff in E as [E1 E2].
    unfold cpt_match_type, l0_cpt. rewrite (assoc_str_none raw cpt_table E1), (assoc_str_none raw l0_cpt_table E2).
    reflexivity.
Qed.

(* request type -> class -> bit agrees with From<&RequestType> for NetworkFilterMask *)
Theorem request_class_agrees t :
  mask_of_request_type t =
  match l0_class_of_request t with Some c => class_mask c | None => M_UNMATCHED end.
Proof. destruct t; reflexivity. Qed.

(* --- option names --- *)
Definition opt_keys : list str :=
  map (fun e => bs (fst (fst e))) option_table
  ++ flat_map (fun e => map bs (fst (fst e))) l0_option_table.

Lemma lookup_option_in_none t name neg :
  mem_str name (map (fun e => bs (fst (fst e))) t) = false -> lookup_option_in t name neg = None.
Proof.
  induction t as [|[[n g] o] t IH]; cbn; [reflexivity|]. intros H.
  apply orb_false_iff in H as [H1 H2]. rewrite str_eqb_sym, H1. cbn. apply IH. exact H2.
Qed.

Lemma l0_lookup_in_invalid t name neg :
  mem_str name (flat_map (fun e => map bs (fst (fst e))) t) = false -> l0_lookup_in t name neg = A_invalid.
Proof.
  induction t as [|[[ns p] g] t IH]; cbn; [reflexivity|]. intros H.
  rewrite mem_str_app in H. apply orb_false_iff in H as [H1 H2].
  assert (E : existsb (fun n => str_eqb (bs n) name) ns = false).
  { clear - H1. induction ns as [|n ns IHn]; cbn in *; [reflexivity|].
    apply orb_false_iff in H1 as [A B]. rewrite str_eqb_sym, A. cbn. apply IHn. exact B. }
  rewrite E. apply IH. exact H2.
Qed.

Lemma opt_keys_checked :
  forallb (fun k => forallb (fun g => l0_atom_beq (atom_of_outcome (lookup_option k g)) (l0_lookup k g))
                            [false; true]) opt_keys = true.
Proof. vm_compute. reflexivity. Qed.

Lemma l0_atom_beq_eq a b : l0_atom_beq a b = true <-> a = b.
Proof. split; [apply internal_l0_atom_dec_bl|apply internal_l0_atom_dec_lb]. Qed.

(* every option name (and every string that is no option name), negated or not, means in
   parse_filter_options what the documentation table says *)
Theorem option_table_agrees name neg : atom_of_outcome (lookup_option name neg) = l0_lookup name neg.
Proof.
  destruct (mem_str name opt_keys) eqn:E.
  - apply mem_str_In in E.
    pose proof (proj1 (forallb_forall _ _) opt_keys_checked name E) as H. cbn [forallb] in H.
    rewrite andb_true_r in H. apply andb_true_iff in H as [H1 H2].
    destruct neg; apply l0_atom_beq_eq; assumption.
  - unfold opt_keys in E. rewrite mem_str_app in E. apply orb_false_iff in E as [E1 E2].
    unfold lookup_option, l0_lookup.
    rewrite (lookup_option_in_none option_table name neg E1), (l0_lookup_in_invalid _ name neg E2).
    reflexivity.
Qed.

(* payloads: what the parser builds has the payload kind of its constructor *)
Definition wf_optb (o : nfopt) : bool :=
  match o, ctor_payload (opt_ctor o) with
  | NUnit _, PK_unit | NBool _ _, PK_bool | NValue _ _, PK_value
  | NOptValue _ _, PK_optvalue | NDomains _ _, PK_domains => true
  | _, _ => false
  end.

Definition outcome_wf (o : opt_outcome) : bool :=
  match o with
  | OO_Err _ => true
  | OO_Unit c => match ctor_payload c with PK_unit => true | _ => false end
  | OO_Bool c _ => match ctor_payload c with PK_bool => true | _ => false end
  | OO_Value c => match ctor_payload c with PK_value | PK_optvalue | PK_domains => true | _ => false end
  end.

Lemma option_table_wf : forallb (fun e => outcome_wf (snd e)) option_table = true.
Proof. vm_compute. reflexivity. Qed.

Lemma lookup_option_wf name neg : outcome_wf (lookup_option name neg) = true.
Proof.
  unfold lookup_option.
  assert (G : forall t, forallb (fun e => outcome_wf (snd e)) t = true ->
              match lookup_option_in t name neg with Some o => outcome_wf o = true | None => True end).
  { induction t as [|[[n g] o] t IH]; cbn; [auto|]. intros H. apply andb_true_iff in H as [H1 H2].
    destruct (str_eqb (bs n) name && Bool.eqb g neg); [exact H1|apply IH; exact H2]. }
  specialize (G option_table option_table_wf).
  destruct (lookup_option_in option_table name neg); [exact G|reflexivity].
Qed.

Lemma parse_one_option_wf raw o : parse_one_option raw = POk o -> wf_optb o = true.
Proof.
  unfold parse_one_option. cbv zeta.
  destruct (splitn2 EQSIGN (strip_all TILDE raw)) as [name value].
  set (neg := match raw with x :: _ => N.eqb x TILDE | [] => false end).
  pose proof (lookup_option_wf name neg) as W.
  destruct (lookup_option name neg) as [e|c|c b|c]; cbn in W.
  - discriminate.
  - intros H. inversion H; subst. unfold wf_optb. cbn [opt_ctor]. destruct (ctor_payload c); try discriminate; reflexivity.
  - intros H. inversion H; subst. unfold wf_optb. cbn [opt_ctor]. destruct (ctor_payload c); try discriminate; reflexivity.
  - destruct (ctor_payload c) eqn:P; try discriminate.
    + destruct c; try discriminate P;
        repeat match goal with |- context [if ?x then _ else _] => destruct x end;
        intros H; inversion H; subst; reflexivity.
    + intros H. inversion H; subst. unfold wf_optb. cbn [opt_ctor]. rewrite P. reflexivity.
    + destruct (is_nil (parse_domain_value value)); [discriminate|].
      intros H. inversion H; subst. unfold wf_optb. cbn [opt_ctor]. rewrite P. reflexivity.
Qed.

Lemma parse_option_list_wf raws : forall opts,
  parse_option_list raws = POk opts -> forallb wf_optb opts = true.
Proof.
  induction raws as [|r raws IH]; cbn; intros opts H.
  - inversion H; subst. reflexivity.
  - destruct (parse_one_option r) as [o|e] eqn:E; [|discriminate].
    destruct (parse_option_list raws) as [os|e]; [|discriminate].
    inversion H; subst. cbn. rewrite (parse_one_option_wf r o E), (IH os eq_refl). reflexivity.
Qed.

Theorem parse_filter_options_wf raw opts :
  parse_filter_options raw = POk opts -> forallb wf_optb opts = true.
Proof. apply parse_option_list_wf. Qed.

(* a negated `document` never comes out of the parser *)
Lemma wf_no_negated_document o : wf_optb o = true -> atom_of_nfopt o <> A_type T_document false.
Proof.
  destruct o as [c|c b|c v|c v|c ds]; destruct c; try destruct b; cbn; intros H; try discriminate H;
    intros E; discriminate E.
Qed.

(* ========================================================================================== *)
(* 9. mask construction: bits of a parsed rule                                                *)
(* ========================================================================================== *)
Definition cpos (c : tclass) : N :=
  match c with
  | T_image => 0 | T_media => 1 | T_object => 2 | T_other => 3 | T_ping => 4 | T_script => 5
  | T_stylesheet => 6 | T_subdocument => 7 | T_websocket => 8 | T_xhr => 9 | T_font => 10
  | T_document => 29
  end.
Lemma class_mask_pow c : class_mask c = 2 ^ cpos c.
Proof. destruct c; reflexivity. Qed.

Lemma tclass_beq_eq a b : tclass_beq a b = true <-> a = b.
Proof. split; [apply internal_tclass_dec_bl|apply internal_tclass_dec_lb]. Qed.

Lemma cpos_eqb a b : N.eqb (cpos a) (cpos b) = tclass_beq a b.
Proof. destruct a, b; reflexivity. Qed.

Lemma class_mask_bit c c' : N.testbit (class_mask c) (cpos c') = tclass_beq c c'.
Proof. rewrite class_mask_pow, N.pow2_bits_eqb. apply cpos_eqb. Qed.

Lemma has_flag_bit m k : has_flag m (2 ^ k) = N.testbit m k.
Proof.
  unfold has_flag. destruct (N.testbit m k) eqn:E.
  - apply N.eqb_eq. apply N.bits_inj. intro n. rewrite N.land_spec, N.pow2_bits_eqb.
    destruct (N.eqb k n) eqn:F; [|apply andb_false_r].
    apply N.eqb_eq in F. subst n. rewrite E. reflexivity.
  - apply N.eqb_neq. intros H.
    assert (G : N.testbit (N.land m (2 ^ k)) k = N.testbit (2 ^ k) k) by (rewrite H; reflexivity).
    rewrite N.land_spec, N.pow2_bits_eqb, N.eqb_refl, E in G. discriminate.
Qed.

(* closed testbit terms are evaluated *)
Ltac tb_const :=
  repeat match goal with
  | |- context [N.testbit ?a ?k] =>
      let v := eval vm_compute in (N.testbit a k) in
      match v with
      | true => change (N.testbit a k) with true
      | false => change (N.testbit a k) with false
      end
  end.

(* --- the option loop, seen through the meaning of the options --- *)
Record mpn := mkMpn { mm : N; mp : N; mn : N }.
Definition proj (st : pstate) : mpn := mkMpn (st_mask st) (st_pos st) (st_neg st).

Definition atom_sets (a : l0_atom) : N :=
  match a with
  | A_badfilter => M_BAD_FILTER | A_important => M_IS_IMPORTANT | A_matchcase => M_MATCH_CASE
  | A_generichide => M_GENERIC_HIDE | A_redirect => N.lor M_IS_REDIRECT M_ALSO_BLOCK_REDIRECT
  | A_redirect_rule => M_IS_REDIRECT | A_removeparam => M_IS_REMOVEPARAM
  | A_csp => N.lor M_IS_CSP M_FROM_DOCUMENT
  | _ => 0
  end.
Definition atom_clears (a : l0_atom) : N :=
  match a with
  | A_party true => M_FIRST_PARTY | A_party false => M_THIRD_PARTY | _ => 0
  end.
Definition atom_pos (a : l0_atom) : N := match a with A_type c true => class_mask c | _ => 0 end.
Definition atom_neg (a : l0_atom) : N := match a with A_type c false => class_mask c | _ => 0 end.

Definition apply_atom (s : mpn) (a : l0_atom) : mpn :=
  mkMpn (N.ldiff (N.lor (mm s) (atom_sets a)) (atom_clears a))
        (N.lor (mp s) (atom_pos a)) (N.lor (mn s) (atom_neg a)).

Lemma apply_domains_proj h st ds : proj (apply_domains h st ds) = proj st.
Proof.
  unfold apply_domains. cbv zeta.
  destruct (is_nil (map _ (filter (fun e => fst e) _))), (is_nil (map _ (filter (fun e => negb (fst e)) _))); reflexivity.
Qed.

Lemma mpn_eq a b : mm a = mm b -> mp a = mp b -> mn a = mn b -> a = b.
Proof. destruct a, b; cbn; intros; subst; reflexivity. Qed.

Lemma ldiff_0_r a : N.ldiff a 0 = a.
Proof. apply N.bits_inj. intro n. rewrite N.ldiff_spec, N.bits_0. apply andb_true_r. Qed.

Lemma apply_option_atom h st o : wf_optb o = true ->
  proj (apply_option h st o) = apply_atom (proj st) (atom_of_nfopt o).
Proof.
  intros W. destruct o as [c|c b|c v|c v|c ds].
  5: { destruct c; try discriminate W. cbn [apply_option]. rewrite apply_domains_proj.
       apply mpn_eq; cbn; rewrite ?N.lor_0_r, ?ldiff_0_r; reflexivity. }
  all: destruct c; try discriminate W; try destruct b;
    apply mpn_eq; cbn -[N.lor N.ldiff]; unfold set_flag;
    rewrite ?N.lor_0_r, ?ldiff_0_r, ?N.lor_assoc; reflexivity.
Qed.

Lemma fold_option_atom h opts : forall st, forallb wf_optb opts = true ->
  proj (fold_left (apply_option h) opts st) = fold_left apply_atom (map atom_of_nfopt opts) (proj st).
Proof.
  induction opts as [|o opts IH]; intros st W; cbn [fold_left map]; [reflexivity|].
  cbn in W. apply andb_true_iff in W as [W1 W2].
  rewrite (IH _ W2), (apply_option_atom h st o W1). reflexivity.
Qed.

(* --- bits after the loop --- *)
Fixpoint pos_of (l : list l0_atom) : N :=
  match l with [] => 0 | a :: r => N.lor (atom_pos a) (pos_of r) end.
Fixpoint neg_of (l : list l0_atom) : N :=
  match l with [] => 0 | a :: r => N.lor (atom_neg a) (neg_of r) end.

Lemma fold_atoms_pos l : forall s, mp (fold_left apply_atom l s) = N.lor (mp s) (pos_of l).
Proof.
  induction l as [|a l IH]; intros s; cbn [fold_left pos_of]; [symmetry; apply N.lor_0_r|].
  rewrite IH. cbn [apply_atom mp]. symmetry; apply N.lor_assoc.
Qed.
Lemma fold_atoms_neg l : forall s, mn (fold_left apply_atom l s) = N.lor (mn s) (neg_of l).
Proof.
  induction l as [|a l IH]; intros s; cbn [fold_left neg_of]; [symmetry; apply N.lor_0_r|].
  rewrite IH. cbn [apply_atom mn]. symmetry; apply N.lor_assoc.
Qed.

Lemma fold_atoms_mask_set l k : (forall a, N.testbit (atom_clears a) k = false) ->
  forall s, N.testbit (mm (fold_left apply_atom l s)) k
            = N.testbit (mm s) k || existsb (fun a => N.testbit (atom_sets a) k) l.
Proof.
  intros Hk. induction l as [|a l IH]; intros s; cbn [fold_left existsb]; [symmetry; apply orb_false_r|].
  rewrite IH. cbn [apply_atom mm]. rewrite N.ldiff_spec, N.lor_spec, Hk. cbn [negb].
  rewrite andb_true_r. symmetry. apply orb_assoc.
Qed.
Lemma fold_atoms_mask_clear l k : (forall a, N.testbit (atom_sets a) k = false) ->
  forall s, N.testbit (mm (fold_left apply_atom l s)) k
            = N.testbit (mm s) k && negb (existsb (fun a => N.testbit (atom_clears a) k) l).
Proof.
  intros Hk. induction l as [|a l IH]; intros s; cbn [fold_left existsb]; [symmetry; apply andb_true_r|].
  rewrite IH. cbn [apply_atom mm]. rewrite N.ldiff_spec, N.lor_spec, Hk, orb_false_r.
  rewrite negb_orb. symmetry. apply andb_assoc.
Qed.

Lemma has_atom_cons a b l : has_atom a (b :: l) = l0_atom_beq a b || has_atom a l.
Proof. reflexivity. Qed.

Lemma pos_of_bit l c : N.testbit (pos_of l) (cpos c) = has_atom (A_type c true) l.
Proof.
  induction l as [|a l IH]; [reflexivity|]. cbn [pos_of]. rewrite N.lor_spec, IH, has_atom_cons. f_equal.
  destruct a as [c' b| | | | | | | | | | | | ]; cbn [atom_pos]; try (rewrite N.bits_0; reflexivity).
  destruct b; [rewrite class_mask_bit|rewrite N.bits_0]; destruct c, c'; reflexivity.
Qed.
Lemma neg_of_bit l c : N.testbit (neg_of l) (cpos c) = has_atom (A_type c false) l.
Proof.
  induction l as [|a l IH]; [reflexivity|]. cbn [neg_of]. rewrite N.lor_spec, IH, has_atom_cons. f_equal.
  destruct a as [c' b| | | | | | | | | | | | ]; cbn [atom_neg]; try (rewrite N.bits_0; reflexivity).
  destruct b; [rewrite N.bits_0|rewrite class_mask_bit]; destruct c, c'; reflexivity.
Qed.

(* the positive / negative type masks only contain type bits *)
Lemma land_lor_sub a b m : N.land a m = a -> N.land b m = b -> N.land (N.lor a b) m = N.lor a b.
Proof. intros Ha Hb. rewrite N.land_lor_distr_l, Ha, Hb. reflexivity. Qed.
Lemma pos_of_sub l : N.land (pos_of l) M_FROM_ALL_TYPES = pos_of l.
Proof.
  induction l as [|a l IH]; [reflexivity|]. cbn [pos_of]. apply land_lor_sub; [|exact IH].
  destruct a as [c b| | | | | | | | | | | | ]; cbn [atom_pos]; try reflexivity. destruct b; [destruct c|]; reflexivity.
Qed.
Lemma neg_of_sub l : N.land (neg_of l) M_FROM_ALL_TYPES = neg_of l.
Proof.
  induction l as [|a l IH]; [reflexivity|]. cbn [neg_of]. apply land_lor_sub; [|exact IH].
  destruct a as [c b| | | | | | | | | | | | ]; cbn [atom_neg]; try reflexivity. destruct b; [|destruct c]; reflexivity.
Qed.

Definition is_pos_type (a : l0_atom) : bool := match a with A_type _ true => true | _ => false end.
Definition is_neg_type (a : l0_atom) : bool := match a with A_type _ false => true | _ => false end.

Lemma class_mask_nonzero c : class_mask c <> 0.
Proof. destruct c; discriminate. Qed.

Lemma pos_of_zero l : N.eqb (pos_of l) 0 = negb (existsb is_pos_type l).
Proof.
  induction l as [|a l IH]; [reflexivity|]. cbn [pos_of existsb]. rewrite negb_orb, <- IH.
  destruct (N.eqb (N.lor (atom_pos a) (pos_of l)) 0) eqn:E.
  - apply N.eqb_eq, N.lor_eq_0_iff in E as [E1 E2]. rewrite E2.
    destruct a as [c b| | | | | | | | | | | | ]; try reflexivity. destruct b; [|reflexivity].
    cbn in E1. exfalso. exact (class_mask_nonzero c E1).
  - apply N.eqb_neq in E. destruct (N.eqb (pos_of l) 0) eqn:F; [|symmetry; apply andb_false_r].
    apply N.eqb_eq in F. rewrite F, N.lor_0_r in E.
    destruct a as [c b| | | | | | | | | | | | ]; try (exfalso; apply E; reflexivity).
    destruct b; [reflexivity|exfalso; apply E; reflexivity].
Qed.
Lemma neg_of_zero l : N.eqb (neg_of l) 0 = negb (existsb is_neg_type l).
Proof.
  induction l as [|a l IH]; [reflexivity|]. cbn [neg_of existsb]. rewrite negb_orb, <- IH.
  destruct (N.eqb (N.lor (atom_neg a) (neg_of l)) 0) eqn:E.
  - apply N.eqb_eq, N.lor_eq_0_iff in E as [E1 E2]. rewrite E2.
    destruct a as [c b| | | | | | | | | | | | ]; try reflexivity. destruct b; [reflexivity|].
    cbn in E1. exfalso. exact (class_mask_nonzero c E1).
  - apply N.eqb_neq in E. destruct (N.eqb (neg_of l) 0) eqn:F; [|symmetry; apply andb_false_r].
    apply N.eqb_eq in F. rewrite F, N.lor_0_r in E.
    destruct a as [c b| | | | | | | | | | | | ]; try (exfalso; apply E; reflexivity).
    destruct b; [exfalso; apply E; reflexivity|reflexivity].
Qed.

Lemma any_positive_type_alt l : any_positive_type l = existsb is_pos_type l.
Proof.
  unfold any_positive_type.
  destruct (existsb is_pos_type l) eqn:E.
  - apply existsb_exists in E as (a & Ha & Hp). destruct a as [c b| | | | | | | | | | | | ]; try discriminate.
    destruct b; [|discriminate]. apply existsb_exists. exists c. split; [destruct c; cbn; tauto|].
    apply existsb_exists. exists (A_type c true). split; [exact Ha|]. apply l0_atom_beq_eq. reflexivity.
  - destruct (existsb _ all_tclasses) eqn:F; [|reflexivity].
    apply existsb_exists in F as (c & _ & Hc). apply existsb_exists in Hc as (a & Ha & Hb).
    apply l0_atom_beq_eq in Hb. subst a.
    assert (existsb is_pos_type l = true) by (apply existsb_exists; exists (A_type c true); auto).
    congruence.
Qed.
Lemma any_negated_type_alt l : any_negated_type l = existsb is_neg_type l.
Proof.
  unfold any_negated_type.
  destruct (existsb is_neg_type l) eqn:E.
  - apply existsb_exists in E as (a & Ha & Hp). destruct a as [c b| | | | | | | | | | | | ]; try discriminate.
    destruct b; [discriminate|]. apply existsb_exists. exists c. split; [destruct c; cbn; tauto|].
    apply existsb_exists. exists (A_type c false). split; [exact Ha|]. apply l0_atom_beq_eq. reflexivity.
  - destruct (existsb _ all_tclasses) eqn:F; [|reflexivity].
    apply existsb_exists in F as (c & _ & Hc). apply existsb_exists in Hc as (a & Ha & Hb).
    apply l0_atom_beq_eq in Hb. subst a.
    assert (existsb is_neg_type l = true) by (apply existsb_exists; exists (A_type c false); auto).
    congruence.
Qed.

Lemma disjoint_pos_all l : disjoint (pos_of l) M_FROM_ALL_TYPES = negb (any_positive_type l).
Proof. unfold disjoint. rewrite pos_of_sub, pos_of_zero, any_positive_type_alt. reflexivity. Qed.
Lemma disjoint_neg_all l : disjoint (neg_of l) M_FROM_ALL_TYPES = negb (any_negated_type l).
Proof. unfold disjoint. rewrite neg_of_sub, neg_of_zero, any_negated_type_alt. reflexivity. Qed.

(* without a negated `document`, the negative mask only has network-type bits *)
Lemma neg_of_sub_net l : has_atom (A_type T_document false) l = false ->
  N.land (neg_of l) M_FROM_NETWORK_TYPES = neg_of l.
Proof.
  induction l as [|a l IH]; [reflexivity|]. rewrite has_atom_cons. intros H.
  apply orb_false_iff in H as [H1 H2]. cbn [neg_of]. apply land_lor_sub; [|apply IH; exact H2].
  destruct a as [c b| | | | | | | | | | | | ]; cbn [atom_neg]; try reflexivity.
  destruct b; [reflexivity|]. destruct c; try reflexivity. discriminate H1.
Qed.
Lemma disjoint_neg_net l : has_atom (A_type T_document false) l = false ->
  disjoint (neg_of l) M_FROM_NETWORK_TYPES = negb (any_negated_type l).
Proof. intros H. unfold disjoint. rewrite (neg_of_sub_net l H), neg_of_zero, any_negated_type_alt. reflexivity. Qed.

(* --- the mask that finish_rule returns --- *)
From Coq Require Import Btauto.

Definition final_mask (sh : shape) (m P Ng : N) : N :=
  N.ldiff (implicit_all_types sh (apply_scheme (implicit_types m P Ng) (sh_scheme sh)) P Ng) Ng.

Lemma finish_rule_mask sh st p : finish_rule sh st = POk p ->
  p_mask p = final_mask sh (st_mask st) (st_pos st) (st_neg st).
Proof.
  unfold finish_rule. cbv zeta.
  destruct (negb (sh_complete_regex sh) && _); [discriminate|].
  destruct (has_flag _ M_GENERIC_HIDE && _); [discriminate|].
  destruct (has_flag _ M_IS_REMOVEPARAM && _); [discriminate|].
  intros H. inversion H; subst. reflexivity.
Qed.

Definition sset (s : scheme_pat) : N :=
  match s with
  | SP_none => 0 | SP_ws => M_FROM_WEBSOCKET | SP_http => M_FROM_HTTP | SP_https => M_FROM_HTTPS
  | SP_httpstar => N.lor M_FROM_HTTPS M_FROM_HTTP
  end.
Definition sclr (s : scheme_pat) : N :=
  match s with
  | SP_none | SP_httpstar => 0 | SP_ws => N.lor M_FROM_HTTP M_FROM_HTTPS
  | SP_http => M_FROM_HTTPS | SP_https => M_FROM_HTTP
  end.

Lemma apply_scheme_bits m s k :
  N.testbit (apply_scheme m s) k = (N.testbit m k || N.testbit (sset s) k) && negb (N.testbit (sclr s) k).
Proof.
  destruct s; unfold apply_scheme, set_flag, sset, sclr;
    rewrite ?N.ldiff_spec, ?N.lor_spec, ?N.bits_0; btauto.
Qed.

Lemma tb_if (c : bool) a b k :
  N.testbit (if c then a else b) k = if c then N.testbit a k else N.testbit b k.
Proof. destruct c; reflexivity. Qed.

Lemma final_bit sh m P Ng k :
  N.testbit P 15 = false ->
  N.testbit (final_mask sh m P Ng) k =
  (let rp := N.testbit m 15 in
   let c1 := negb rp && negb (disjoint Ng M_FROM_NETWORK_TYPES) in
   let c2 := disjoint P M_FROM_ALL_TYPES in
   let c3 := c2 && disjoint Ng M_FROM_ALL_TYPES && sh_hostname_anchor sh && sh_right_anchor sh
             && negb (sh_end_url_anchor sh) && negb rp in
   ((((N.testbit m k || N.testbit P k || (c1 && N.testbit M_FROM_NETWORK_TYPES k)
       || (c2 && (if rp then N.testbit removeparam_default_types k
                  else N.testbit M_FROM_NETWORK_TYPES k)))
      || N.testbit (sset (sh_scheme sh)) k) && negb (N.testbit (sclr (sh_scheme sh)) k))
    || (c3 && N.testbit M_FROM_ALL_TYPES k)) && negb (N.testbit Ng k)).
Proof.
  intros HP. cbv zeta.
  unfold final_mask, implicit_all_types, implicit_types. cbv zeta.
  change M_IS_REMOVEPARAM with (2 ^ 15). rewrite !has_flag_bit.
  rewrite ?N.ldiff_spec, ?tb_if, ?N.lor_spec, ?apply_scheme_bits.
  rewrite ?N.ldiff_spec, ?tb_if, ?N.lor_spec, ?apply_scheme_bits.
  rewrite ?N.ldiff_spec, ?tb_if, ?N.lor_spec, ?apply_scheme_bits.
  rewrite ?N.ldiff_spec, ?tb_if, ?N.lor_spec, ?apply_scheme_bits.
  rewrite HP.
  destruct (sh_scheme sh); unfold sset, sclr; tb_const;
  destruct (N.testbit m 15), (disjoint Ng M_FROM_NETWORK_TYPES), (disjoint P M_FROM_ALL_TYPES),
    (disjoint Ng M_FROM_ALL_TYPES), (sh_hostname_anchor sh), (sh_right_anchor sh), (sh_end_url_anchor sh);
  cbn [negb andb orb]; rewrite ?N.lor_spec, ?N.bits_0; btauto.
Qed.

Definition MM (exc : bool) (l : list l0_atom) : N :=
  mm (fold_left apply_atom l (mkMpn (initial_mask exc) 0 0)).

Lemma build_rule_mask h sh opts p :
  forallb wf_optb opts = true -> build_rule h sh opts = POk p ->
  p_mask p = final_mask sh (MM (sh_exception sh) (map atom_of_nfopt opts))
                        (pos_of (map atom_of_nfopt opts)) (neg_of (map atom_of_nfopt opts)).
Proof.
  intros W H. unfold build_rule in H. apply finish_rule_mask in H. rewrite H.
  pose proof (fold_option_atom h opts (initial_state sh) W) as E.
  set (st' := fold_left (apply_option h) opts (initial_state sh)) in *.
  change (st_mask st') with (mm (proj st')). change (st_pos st') with (mp (proj st')).
  change (st_neg st') with (mn (proj st')). rewrite E.
  rewrite fold_atoms_pos, fold_atoms_neg. cbn [proj initial_state st_mask st_pos st_neg mp mn].
  rewrite !N.lor_0_l. reflexivity.
Qed.

Lemma MM_set exc l k : (forall a, N.testbit (atom_clears a) k = false) ->
  N.testbit (MM exc l) k = N.testbit (initial_mask exc) k || existsb (fun a => N.testbit (atom_sets a) k) l.
Proof. intros H. unfold MM. rewrite (fold_atoms_mask_set l k H). reflexivity. Qed.
Lemma MM_clear exc l k : (forall a, N.testbit (atom_sets a) k = false) ->
  N.testbit (MM exc l) k = N.testbit (initial_mask exc) k && negb (existsb (fun a => N.testbit (atom_clears a) k) l).
Proof. intros H. unfold MM. rewrite (fold_atoms_mask_clear l k H). reflexivity. Qed.

Ltac atom_cases := let a := fresh "a" in intro a; destruct a as [[] []|[]| | | | | | | | | | | ]; reflexivity.

Lemma existsb_has_atom (f : l0_atom -> bool) a0 l :
  (forall a, f a = l0_atom_beq a0 a) -> existsb f l = has_atom a0 l.
Proof. intros H. unfold has_atom. apply existsb_ext_in. exact H. Qed.
Lemma existsb_none {A} (f : A -> bool) l : (forall a, f a = false) -> existsb f l = false.
Proof. intros H. induction l as [|x l IH]; cbn; [reflexivity|]. rewrite H, IH. reflexivity. Qed.

Lemma MM_15 exc l : N.testbit (MM exc l) 15 = has_atom A_removeparam l.
Proof.
  rewrite MM_set by atom_cases. rewrite (existsb_has_atom _ A_removeparam) by atom_cases.
  destruct exc; reflexivity.
Qed.
Lemma MM_27 exc l : N.testbit (MM exc l) 27 = has_atom A_badfilter l.
Proof.
  rewrite MM_set by atom_cases. rewrite (existsb_has_atom _ A_badfilter) by atom_cases.
  destruct exc; reflexivity.
Qed.
Lemma MM_14 exc l : N.testbit (MM exc l) 14 = has_atom A_matchcase l.
Proof.
  rewrite MM_set by atom_cases. rewrite (existsb_has_atom _ A_matchcase) by atom_cases.
  destruct exc; reflexivity.
Qed.
Lemma MM_22 exc l : N.testbit (MM exc l) 22 = exc.
Proof. rewrite MM_set by atom_cases. rewrite existsb_none by atom_cases. destruct exc; reflexivity. Qed.
Lemma MM_25 exc l : N.testbit (MM exc l) 25 = false.
Proof. rewrite MM_set by atom_cases. rewrite existsb_none by atom_cases. destruct exc; reflexivity. Qed.
Lemma MM_11 exc l : N.testbit (MM exc l) 11 = true.
Proof. rewrite MM_set by atom_cases. destruct exc; reflexivity. Qed.
Lemma MM_12 exc l : N.testbit (MM exc l) 12 = true.
Proof. rewrite MM_set by atom_cases. destruct exc; reflexivity. Qed.
Lemma MM_16 exc l : N.testbit (MM exc l) 16 = sem_third_ok l.
Proof.
  rewrite MM_clear by atom_cases. rewrite (existsb_has_atom _ (A_party false)) by atom_cases.
  destruct exc; reflexivity.
Qed.
Lemma MM_17 exc l : N.testbit (MM exc l) 17 = sem_first_ok l.
Proof.
  rewrite MM_clear by atom_cases. rewrite (existsb_has_atom _ (A_party true)) by atom_cases.
  destruct exc; reflexivity.
Qed.
Lemma MM_type exc l c :
  N.testbit (MM exc l) (cpos c) = tclass_beq c T_document && has_atom A_csp l.
Proof.
  destruct c; cbn [cpos tclass_beq andb]; rewrite MM_set by atom_cases;
    try (rewrite existsb_none by atom_cases; destruct exc; reflexivity).
  rewrite (existsb_has_atom _ A_csp) by atom_cases. destruct exc; reflexivity.
Qed.

Lemma l0_atom_beq_neq a b : a <> b -> l0_atom_beq a b = false.
Proof. intros H. destruct (l0_atom_beq a b) eqn:E; [|reflexivity]. apply l0_atom_beq_eq in E. contradiction. Qed.

Lemma wf_no_neg_doc opts : forallb wf_optb opts = true ->
  has_atom (A_type T_document false) (map atom_of_nfopt opts) = false.
Proof.
  induction opts as [|o opts IH]; cbn [forallb map]; [reflexivity|]. intros H.
  apply andb_true_iff in H as [H1 H2]. rewrite has_atom_cons, (IH H2), orb_false_r.
  apply l0_atom_beq_neq. intros E. exact (wf_no_negated_document o H1 (eq_sym E)).
Qed.

Lemma pos_of_15 l : N.testbit (pos_of l) 15 = false.
Proof. rewrite <- pos_of_sub, N.land_spec. apply andb_false_r. Qed.

Definition rpdef (c : tclass) : bool :=
  tclass_beq c T_document || tclass_beq c T_subdocument || tclass_beq c T_xhr.

(* every type bit of a parsed rule says what the L0 semantics of its options says *)
Theorem parsed_type_bits h sh opts p :
  forallb wf_optb opts = true -> build_rule h sh opts = POk p ->
  forall c, has_flag (p_mask p) (class_mask c) = sem_allowed sh (map atom_of_nfopt opts) c.
Proof.
  intros W H c. rewrite (build_rule_mask h sh opts p W H).
  set (l := map atom_of_nfopt opts).
  rewrite class_mask_pow, has_flag_bit, (final_bit _ _ _ _ _ (pos_of_15 l)). cbv zeta.
  rewrite MM_15, MM_type, pos_of_bit, neg_of_bit, disjoint_pos_all, disjoint_neg_all,
    (disjoint_neg_net l (wf_no_neg_doc opts W)).
  unfold sem_allowed. cbv zeta.
  generalize (has_atom (A_type c true) l) (has_atom (A_type c false) l) (has_atom A_csp l)
    (has_atom A_removeparam l) (any_positive_type l) (any_negated_type l)
    (sh_hostname_anchor sh) (sh_right_anchor sh) (sh_end_url_anchor sh).
  intros b1 b2 b3 b4 b5 b6 b7 b8 b9.
  destruct c, (sh_scheme sh); unfold sset, sclr, is_network; cbn [cpos tclass_beq andb orb negb];
    tb_const; destruct b4; btauto.
Qed.

Lemma pos_of_nontype l k : N.testbit M_FROM_ALL_TYPES k = false -> N.testbit (pos_of l) k = false.
Proof. intros H. rewrite <- pos_of_sub, N.land_spec, H. apply andb_false_r. Qed.
Lemma neg_of_nontype l k : N.testbit M_FROM_ALL_TYPES k = false -> N.testbit (neg_of l) k = false.
Proof. intros H. rewrite <- neg_of_sub, N.land_spec, H. apply andb_false_r. Qed.

Ltac flag_bit W H l k :=
  rewrite (build_rule_mask _ _ _ _ W H);
  rewrite has_flag_bit, (final_bit _ _ _ _ _ (pos_of_15 l)); cbv zeta;
  rewrite (pos_of_nontype _ k eq_refl), (neg_of_nontype _ k eq_refl).

Section ParsedFlags.
  Variables (h : str -> N) (sh : shape) (opts : list nfopt) (p : parsed).
  Hypothesis W : forallb wf_optb opts = true.
  Hypothesis H : build_rule h sh opts = POk p.
  Let l := map atom_of_nfopt opts.

  Lemma parsed_third_party : third_party (p_mask p) = sem_third_ok l.
  Proof.
    unfold third_party. change M_THIRD_PARTY with (2 ^ 16). flag_bit W H l 16.
    fold l. rewrite MM_16. destruct (sh_scheme sh); unfold sset, sclr; tb_const; btauto.
  Qed.
  Lemma parsed_first_party : first_party (p_mask p) = sem_first_ok l.
  Proof.
    unfold first_party. change M_FIRST_PARTY with (2 ^ 17). flag_bit W H l 17.
    fold l. rewrite MM_17. destruct (sh_scheme sh); unfold sset, sclr; tb_const; btauto.
  Qed.
  Lemma parsed_for_http : for_http (p_mask p) = sem_http_ok (sh_scheme sh).
  Proof.
    unfold for_http. change M_FROM_HTTP with (2 ^ 11). flag_bit W H l 11.
    fold l. rewrite MM_11. destruct (sh_scheme sh); unfold sset, sclr; tb_const; cbn [sem_http_ok]; btauto.
  Qed.
  Lemma parsed_for_https : for_https (p_mask p) = sem_https_ok (sh_scheme sh).
  Proof.
    unfold for_https. change M_FROM_HTTPS with (2 ^ 12). flag_bit W H l 12.
    fold l. rewrite MM_12. destruct (sh_scheme sh); unfold sset, sclr; tb_const; cbn [sem_https_ok]; btauto.
  Qed.
  Lemma parsed_badfilter : is_badfilter (p_mask p) = has_atom A_badfilter l.
  Proof.
    unfold is_badfilter. change M_BAD_FILTER with (2 ^ 27). flag_bit W H l 27.
    fold l. rewrite MM_27. destruct (sh_scheme sh); unfold sset, sclr; tb_const; btauto.
  Qed.
  Lemma parsed_exception : is_exception (p_mask p) = sh_exception sh.
  Proof.
    unfold is_exception. change M_IS_EXCEPTION with (2 ^ 22). flag_bit W H l 22.
    fold l. rewrite MM_22. destruct (sh_scheme sh); unfold sset, sclr; tb_const; btauto.
  Qed.
  Lemma parsed_unmatched : has_flag (p_mask p) M_UNMATCHED = false.
  Proof.
    change M_UNMATCHED with (2 ^ 25). flag_bit W H l 25.
    fold l. rewrite MM_25. destruct (sh_scheme sh); unfold sset, sclr; tb_const; btauto.
  Qed.
  Lemma parsed_match_case : has_flag (p_mask p) M_MATCH_CASE = has_atom A_matchcase l.
  Proof.
    change M_MATCH_CASE with (2 ^ 14). flag_bit W H l 14.
    fold l. rewrite MM_14. destruct (sh_scheme sh); unfold sset, sclr; tb_const; btauto.
  Qed.

  (* type options: mask test = class test *)
  Lemma parsed_allowed_type r :
    allowed_type (p_mask p) r = l0_type_ok (sem_allowed sh l) (sh_exception sh) (rq_type r).
  Proof.
    unfold allowed_type, l0_type_ok. rewrite request_class_agrees, parsed_exception.
    destruct (l0_class_of_request (rq_type r)) as [c|] eqn:E.
    - rewrite (parsed_type_bits h sh opts p W H c). fold l. f_equal. f_equal.
      destruct (rq_type r); inversion E; subst; reflexivity.
    - rewrite parsed_unmatched. destruct (rq_type r); try discriminate E. reflexivity.
  Qed.

  Lemma parsed_party_ok r :
    party_ok (p_mask p) r = l0_party_ok (sem_third_ok l) (sem_first_ok l) (rq_third r).
  Proof. unfold party_ok, l0_party_ok. rewrite parsed_third_party, parsed_first_party. reflexivity. Qed.

  (* F3: the class on which the code's scheme test is weaker than the L0 sentence *)
  Definition f3_class (r : request) : bool :=
    match sh_scheme sh with SP_http | SP_https | SP_httpstar => negb (rq_http r) && negb (rq_https r) | _ => false end.

  Lemma parsed_scheme_ok r :
    rq_http r && rq_https r = false -> f3_class r = false ->
    scheme_ok (p_mask p) r = l0_scheme_ok (sh_scheme sh) (scheme_of_request r).
  Proof.
    unfold scheme_ok, f3_class, scheme_of_request. rewrite parsed_for_http, parsed_for_https.
    destruct (sh_scheme sh), (rq_http r), (rq_https r); cbn; intros; congruence.
  Qed.

  (* the L0 sentence for http and https requests *)
  Lemma parsed_scheme_ok_http r :
    xorb (rq_http r) (rq_https r) = true ->
    scheme_ok (p_mask p) r = l0_scheme_ok (sh_scheme sh) (scheme_of_request r).
  Proof.
    intros X. apply parsed_scheme_ok; unfold f3_class;
      destruct (sh_scheme sh), (rq_http r), (rq_https r); cbn in *; congruence.
  Qed.

  Theorem parsed_rule_l0 raw_type schema src third :
    let r := from_detailed_parameters h raw_type schema src third in
    inj_on h (names_of (sem_domains true opts None) ++ host_chain src) ->
    inj_on h (names_of (sem_domains false opts None) ++ host_chain src) ->
    f3_class r = false ->
    rule_check_options p r =
      negb (has_atom A_badfilter l)
      && l0_type_ok (sem_allowed sh l) (sh_exception sh) (rq_type r)
      && l0_scheme_ok (sh_scheme sh) (scheme_of_request r)
      && l0_party_ok (sem_third_ok l) (sem_first_ok l) third
      && l0_domains_ok (sem_domains true opts None) (sem_domains false opts None)
                       (if is_nil src then None else Some src).
  Proof.
    intros r I1 I2 F.
    rewrite (parsed_rule_check_spec h sh opts p r H).
    rewrite parsed_badfilter, parsed_allowed_type, parsed_party_ok.
    assert (Hx : rq_http r && rq_https r = false).
    { unfold r, from_detailed_parameters. destruct (is_nil schema); [reflexivity|].
      cbn [rq_http rq_https]. destruct (str_eqb schema (bs "http")); reflexivity. }
    rewrite (parsed_scheme_ok r Hx F).
    assert (Hs : rq_src r = source_hostname_hashes h src).
    { unfold r, from_detailed_parameters. destruct (is_nil schema); reflexivity. }
    assert (Ht : rq_third r = third).
    { unfold r, from_detailed_parameters. destruct (is_nil schema); reflexivity. }
    rewrite Hs, Ht, (parsed_rule_domains_l0 h sh opts p src H I1 I2). reflexivity.
  Qed.
End ParsedFlags.

(* parse_rule_options = parse the text, validate, build *)
Theorem parse_rule_options_inv h sh s p : parse_rule_options h sh (Some s) = POk p ->
  exists opts, parse_filter_options s = POk opts /\ forallb wf_optb opts = true
               /\ validate_options opts = POk tt /\ build_rule h sh opts = POk p.
Proof.
  unfold parse_rule_options. destruct (parse_filter_options s) as [opts|e] eqn:E; [|discriminate].
  destruct (validate_options opts) as [[]|e] eqn:V; [|discriminate].
  intros H. exists opts. repeat split; auto. apply (parse_filter_options_wf s). exact E.
Qed.

(* a line without `$` *)
Lemma parse_rule_options_none h sh p : parse_rule_options h sh None = POk p -> build_rule h sh [] = POk p.
Proof. intros H. exact H. Qed.

(* ========================================================================================== *)
(* 10. requests: supported schemes                                                            *)
(* ========================================================================================== *)
Definition supported_schemes : list str := [[]; bs "http"; bs "https"; bs "ws"; bs "wss"]%string.

Theorem is_supported_iff h raw_type schema src third :
  rq_supported (from_detailed_parameters h raw_type schema src third) = mem_str schema supported_schemes.
Proof.
  unfold from_detailed_parameters, supported_schemes. destruct schema as [|c s]; [reflexivity|].
  cbn [is_nil mem_str rq_supported]. change (str_eqb (c :: s) []) with false. cbn [orb].
  destruct (str_eqb (c :: s) (bs "http")), (str_eqb (c :: s) (bs "https")),
    (str_eqb (c :: s) (bs "ws")), (str_eqb (c :: s) (bs "wss")); reflexivity.
Qed.

Theorem unsupported_never {R} (default : R) (rest : request -> R) r :
  rq_supported r = false -> check_parameterised default rest r = default.
Proof. intros H. unfold check_parameterised. rewrite H. reflexivity. Qed.

(* websocket schemes force the request type *)
Lemma ws_forces_type h raw_type schema src third :
  mem_str schema [bs "ws"; bs "wss"]%string = true ->
  rq_type (from_detailed_parameters h raw_type schema src third) = RT_Websocket.
Proof.
  intros M. cbn [mem_str] in M. rewrite orb_false_r in M.
  apply orb_true_iff in M as [M|M]; apply str_eqb_eq in M; subst schema; reflexivity.
Qed.

(* ========================================================================================== *)
(* 11. F3 witness and examples                                                                *)
(* ========================================================================================== *)
Definition H0 (s : str) : N := fold_left (fun a c => (a * 131 + c) mod 18446744073709551629) s 7.

Definition f3_shape : shape := mkShape false false false false false SP_http.      (* |http:// *)
Definition f3_request : request :=
  from_detailed_parameters H0 (bs "websocket") (bs "ws") (bs "a.com") true.      (* ws://x.com/.. *)

(* the faithful model lets the rule `|http://` apply to a websocket request although the L0
   scheme sentence is false: finding F3 *)
Theorem scheme_refuted :
  exists sh r p, build_rule H0 sh [] = POk p /\ rq_supported r = true
    /\ rule_check_options p r = true
    /\ l0_scheme_ok (sh_scheme sh) (scheme_of_request r) = false.
Proof. exists f3_shape, f3_request. eexists. repeat split; vm_compute; reflexivity. Qed.

Lemma inj_on_check h l :
  forallb (fun a => forallb (fun b => negb (N.eqb (h a) (h b)) || str_eqb a b) l) l = true -> inj_on h l.
Proof.
  intros C a b Ha Hb E.
  pose proof (proj1 (forallb_forall _ _) (proj1 (forallb_forall _ _) C a Ha) b Hb) as X.
  rewrite E, N.eqb_refl in X. cbn in X. apply str_eqb_eq. exact X.
Qed.

(* hypotheses of the conditional theorems are satisfiable on non-trivial inputs *)
Example ex_check_options_spec :
  let od := Some [3; 5; 12] in let odu := Some 15 in let ond := Some [6] in let ondu := Some 6 in
  osorted od /\ osorted ond /\ union_consistent od odu /\ union_consistent ond ondu
  /\ check_options M_DEFAULT_OPTIONS od odu ond ondu (mkReq RT_Script false true true true (Some [9; 5])) = true
  /\ check_options M_DEFAULT_OPTIONS od odu ond ondu (mkReq RT_Script false true true true (Some [6; 5])) = false.
Proof.
  cbv zeta. repeat split; try reflexivity.
  - apply (strongly_sorted_nth [3; 5; 12]). repeat constructor; lia.
  - apply (strongly_sorted_nth [6]). repeat constructor.
Qed.

Definition ex_text : str := bs "script,~image,domain=a.com|~sub.a.com,3p".
Definition ex_shape : shape := mkShape false false false false false SP_none.
Example ex_parsed_rule :
  exists opts p,
    parse_filter_options ex_text = POk opts /\ build_rule H0 ex_shape opts = POk p
    /\ parse_rule_options H0 ex_shape (Some ex_text) = POk p
    /\ forallb wf_optb opts = true
    /\ sem_domains true opts None = Some [bs "a.com"] /\ sem_domains false opts None = Some [bs "sub.a.com"]
    /\ inj_on H0 ([bs "a.com"] ++ host_chain (bs "x.sub.a.com"))
    /\ inj_on H0 ([bs "sub.a.com"] ++ host_chain (bs "x.sub.a.com"))
    /\ rule_check_options p (from_detailed_parameters H0 (bs "script") (bs "https") (bs "www.a.com") true) = true
    /\ rule_check_options p (from_detailed_parameters H0 (bs "script") (bs "https") (bs "x.sub.a.com") true) = false
    /\ rule_check_options p (from_detailed_parameters H0 (bs "image") (bs "https") (bs "www.a.com") true) = false.
Proof.
  eexists. eexists. split; [vm_compute; reflexivity|]. split; [vm_compute; reflexivity|].
  split; [vm_compute; reflexivity|]. split; [reflexivity|]. split; [reflexivity|]. split; [reflexivity|].
  split; [apply inj_on_check; vm_compute; reflexivity|].
  split; [apply inj_on_check; vm_compute; reflexivity|].
  repeat split; vm_compute; reflexivity.
Qed.

Example ex_unsupported :
  rq_supported (from_detailed_parameters H0 (bs "image") (bs "ftp") (bs "a.com") true) = false
  /\ rq_supported (from_detailed_parameters H0 (bs "image") (bs "wss") (bs "a.com") true) = true.
Proof. split; reflexivity. Qed.
