(* Struct_Matchers_Proofs.v — tie between the pattern matchers of src/filters/network_matchers.rs as
   the translator extracts them on every run (Generated.MatchGen: the dispatch of `check_pattern`
   as a decision list over the mask, the predicate of each of the four plain matchers, the offset
   the regex matchers hand on, and for each of the five hostname-anchored matchers the must-end
   condition handed to `anchored_hostname_end` and what is tested behind the occurrence) and the
   hand-written C02_Model.check_pattern_sh.
   [interp_check_pattern] walks the decision list and runs the extracted description of the chosen
   matcher over the model's helpers (anchored_hostname_end, get_url_after_anchor, get_url,
   regex_manager_matches); a callee that is not described is stuck (None).
   [interp_check_pattern_is_model]: for every mask shape, pattern list, rule hostname and request
   the interpretation is never stuck and IS check_pattern_sh.  A swapped branch of the dispatch,
   `starts_with` where `ends_with` was meant, a must-end condition with `||` for `&&`, "no pattern"
   no longer matching, or another start offset for the regex changes the generated data and breaks
   the proof. *)
From Coq Require Import String.
From Adb Require Import Base Generated C02_Model.
Import MatchGen.
Local Open Scope string_scope.
Local Open Scope list_scope.

Fixpoint assoc {A} (k : string) (l : list (string * A)) : option A :=
  match l with
  | [] => None
  | (k', v) :: r => if String.eqb k' k then Some v else assoc k r
  end.

Definition atom_val (sh : shape) (fs : list str) (a : matom) : bool :=
  match a with
  | A_hn => s_hn sh | A_rx => s_rx sh | A_cr => s_cr sh | A_la => s_la sh | A_ra => s_ra sh
  | A_empty => nullb fs
  end.
Fixpoint mval (sh : shape) (fs : list str) (f : mform) : bool :=
  match f with
  | MTrue => true
  | MAtom a => atom_val sh fs a
  | MNot g => negb (mval sh fs g)
  | MAnd a b => mval sh fs a && mval sh fs b
  | MOr a b => mval sh fs a || mval sh fs b
  end.

(* `hay.contains(f)` / `hay.ends_with(f)` / `hay.starts_with(f)` / `hay == f` *)
Definition pred_val (p : pred) (f hay : str) : bool :=
  match p with
  | P_contains => containsb f hay
  | P_ends_with => suffixb f hay
  | P_starts_with => prefixb f hay
  | P_eq => str_eqb hay f
  end.

Section WithRegex.
  Variable re_ok : str -> bool.
  Variable re_match : str -> str -> bool.

  (* "no pattern = match", otherwise some pattern satisfies the predicate on get_url(match_case) *)
  Definition interp_simple (p : pred) (sh : shape) (fs : list str) (r : request) : bool :=
    if nullb fs then true else existsb (fun f => pred_val p f (get_url r (s_mc sh))) fs.

  (* check_pattern_regex_filter_at: the regex manager sees request_url[start_from..] *)
  Definition interp_regex_at (sh : shape) (fs : list str) (r : request) (start_from : nat) : bool :=
    regex_manager_matches re_ok re_match sh fs (drop start_from (get_url r (s_mc sh))).

  Definition interp_call (name : string) (sh : shape) (fs : list str) (hostname : option str)
             (r : request) : option bool :=
    match assoc name simple_matchers with
    | Some p => Some (interp_simple p sh fs r)
    | None =>
    if String.eqb name "check_pattern_regex_filter"
    then (if regex_sees_url_from_offset then Some (interp_regex_at sh fs r (N.to_nat regex_start)) else None)
    else
    match assoc name hostname_matchers with
    | None => None
    | Some (must_end, tail) =>
        match hostname with
        | None => Some false
        | Some h =>
            match anchored_hostname_end h (r_host r) (s_wild sh) (mval sh fs must_end) with
            | None => Some false
            | Some anchor_end =>
                let url := get_url r (s_mc sh) in
                let after := get_url_after_anchor url (r_host r) anchor_end in
                match tail with
                | T_regex_after => Some (interp_regex_at sh fs r (length url - length after))
                | T_empty_true_else_call c =>
                    if nullb fs then Some true
                    else match assoc c simple_matchers with
                         | Some p => Some (interp_simple p sh fs r)
                         | None => None
                         end
                | T_empty_true_else_any p =>
                    if nullb fs then Some true
                    else Some (existsb (fun f => pred_val p f after) fs)
                end
            end
        end
    end
    end.

  Fixpoint interp_dispatch (d : list (mform * string)) (sh : shape) (fs : list str)
           (hostname : option str) (r : request) : option bool :=
    match d with
    | [] => None
    | (c, name) :: rest =>
        if mval sh fs c then interp_call name sh fs hostname r
        else interp_dispatch rest sh fs hostname r
    end.

  Definition interp_check_pattern := interp_dispatch dispatch.

  (* each described matcher is the model's function of the same name *)
  Lemma simple_plain sh fs r :
    interp_call "check_pattern_plain_filter_filter" sh fs None r =
    Some (check_pattern_plain_filter_filter sh fs r).
  Proof. reflexivity. Qed.
  Lemma simple_right sh fs r h :
    interp_call "check_pattern_right_anchor_filter" sh fs h r =
    Some (check_pattern_right_anchor_filter sh fs r).
  Proof. reflexivity. Qed.
  Lemma simple_left sh fs r h :
    interp_call "check_pattern_left_anchor_filter" sh fs h r =
    Some (check_pattern_left_anchor_filter sh fs r).
  Proof. reflexivity. Qed.
  Lemma simple_left_right sh fs r h :
    interp_call "check_pattern_left_right_anchor_filter" sh fs h r =
    Some (check_pattern_left_right_anchor_filter sh fs r).
  Proof. reflexivity. Qed.
  Lemma regex_plain sh fs r h :
    interp_call "check_pattern_regex_filter" sh fs h r =
    Some (check_pattern_regex_filter re_ok re_match sh fs r).
  Proof. reflexivity. Qed.

  Lemma host_regex sh fs r h :
    interp_call "check_pattern_hostname_anchor_regex_filter" sh fs h r =
    Some (check_pattern_hostname_anchor_regex_filter re_ok re_match sh fs h r).
  Proof.
    unfold interp_call, check_pattern_hostname_anchor_regex_filter, at_hostname_end.
    cbn [assoc simple_matchers hostname_matchers String.eqb Ascii.eqb Bool.eqb mval atom_val].
    destruct h as [h|]; [|reflexivity].
    destruct (anchored_hostname_end h (r_host r) (s_wild sh) (s_la sh && negb (nullb fs))); reflexivity.
  Qed.
  Lemma host_right sh fs r h :
    interp_call "check_pattern_hostname_right_anchor_filter" sh fs h r =
    Some (check_pattern_hostname_right_anchor_filter sh fs h r).
  Proof.
    unfold interp_call, check_pattern_hostname_right_anchor_filter.
    cbn [assoc simple_matchers hostname_matchers String.eqb Ascii.eqb Bool.eqb mval atom_val].
    destruct h as [h|]; [|reflexivity].
    destruct (anchored_hostname_end h (r_host r) (s_wild sh) (nullb fs || s_la sh)); [|reflexivity].
    destruct (nullb fs) eqn:E; [reflexivity|].
    unfold interp_simple, check_pattern_right_anchor_filter. now rewrite E.
  Qed.
  Lemma host_left_right sh fs r h :
    interp_call "check_pattern_hostname_left_right_anchor_filter" sh fs h r =
    Some (check_pattern_hostname_left_right_anchor_filter sh fs h r).
  Proof.
    unfold interp_call, check_pattern_hostname_left_right_anchor_filter, at_hostname_end.
    cbn [assoc simple_matchers hostname_matchers String.eqb Ascii.eqb Bool.eqb mval atom_val].
    destruct h as [h|]; [|reflexivity].
    destruct (anchored_hostname_end h (r_host r) (s_wild sh) (s_la sh && negb (nullb fs))); [|reflexivity].
    destruct (nullb fs); reflexivity.
  Qed.
  Lemma host_left sh fs r h :
    interp_call "check_pattern_hostname_left_anchor_filter" sh fs h r =
    Some (check_pattern_hostname_left_anchor_filter sh fs h r).
  Proof.
    unfold interp_call, check_pattern_hostname_left_anchor_filter, at_hostname_end.
    cbn [assoc simple_matchers hostname_matchers String.eqb Ascii.eqb Bool.eqb mval atom_val].
    destruct h as [h|]; [|reflexivity].
    destruct (anchored_hostname_end h (r_host r) (s_wild sh) (s_la sh && negb (nullb fs))); [|reflexivity].
    destruct (nullb fs); reflexivity.
  Qed.
  Lemma host_plain sh fs r h :
    interp_call "check_pattern_hostname_anchor_filter" sh fs h r =
    Some (check_pattern_hostname_anchor_filter sh fs h r).
  Proof.
    unfold interp_call, check_pattern_hostname_anchor_filter, at_hostname_end.
    cbn [assoc simple_matchers hostname_matchers String.eqb Ascii.eqb Bool.eqb mval atom_val].
    destruct h as [h|]; [|reflexivity].
    destruct (anchored_hostname_end h (r_host r) (s_wild sh) (s_la sh && negb (nullb fs))); [|reflexivity].
    destruct (nullb fs); reflexivity.
  Qed.

  Theorem interp_check_pattern_is_model sh fs hostname r :
    interp_check_pattern sh fs hostname r = Some (check_pattern_sh re_ok re_match sh fs hostname r).
  Proof.
    unfold interp_check_pattern, dispatch, check_pattern_sh.
    destruct sh as [hn rx cr la ra wild mc].
    destruct hn, rx, cr, la, ra;
      cbn [interp_dispatch mval atom_val s_hn s_rx s_cr s_la s_ra andb orb negb];
      first [ apply host_regex | apply host_left_right | apply host_right | apply host_left
            | apply host_plain | apply regex_plain | apply simple_left_right | apply simple_left
            | apply simple_right | reflexivity ].
  Qed.

  Corollary interp_check_pattern_never_stuck sh fs hostname r :
    interp_check_pattern sh fs hostname r <> None.
  Proof. rewrite interp_check_pattern_is_model. discriminate. Qed.
End WithRegex.

(* the dispatch covers every mask: its last entry is unconditional *)
Theorem dispatch_total : exists name, last dispatch (MTrue, "") = (MTrue, name).
Proof. eexists. reflexivity. Qed.

(* ====================================================================================== *)
(* anchored_hostname_end (Generated.AnchorGen)                                             *)
(* ====================================================================================== *)
From Adb Require Import BaseProofs C02_Proofs.
From Coq Require Import ZifyBool ZifyNat ZifyN.
Import AnchorGen.

(* an atom of the label tests; indexing `hostname.as_bytes()[k]` outside the hostname (or at
   `match_index - 1` with match_index = 0) panics in Rust: the evaluation is stuck (None) *)
Definition hatom_val (fh host : str) (w e : bool) (mi me : nat) (a : hatom) : option bool :=
  match a with
  | H_at_start => Some (Nat.eqb mi 0)
  | H_filter_starts_dot => Some (head_is DOT fh)
  | H_prev_is_dot =>
      if Nat.eqb mi 0 then None
      else if Nat.ltb (mi - 1) (length host) then Some (N.eqb (nthb host (mi - 1)) DOT) else None
  | H_at_end => Some (Nat.eqb me (length host))
  | H_must_end => Some e
  | H_wildcard => Some w
  | H_filter_ends_dot => Some (last_is DOT fh)
  | H_next_is_dot => if Nat.ltb me (length host) then Some (N.eqb (nthb host me) DOT) else None
  end.
(* `||` and `&&` evaluate their right operand only when needed *)
Fixpoint hval (fh host : str) (w e : bool) (mi me : nat) (f : hform) : option bool :=
  match f with
  | HAtom a => hatom_val fh host w e mi me a
  | HNot g => match hval fh host w e mi me g with Some b => Some (negb b) | None => None end
  | HAnd a b => match hval fh host w e mi me a with
                | Some true => hval fh host w e mi me b
                | Some false => Some false
                | None => None
                end
  | HOr a b => match hval fh host w e mi me a with
               | Some true => Some true
               | Some false => hval fh host w e mi me b
               | None => None
               end
  end.

Fixpoint interp_ahe_loop (fuel : nat) (fh host : str) (w e : bool) (search_from : nat)
  : option (option nat) :=
  match fuel with
  | O => Some None
  | S fuel' =>
      if Nat.leb (search_from + length fh) (length host) then
        match find_sub fh (drop search_from host) with
        | None => if not_found_is_none then Some None else None
        | Some j =>
            let mi := (search_from + j)%nat in
            let me := (mi + length fh)%nat in
            match hval fh host w e mi me starts_label, hval fh host w e mi me ends_label with
            | Some s, Some t =>
                if s && t then Some (Some me)
                else interp_ahe_loop fuel' fh host w e (mi + N.to_nat search_step)
            | _, _ => None
            end
        end
      else Some None
  end.

Definition interp_ahe (fh host : str) (w e : bool) : option (option nat) :=
  if Nat.eqb (length fh) 0 then Some (Some (N.to_nat empty_filter_hostname_answer))
  else if Nat.ltb (length host) (length fh) then (if longer_than_hostname_is_none then Some None else None)
  else interp_ahe_loop (S (length host)) fh host w e (N.to_nat search_start).

Lemma interp_ahe_loop_is_model fh host w e : forall fuel sf,
  interp_ahe_loop fuel fh host w e sf = Some (ahe_loop fuel fh host w e sf).
Proof.
  induction fuel as [|fuel IH]; intros sf; [reflexivity|].
  cbn [interp_ahe_loop ahe_loop].
  destruct (Nat.leb (sf + length fh) (length host)) eqn:Hle; [|reflexivity].
  apply Nat.leb_le in Hle.
  destruct (find_sub fh (drop sf host)) as [j|] eqn:F; [|reflexivity].
  destruct (find_sub_split _ _ _ F) as (pre & post & Hs & Hpre).
  assert (Hlen : (j + length fh <= length host - sf)%nat).
  { rewrite <- (drop_length sf host), Hs, !app_length. lia. }
  set (mi := (sf + j)%nat). set (me := (mi + length fh)%nat).
  assert (Hme : (me <= length host)%nat) by (unfold me, mi; lia).
  assert (Es : hval fh host w e mi me starts_label =
               Some (Nat.eqb mi 0 || head_is DOT fh || N.eqb (nthb host (mi - 1)) DOT)).
  { unfold starts_label. cbn [hval hatom_val].
    destruct (Nat.eqb mi 0) eqn:E0; [reflexivity|]. cbn [orb].
    destruct (head_is DOT fh); [reflexivity|]. cbn [orb].
    apply Nat.eqb_neq in E0.
    replace (Nat.ltb (mi - 1) (length host)) with true by (symmetry; apply Nat.ltb_lt; lia).
    destruct (N.eqb (nthb host (mi - 1)) DOT); reflexivity. }
  assert (Ee : hval fh host w e mi me ends_label =
               Some (Nat.eqb me (length host)
                     || (negb e && (w || last_is DOT fh || N.eqb (nthb host me) DOT)))).
  { unfold ends_label. cbn [hval hatom_val].
    destruct (Nat.eqb me (length host)) eqn:E0; [reflexivity|]. cbn [orb].
    destruct e; [reflexivity|]. cbn [negb andb].
    destruct w; [reflexivity|]. cbn [orb].
    destruct (last_is DOT fh); [reflexivity|]. cbn [orb].
    apply Nat.eqb_neq in E0.
    replace (Nat.ltb me (length host)) with true by (symmetry; apply Nat.ltb_lt; lia).
    destruct (N.eqb (nthb host me) DOT); reflexivity. }
  rewrite Es, Ee.
  match goal with |- (if ?c then _ else _) = _ => destruct c end; [reflexivity|].
  unfold search_step. change (N.to_nat 1) with 1%nat. rewrite Nat.add_1_r. apply IH.
Qed.

Theorem interp_ahe_is_model fh host w e :
  interp_ahe fh host w e = Some (anchored_hostname_end fh host w e).
Proof.
  unfold interp_ahe, anchored_hostname_end.
  destruct (Nat.eqb (length fh) 0); [reflexivity|].
  destruct (Nat.ltb (length host) (length fh)); [reflexivity|].
  apply interp_ahe_loop_is_model.
Qed.

(* no index of the label tests is ever out of range *)
Corollary interp_ahe_never_stuck fh host w e : interp_ahe fh host w e <> None.
Proof. rewrite interp_ahe_is_model. discriminate. Qed.

(* ====================================================================================== *)
(* get_url_after_hostname / get_url_after_anchor (Generated.AfterGen)                      *)
(* ====================================================================================== *)
Import AfterGen.

(* the two functions are matched literally by the translator (one spelling each); what is read off
   the source are the constants: the scheme separator and how far behind it the authority starts,
   the bytes that end the authority, the userinfo separator and the step over it.  The same
   computation with the EXTRACTED constants: *)
Definition interp_host_search_start (url : str) : nat :=
  let authority_start := match find_sub scheme_sep url with
                         | Some i => (i + N.to_nat scheme_sep_skip)%nat
                         | None => N.to_nat no_scheme_start end in
  let rest := drop authority_start url in
  let authority_len := match find_first_of authority_terminators rest with
                       | Some i => i
                       | None => (length url - authority_start)%nat
                       end in
  match rfind_byte userinfo_sep (take authority_len rest) with
  | Some i => (authority_start + i + N.to_nat userinfo_skip)%nat
  | None => authority_start
  end.
Definition interp_get_url_after_anchor (url request_hostname : str) (anchor_end : nat) : str :=
  if Nat.eqb anchor_end 0 then (if zero_anchor_is_whole_url then url else [])
  else
    let hss := interp_host_search_start url in
    let rest := (length (get_url_after_hostname (drop hss url) request_hostname)
                 + (length request_hostname - anchor_end))%nat in
    if Nat.leb rest (length url) then drop (length url - rest) url else [].

Theorem interp_host_search_start_is_model url : interp_host_search_start url = host_search_start url.
Proof. reflexivity. Qed.
Theorem interp_get_url_after_anchor_is_model url h a :
  interp_get_url_after_anchor url h a = get_url_after_anchor url h a.
Proof. reflexivity. Qed.

(* ====================================================================================== *)
(* RegexManager (Generated.RegexMgrGen)                                                    *)
(* ====================================================================================== *)
Import RegexMgrGen.

Definition mask_method (sh : shape) (m : string) : option bool :=
  if String.eqb m "is_right_anchor" then Some (s_ra sh)
  else if String.eqb m "is_left_anchor" then Some (s_la sh)
  else if String.eqb m "is_complete_regex" then Some (s_cr sh)
  else if String.eqb m "is_regex" then Some (s_rx sh)
  else if String.eqb m "is_hostname_anchor" then Some (s_hn sh)
  else None.
(* what make_regexp hands to the parameter [p] of compile_regex *)
Definition param_flag (sh : shape) (p : string) : option bool :=
  match assoc p make_regexp_args with Some m => mask_method sh m | None => None end.

Section RegexMgr.
  Variable re_ok : str -> bool.
  Variable re_match : str -> str -> bool.
  (* RegexManager::matches on a fresh manager, with the arguments as make_regexp passes them *)
  Definition interp_regex_manager_matches (sh : shape) (fs : list str) (s : str) : option bool :=
    if negb (String.eqb no_regex_when "!is_regex&&!is_complete_regex") then None else
    if negb (s_rx sh) && negb (s_cr sh) then Some true else
    match assoc "filters" make_regexp_args, param_flag sh "is_right_anchor", param_flag sh "is_left_anchor",
          param_flag sh "is_complete_regex" with
    | Some f, Some ra, Some la, Some cr =>
        if String.eqb f "filters" then Some (is_match re_ok re_match (compile_regex fs ra la cr) s) else None
    | _, _, _, _ => None
    end.
  Theorem interp_regex_manager_matches_is_model sh fs s :
    interp_regex_manager_matches sh fs s = Some (regex_manager_matches re_ok re_match sh fs s).
  Proof.
    unfold interp_regex_manager_matches, regex_manager_matches.
    destruct (negb (s_rx sh) && negb (s_cr sh)); reflexivity.
  Qed.
End RegexMgr.

(* a discarded entry is rebuilt by the very expression that builds a new entry: the regex kept at a
   key is a function of (mask, filters) of the rule, however often it was discarded *)
Theorem recreate_is_create : recreate_expr = create_expr.
Proof. reflexivity. Qed.
Theorem regex_lifecycle_shape :
  discard_sets_regex_none = true /\ clear_empties_map = true /\
  compile_regex_params = ["filters"; "is_right_anchor"; "is_left_anchor"; "is_complete_regex"].
Proof. repeat split. Qed.
