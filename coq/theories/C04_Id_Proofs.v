(* C04_Id_Proofs.v — the sequence of symbols compute_filter_id hashes is an INJECTIVE encoding of
   the fields (modifier text, included domains, excluded domains, filter, hostname): different
   fields give different symbol sequences, so an id collision between different rules can only
   come from the 64-bit hash itself (the property's own no-collision assumption).  Before /repo
   b71a5fe the sections were hashed back to back and `domain=x.net` / `domain=~x.net`, or
   `||.com/adx` / `||x.com/ad`, had the same sequence (findings F20 and its domain-sign sibling). *)
From Coq Require Import Lia.
From Adb Require Import Base BaseProofs Generated Hashing Net_Model.

(* symbols of the fields themselves never are markers: rule text has no control characters, and a
   domain hash in 1..4 is a hash collision with nothing *)
Definition plain_sym (x : N) : bool := N.ltb 4 x.
Definition plain (l : list N) : bool := forallb plain_sym l.
Definition oplain (o : option (list N)) : bool := match o with Some l => plain l | None => true end.

(* decoder: cut at the first non-plain symbol *)
Fixpoint span_plain (l : list N) : list N * list N :=
  match l with
  | [] => ([], [])
  | x :: r => if plain_sym x then let '(a, b) := span_plain r in (x :: a, b) else ([], l)
  end.
Definition take_sec (marker : N) (l : list N) : option (list N) * list N :=
  match l with
  | x :: r => if N.eqb x marker then let '(a, b) := span_plain r in (Some a, b) else (None, l)
  | [] => (None, [])
  end.
Definition decode (l : list N) : list N * option (list N) * option (list N) * option (list N) * option (list N) :=
  let '(m, l) := span_plain l in
  let '(d, l) := take_sec 1 l in
  let '(nd, l) := take_sec 2 l in
  let '(f, l) := take_sec 3 l in
  let '(h, _) := take_sec 4 l in
  (m, d, nd, f, h).

Definition stops (r : list N) : Prop := match r with [] => True | x :: _ => plain_sym x = false end.
Lemma span_plain_app a r : plain a = true -> stops r -> span_plain (a ++ r) = (a, r).
Proof.
  induction a as [|x a IH]; cbn [app]; intros Ha Hr.
  - destruct r as [|y r]; [reflexivity|]. cbn in Hr. cbn [span_plain]. rewrite Hr. reflexivity.
  - cbn [plain forallb] in Ha. apply andb_true_iff in Ha as [Hx Ha]. cbn [span_plain]. rewrite Hx.
    fold (plain a) in Ha. rewrite (IH Ha Hr). reflexivity.
Qed.

Lemma sec_stops {A} k (o : option (list A)) inj r : (k <= 4)%N -> stops r -> stops (sec k o inj ++ r).
Proof.
  intros Hk Hr. destruct o as [l|]; cbn [sec app]; [|exact Hr].
  cbn. unfold plain_sym. apply N.ltb_ge. exact Hk.
Qed.

Lemma take_sec_hit k l r : plain l = true -> stops r ->
  take_sec k (sec k (Some l) (fun x => x) ++ r) = (Some l, r).
Proof.
  intros Hl Hr. cbn [sec app take_sec]. rewrite N.eqb_refl. rewrite map_id.
  rewrite (span_plain_app l r Hl Hr). reflexivity.
Qed.
Lemma take_sec_miss k r : (match r with [] => True | x :: _ => x <> k end) ->
  take_sec k (sec k (@None (list N)) (fun x => x) ++ r) = (None, r).
Proof.
  intros H. cbn [sec app]. destruct r as [|x r]; [reflexivity|]. cbn [take_sec].
  destruct (N.eqb_spec x k); [contradiction|reflexivity].
Qed.

(* the first symbol of what follows a section is a later marker (or the end) *)
Definition later (k : N) (r : list N) : Prop := match r with [] => True | x :: _ => (k < x <= 4)%N end.
Lemma later_stops k r : later k r -> stops r.
Proof. destruct r as [|x r]; cbn; [auto|]. intros H. unfold plain_sym. apply N.ltb_ge. lia. Qed.
Lemma later_ne k r : later k r -> match r with [] => True | x :: _ => x <> k end.
Proof. destruct r as [|x r]; cbn; [auto|]. lia. Qed.
Lemma sec_later {A} j k (o : option (list A)) inj r : (j < k <= 4)%N -> later k r -> later j (sec k o inj ++ r).
Proof.
  intros Hk Hr. destruct o as [l|]; cbn [sec app].
  - cbn. lia.
  - destruct r as [|x r]; cbn in *; [auto|lia].
Qed.

Lemma take_sec_any k o r : oplain o = true -> later k r ->
  take_sec k (sec k o (fun x => x) ++ r) = (o, r).
Proof.
  intros Ho Hr. destruct o as [l|].
  - apply take_sec_hit; [exact Ho|]. eapply later_stops; eauto.
  - apply take_sec_miss. apply later_ne. exact Hr.
Qed.

Definition mod_syms (m : option str) : list N := match m with Some t => t | None => [] end.

Theorem decode_id_symbols m f h d nd :
  plain (mod_syms m) = true -> oplain d = true -> oplain nd = true -> oplain f = true -> oplain h = true ->
  decode (id_symbols m f h d nd) = (mod_syms m, d, nd, f, h).
Proof.
  intros Hm Hd Hnd Hf Hh. unfold decode, id_symbols. fold (mod_syms m).
  assert (L4 : later 4 (@nil N)) by exact I.
  assert (L3 : later 3 (sec 4 h (fun x => x))).
  { rewrite <- (app_nil_r (sec 4 h _)). apply sec_later; [lia|exact L4]. }
  assert (L2 : later 2 (sec 3 f (fun x => x) ++ sec 4 h (fun x => x))) by (apply sec_later; [lia|exact L3]).
  assert (L1 : later 1 (sec 2 nd (fun x => x) ++ sec 3 f (fun x => x) ++ sec 4 h (fun x => x))) by (apply sec_later; [lia|exact L2]).
  assert (L0 : later 0 (sec 1 d (fun x => x) ++ sec 2 nd (fun x => x) ++ sec 3 f (fun x => x) ++ sec 4 h (fun x => x))) by (apply sec_later; [lia|exact L1]).
  rewrite (span_plain_app _ _ Hm (later_stops _ _ L0)).
  rewrite (take_sec_any 1 d _ Hd L1).
  rewrite (take_sec_any 2 nd _ Hnd L2).
  rewrite (take_sec_any 3 f _ Hf L3).
  rewrite <- (app_nil_r (sec 4 h _)). rewrite (take_sec_any 4 h [] Hh L4). reflexivity.
Qed.

(* injectivity: equal symbol sequences => equal fields *)
Theorem id_symbols_inj m f h d nd m' f' h' d' nd' :
  plain (mod_syms m) = true -> oplain d = true -> oplain nd = true -> oplain f = true -> oplain h = true ->
  plain (mod_syms m') = true -> oplain d' = true -> oplain nd' = true -> oplain f' = true -> oplain h' = true ->
  id_symbols m f h d nd = id_symbols m' f' h' d' nd' ->
  mod_syms m = mod_syms m' /\ d = d' /\ nd = nd' /\ f = f' /\ h = h'.
Proof.
  intros A1 A2 A3 A4 A5 B1 B2 B3 B4 B5 E.
  pose proof (decode_id_symbols m f h d nd A1 A2 A3 A4 A5) as D1.
  pose proof (decode_id_symbols m' f' h' d' nd' B1 B2 B3 B4 B5) as D2.
  rewrite E in D1. rewrite D1 in D2. inversion D2. repeat split; reflexivity.
Qed.

(* the two former collisions are told apart *)
Example domain_sign_distinguished :
  id_symbols None (Some (bs "ads")) None (Some [77]) None <> id_symbols None (Some (bs "ads")) None None (Some [77]).
Proof. vm_compute. discriminate. Qed.
Example filter_hostname_split_distinguished :
  id_symbols None (Some (bs "/adx")) (Some (bs ".com")) None None
  <> id_symbols None (Some (bs "/ad")) (Some (bs "x.com")) None None.
Proof. vm_compute. discriminate. Qed.

(* get_id is the 33-multiplicative hash of that sequence, started from the mask *)
Theorem get_id_is_hash_of_symbols f :
  get_id f = fold_left id_step (id_symbols (rmod f) (fpart_view (rfilter f)) (rhost f) (rdomains f) (rnotdomains f))
                       (N.lxor (5408 * 33) (rmask f)).
Proof. reflexivity. Qed.
