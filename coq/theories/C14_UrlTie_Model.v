(* C14_UrlTie_Model.v — the request built by the C12 model of Request::new, seen by the network
   matcher (C03 / Net_Model).  Definitions only (proofs: C14_UrlTie_Proofs.v).

   C12_Model.request carries every field of the Rust struct; C03_Model.request only the fields
   that option handling and the index lookup read.  [req_of] forgets the others.  The probes of
   the request are its source-hostname hashes followed by request_tokens
   (Request::get_tokens_for_match); with the C12 tokenizer oracle instantiated by the concrete
   tokenizer ([url_tokens]) these are Net_Model.probes of the lower-cased NORMALISED URL, while
   Blocker::apply_removeparam rewrites original_url, the string the caller passed. *)
From Adb Require Import Base Generated Hashing Net_Model.
From Adb Require C03_Model C12_Model.

Definition req_of (q : C12_Model.request) : C03_Model.request :=
  C03_Model.mkReq (C12_Model.request_type_of q) (C12_Model.is_http q) (C12_Model.is_https q)
                  (C12_Model.is_supported q) (C12_Model.is_third_party q)
                  (C12_Model.source_hostname_hashes q).

(* utils::tokenize_pooled on the lower-cased URL: the hashes of its tokens *)
Definition url_tokens (h : str -> N) (ul : str) : list N := map h (tokenize ul).

(* Request::get_tokens_for_match *)
Definition tokens_for_match (q : C12_Model.request) : list N :=
  (match C12_Model.source_hostname_hashes q with Some l => l | None => [] end)
  ++ C12_Model.request_tokens q.

(* Request::new with the concrete tokenizer *)
Definition request_new (idna : str -> option str) (psl : str -> nat * nat) (h : str -> N)
           (url source_url request_type : str) : res (option C12_Model.request) :=
  C12_Model.Request_new idna psl h (url_tokens h) url source_url request_type.

(* ------------------------------------------------------------------ examples *)
Definition ut_idna : str -> option str := fun _ => None.         (* never consulted: ASCII hosts *)
Definition ut_psl (host : str) : nat * nat := (O, length host).
Definition ut_source : str := bs "https://www.site.org/".
Definition ut_type : str := bs "xmlhttprequest".

(* upper-case scheme and host: the normalised URL differs from the original *)
Definition ut_url : str := bs "HTTPS://A.com/p?x=1&utm_source=z#f".
(* leading blanks, one slash and a backslash, userinfo, a TAB inside the host, trailing blank and
   LF: the lower-cased normalised URL is not the lower-cased original *)
Definition ut_url_hard : str :=
  bs "  HTTPS:/\u:p@A" ++ [9] ++ bs ".com/p?x=1&utm_source=z#f " ++ [10].
(* the value of `ref` is a blank that the scanner trims *)
Definition ut_url_blank : str := bs "https://a.com/p?ref= ".

(* the request of an example (the default is never reached: see ut_*_new in the proofs) *)
Definition req_or_default (r : res (option C12_Model.request)) : C12_Model.request :=
  match r with
  | Ok (Some q) => q
  | _ => C12_Model.Build_request RT_Other false false false false [] [] None [] [] []
  end.
Definition ut_q : C12_Model.request :=
  req_or_default (request_new ut_idna ut_psl seahash ut_url ut_source ut_type).
Definition ut_q_hard : C12_Model.request :=
  req_or_default (request_new ut_idna ut_psl seahash ut_url_hard ut_source ut_type).
Definition ut_q_blank : C12_Model.request :=
  req_or_default (request_new ut_idna ut_psl seahash ut_url_blank ut_source ut_type).
(* a TAB inside a parameter key, a non-ASCII key, a blank and a quote in a key: the scanner copies
   them (no removal, no percent-encoding after the host) *)
Definition ut_url_tab : str := bs "https://a.com/p?re" ++ [9] ++ bs "f=1&" ++ [195; 169] ++ bs "=2&a ""b=3&ref=4".
Definition ut_q_tab : C12_Model.request :=
  req_or_default (request_new ut_idna ut_psl seahash ut_url_tab ut_source ut_type).
