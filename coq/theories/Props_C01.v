From Adb Require Import Base Net_Model.
Theorem C01_placeholder : True. Proof. exact I. Qed.
Print Assumptions C01_placeholder.
