(* Props_C01.v — pinned statements for C01: the engine's verdict equals the rule-by-rule
   evaluation of the loaded list.  The hash function [h], the per-rule matcher [matches] and the
   request's probe list [pr] are arbitrary (universally quantified): the theorems hold for every
   hash, every matcher and every request.  [TG] is the token guarantee ("a rule that matches a
   request has a bucket-candidate group made of tokens the request probes"); it is the only place
   where the concrete tokenizer and matcher meet, it is monitored on every generated (rule,
   request) pair by the harness, and the four input classes on which the crate violates it are the
   known findings F2, F3, F4, F23 (props/C01.known.json). *)
From Adb Require Import Base Generated Hashing Net_Model Net_Proofs.
From Adb Require Struct_Tokenizer_Proofs.

(* The index never loses or invents a rule, whatever the histogram / bucket-size heuristics pick. *)
Theorem C01_new_well_indexed : forall h L, WellIndexed h (fl_new h L) L.
Proof. exact new_well_indexed. Qed.
Print Assumptions C01_new_well_indexed.

Theorem C01_add_well_indexed : forall h m L f,
  WellIndexed h m L -> WellIndexed h (fl_add h m f) (L ++ [f]).
Proof. exact add_well_indexed. Qed.
Print Assumptions C01_add_well_indexed.

(* No rule that does not match (or whose tag is off, or that is not in the list) is applied. *)
Theorem C01_check_all_sound : forall h matches pr m L tags f,
  WellIndexed h m L -> In f (check_all matches m pr tags) -> In f L /\ hit matches tags f = true.
Proof. exact check_all_sound. Qed.
Print Assumptions C01_check_all_sound.

(* No matching rule is lost. *)
Theorem C01_check_all_complete : forall h matches pr, In 0 pr -> forall m L tags f,
  WellIndexed h m L -> id_inj L -> In f L -> hit matches tags f = true -> covered h pr f ->
  In f (check_all matches m pr tags).
Proof. exact check_all_complete. Qed.
Print Assumptions C01_check_all_complete.

Theorem C01_check_some_iff : forall h matches pr, In 0 pr -> forall m L tags,
  WellIndexed h m L -> id_inj L -> TG h matches pr L ->
  (check matches m pr tags <> None <-> existsb (hit matches tags) L = true).
Proof. exact check_some_iff. Qed.
Print Assumptions C01_check_some_iff.

(* blocked / important / exception-present / filter-present of the engine = the documented
   precedence applied to the rule-by-rule hits, for every list, tag set and request. *)
Theorem C01_engine_eq_rule_by_rule : forall h matches pr, In 0 pr -> forall L T,
  id_inj L -> TG h matches pr L ->
  blocker_check matches pr (tags_with_set h (blocker_new h L) T) = spec_verdict matches L T.
Proof. exact engine_eq_spec. Qed.
Print Assumptions C01_engine_eq_rule_by_rule.

(* The same for the subset query (Engine::check_network_request_subset: matched_rule = an earlier
   engine already matched, force_check_exceptions): only important rules add a blocking match after
   an earlier match, exceptions are consulted whenever something blocks un-importantly or either
   flag is set, and they read the enabled tag set on every path. *)
Theorem C01_engine_eq_rule_by_rule_subset : forall h matches pr, In 0 pr -> forall mr fc L T,
  id_inj L -> TG h matches pr L ->
  blocker_check_p matches pr mr fc (tags_with_set h (blocker_new h L) T) = spec_verdict_p matches mr fc L T.
Proof. exact engine_eq_spec_p. Qed.
Print Assumptions C01_engine_eq_rule_by_rule_subset.

Theorem C01_subset_query_flags_off : forall matches pr b,
  blocker_check_p matches pr false false b = blocker_check matches pr b.
Proof. exact blocker_check_p_ff. Qed.
Print Assumptions C01_subset_query_flags_off.

(* The rule sets feeding redirect, rewritten URL, CSP and generichide are exact as well. *)
Theorem C01_redirect_hits_exact : forall h matches pr, In 0 pr -> forall L T f,
  id_inj L -> TG h matches pr L ->
  (In f (redirect_hits matches pr (tags_with_set h (blocker_new h L) T)) <-> In f (spec_redirect_hits matches L)).
Proof. exact redirect_hits_exact. Qed.
Print Assumptions C01_redirect_hits_exact.

Theorem C01_removeparam_hits_exact : forall h matches pr, In 0 pr -> forall L T f,
  id_inj L -> TG h matches pr L ->
  (In f (removeparam_hits matches pr (tags_with_set h (blocker_new h L) T)) <-> In f (spec_removeparam_hits matches L)).
Proof. exact removeparam_hits_exact. Qed.
Print Assumptions C01_removeparam_hits_exact.

Theorem C01_csp_hits_exact : forall h matches pr, In 0 pr -> forall L T f,
  id_inj L -> TG h matches pr L ->
  (In f (csp_hits matches pr (tags_with_set h (blocker_new h L) T)) <-> In f (spec_csp_hits matches L T)).
Proof. exact csp_hits_exact. Qed.
Print Assumptions C01_csp_hits_exact.

Theorem C01_generic_hide_exact : forall h matches pr, In 0 pr -> forall L T,
  id_inj L -> TG h matches pr L ->
  generic_hide_hit matches pr (tags_with_set h (blocker_new h L) T) = spec_generic_hide matches L T.
Proof. exact generic_hide_exact. Qed.
Print Assumptions C01_generic_hide_exact.

(* the request always probes bucket 0 *)
Theorem C01_probes_zero : forall h src url, In 0 (probes h src url).
Proof.
  intros h src url. unfold probes, request_tokens. apply in_or_app. right. apply in_or_app. right. left. reflexivity.
Qed.
Print Assumptions C01_probes_zero.

(* ------------------------------------------------------------------ the token guarantee, proved
   from the concrete tokenizer for plain patterns (no hostname, domain option, scheme restriction
   or regex): every token tokenize_filter keeps is a whole token of every URL the plain matcher
   accepts, so TG is a theorem, not a premise, for such rules.  ([tku] is the tokenizer without the
   127-token cut-off; below the cut-off it is the tokenizer.) *)
From Adb Require Import Tok_Proofs.

Theorem C01_tokenizer_below_cutoff : forall sf sl s i cur prec n,
  (n + length (tku sf sl s i cur prec) <= TOKENS_MAX)%nat -> tk sf sl s i cur prec n = tku sf sl s i cur prec.
Proof. exact tk_eq_tku. Qed.
Print Assumptions C01_tokenizer_below_cutoff.

(* what the filter tokenizer keeps: maximal runs of token bytes, longer than one byte, delimited by
   non-'*' bytes, not at an unanchored start or end of the pattern *)
Theorem C01_tokenize_filter_sound : forall sf sl s t,
  In t (tku sf sl s 0 None None) -> Good sf sl s t.
Proof. exact tokenize_filter_sound. Qed.
Print Assumptions C01_tokenize_filter_sound.

(* every such run of a URL is one of its tokens *)
Theorem C01_tokenize_complete : forall x t, Good false false x t -> In t (tku false false x 0 None None).
Proof. exact tokenize_complete. Qed.
Print Assumptions C01_tokenize_complete.

Theorem C01_occurrence_tokens_covered : forall sf sl s pre post t,
  (sf = false -> pre = []) -> (sl = false -> post = []) ->
  In t (tku sf sl s 0 None None) -> In t (tku false false (pre ++ s ++ post) 0 None None).
Proof. exact occurrence_tokens_covered. Qed.
Print Assumptions C01_occurrence_tokens_covered.

Theorem C01_token_guarantee_plain : forall h f s src url,
  plain_rule f s ->
  plain_match (is_left_anchor f) (is_right_anchor f) s url = true ->
  (length (tku false false url 0 None None) <= TOKENS_MAX)%nat ->
  (length (tku (negb (is_left_anchor f)) (negb (is_right_anchor f)) s 0 None None) <= TOKENS_MAX)%nat ->
  covered h (probes h src url) f.
Proof. exact token_guarantee_plain. Qed.
Print Assumptions C01_token_guarantee_plain.

(* engine = rule-by-rule with NO token-guarantee premise, for lists whose matching rules are plain *)
Theorem C01_engine_eq_rule_by_rule_plain : forall h matches src url L T,
  id_inj L -> within_cutoff false false url -> plain_hits matches url L ->
  blocker_check matches (probes h src url) (tags_with_set h (blocker_new h L) T) = spec_verdict matches L T.
Proof. exact engine_eq_spec_plain. Qed.
Print Assumptions C01_engine_eq_rule_by_rule_plain.

(* ------------------------------------------------------------------ the token guarantee for
   hostname-anchored rules without pattern (||host, ||host^ — the bulk of real lists), proved from
   the concrete tokenizer and C02's label-boundary characterisation of anchored_hostname_end *)
From Adb Require Import Tok_Host_Proofs.
From Adb Require C02_Model.

Theorem C01_hostname_tokens_covered : forall hn host e o upre upost t,
  C02_Model.anchor_at hn host false e o ->
  ends_delim upre -> starts_delim upost ->
  In t (tku false false hn 0 None None) ->
  In t (tku false false (upre ++ host ++ upost) 0 None None).
Proof. exact hostname_tokens_covered. Qed.
Print Assumptions C01_hostname_tokens_covered.

Theorem C01_token_guarantee_host : forall h f hn src url host e k,
  host_rule f hn -> hn <> [] ->
  C02_Model.anchored_hostname_end hn host false e = Some k ->
  host_in_url url host ->
  within_cutoff false false url -> within_cutoff false false hn ->
  covered h (probes h src url) f.
Proof. exact token_guarantee_host. Qed.
Print Assumptions C01_token_guarantee_host.

(* ------------------------------------------------------------------ the token guarantee for
   REGEX-TYPE patterns (filter texts with '*' and/or '^', IS_REGEX set, not /re/ rules; no hostname,
   no domain option, both schemes).  [C02_Model.search la ra (C02_Model.toks s) url] is what
   check_pattern_regex_filter computes for the rule (C02_matcher_spec, under the regex crate's
   contract re_std).  Premises on the URL: [all_ascii url] (dropped: finding F4) and
   [~ In STAR url] (dropped: F23); both are shown necessary by the two _refuted witnesses. *)
From Adb Require Import Tok_Regex_Proofs.

(* MAIN LEMMA: every token tokenize_filter keeps for a regex-type pattern (skip_first = not
   left-anchored, skip_last = not right-anchored) is a whole token of every ASCII, '*'-free URL
   that the pattern matches *)
Theorem C01_regex_tokens_covered : forall la ra s u t,
  C02_Model.search la ra (C02_Model.toks s) u = true ->
  all_ascii u = true -> ~ In STAR u ->
  In t (tku (negb la) (negb ra) s 0 None None) ->
  In t (tku false false u 0 None None).
Proof. exact regex_tokens_covered. Qed.
Print Assumptions C01_regex_tokens_covered.

(* without the ASCII premise the lemma is false (F4: /foo^ vs https://x.com/fooé) *)
Theorem C01_regex_tokens_non_ascii_refuted :
  exists la ra s u t,
    C02_Model.search la ra (C02_Model.toks s) u = true /\ all_ascii u = false /\ ~ In STAR u /\
    In t (tku (negb la) (negb ra) s 0 None None) /\ ~ In t (tku false false u 0 None None).
Proof. exact regex_tokens_non_ascii_refuted. Qed.
Print Assumptions C01_regex_tokens_non_ascii_refuted.

(* without the no-'*' premise the lemma is false (F23: ads^foo| vs https://ads.net/ads*foo) *)
Theorem C01_regex_tokens_star_in_url_refuted :
  exists la ra s u t,
    C02_Model.search la ra (C02_Model.toks s) u = true /\ all_ascii u = true /\ In STAR u /\
    In t (tku (negb la) (negb ra) s 0 None None) /\ ~ In t (tku false false u 0 None None).
Proof. exact regex_tokens_star_in_url_refuted. Qed.
Print Assumptions C01_regex_tokens_star_in_url_refuted.

(* the token guarantee for a regex-type rule *)
Theorem C01_token_guarantee_regex : forall h f s src url,
  Tok_Regex_Proofs.regex_rule f s ->
  Tok_Regex_Proofs.regex_match f s url = true ->
  all_ascii url = true -> ~ In STAR url ->
  within_cutoff false false url ->
  within_cutoff (negb (is_left_anchor f)) (negb (is_right_anchor f)) s ->
  covered h (probes h src url) f.
Proof. exact token_guarantee_regex. Qed.
Print Assumptions C01_token_guarantee_regex.

(* C02's model of check_pattern on such a rule is the token semantics of its text, given the regex
   crate's contract for the rule's regex text *)
Theorem C01_check_pattern_is_regex_match : forall re_ok re_match f s r,
  Tok_Regex_Proofs.regex_rule f s -> flag f M_MATCH_CASE = false ->
  C02_Model.re_std re_ok re_match
    (C02_Model.translate s (is_left_anchor f) (is_right_anchor f))
    (is_left_anchor f) (is_right_anchor f) (C02_Model.toks s) ->
  C02_Model.no_nl (C02_Model.r_url r) = true ->
  C02_Model.check_pattern re_ok re_match (rmask f) [s] None r
  = Tok_Regex_Proofs.regex_match f s (lower_str (C02_Model.r_url r)).
Proof. exact check_pattern_is_regex_match. Qed.
Print Assumptions C01_check_pattern_is_regex_match.

(* the token guarantee with the premise on the modelled code path check_pattern ->
   check_pattern_regex_filter -> RegexManager::matches -> compile_regex *)
Theorem C01_token_guarantee_regex_check_pattern : forall re_ok re_match h f s src r,
  Tok_Regex_Proofs.regex_rule f s -> flag f M_MATCH_CASE = false ->
  C02_Model.re_std re_ok re_match
    (C02_Model.translate s (is_left_anchor f) (is_right_anchor f))
    (is_left_anchor f) (is_right_anchor f) (C02_Model.toks s) ->
  C02_Model.no_nl (C02_Model.r_url r) = true ->
  C02_Model.check_pattern re_ok re_match (rmask f) [s] None r = true ->
  all_ascii (lower_str (C02_Model.r_url r)) = true -> ~ In STAR (lower_str (C02_Model.r_url r)) ->
  within_cutoff false false (lower_str (C02_Model.r_url r)) ->
  within_cutoff (negb (is_left_anchor f)) (negb (is_right_anchor f)) s ->
  covered h (probes h src (lower_str (C02_Model.r_url r))) f.
Proof. exact token_guarantee_regex_check_pattern. Qed.
Print Assumptions C01_token_guarantee_regex_check_pattern.

(* TG is a theorem for lists whose matching rules are plain or regex-type *)
Theorem C01_TG_plain_or_regex_list : forall h matches src url L,
  within_cutoff false false url -> all_ascii url = true -> ~ In STAR url ->
  Tok_Regex_Proofs.plain_or_regex_hits matches url L -> TG h matches (probes h src url) L.
Proof. exact TG_plain_or_regex_list. Qed.
Print Assumptions C01_TG_plain_or_regex_list.

(* engine = rule-by-rule with NO token-guarantee premise, for lists whose matching rules are plain
   or regex-type *)
Theorem C01_engine_eq_rule_by_rule_plain_or_regex : forall h matches src url L T,
  id_inj L -> within_cutoff false false url -> all_ascii url = true -> ~ In STAR url ->
  Tok_Regex_Proofs.plain_or_regex_hits matches url L ->
  blocker_check matches (probes h src url) (tags_with_set h (blocker_new h L) T) = spec_verdict matches L T.
Proof. exact engine_eq_spec_plain_or_regex. Qed.
Print Assumptions C01_engine_eq_rule_by_rule_plain_or_regex.

Theorem C01_engine_eq_rule_by_rule_subset_plain_or_regex : forall h matches src url mr fc L T,
  id_inj L -> within_cutoff false false url -> all_ascii url = true -> ~ In STAR url ->
  Tok_Regex_Proofs.plain_or_regex_hits matches url L ->
  blocker_check_p matches (probes h src url) mr fc (tags_with_set h (blocker_new h L) T)
  = spec_verdict_p matches mr fc L T.
Proof. exact engine_eq_spec_p_plain_or_regex. Qed.
Print Assumptions C01_engine_eq_rule_by_rule_subset_plain_or_regex.

(* ------------------------------------------------------------------ the WHOLE answer of
   check_parameterised / get_csp_directives (Engine_Model.engine_check / engine_csp: index +
   precedence combiner + C13 redirect choice and resource gate + C14 rewrite + C15 merge) against
   the rule-by-rule reading.  [matches] is the per-rule matcher, L the loaded list, T the enabled
   tags; no bucket, token or probe occurs on the right-hand sides. *)
From Adb Require Import Engine_Model Engine_Proofs.
From Adb Require C13_Model C14_Model C15_Model.
From Coq Require Import ZArith.

Theorem C01_unsupported_scheme_default : forall matches pr url st mr fc b,
  engine_check matches pr false url st mr fc b = default_result.
Proof. exact engine_unsupported. Qed.
Print Assumptions C01_unsupported_scheme_default.

Theorem C01_result_bits : forall h matches pr, In 0 pr -> forall url st L T, id_inj L -> TG h matches pr L ->
  forall mr fc,
  let r := engine_check matches pr true url st mr fc (tags_with_set h (blocker_new h L) T) in
  {| v_matched := r_matched r; v_important := r_important r; v_exception := r_exception r; v_filter := r_filter r |}
  = spec_verdict_p matches mr fc L T.
Proof. exact engine_bits. Qed.
Print Assumptions C01_result_bits.

(* rewritten URL = the C14 rewrite of the request URL by the parameter names of exactly the
   removeparam rules that match, none when an important rule matched *)
Theorem C01_result_rewritten_url : forall h matches pr, In 0 pr -> forall url st L T, id_inj L -> TG h matches pr L ->
  forall mr fc,
  r_rewritten (engine_check matches pr true url st mr fc (tags_with_set h (blocker_new h L) T))
  = C14_Model.rewritten_url (v_important (spec_verdict_p matches mr fc L T)) (spec_param_names matches L) url.
Proof. exact engine_rewritten. Qed.
Print Assumptions C01_result_rewritten_url.

(* redirect = the data URL of a non-excepted offer of maximal priority among exactly the redirect
   rules that match (which one among equal priorities is not specified) ... *)
Theorem C01_result_redirect_some : forall h matches pr, In 0 pr -> forall url st L T, id_inj L -> TG h matches pr L ->
  forall mr fc u,
  r_redirect (engine_check matches pr true url st mr fc (tags_with_set h (blocker_new h L) T)) = Some u ->
  exists name p, C13_Model.candidate (spec_redirects matches L) name p
    /\ (forall n' p', C13_Model.candidate (spec_redirects matches L) n' p' -> (p' <= p)%Z)
    /\ C13_Model.get_redirect_resource st name = Some u.
Proof. exact engine_redirect_some. Qed.
Print Assumptions C01_result_redirect_some.

(* ... and there is none only if nothing is offered un-excepted, or the best offer's resource is
   not loaded / not redirectable / needs a permission *)
Theorem C01_result_redirect_none : forall h matches pr, In 0 pr -> forall url st L T, id_inj L -> TG h matches pr L ->
  forall mr fc,
  r_redirect (engine_check matches pr true url st mr fc (tags_with_set h (blocker_new h L) T)) = None ->
  (forall name p, ~ C13_Model.candidate (spec_redirects matches L) name p)
  \/ exists name p, C13_Model.candidate (spec_redirects matches L) name p
       /\ (forall n' p', C13_Model.candidate (spec_redirects matches L) n' p' -> (p' <= p)%Z)
       /\ C13_Model.get_redirect_resource st name = None.
Proof. exact engine_redirect_none. Qed.
Print Assumptions C01_result_redirect_none.

(* ... and in full (since /repo 8ebf406 ties are broken by resource name, so the choice is a
   function of the set of matching redirect rules): the redirect IS the C13 answer over exactly the
   redirect rules that match, rule by rule *)
Theorem C01_result_redirect : forall h matches pr, In 0 pr -> forall url st L T, id_inj L -> TG h matches pr L ->
  forall mr fc,
  r_redirect (engine_check matches pr true url st mr fc (tags_with_set h (blocker_new h L) T))
  = C13_Model.redirect_of st (spec_redirects matches L).
Proof. exact engine_redirect_eq. Qed.
Print Assumptions C01_result_redirect.

(* CSP = the same directive set as the C15 merge over exactly the active csp rules that match *)
Theorem C01_result_csp : forall h matches pr, In 0 pr -> forall rtype L T, id_inj L -> TG h matches pr L ->
  C15_Model.same_policy (engine_csp matches pr rtype (tags_with_set h (blocker_new h L) T))
                        (C15_Model.get_csp_for rtype (spec_csp_rules matches L T)).
Proof. exact engine_csp_policy. Qed.
Print Assumptions C01_result_csp.

(* the three consumers depend only on the SET of delivered rules *)
Theorem C01_rewrite_set_only : forall n1 n2 url,
  (forall k, In k n1 <-> In k n2) -> C14_Model.apply_removeparam n1 url = C14_Model.apply_removeparam n2 url.
Proof. exact apply_removeparam_set_only. Qed.
Print Assumptions C01_rewrite_set_only.

(* ------------------------------------------------------------------ translator tie: the control
   structure of src/blocker.rs as extracted on this run (Generated.BlockerGen, written by
   tools/gen_fragments/c01_blocker_structure.py) denotes the hand-written model *)
From Coq Require Import String.
From Adb Require Import Struct_Proofs.
Import Generated.BlockerGen.

Theorem C01_src_category_chain : forall f c e,
  run_chain (pv_of f c e) new_chain = cat_name (category_of f).
Proof. exact new_chain_is_category_of. Qed.
Print Assumptions C01_src_category_chain.

Theorem C01_src_skip_is_not_live : forall L f,
  In f (live L) <-> In f L /\ eval (pv_of f (memN (get_id f) (badfilter_ids L)) false) new_skip = false.
Proof. exact live_is_not_skipped. Qed.
Print Assumptions C01_src_skip_is_not_live.

Theorem C01_src_redirects_membership : new_pre = [(PAtom A_is_redirect, "redirects"%string)].
Proof. exact new_pre_is_redirects. Qed.
Print Assumptions C01_src_redirects_membership.

Theorem C01_src_query_kinds :
  map (fun s => match s with (_, l, k, _) => (l, k) end) tag_sites
  = [("importants", "check"); ("filters_tagged", "check"); ("filters", "check"); ("exceptions", "check");
     ("exceptions", "check"); ("redirects", "check_all"); ("csp", "check_all"); ("generic_hide", "check");
     ("removeparam_filters", "check_all")]%string.
Proof. exact query_kinds_are_model. Qed.
Print Assumptions C01_src_query_kinds.

(* ------------------------------------------------------------------ the token guarantee extended
   (Tok_Ext_Model.v / Tok_Ext_Proofs.v) to rules whose token group is any combination of
   plain-pattern tokens (with or without hostname anchor: /path, ||host/path, ||host/path|),
   hostname tokens, the single domain of $domain=d, and the http / https scheme token.
   To merge: append this block to Props_C01.v (it needs the imports already made there for the
   Tok_Proofs / Tok_Host_Proofs blocks, plus the three lines below).
   Premises that remain, each an explicit hypothesis:
     - rq_src r <> None for rules stored by their domain option      (finding F2, *_no_source_refuted)
     - the request is http or https for scheme-restricted rules       (finding F3, *_ws_refuted)
     - scheme_tie: is_http / is_https describe the URL's prefix       (C12; false only for a
       scheme-less URL through Request::preparsed, *_tie_needed_refuted)
     - host_at / host_in_url: the hostname is where C12 puts it in the URL, between delimiters,
       and is its own first occurrence after "://" and the credentials
     - within_cutoff: URL, pattern and hostname below the 127-token cut-off
     - no_param_fallback: the $removeparam parameter-name fallback is not the rule's group
     - regex / complete-regex / AnyOf patterns are outside pat_hit (their matcher is not modelled
       here); rules of those kinds are covered only when they have no tokenized pattern. *)
From Adb Require Import Tok_Ext_Model Tok_Ext_Proofs.
From Adb Require C02_Model C03_Model.

(* get_tokens is the four parts, the $removeparam fallback and the per-domain dispatch *)
Theorem C01_get_tokens_parts : forall h f,
  get_tokens h f =
  let toks := base_tokens h f in
  let toks := if nullb toks && is_removeparam f then
                match rmod f with
                | Some p => if valid_param p then map h (tokenize (lower_str p)) else []
                | None => []
                end
              else toks in
  match nullb toks, rdomains f, rnotdomains f with
  | true, Some ds, None => map (fun d => [d]) ds
  | _, _, _ => [toks ++ tok_scheme h f]
  end.
Proof. exact get_tokens_parts. Qed.
Print Assumptions C01_get_tokens_parts.

(* the non-regex paths of C02's check_pattern are the matchers used below *)
Theorem C01_check_pattern_plain : forall re_ok re_match sh s hostname r,
  C02_Model.s_hn sh = false -> C02_Model.s_rx sh = false -> C02_Model.s_cr sh = false ->
  C02_Model.check_pattern_sh re_ok re_match sh [s] hostname r
  = plain_match (C02_Model.s_la sh) (C02_Model.s_ra sh) s (C02_Model.get_url r (C02_Model.s_mc sh)).
Proof. exact check_pattern_plain. Qed.
Print Assumptions C01_check_pattern_plain.

Theorem C01_check_pattern_hostpat : forall re_ok re_match sh s hn r,
  C02_Model.s_hn sh = true -> C02_Model.s_rx sh = false ->
  C02_Model.check_pattern_sh re_ok re_match sh [s] (Some hn) r
  = hostpat_match (C02_Model.s_la sh) (C02_Model.s_ra sh) (C02_Model.s_wild sh) hn s
      (C02_Model.get_url r (C02_Model.s_mc sh)) (C02_Model.r_host r).
Proof. exact check_pattern_hostpat. Qed.
Print Assumptions C01_check_pattern_hostpat.

Theorem C01_check_pattern_host_only : forall re_ok re_match sh hn r,
  C02_Model.s_hn sh = true -> C02_Model.s_rx sh = false ->
  C02_Model.check_pattern_sh re_ok re_match sh [] (Some hn) r = true ->
  exists e k, C02_Model.anchored_hostname_end hn (C02_Model.r_host r) (C02_Model.s_wild sh) e = Some k.
Proof. exact check_pattern_host_only. Qed.
Print Assumptions C01_check_pattern_host_only.

(* (1) ||host + plain pattern.  A kept first token (skip_first off = left anchor) is safe when the
   occurrence starts the URL or the pattern starts with a non-token byte; after an anchored host
   the pattern starts where the URL's host ends, i.e. at a delimiter. *)
Theorem C01_occurrence_tokens_covered_gen : forall sf sl s pre post t,
  (sf = false -> pre = [] \/ head_blocked s) -> (sl = false -> post = []) ->
  In t (tku sf sl s 0 None None) -> In t (tku false false (pre ++ s ++ post) 0 None None).
Proof. exact occurrence_tokens_covered_gen. Qed.
Print Assumptions C01_occurrence_tokens_covered_gen.

Theorem C01_hostpat_pattern_tokens_covered : forall la ra w hn s url host t,
  hn <> [] -> hostpat_match la ra w hn s url host = true -> host_at url host ->
  In t (tku (negb la) (negb ra) s 0 None None) -> In t (tku false false url 0 None None).
Proof. exact hostpat_pattern_tokens_covered. Qed.
Print Assumptions C01_hostpat_pattern_tokens_covered.

Theorem C01_anchored_host_tokens_covered : forall hn host e k url t,
  hn <> [] -> C02_Model.anchored_hostname_end hn host false e = Some k -> host_in_url url host ->
  In t (tku false false hn 0 None None) -> In t (tku false false url 0 None None).
Proof. exact anchored_host_tokens_covered. Qed.
Print Assumptions C01_anchored_host_tokens_covered.

(* (2) the single-domain token: contract of the option check, no hypothesis besides the check *)
Theorem C01_domain_token_probed : forall h d odu hs url,
  C03_Model.included_rejects (Some [d]) odu (Some hs) = false -> In d (probes h (Some hs) url).
Proof. exact domain_token_probed. Qed.
Print Assumptions C01_domain_token_probed.

Theorem C01_check_options_domain_probed : forall h m d odu ond ondu r url,
  C03_Model.check_options m (Some [d]) odu ond ondu r = true -> C03_Model.rq_src r <> None ->
  In d (probes h (C03_Model.rq_src r) url).
Proof. exact check_options_domain_probed. Qed.
Print Assumptions C01_check_options_domain_probed.

(* F2: the premise rq_src r <> None cannot be dropped *)
Theorem C01_domain_token_no_source_refuted :
  exists (h : str -> N) m d r url,
    C03_Model.check_options m (Some [d]) None None None r = true /\ C03_Model.rq_src r = None /\
    ~ In d (probes h (C03_Model.rq_src r) url).
Proof. exact domain_token_no_source_refuted. Qed.
Print Assumptions C01_domain_token_no_source_refuted.

(* (3) the scheme token *)
Theorem C01_scheme_token_http : forall url,
  prefixb (bs "http:") url = true -> In (bs "http") (tku false false url 0 None None).
Proof. exact scheme_token_http. Qed.
Print Assumptions C01_scheme_token_http.

Theorem C01_scheme_token_https : forall url,
  prefixb (bs "https:") url = true -> In (bs "https") (tku false false url 0 None None).
Proof. exact scheme_token_https. Qed.
Print Assumptions C01_scheme_token_https.

Theorem C01_scheme_token_probed : forall h f r url,
  C03_Model.scheme_ok (rmask f) r = true ->
  C03_Model.rq_http r || C03_Model.rq_https r = true -> scheme_tie r url ->
  within_cutoff false false url ->
  incl (tok_scheme h f) (probes h (C03_Model.rq_src r) url).
Proof. exact scheme_token_probed. Qed.
Print Assumptions C01_scheme_token_probed.

(* F3: the premise "http or https request" cannot be dropped *)
Theorem C01_scheme_token_ws_refuted :
  exists m r url, C03_Model.for_http m = true /\ C03_Model.for_https m = false /\
    C03_Model.scheme_ok m r = true /\ C03_Model.rq_http r || C03_Model.rq_https r = false /\
    ~ In (bs "http") (tokenize url).
Proof. exact scheme_token_ws_refuted. Qed.
Print Assumptions C01_scheme_token_ws_refuted.

(* nor can scheme_tie: a scheme-less URL through Request::preparsed counts as https *)
Theorem C01_scheme_tie_needed_refuted :
  exists m r url, C03_Model.for_https m = true /\ C03_Model.for_http m = false /\
    C03_Model.scheme_ok m r = true /\ C03_Model.rq_https r = true /\ ~ scheme_tie r url /\
    ~ In (bs "https") (tokenize url).
Proof. exact scheme_tie_needed_refuted. Qed.
Print Assumptions C01_scheme_tie_needed_refuted.

(* (4) the combined token guarantee *)
Theorem C01_token_guarantee_ext : forall h f r odu ondu url host,
  no_param_fallback h f = true ->
  C03_Model.check_options (rmask f) (rdomains f) odu (rnotdomains f) ondu r = true ->
  (needs_source f = true -> C03_Model.rq_src r <> None) ->
  (scheme_restricted f = true -> C03_Model.rq_http r || C03_Model.rq_https r = true) ->
  scheme_tie r url ->
  pat_hit f url host ->
  within_cutoff false false url ->
  covered h (probes h (C03_Model.rq_src r) url) f.
Proof. exact token_guarantee_ext. Qed.
Print Assumptions C01_token_guarantee_ext.

Theorem C01_TG_ext_list : forall h matches r url host L,
  within_cutoff false false url -> web_request r url -> ext_hits h matches r url host L ->
  TG h matches (probes h (C03_Model.rq_src r) url) L.
Proof. exact TG_ext_list. Qed.
Print Assumptions C01_TG_ext_list.

(* engine = rule-by-rule with NO token-guarantee premise, for lists whose matching rules are in
   the extended class *)
Theorem C01_engine_eq_rule_by_rule_ext : forall h matches r url host L T,
  id_inj L -> within_cutoff false false url -> web_request r url -> ext_hits h matches r url host L ->
  blocker_check matches (probes h (C03_Model.rq_src r) url) (tags_with_set h (blocker_new h L) T)
  = spec_verdict matches L T.
Proof. exact engine_eq_spec_ext. Qed.
Print Assumptions C01_engine_eq_rule_by_rule_ext.

Theorem C01_engine_eq_rule_by_rule_subset_ext : forall h matches r url host mr fc L T,
  id_inj L -> within_cutoff false false url -> web_request r url -> ext_hits h matches r url host L ->
  blocker_check_p matches (probes h (C03_Model.rq_src r) url) mr fc (tags_with_set h (blocker_new h L) T)
  = spec_verdict_p matches mr fc L T.
Proof. exact engine_eq_spec_p_ext. Qed.
Print Assumptions C01_engine_eq_rule_by_rule_subset_ext.

(* ------------------------------------------------------------------ the 127-token cut-off is a
   real limit of the index (not an artefact of the proofs): a plain rule matches a URL, its only
   index token is a whole token of that URL, but lies beyond the cut-off of the request tokenizer
   and is therefore never probed.  C01's quantifier is restricted to URLs below the cut-off; the
   same input is C14's known finding C14_url_beyond_token_cutoff. *)
From Adb Require Import Tok_Cutoff_Witness.
Theorem C01_cutoff_needed_refuted :
  plain_match false false (bs "/zz9/") long_url = true
  /\ tokenize_filter (bs "/zz9/") true true = [bs "zz9"]
  /\ ~ In (bs "zz9") (tokenize long_url)
  /\ In (bs "zz9") (tku false false long_url 0 None None)
  /\ List.length (tokenize long_url) = TOKENS_MAX.
Proof. exact cutoff_needed_refuted. Qed.
Print Assumptions C01_cutoff_needed_refuted.

(* ------------------------------------------------------------------ translator tie: the control
   structure of NetworkFilter::get_tokens as extracted on this run (Generated.TokensGen),
   interpreted over the model's rule record, IS Net_Model.get_tokens — the function every token
   guarantee above is about *)
From Adb Require Struct_Tokens_Proofs.
Theorem C01_src_get_tokens_is_model : forall (h : str -> N) (f : rule),
  Struct_Tokens_Proofs.interp h f = get_tokens h f.
Proof. exact Struct_Tokens_Proofs.interp_is_model. Qed.
Print Assumptions C01_src_get_tokens_is_model.

Theorem C01_src_tokenizer_flags : forall f : rule,
  Struct_Tokens_Proofs.teval f false TokensGen.skip_first = negb (is_left_anchor f)
  /\ Struct_Tokens_Proofs.teval f false TokensGen.skip_last = negb (is_right_anchor f).
Proof. exact Struct_Tokens_Proofs.skip_flags. Qed.
Print Assumptions C01_src_tokenizer_flags.

(* ------------------------------------------------------------------ the token guarantee for
   hostname-anchored rules with a regex-type pattern (`||example.com/ads/*/banner^`), and ONE
   list-level theorem over the whole class of rules for which TG is now proved from the concrete
   tokenizer and matchers (Tok_HostRegex_Model.tg_class: everything except /re/ rules,
   $match-case, the $removeparam name fallback [see C14_engine_rewritten_mixed] and fused rules) *)
From Adb Require Import Tok_Ext_Model Tok_Ext_Proofs Tok_HostRegex_Model Tok_HostRegex_Proofs.
From Adb Require C03_Model.

Theorem C01_regex_tokens_covered_at : forall ra s pre suf t,
  C02_Model.m ra (C02_Model.toks s) suf -> all_ascii (pre ++ suf) = true -> ~ In STAR (pre ++ suf) ->
  head_blocked suf -> In t (tku false (negb ra) s 0 None None) -> In t (tku false false (pre ++ suf) 0 None None).
Proof. exact regex_tokens_covered_at. Qed.
Print Assumptions C01_regex_tokens_covered_at.

Theorem C01_hostregex_pattern_tokens_covered : forall la ra w hn s url host t,
  hostregex_match la ra w hn s url host = true -> host_at url host -> all_ascii url = true -> ~ In STAR url ->
  In t (tku (negb la) (negb ra) s 0 None None) -> In t (tku false false url 0 None None).
Proof. exact hostregex_pattern_tokens_covered. Qed.
Print Assumptions C01_hostregex_pattern_tokens_covered.

Theorem C01_check_pattern_hostregex : forall re_ok re_match sh (s hn : str) r,
  C02_Model.s_hn sh = true -> C02_Model.s_rx sh = true -> C02_Model.s_cr sh = false -> s <> [] ->
  C02_Model.re_std re_ok re_match (C02_Model.translate s (C02_Model.s_la sh) (C02_Model.s_ra sh)) (C02_Model.s_la sh) (C02_Model.s_ra sh) (C02_Model.toks s) ->
  C02_Model.no_nl (C02_Model.get_url r (C02_Model.s_mc sh)) = true ->
  C02_Model.check_pattern_sh re_ok re_match sh [s] (Some hn) r
  = hostregex_match (C02_Model.s_la sh) (C02_Model.s_ra sh) (C02_Model.s_wild sh) hn s (C02_Model.get_url r (C02_Model.s_mc sh)) (C02_Model.r_host r).
Proof. exact check_pattern_hostregex. Qed.
Print Assumptions C01_check_pattern_hostregex.

Theorem C01_token_guarantee_all : forall re_ok re_match h f rq r odu ondu,
  let url := lower_str (C02_Model.r_url r) in
  tg_class f = true -> options_ok f odu ondu rq = true -> pattern_ok re_ok re_match f r = true ->
  (forall s, rfilter f = FSimple s -> is_regex f = true ->
     C02_Model.re_std re_ok re_match (C02_Model.translate s (is_left_anchor f) (is_right_anchor f)) (is_left_anchor f) (is_right_anchor f) (C02_Model.toks s)) ->
  (needs_source f = true -> C03_Model.rq_src rq <> None) ->
  (scheme_restricted f = true -> C03_Model.rq_http rq || C03_Model.rq_https rq = true) ->
  scheme_tie rq url -> host_at url (C02_Model.r_host r) -> C02_Model.no_nl (C02_Model.r_url r) = true ->
  all_ascii url = true -> ~ In STAR url -> within_cutoff false false url ->
  covered h (probes h (C03_Model.rq_src rq) url) f.
Proof. exact token_guarantee_all. Qed.
Print Assumptions C01_token_guarantee_all.

Theorem C01_TG_all_list : forall re_ok re_match h matches rq r L,
  std_request rq r -> model_hits re_ok re_match matches rq r L -> regex_contract re_ok re_match L ->
  (forall f, In f L -> tg_class f = true) ->
  TG h matches (probes h (C03_Model.rq_src rq) (lower_str (C02_Model.r_url r))) L.
Proof. exact TG_all_list. Qed.
Print Assumptions C01_TG_all_list.

Theorem C01_TG_all_hits : forall re_ok re_match h matches rq r L,
  std_request rq r -> model_hits re_ok re_match matches rq r L -> regex_contract re_ok re_match L ->
  (forall f, In f L -> matches f = true -> tg_class f = true) ->
  TG h matches (probes h (C03_Model.rq_src rq) (lower_str (C02_Model.r_url r))) L.
Proof. exact TG_all_hits. Qed.
Print Assumptions C01_TG_all_hits.

Theorem C01_engine_eq_rule_by_rule_subset_all : forall re_ok re_match h matches rq r mr fc L T,
  id_inj L -> std_request rq r -> model_hits re_ok re_match matches rq r L -> regex_contract re_ok re_match L ->
  (forall f, In f L -> tg_class f = true) ->
  blocker_check_p matches (probes h (C03_Model.rq_src rq) (lower_str (C02_Model.r_url r))) mr fc (tags_with_set h (blocker_new h L) T)
  = spec_verdict_p matches mr fc L T.
Proof. exact engine_eq_spec_p_all. Qed.
Print Assumptions C01_engine_eq_rule_by_rule_subset_all.

(* a rule with a hostname but without the hostname-anchor flag (never built by the parser) matches
   every request yet is indexed under its hostname tokens: the class condition is necessary *)
Theorem C01_host_without_anchor_refuted : exists f rq r,
  rhost f <> None /\ flag f M_IS_HOSTNAME_ANCHOR = false /\ options_ok f None None rq = true /\
  pattern_ok (fun _ => true) (fun _ _ => false) f r = true /\
  ~ covered seahash (probes seahash (C03_Model.rq_src rq) (lower_str (C02_Model.r_url r))) f.
Proof. exact host_without_anchor_refuted. Qed.
Print Assumptions C01_host_without_anchor_refuted.

(* the batch theorems C01_result_* above as ONE equality of result records, unsupported scheme included *)
From Adb Require Import Engine_History_Model Engine_History_Proofs.
Theorem C01_whole_answer_record :
  forall (h : str -> N) (matches : rule -> bool) (pr : list N),
  In 0 pr ->
  forall (supported : bool) (url : str) (st : C13_Model.storage) (mr fc : bool) 
    (L : list rule) (T : list str),
  id_inj L ->
  TG h matches pr L ->
  engine_check matches pr supported url st mr fc (tags_with_set h (blocker_new h L) T) =
  spec_result matches supported url st mr fc L T.
Proof. exact batch_engine_check. Qed.
Print Assumptions C01_whole_answer_record.

(* ------------------------------------------------------------------ translator tie: the precedence
   logic of Blocker::check_parameterised as extracted on this run (Generated.CheckGen + the tag
   arguments of BlockerGen.tag_sites), interpreted over the model's blocker, IS blocker_check_p *)
From Adb Require Struct_Check_Proofs.
Theorem C01_src_check_is_model : forall (matches : rule -> bool) (pr : list N) (mr fc : bool) (b : blocker),
  Struct_Check_Proofs.interp_check matches pr mr fc b = blocker_check_p matches pr mr fc b.
Proof. exact Struct_Check_Proofs.interp_check_is_model. Qed.
Print Assumptions C01_src_check_is_model.

Theorem C01_src_unsupported_returns_default :
  CheckGen.returns_default_when = CheckGen.QNot (CheckGen.QAtom CheckGen.Q_supported).
Proof. exact Struct_Check_Proofs.unsupported_returns_default. Qed.
Print Assumptions C01_src_unsupported_returns_default.

(* ------------------------------------------------------------------ the class of rules with a proved
   token guarantee, completed by /re/ rules (with or without $match-case): they contribute no
   pattern token, so only the domain / scheme tokens are at stake — no regex contract, no ASCII,
   no cut-off premise.  Outside tg_class2 remain only fused rules (C05: fusion preserves the hits),
   the $removeparam name fallback (C14: TG_rp) and shapes the parser never builds. *)
From Adb Require Import Tok_Complete_Model Tok_Complete_Proofs.
From Adb Require C11_Model Tok_Complete_Parse_Proofs.

Theorem C01_token_guarantee_complete : forall h f rq odu ondu url,
  complete_class f = true -> options_ok f odu ondu rq = true ->
  (needs_source f = true -> C03_Model.rq_src rq <> None) ->
  (scheme_restricted f = true -> C03_Model.rq_http rq || C03_Model.rq_https rq = true) ->
  scheme_tie rq url -> covered h (probes h (C03_Model.rq_src rq) url) f.
Proof. exact token_guarantee_complete. Qed.
Print Assumptions C01_token_guarantee_complete.

Theorem C01_TG_all2_list : forall re_ok re_match h matches rq r L,
  std_request rq r -> model_hits2 re_ok re_match matches rq r L -> regex_contract2 re_ok re_match L ->
  (forall f, In f L -> tg_class2 f = true) ->
  TG h matches (probes h (C03_Model.rq_src rq) (lower_str (C02_Model.r_url r))) L.
Proof. exact TG_all2_list. Qed.
Print Assumptions C01_TG_all2_list.

Theorem C01_engine_eq_rule_by_rule_subset_all2 : forall re_ok re_match h matches rq r mr fc L T,
  id_inj L -> std_request rq r -> model_hits2 re_ok re_match matches rq r L -> regex_contract2 re_ok re_match L ->
  (forall f, In f L -> tg_class2 f = true) ->
  blocker_check_p matches (probes h (C03_Model.rq_src rq) (lower_str (C02_Model.r_url r))) mr fc (tags_with_set h (blocker_new h L) T)
  = spec_verdict_p matches mr fc L T.
Proof. exact engine_eq_spec_p_all2. Qed.
Print Assumptions C01_engine_eq_rule_by_rule_subset_all2.

(* the whole-line parser (C11_Model.network_parse, masks included) only builds /re/ rules of that
   shape, and $match-case only on a /re/ rule *)
Theorem C01_network_parse_complete_shape : forall lower idna line nr,
  C11_Model.network_parse lower idna line = Ok (inl nr) ->
  (C11_Model.mhas (C11_Model.nr_mask nr) M_MATCH_CASE = true -> C11_Model.mhas (C11_Model.nr_mask nr) M_IS_COMPLETE_REGEX = true)
  /\ complete_shape_ok (C11_Model.mhas (C11_Model.nr_mask nr) M_IS_COMPLETE_REGEX) (C11_Model.nr_hostname nr) = true.
Proof. exact Tok_Complete_Parse_Proofs.network_parse_complete_shape. Qed.
Print Assumptions C01_network_parse_complete_shape.

(* ------------------------------------------------------------------ translator tie: the index
   maintenance and lookup structure of NetworkFilterList as extracted on this run
   (Generated.ListGen): one pass of the best-token arms over a token group, started from the
   extracted initial values (re-initialised per group), IS Net_Model.best_token — in the batch
   construction and in add_filter alike; the hit test of check / check_all IS Net_Model.hit *)
From Adb Require Struct_List_Proofs.
Theorem C01_src_best_token_is_model : forall (cnt : N -> option N) (total : N) (g : list N),
  Struct_List_Proofs.strict_arms ListGen.new_arms && Struct_List_Proofs.strict_arms ListGen.add_filter_arms = true ->
  (match Struct_List_Proofs.init_of ListGen.new_best_init ListGen.new_min_init total with
   | Some st => Some (Struct_List_Proofs.run_group ListGen.new_arms cnt g st) | None => None end) = Some (best_token cnt total g)
  /\ (match Struct_List_Proofs.init_of ListGen.add_filter_best_init ListGen.add_filter_min_init total with
      | Some st => Some (Struct_List_Proofs.run_group ListGen.add_filter_arms cnt g st) | None => None end) = Some (best_token cnt total g).
Proof. exact Struct_List_Proofs.best_token_is_model. Qed.
Print Assumptions C01_src_best_token_is_model.

(* whichever comparison the "token already has a bucket" arm uses (`<` today; `<=` only changes
   which of two equally rare tokens wins): the extracted loop is best_loop_cmp of that comparison,
   and the token a group is filed under is one of the group's own or 0 - the one fact about the
   choice that the index theorems (fold_place_well_indexed) use *)
Theorem C01_src_best_token_loop_any_tie_break : forall (cnt : N -> option N) (g : list N) (best minc : N),
  Struct_List_Proofs.run_group ListGen.new_arms cnt g (best, minc)
  = Struct_List_Proofs.best_loop_cmp (Struct_List_Proofs.cmp_of ListGen.new_arms) cnt g best minc
  /\ Struct_List_Proofs.run_group ListGen.add_filter_arms cnt g (best, minc)
    = Struct_List_Proofs.best_loop_cmp (Struct_List_Proofs.cmp_of ListGen.add_filter_arms) cnt g best minc.
Proof. intros; split; [apply Struct_List_Proofs.run_group_is_best_loop_cmp_new | apply Struct_List_Proofs.run_group_is_best_loop_cmp_add]. Qed.
Print Assumptions C01_src_best_token_loop_any_tie_break.

Theorem C01_src_chosen_token_key_ok : forall (cnt : N -> option N) (total : N) (g : list N),
  (match Struct_List_Proofs.init_of ListGen.new_best_init ListGen.new_min_init total with
   | Some st => key_ok g (Struct_List_Proofs.run_group ListGen.new_arms cnt g st) | None => False end)
  /\ (match Struct_List_Proofs.init_of ListGen.add_filter_best_init ListGen.add_filter_min_init total with
      | Some st => key_ok g (Struct_List_Proofs.run_group ListGen.add_filter_arms cnt g st) | None => False end).
Proof. exact Struct_List_Proofs.chosen_token_key_ok. Qed.
Print Assumptions C01_src_chosen_token_key_ok.

Theorem C01_src_lookup_structure_is_model : forall (matches : rule -> bool) (tags : list str) (f : rule),
  Struct_List_Proofs.hit_of ListGen.check_hit matches tags f = Some (hit matches tags f)
  /\ Struct_List_Proofs.hit_of ListGen.check_all_hit matches tags f = Some (hit matches tags f)
  /\ ListGen.check_on_hit = "return"%string /\ ListGen.check_all_on_hit = "push"%string
  /\ ListGen.optimize_threshold = 1%N /\ ListGen.optimize_sorts_by = "id"%string.
Proof. exact Struct_List_Proofs.lookup_structure_is_model. Qed.
Print Assumptions C01_src_lookup_structure_is_model.

(* ---- the tokenizer loop of src/utils.rs, its wrappers, and the request side of src/request.rs,
   as the translator extracts them on every run (Generated.TokzGen) ---- *)
Theorem C01_src_tokenizer_loop_is_model :
  forall (sf sl : bool) (s : str) (i : nat) (cur : option (nat * str)) (prec : option N) (n : nat),
  Struct_Tokenizer_Proofs.tk_gen sf sl s i cur prec n = tk sf sl s i cur prec n.
Proof. exact Struct_Tokenizer_Proofs.tk_gen_is_tk. Qed.
Print Assumptions C01_src_tokenizer_loop_is_model.

Theorem C01_src_tokenizer_wrappers_are_model :
  forall (s : str) (sf sl : bool),
  Struct_Tokenizer_Proofs.interp_wrapper "tokenize_filter"%string s sf sl = Some (tokenize_filter s sf sl) /\
  Struct_Tokenizer_Proofs.interp_wrapper "tokenize"%string s sf sl = Some (tokenize s) /\
  Struct_Tokenizer_Proofs.interp_wrapper "tokenize_pooled"%string s sf sl = Some (tokenize s).
Proof. exact Struct_Tokenizer_Proofs.wrappers_are_model. Qed.
Print Assumptions C01_src_tokenizer_wrappers_are_model.

Theorem C01_src_request_side_is_model :
  forall (h : str -> N) (url_lower original : str) (source_hashes : option (list N)),
  Struct_Tokenizer_Proofs.interp_request_tokens h url_lower original = Some (request_tokens h url_lower) /\
  Struct_Tokenizer_Proofs.concat_parts TokzGen.probes_order source_hashes (request_tokens h url_lower) =
  Some (probes h source_hashes url_lower).
Proof. exact Struct_Tokenizer_Proofs.request_side_is_model. Qed.
Print Assumptions C01_src_request_side_is_model.


(* the public entry points hand the right flags, in the right order, to check_parameterised *)
Theorem C01_src_entry_points_are_model :
  forall (matches : rule -> bool) (pr : list N) (previously_matched_rule force_check_exceptions : bool) (b : blocker),
  Struct_Check_Proofs.interp_entry matches pr CheckGen.plain_query_flags previously_matched_rule force_check_exceptions b
  = Some (blocker_check matches pr b)
  /\ Struct_Check_Proofs.interp_entry matches pr CheckGen.subset_query_flags previously_matched_rule force_check_exceptions b
    = Some (blocker_check_p matches pr previously_matched_rule force_check_exceptions b).
Proof. exact Struct_Check_Proofs.entry_points_are_model. Qed.
Print Assumptions C01_src_entry_points_are_model.
