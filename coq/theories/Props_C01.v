(* Props_C01.v — pinned statements for C01: the engine's verdict equals the rule-by-rule
   evaluation of the loaded list.  The hash function [h], the per-rule matcher [matches] and the
   request's probe list [pr] are arbitrary (universally quantified): the theorems hold for every
   hash, every matcher and every request.  [TG] is the token guarantee ("a rule that matches a
   request has a bucket-candidate group made of tokens the request probes"); it is the only place
   where the concrete tokenizer and matcher meet, it is monitored on every generated (rule,
   request) pair by the harness, and the four input classes on which the crate violates it are the
   known findings F2, F3, F4, F23 (props/C01.known.json). *)
From Adb Require Import Base Generated Hashing Net_Model Net_Proofs.

(* The index never loses or invents a rule, whatever the histogram / bucket-size heuristics pick. *)
Theorem C01_new_well_indexed : forall h L, WellIndexed h (fl_new h L) L.
Proof. exact new_well_indexed. Qed.
Print Assumptions C01_new_well_indexed.

Theorem C01_add_well_indexed : forall h m L f,
  WellIndexed h m L -> WellIndexed h (fl_add h m f) (L ++ [f]).
Proof. exact add_well_indexed. Qed.
Print Assumptions C01_add_well_indexed.

(* No rule that does not match (or whose tag is off, or that is not in the list) is applied. *)
Theorem C01_check_all_sound : forall h matches pr m L tags f,
  WellIndexed h m L -> In f (check_all matches m pr tags) -> In f L /\ hit matches tags f = true.
Proof. exact check_all_sound. Qed.
Print Assumptions C01_check_all_sound.

(* No matching rule is lost. *)
Theorem C01_check_all_complete : forall h matches pr, In 0 pr -> forall m L tags f,
  WellIndexed h m L -> id_inj L -> In f L -> hit matches tags f = true -> covered h pr f ->
  In f (check_all matches m pr tags).
Proof. exact check_all_complete. Qed.
Print Assumptions C01_check_all_complete.

Theorem C01_check_some_iff : forall h matches pr, In 0 pr -> forall m L tags,
  WellIndexed h m L -> id_inj L -> TG h matches pr L ->
  (check matches m pr tags <> None <-> existsb (hit matches tags) L = true).
Proof. exact check_some_iff. Qed.
Print Assumptions C01_check_some_iff.

(* blocked / important / exception-present / filter-present of the engine = the documented
   precedence applied to the rule-by-rule hits, for every list, tag set and request. *)
Theorem C01_engine_eq_rule_by_rule : forall h matches pr, In 0 pr -> forall L T,
  id_inj L -> TG h matches pr L ->
  blocker_check matches pr (tags_with_set h (blocker_new h L) T) = spec_verdict matches L T.
Proof. exact engine_eq_spec. Qed.
Print Assumptions C01_engine_eq_rule_by_rule.

(* The same for the subset query (Engine::check_network_request_subset: matched_rule = an earlier
   engine already matched, force_check_exceptions): only important rules add a blocking match after
   an earlier match, exceptions are consulted whenever something blocks un-importantly or either
   flag is set, and they read the enabled tag set on every path. *)
Theorem C01_engine_eq_rule_by_rule_subset : forall h matches pr, In 0 pr -> forall mr fc L T,
  id_inj L -> TG h matches pr L ->
  blocker_check_p matches pr mr fc (tags_with_set h (blocker_new h L) T) = spec_verdict_p matches mr fc L T.
Proof. exact engine_eq_spec_p. Qed.
Print Assumptions C01_engine_eq_rule_by_rule_subset.

Theorem C01_subset_query_flags_off : forall matches pr b,
  blocker_check_p matches pr false false b = blocker_check matches pr b.
Proof. exact blocker_check_p_ff. Qed.
Print Assumptions C01_subset_query_flags_off.

(* The rule sets feeding redirect, rewritten URL, CSP and generichide are exact as well. *)
Theorem C01_redirect_hits_exact : forall h matches pr, In 0 pr -> forall L T f,
  id_inj L -> TG h matches pr L ->
  (In f (redirect_hits matches pr (tags_with_set h (blocker_new h L) T)) <-> In f (spec_redirect_hits matches L)).
Proof. exact redirect_hits_exact. Qed.
Print Assumptions C01_redirect_hits_exact.

Theorem C01_removeparam_hits_exact : forall h matches pr, In 0 pr -> forall L T f,
  id_inj L -> TG h matches pr L ->
  (In f (removeparam_hits matches pr (tags_with_set h (blocker_new h L) T)) <-> In f (spec_removeparam_hits matches L)).
Proof. exact removeparam_hits_exact. Qed.
Print Assumptions C01_removeparam_hits_exact.

Theorem C01_csp_hits_exact : forall h matches pr, In 0 pr -> forall L T f,
  id_inj L -> TG h matches pr L ->
  (In f (csp_hits matches pr (tags_with_set h (blocker_new h L) T)) <-> In f (spec_csp_hits matches L T)).
Proof. exact csp_hits_exact. Qed.
Print Assumptions C01_csp_hits_exact.

Theorem C01_generic_hide_exact : forall h matches pr, In 0 pr -> forall L T,
  id_inj L -> TG h matches pr L ->
  generic_hide_hit matches pr (tags_with_set h (blocker_new h L) T) = spec_generic_hide matches L.
Proof. exact generic_hide_exact. Qed.
Print Assumptions C01_generic_hide_exact.

(* the request always probes bucket 0 *)
Theorem C01_probes_zero : forall h src url, In 0 (probes h src url).
Proof.
  intros h src url. unfold probes, request_tokens. apply in_or_app. right. apply in_or_app. right. left. reflexivity.
Qed.
Print Assumptions C01_probes_zero.

(* ------------------------------------------------------------------ the token guarantee, proved
   from the concrete tokenizer for plain patterns (no hostname, domain option, scheme restriction
   or regex): every token tokenize_filter keeps is a whole token of every URL the plain matcher
   accepts, so TG is a theorem, not a premise, for such rules.  ([tku] is the tokenizer without the
   127-token cut-off; below the cut-off it is the tokenizer.) *)
From Adb Require Import Tok_Proofs.

Theorem C01_tokenizer_below_cutoff : forall sf sl s i cur prec n,
  (n + length (tku sf sl s i cur prec) <= TOKENS_MAX)%nat -> tk sf sl s i cur prec n = tku sf sl s i cur prec.
Proof. exact tk_eq_tku. Qed.
Print Assumptions C01_tokenizer_below_cutoff.

(* what the filter tokenizer keeps: maximal runs of token bytes, longer than one byte, delimited by
   non-'*' bytes, not at an unanchored start or end of the pattern *)
Theorem C01_tokenize_filter_sound : forall sf sl s t,
  In t (tku sf sl s 0 None None) -> Good sf sl s t.
Proof. exact tokenize_filter_sound. Qed.
Print Assumptions C01_tokenize_filter_sound.

(* every such run of a URL is one of its tokens *)
Theorem C01_tokenize_complete : forall x t, Good false false x t -> In t (tku false false x 0 None None).
Proof. exact tokenize_complete. Qed.
Print Assumptions C01_tokenize_complete.

Theorem C01_occurrence_tokens_covered : forall sf sl s pre post t,
  (sf = false -> pre = []) -> (sl = false -> post = []) ->
  In t (tku sf sl s 0 None None) -> In t (tku false false (pre ++ s ++ post) 0 None None).
Proof. exact occurrence_tokens_covered. Qed.
Print Assumptions C01_occurrence_tokens_covered.

Theorem C01_token_guarantee_plain : forall h f s src url,
  plain_rule f s ->
  plain_match (is_left_anchor f) (is_right_anchor f) s url = true ->
  (length (tku false false url 0 None None) <= TOKENS_MAX)%nat ->
  (length (tku (negb (is_left_anchor f)) (negb (is_right_anchor f)) s 0 None None) <= TOKENS_MAX)%nat ->
  covered h (probes h src url) f.
Proof. exact token_guarantee_plain. Qed.
Print Assumptions C01_token_guarantee_plain.

(* engine = rule-by-rule with NO token-guarantee premise, for lists whose matching rules are plain *)
Theorem C01_engine_eq_rule_by_rule_plain : forall h matches src url L T,
  id_inj L -> within_cutoff false false url -> plain_hits matches url L ->
  blocker_check matches (probes h src url) (tags_with_set h (blocker_new h L) T) = spec_verdict matches L T.
Proof. exact engine_eq_spec_plain. Qed.
Print Assumptions C01_engine_eq_rule_by_rule_plain.

(* ------------------------------------------------------------------ the token guarantee for
   hostname-anchored rules without pattern (||host, ||host^ — the bulk of real lists), proved from
   the concrete tokenizer and C02's label-boundary characterisation of anchored_hostname_end *)
From Adb Require Import Tok_Host_Proofs.
From Adb Require C02_Model.

Theorem C01_hostname_tokens_covered : forall hn host e o upre upost t,
  C02_Model.anchor_at hn host false e o ->
  ends_delim upre -> starts_delim upost ->
  In t (tku false false hn 0 None None) ->
  In t (tku false false (upre ++ host ++ upost) 0 None None).
Proof. exact hostname_tokens_covered. Qed.
Print Assumptions C01_hostname_tokens_covered.

Theorem C01_token_guarantee_host : forall h f hn src url host e k,
  host_rule f hn -> hn <> [] ->
  C02_Model.anchored_hostname_end hn host false e = Some k ->
  host_in_url url host ->
  within_cutoff false false url -> within_cutoff false false hn ->
  covered h (probes h src url) f.
Proof. exact token_guarantee_host. Qed.
Print Assumptions C01_token_guarantee_host.
