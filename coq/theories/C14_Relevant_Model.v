(* C14_Relevant_Model.v — which $removeparam rules can change the answer for a given URL.
   Definitions only (proofs: C14_Relevant_Proofs.v).

   Blocker::apply_removeparam (src/blocker.rs) splits the query of request.original_url on '&',
   each piece once on '=', and drops the pieces `k=v` with v non-empty whose key k is the
   modifier of a delivered $removeparam rule.  A rule whose parameter name is not such a key
   removes nothing, whether or not the index delivers it: it is *irrelevant* for this URL.
   NetworkFilter::get_tokens files a $removeparam rule that has no pattern / hostname / single
   domain token under the tokens of its lower-cased parameter name, so exactly the irrelevant
   rules may be missed by the lookup. *)
From Adb Require Import Base Generated Hashing Net_Model.
From Adb Require C14_Model.

(* the '&'-separated pieces of the query, exactly as C14_Model.apply_removeparam cuts them
   (after the first '?' that precedes any '#', up to the fragment) *)
Definition query_params (url : str) : list str :=
  let fragment_start := match find_byte C14_Model.HASH url with Some j => j | None => length url end in
  match find_byte C14_Model.QMARK (take fragment_start url) with
  | None => []
  | Some i =>
      let params_start := S i in
      let hash_index := match find_byte C14_Model.HASH (drop params_start url) with
                        | Some j => (params_start + j)%nat
                        | None => length url end in
      split_on C14_Model.AMP (take (hash_index - params_start) (drop params_start url))
  end.

(* [n] is the key of a removable parameter of [url]: some piece is `n=v` with v non-empty
   (case-sensitive comparison, as in the Rust loop) *)
Definition relevant (url n : str) : bool := existsb (C14_Model.removed [n]) (query_params url).

Definition relevant_rule (url : str) (f : rule) : bool :=
  match rmod f with Some n => relevant url n | None => false end.

(* the tokens NetworkFilter::get_tokens falls back to for a $removeparam rule without any
   pattern / hostname / single-domain token *)
Definition param_tokens (h : str -> N) (f : rule) : list N :=
  match rmod f with
  | Some p => if valid_param p then map h (tokenize (lower_str p)) else []
  | None => []
  end.
